(* C05, documented semantics of -F / -N / -D as a function on call trees, and the proof that the
   record-time automaton implements it (no time threshold, every call takes at least one tick,
   nesting within --max-stack, -D > 0). *)
From Coq Require Import NArith ZArith List Bool Lia.
Require Import ZifyBool.
Import ListNotations.
Require Import UV.Gen.Consts UV.Mcount.Model UV.Mcount.Forest UV.Mcount.PlainStep UV.Mcount.PlainProofs UV.Mcount.SelectSpec.
Local Open Scope N_scope.

(* ---------------------------------------------------------------- one-step lemmas *)
Definition gfl (sh : shape) (nr flt ntr : bool) : flags :=
  {| norecord := nr; notrace := ntr; filtered := flt; written := false; disabled := false;
     ftrace := false; fcaller := false; cygprof := match sh with CYG => true | PG => false end |}.
Definition gframe (sh : shape) (nr flt ntr : bool) (a t r : N) (f : fctl) : frame :=
  {| f_addr := a; f_start := t; f_end := 0; f_flags := gfl sh nr flt ntr; f_depth := r;
     sv_depth := depth f; sv_max := max_depth f; sv_time := ftime f; sv_size := fsize f; f_ghost := false |}.

(* states of this stage: only counters and depth vary *)
Definition fstate (i o : Z) (dp : N) : fctl :=
  {| in_count := i; out_count := o; depth := dp; max_depth := FILTER_NO_MAX_DEPTH; ftime := NO_TIME; fsize := 0 |}.

Section filt.
  Variable flt : N -> option bool.
  Variables (fm : bool) (gd thr ms : N) (sh : shape).
  Let c := fcfg flt fm gd thr ms sh.

  Ltac open_entry Hi :=
    unfold do_enter, hooked, entry_check;
    rewrite (check_rstack_ok c _ Hi); cbn [fc enabled cached stack ridx out warned];
    unfold c; cbn [fcfg trig_of ftrig t_filter t_depth t_time t_size t_trace_on t_trace_off t_trace t_caller
                   fmode_in gdepth shp has_caller threshold sym_size loc_out t_loc lmode_in].

  (* accepted entry: frame pushed, record index and depth advance *)
  Lemma enter_accept s i o dp a t :
    fc s = fstate i o dp -> enabled s = true -> idx s < ms -> (o = 0)%Z -> (0 <= i)%Z -> 0 < gd ->
    match flt a with
    | Some true => True
    | Some false => False
    | None => (fm = false \/ (0 < i)%Z) /\ dp < gd
    end ->
    let flt_hit := match flt a with Some true => true | _ => false end in
    let f' := if flt_hit then fstate (i + 1) o 1 else fstate i o (dp + 1) in
    do_enter c s a t =
    {| fc := f'; enabled := true; cached := cached s;
       stack := gframe sh false flt_hit false a t (ridx s) (fstate i o dp) :: stack s;
       ridx := ridx s + 1; out := out s; warned := false |} /\ hooked c s a = true.
  Proof.
    intros Hfc Hen Hi Ho Hin Hgd Hk. cbv zeta. open_entry Hi. rewrite Hfc, Hen.
    cbn [fstate in_count out_count depth max_depth ftime fsize]. rewrite N.eqb_refl.
    subst o. cbn [Z.gtb Z.compare].
    destruct (flt a) as [[|]|] eqn:Ef; [| contradiction |].
    - (* -F hit *)
      unfold with_fc. cbn [fstate fc enabled cached stack ridx out warned in_count out_count depth max_depth ftime fsize].
      assert (E : (gd <=? 0) = false) by lia. rewrite E.
      unfold entry_record.
      cbn [fc enabled cached stack ridx out warned in_count out_count fsize f_flags norecord f_addr f_start f_depth
           t_filter t_trace t_caller t_trace_on t_trace_off orb andb noflags cygprof Z.gtb Z.compare N.ltb N.compare
           fmode_in sym_size].
      assert (E2 : ((i + 1 =? 0)%Z && fm) = false) by (destruct fm; lia). 
      cbn [fcfg fmode_in ftrig t_filter t_trace t_caller sym_size]. rewrite ?orb_false_r, E2.
      destruct sh; split; reflexivity.
    - destruct Hk as [Hsc Hdp].
      assert (E0 : (fm && (i =? 0)%Z) = false) by (destruct Hsc as [->|Hp]; [reflexivity|destruct fm; lia]).
      rewrite E0.
      unfold with_fc. cbn [fstate fc enabled cached stack ridx out warned in_count out_count depth max_depth ftime fsize].
      assert (E : (gd <=? dp) = false) by lia. rewrite E.
      unfold entry_record.
      cbn [fc enabled cached stack ridx out warned in_count out_count fsize f_flags norecord f_addr f_start f_depth
           t_filter t_trace t_caller t_trace_on t_trace_off orb andb noflags cygprof Z.gtb Z.compare N.ltb N.compare
           fmode_in sym_size].
      assert (E2 : ((i =? 0)%Z && fm) = false) by (destruct Hsc as [->|Hp]; [apply andb_false_r|destruct fm; lia]).
      cbn [fcfg fmode_in ftrig t_filter t_trace t_caller sym_size]. rewrite ?orb_false_r, E2.
      destruct sh; split; reflexivity.
  Qed.

  (* -N hit: counted, frame pushed (both shapes) but never recorded *)
  Lemma enter_notrace s i dp a t :
    fc s = fstate i 0 dp -> enabled s = true -> idx s < ms -> 0 < gd -> flt a = Some false ->
    do_enter c s a t =
    {| fc := fstate i 1 1; enabled := true; cached := cached s;
       stack := gframe sh true false true a t (ridx s) (fstate i 0 dp) :: stack s;
       ridx := ridx s; out := out s; warned := false |} /\ hooked c s a = true.
  Proof.
    intros Hfc Hen Hi Hgd Hk. open_entry Hi. rewrite Hfc, Hen.
    cbn [fstate in_count out_count depth max_depth ftime fsize]. rewrite N.eqb_refl.
    cbn [Z.gtb Z.compare]. rewrite Hk.
    unfold with_fc. cbn [fstate fc enabled cached stack ridx out warned in_count out_count depth max_depth ftime fsize].
    assert (E : (gd <=? 0) = false) by lia. rewrite E.
    unfold entry_record.
    cbn [fc enabled cached stack ridx out warned in_count out_count fsize f_flags norecord f_addr f_start f_depth
         t_filter t_trace t_caller t_trace_on t_trace_off orb andb noflags cygprof Z.gtb Z.compare N.ltb N.compare
         fmode_in sym_size Z.add Pos.add].
    cbn [fcfg fmode_in ftrig t_filter t_trace t_caller sym_size].
    destruct sh; cbn [orb]; split; reflexivity.
  Qed.

  (* rejected entry: inside -N, outside every -F, or depth budget used up *)
  Lemma enter_reject s i o dp a t :
    fc s = fstate i o dp -> enabled s = true -> idx s < ms -> (0 <= o)%Z ->
    ((0 < o)%Z \/ (flt a = None /\ ((fm = true /\ i = 0%Z) \/ gd <= dp))) ->
    match sh with
    | PG => do_enter c s a t =
            {| fc := fc s; enabled := enabled s; cached := cached s; stack := stack s; ridx := ridx s;
               out := out s; warned := false |} /\ hooked c s a = false
    | CYG => do_enter c s a t =
             {| fc := fc s; enabled := enabled s; cached := cached s;
                stack := gframe CYG true false false a 0 (ridx s) (fstate i o dp) :: stack s;
                ridx := ridx s; out := out s; warned := false |} /\ hooked c s a = true
    end.
  Proof.
    intros Hfc Hen Hi Ho Hk. 
    assert (Hsh : sh = PG \/ sh = CYG) by (destruct sh; auto).
    open_entry Hi. rewrite Hfc.
    cbn [fstate in_count out_count depth max_depth ftime fsize]. rewrite N.eqb_refl.
    destruct (o >? 0)%Z eqn:Eo.
    - destruct Hsh as [-> | ->]; [split; reflexivity|]. split; [|reflexivity].
      unfold entry_record.
      cbn [fc enabled cached stack ridx out warned in_count out_count fsize f_flags norecord f_addr f_start f_depth
           t_filter t_trace t_caller notrig orb]. reflexivity.
    - destruct Hk as [Hk|(Hf & Hk)]; [lia|]. rewrite Hf.
      destruct Hk as [(-> & ->)|Hd].
      + cbn [andb Z.eqb]. unfold with_fc.
        destruct Hsh as [-> | ->]; [split; reflexivity|]. split; [|reflexivity].
        unfold entry_record.
        cbn [fc enabled cached stack ridx out warned in_count out_count fsize f_flags norecord f_addr f_start f_depth
             t_filter t_trace t_caller ftrig orb]. reflexivity.
      + destruct (fm && (i =? 0)%Z).
        * unfold with_fc. destruct Hsh as [-> | ->]; [split; reflexivity|]. split; [|reflexivity].
          unfold entry_record.
          cbn [fc enabled cached stack ridx out warned in_count out_count fsize f_flags norecord f_addr f_start f_depth
               t_filter t_trace t_caller ftrig orb]. reflexivity.
        * unfold with_fc. cbn [fstate fc enabled cached stack ridx out warned in_count out_count depth max_depth ftime fsize].
          assert (E : (gd <=? dp) = true) by lia. rewrite E.
          destruct Hsh as [-> | ->]; [split; reflexivity|]. split; [|reflexivity].
          unfold entry_record.
          cbn [fc enabled cached stack ridx out warned in_count out_count fsize f_flags norecord f_addr f_start f_depth
               t_filter t_trace t_caller ftrig orb]. reflexivity.
  Qed.

  Definition gf (w : bool) (flt_hit : bool) (a t r : N) (f0 : fctl) : frame :=
    if w then set_written (gframe sh false flt_hit false a t r f0) else gframe sh false flt_hit false a t r f0.

  Lemma flush_anc_gf flt_hit a t r f0 stk :
    flush_anc (gf false flt_hit a t r f0 :: stk) =
    (gf true flt_hit a t r f0 :: fst (flush_anc stk),
     snd (flush_anc stk) ++ [entry_rec (gframe sh false flt_hit false a t r f0)]).
  Proof.
    cbn [gf flush_anc gframe f_flags gfl written]. destruct (flush_anc stk) as [rest' recs].
    unfold skip. cbn [f_flags gfl norecord disabled orb fst snd]. reflexivity.
  Qed.

  (* exit of a frame that may be recorded: kept iff it ran longer than the threshold or was already written *)
  Lemma leave_rec s w flt_hit a t0 r i0 o0 dp0 t1 anc i o dp :
    stack s = gf w flt_hit a t0 r (fstate i0 o0 dp0) :: anc -> fc s = fstate i o dp -> enabled s = true ->
    ridx s = r + 1 -> t0 <= t1 -> t1 < 18446744073709551616 -> 0 < t1 ->
    do_leave c s t1 =
    if (thr <=? t1 - t0) || w then
      {| fc := fstate (if flt_hit then i - 1 else i)%Z o dp0; enabled := true; cached := cached s;
         stack := if w then anc else fst (flush_anc anc); ridx := r;
         out := out s ++ (if w then [] else snd (flush_anc anc) ++ [E_ a t0 r]) ++ [X_ a t1 r];
         warned := warned s |}
    else
      {| fc := fstate (if flt_hit then i - 1 else i)%Z o dp0; enabled := true; cached := cached s;
         stack := anc; ridx := r; out := out s; warned := warned s |}.
  Proof.
    intros Hst Hfc Hen Hr Ht Hlt Hpos. unfold do_leave. rewrite Hst.
    set (fr := gf w flt_hit a t0 r (fstate i0 o0 dp0)).
    assert (Hg : f_ghost fr = false) by (subst fr; destruct w; reflexivity). rewrite Hg.
    assert (Hnr : norecord (f_flags fr) = false) by (subst fr; destruct w; reflexivity).
    assert (Hsame : match shp c with
                    | PG => exit_record c s (set_end fr t1) anc
                    | CYG => exit_record c s (if norecord (f_flags fr) then fr else set_end fr t1) anc
                    end = exit_record c s (set_end fr t1) anc).
    { rewrite Hnr. destruct (shp c); reflexivity. }
    rewrite Hsame. clear Hsame.
    unfold exit_record. rewrite Hfc, Hen, Hr.
    cbn [fstate ftime in_count out_count]. rewrite N.eqb_refl.
    assert (Hdur : (f_end (set_end fr t1) + 18446744073709551616 - f_start (set_end fr t1))
                   mod 18446744073709551616 = t1 - t0).
    { assert (f_end (set_end fr t1) = t1) as -> by reflexivity.
      assert (f_start (set_end fr t1) = t0) as -> by (subst fr; destruct w; reflexivity).
      replace (t1 + 18446744073709551616 - t0) with ((t1 - t0) + 1 * 18446744073709551616) by lia.
      rewrite N.mod_add by lia. apply N.mod_small. lia. }
    rewrite Hdur.
    assert (Hfl : f_flags (set_end fr t1) = f_flags fr) by reflexivity. rewrite Hfl, Hnr.
    assert (Hfi : filtered (f_flags fr) = flt_hit) by (subst fr; destruct w; reflexivity).
    assert (Hnt : notrace (f_flags fr) = false) by (subst fr; destruct w; reflexivity).
    assert (Hft : ftrace (f_flags fr) = false) by (subst fr; destruct w; reflexivity).
    assert (Hw : written (f_flags fr) = w) by (subst fr; destruct w; reflexivity).
    rewrite Hfi, Hnt, Hft, Hw.
    assert (Hsv : sv_depth (set_end fr t1) = dp0 /\ sv_max (set_end fr t1) = FILTER_NO_MAX_DEPTH
                  /\ sv_time (set_end fr t1) = NO_TIME /\ sv_size (set_end fr t1) = 0)
      by (subst fr; destruct w; repeat split; reflexivity).
    destruct Hsv as (-> & -> & -> & ->).
    assert (Hr1 : (0 <? r + 1) = true) by lia. rewrite Hr1.
    replace (r + 1 - 1) with r by lia.
    unfold c. cbn [fcfg has_caller threshold negb andb orb].
    rewrite andb_true_r, orb_false_r.
    assert (Hfc' : {| in_count := if flt_hit then (i - 1)%Z else i; out_count := if flt_hit then o else o;
                      depth := dp0; max_depth := FILTER_NO_MAX_DEPTH; ftime := NO_TIME; fsize := 0 |}
                   = fstate (if flt_hit then (i - 1)%Z else i) o dp0) by (destruct flt_hit; reflexivity).
    rewrite Hfc'.
    destruct ((thr <=? t1 - t0) || w) eqn:Dec; [|reflexivity].
    unfold record_trace_data. rewrite Hfl, Hw.
    assert (Hend : (f_end (set_end fr t1) =? 0) = false) by (cbn [set_end f_end]; lia).
    destruct w.
    - cbn [orb]. rewrite Hend. cbn [app]. unfold exit_rec, X_. subst fr.
      cbn [set_end gf set_written gframe f_end f_depth f_addr]. reflexivity.
    - unfold skip. rewrite Hfl. subst fr. cbn [gf gframe f_flags gfl norecord disabled orb].
      destruct (flush_anc anc) as [anc' pre] eqn:EF. cbn [fst snd].
      assert (Hend' : (f_end (set_written (set_end (gframe sh false flt_hit false a t0 r (fstate i0 o0 dp0)) t1)) =? 0) = false)
        by (cbn [set_written set_end f_end]; lia).
      cbn [gf] in *. rewrite Hend'.
      unfold exit_rec, entry_rec, E_, X_. cbn [set_written set_end gframe f_end f_depth f_addr f_start].
      rewrite <- !app_assoc. reflexivity.
  Qed.

  (* exit of a frame that is not recorded (-N function itself, or a rejected call under cygprof) *)
  Lemma leave_norec s flt_hit ntr a t0 r i0 o0 dp0 t1 anc i o dp :
    stack s = gframe sh true flt_hit ntr a t0 r (fstate i0 o0 dp0) :: anc -> fc s = fstate i o dp ->
    do_leave c s t1 =
    {| fc := fstate (if flt_hit then i - 1 else i)%Z (if flt_hit then o else if ntr then o - 1 else o)%Z dp0;
       enabled := enabled s; cached := cached s; stack := anc; ridx := ridx s; out := out s; warned := warned s |}.
  Proof.
    intros Hst Hfc. unfold do_leave. rewrite Hst. cbn [gframe f_ghost f_flags gfl norecord].
    assert (Hsame : forall fr', f_flags fr' = gfl sh true flt_hit ntr ->
                    sv_depth fr' = dp0 -> sv_max fr' = FILTER_NO_MAX_DEPTH -> sv_time fr' = NO_TIME -> sv_size fr' = 0 ->
                    exit_record c s fr' anc =
                    {| fc := fstate (if flt_hit then i - 1 else i)%Z (if flt_hit then o else if ntr then o - 1 else o)%Z dp0;
                       enabled := enabled s; cached := cached s; stack := anc; ridx := ridx s; out := out s;
                       warned := warned s |}).
    { intros fr' Hf H1 H2 H3 H4. unfold exit_record. rewrite Hf, Hfc, H1, H2, H3, H4.
      cbn [gfl norecord filtered notrace fstate in_count out_count]. reflexivity. }
    destruct (shp c); apply Hsame; reflexivity.
  Qed.

  (* ---------------------------------------------------------------- the refinement *)
  Definition afterg (s s' : st) (d : N) (R : list rec) : Prop :=
    fc s' = fc s /\ enabled s' = true /\ cached s' = cached s /\ ridx s' = d /\
    stack s' = (if is_nil R then stack s else fst (flush_anc (stack s))) /\
    out s' = out s ++ (if is_nil R then [] else snd (flush_anc (stack s))) ++ R.

  Lemma afterg_idx s s' d R : afterg s s' d R -> idx s' = idx s.
  Proof.
    intros (_ & _ & _ & _ & Hst & _). unfold idx. rewrite Hst.
    destruct (is_nil R); [reflexivity|]. rewrite flush_anc_length. reflexivity.
  Qed.
  Lemma afterg_nil s d : enabled s = true -> ridx s = d -> afterg s s d [].
  Proof. intros. unfold afterg. cbn. rewrite app_nil_r. auto 10. Qed.
  Lemma afterg_trans s s1 s2 d R1 R2 : afterg s s1 d R1 -> afterg s1 s2 d R2 -> afterg s s2 d (R1 ++ R2).
  Proof.
    intros (F1 & E1 & C1 & I1 & S1 & O1) (F2 & E2 & C2 & I2 & S2 & O2).
    unfold afterg. repeat split; try assumption; try congruence.
    - rewrite S2, S1. destruct R1 as [|x R1]; cbn [is_nil app].
      + reflexivity.
      + destruct (is_nil R2); [reflexivity|]. rewrite flush_anc_idem. reflexivity.
    - rewrite O2, O1, S1. destruct R1 as [|x R1]; cbn [is_nil app].
      + rewrite app_nil_r. reflexivity.
      + destruct R2 as [|y R2]; cbn [is_nil].
        * rewrite !app_nil_r. cbn [app]. reflexivity.
        * rewrite flush_anc_idem. cbn [snd app]. rewrite <- !app_assoc. cbn [app]. reflexivity.
  Qed.

  (* how the counters of the automaton encode the context of the specification *)
  Definition Rel (i o : Z) (dp : N) (x : sctx) : Prop :=
    (0 <= i)%Z /\ (0 <= o)%Z /\ (dead x = true <-> (0 < o)%Z) /\
    (dead x = false -> (scope x = true <-> (fm = false \/ (0 < i)%Z)) /\ budget x = gd - dp /\ dp <= gd).

  Lemma sel_dead x d k : dead x = true -> sel flt gd thr x d k = [].
  Proof. intro H. destruct k. cbn [sel]. rewrite H. reflexivity. Qed.
  Lemma sel_dead_list x d ks : dead x = true -> flat_map (sel flt gd thr x d) ks = [].
  Proof. intro H. induction ks as [|k r IH]; cbn [flat_map]; [reflexivity|]. rewrite sel_dead, IH; auto. Qed.

  Hypothesis Hgd : 0 < gd.

  Lemma run_kids_sel (ks : list call) :
    Forall (fun k => timed k -> forall s hk i o dp x d,
                     fc s = fstate i o dp -> Rel i o dp x -> enabled s = true -> ridx s = d ->
                     idx s + height k <= ms ->
                     exists s', exec c (flat k) (s, hk) = (s', hk) /\ afterg s s' d (sel flt gd thr x d k)) ks ->
    all_timed ks -> forall s hk i o dp x d,
    fc s = fstate i o dp -> Rel i o dp x -> enabled s = true -> ridx s = d -> idx s + heights ks <= ms ->
    exists s', exec c (flat_map flat ks) (s, hk) = (s', hk) /\ afterg s s' d (flat_map (sel flt gd thr x d) ks).
  Proof.
    induction 1 as [|k r Hk _ IH]; intros HT s hk i o dp x d Hfc HR Hen Hr Hh.
    - exists s. split; [reflexivity|]. apply afterg_nil; assumption.
    - destruct HT as [Tk Tr]. cbn [heights fold_right] in Hh. fold (heights r) in Hh.
      destruct (Hk Tk s hk i o dp x d Hfc HR Hen Hr) as (s1 & E1 & A1); [lia|].
      pose proof (afterg_idx _ _ _ _ A1) as I1.
      assert (A1' := A1). destruct A1' as (F1 & En1 & _ & R1 & _ & _).
      destruct (IH Tr s1 hk i o dp x d) as (s2 & E2 & A2); try assumption; [congruence|lia|].
      exists s2. split.
      + cbn [flat_map]. unfold exec in *. rewrite fold_left_app, E1. exact E2.
      + cbn [flat_map]. eapply afterg_trans; eassumption.
  Qed.

  Theorem run_call_sel : forall k, timed k -> forall s hk i o dp x d,
    fc s = fstate i o dp -> Rel i o dp x -> enabled s = true -> ridx s = d -> idx s + height k <= ms ->
    exists s', exec c (flat k) (s, hk) = (s', hk) /\ afterg s s' d (sel flt gd thr x d k).
  Proof.
    induction k as [a t0 t1 kids IH] using call_ind'. intros HT s hk i o dp x d Hfc HR Hen Hr Hh.
    pose proof (run_kids_sel kids IH (timed_kids _ _ _ _ HT)) as RK. clear IH.
    destruct HT as (Ht01 & Ht1 & Hpos & _).
    cbn [height] in Hh. fold (heights kids) in Hh.
    assert (Hi : idx s < ms) by lia.
    assert (HRel := HR). destruct HR as (Hi0 & Ho0 & Hdead & Hlive).
    cbn [flat]. unfold exec. cbn [fold_left dstep]. rewrite fold_left_app. cbn [fold_left].
    assert (Hsh : sh = PG \/ sh = CYG) by (destruct sh; auto).
    (* a rejected entry: run the kids in the same context, nothing recorded for this call *)
    assert (REJ : ((0 < o)%Z \/ (flt a = None /\ ((fm = true /\ i = 0%Z) \/ gd <= dp))) ->
                  forall Rk, Rk = flat_map (sel flt gd thr x d) kids ->
                  exists s', dstep c (fold_left (dstep c) (flat_map flat kids)
                                        (do_enter c s a t0, hooked c s a :: hk)) (Leave t1) = (s', hk)
                             /\ afterg s s' d Rk).
    { intros Hrej Rk ->.
      pose proof (enter_reject s i o dp a t0 Hfc Hen Hi Ho0 Hrej) as ER.
      destruct Hsh as [Es|Es]; rewrite Es in ER; destruct ER as [Een Hhk]; rewrite Een, Hhk.
      - assert (Hix : idx {| fc := fc s; enabled := enabled s; cached := cached s; stack := stack s; ridx := ridx s;
                             out := out s; warned := false |} + heights kids <= ms)
          by (unfold idx in *; cbn [stack]; lia).
        destruct (RK {| fc := fc s; enabled := enabled s; cached := cached s; stack := stack s; ridx := ridx s;
                        out := out s; warned := false |} (false :: hk) i o dp x d Hfc HRel Hen Hr Hix) as (s2 & E2 & A2).
        unfold exec in E2. rewrite E2. cbn [dstep]. exists s2. split; [reflexivity|].
        destruct A2 as (F2 & En2 & C2 & R2 & S2 & O2). cbn [stack out cached fc] in *.
        unfold afterg. auto 10.
      - assert (Hix : idx {| fc := fc s; enabled := enabled s; cached := cached s;
                             stack := gframe CYG true false false a 0 (ridx s) (fstate i o dp) :: stack s;
                             ridx := ridx s; out := out s; warned := false |} + heights kids <= ms)
          by (unfold idx in *; cbn [stack length]; lia).
        destruct (RK {| fc := fc s; enabled := enabled s; cached := cached s;
                        stack := gframe CYG true false false a 0 (ridx s) (fstate i o dp) :: stack s;
                        ridx := ridx s; out := out s; warned := false |} (true :: hk) i o dp x d Hfc HRel Hen Hr Hix)
          as (s2 & E2 & A2).
        unfold exec in E2. rewrite E2. cbn [dstep].
        destruct A2 as (F2 & En2 & C2 & R2 & S2 & O2). cbn [stack out cached fc] in *.
        (* the NORECORD frame is skipped by every flush: it is still on top, unchanged *)
        assert (S2' : stack s2 = gframe CYG true false false a 0 (ridx s) (fstate i o dp) ::
                                 (if is_nil (flat_map (sel flt gd thr x d) kids) then stack s else fst (flush_anc (stack s)))).
        { rewrite S2. destruct (is_nil _); [reflexivity|].
          cbn [flush_anc gframe f_flags gfl written]. destruct (flush_anc (stack s)) as [r' rc'].
          unfold skip. cbn [f_flags gfl norecord orb fst]. reflexivity. }
        assert (O2' : out s2 = out s ++ (if is_nil (flat_map (sel flt gd thr x d) kids) then [] else snd (flush_anc (stack s)))
                             ++ flat_map (sel flt gd thr x d) kids).
        { rewrite O2. destruct (is_nil _); [reflexivity|].
          cbn [flush_anc gframe f_flags gfl written]. destruct (flush_anc (stack s)) as [r' rc'].
          unfold skip. cbn [f_flags gfl norecord orb snd]. reflexivity. }
        assert (F2' : fc s2 = fstate i o dp) by congruence.
        assert (S2'' : stack s2 = gframe sh true false false a 0 (ridx s) (fstate i o dp) ::
                                  (if is_nil (flat_map (sel flt gd thr x d) kids) then stack s else fst (flush_anc (stack s))))
          by (rewrite Es; exact S2').
        rewrite (leave_norec s2 false false a 0 (ridx s) i o dp t1 _ i o dp S2'' F2').
        eexists. split; [reflexivity|].
        unfold afterg. cbn [fc enabled cached ridx stack out]. rewrite Hfc.
        repeat split; try assumption; congruence. }
    cbn [sel].
    destruct (dead x) eqn:Ed.
    - (* inside -N *)
      assert (Hop : (0 < o)%Z) by (apply Hdead; reflexivity).
      apply (REJ (or_introl Hop)). symmetry. apply sel_dead_list. exact Ed.
    - assert (Ho : o = 0%Z).
      { destruct (Z.eq_dec o 0) as [|Hne]; [assumption|]. assert (false = true) by (apply Hdead; lia). discriminate. }
      subst o. destruct (Hlive eq_refl) as (Hsc & Hb & Hdp). clear Hlive.
      destruct (flt a) as [[|]|] eqn:Ef.
      + (* -F hit *)
        destruct (enter_accept s i 0 dp a t0 Hfc Hen Hi eq_refl Hi0 Hgd) as [Een Hhk]; [rewrite Ef; exact I|].
        rewrite Ef in Een. rewrite Een, Hhk.
        set (s1 := {| fc := fstate (i + 1) 0 1; enabled := true; cached := cached s;
                      stack := gframe sh false true false a t0 (ridx s) (fstate i 0 dp) :: stack s;
                      ridx := ridx s + 1; out := out s; warned := false |}).
        destruct (RK s1 (true :: hk) (i + 1)%Z 0%Z 1 {| dead := false; scope := true; budget := gd - 1 |} (d + 1))
          as (s2 & E2 & A2); try reflexivity.
        { unfold Rel. cbn [dead scope budget]. intuition (try lia; try discriminate; try congruence). }
        { subst s1. cbn [ridx]. lia. }
        { subst s1. unfold idx in *. cbn [stack length]. lia. }
        unfold exec in E2. rewrite E2. cbn [dstep].
        destruct A2 as (F2 & En2 & C2 & R2 & S2 & O2). subst s1. cbn [stack out cached fc] in *.
        set (Rk := flat_map (sel flt gd thr {| dead := false; scope := true; budget := gd - 1 |} (d + 1)) kids) in *.
        change (gframe sh false true false a t0 (ridx s) (fstate i 0 dp)) with (gf false true a t0 (ridx s) (fstate i 0 dp)) in S2, O2.
        rewrite flush_anc_gf in S2, O2. cbn [fst snd] in S2, O2.
        assert (S2' : stack s2 = gf (negb (is_nil Rk)) true a t0 (ridx s) (fstate i 0 dp) ::
                                 (if is_nil Rk then stack s else fst (flush_anc (stack s)))).
        { rewrite S2. destruct (is_nil Rk); reflexivity. }
        rewrite (leave_rec s2 (negb (is_nil Rk)) true a t0 (ridx s) i 0 dp t1 _ (i + 1)%Z 0%Z 1 S2' F2 En2)
          by (try assumption; lia).
        cbv zeta. fold Rk.
        destruct ((thr <=? t1 - t0) || negb (is_nil Rk)) eqn:Dec.
        { eexists. split; [reflexivity|].
          unfold afterg. cbn [fc enabled cached ridx stack out is_nil].
          replace (i + 1 - 1)%Z with i by lia. rewrite Hfc.
          repeat split; try assumption; try congruence.
          - destruct (is_nil Rk); reflexivity.
          - rewrite O2, Hr. unfold entry_rec, E_. cbn [gframe f_start f_depth f_addr].
            destruct (is_nil Rk) eqn:EN; cbn [negb].
            + destruct Rk; [|discriminate]. cbn [app]. rewrite <- !app_assoc. cbn [app]. reflexivity.
            + cbn [app]. rewrite <- !app_assoc. cbn [app]. reflexivity. }
        { eexists. split; [reflexivity|].
          apply orb_false_iff in Dec. destruct Dec as [_ Dn]. apply negb_false_iff in Dn.
          unfold afterg. cbn [fc enabled cached ridx stack out is_nil].
          replace (i + 1 - 1)%Z with i by lia. rewrite Hfc.
          rewrite Dn in *. destruct Rk; [|discriminate]. cbn [app] in O2. rewrite app_nil_r in *.
          repeat split; try assumption; congruence. }
      + (* -N hit: this call and everything below is hidden *)
        destruct (enter_notrace s i dp a t0 Hfc Hen Hi Hgd Ef) as [Een Hhk]. rewrite Een, Hhk.
        set (s1 := {| fc := fstate i 1 1; enabled := true; cached := cached s;
                      stack := gframe sh true false true a t0 (ridx s) (fstate i 0 dp) :: stack s;
                      ridx := ridx s; out := out s; warned := false |}).
        destruct (RK s1 (true :: hk) i 1%Z 1 {| dead := true; scope := false; budget := 0 |} d)
          as (s2 & E2 & A2); try reflexivity; try assumption.
        { unfold Rel. cbn [dead scope budget]. intuition (try lia; try discriminate; try congruence). }
        { subst s1. unfold idx in *. cbn [stack length]. lia. }
        unfold exec in E2. rewrite E2. cbn [dstep].
        rewrite sel_dead_list in A2 by reflexivity.
        destruct A2 as (F2 & En2 & C2 & R2 & S2 & O2). subst s1. cbn [stack out cached fc is_nil app] in *.
        rewrite app_nil_r in O2.
        rewrite (leave_norec s2 false true a t0 (ridx s) i 0 dp t1 _ i 1%Z 1 S2 F2).
        eexists. split; [reflexivity|].
        unfold afterg. cbn [fc enabled cached ridx stack out is_nil app]. rewrite Hfc, app_nil_r.
        replace (1 - 1)%Z with 0%Z by lia.
        repeat split; try assumption; congruence.
      + (* no filter on this function *)
        destruct (scope x && (0 <? budget x)) eqn:Eacc.
        * apply andb_true_iff in Eacc. destruct Eacc as [Esc Ebud].
          assert (Hsc' : fm = false \/ (0 < i)%Z) by (apply Hsc; exact Esc).
          assert (Hlt' : dp < gd) by lia.
          destruct (enter_accept s i 0 dp a t0 Hfc Hen Hi eq_refl Hi0 Hgd) as [Een Hhk]; [rewrite Ef; split; assumption|].
          rewrite Ef in Een. rewrite Een, Hhk.
          set (s1 := {| fc := fstate i 0 (dp + 1); enabled := true; cached := cached s;
                        stack := gframe sh false false false a t0 (ridx s) (fstate i 0 dp) :: stack s;
                        ridx := ridx s + 1; out := out s; warned := false |}).
          destruct (RK s1 (true :: hk) i 0%Z (dp + 1) {| dead := false; scope := scope x; budget := budget x - 1 |} (d + 1))
            as (s2 & E2 & A2); try reflexivity.
          { unfold Rel. cbn [dead scope budget]. intuition (try lia; try discriminate; try congruence). }
          { subst s1. cbn [ridx]. lia. }
          { subst s1. unfold idx in *. cbn [stack length]. lia. }
          unfold exec in E2. rewrite E2. cbn [dstep].
          destruct A2 as (F2 & En2 & C2 & R2 & S2 & O2). subst s1. cbn [stack out cached fc] in *.
          set (Rk := flat_map (sel flt gd thr {| dead := false; scope := scope x; budget := budget x - 1 |} (d + 1)) kids) in *.
          change (gframe sh false false false a t0 (ridx s) (fstate i 0 dp)) with (gf false false a t0 (ridx s) (fstate i 0 dp)) in S2, O2.
          rewrite flush_anc_gf in S2, O2. cbn [fst snd] in S2, O2.
          assert (S2' : stack s2 = gf (negb (is_nil Rk)) false a t0 (ridx s) (fstate i 0 dp) ::
                                   (if is_nil Rk then stack s else fst (flush_anc (stack s)))).
          { rewrite S2. destruct (is_nil Rk); reflexivity. }
          rewrite (leave_rec s2 (negb (is_nil Rk)) false a t0 (ridx s) i 0 dp t1 _ i 0%Z (dp + 1) S2' F2 En2)
            by (try assumption; lia).
          cbv zeta. fold Rk.
          destruct ((thr <=? t1 - t0) || negb (is_nil Rk)) eqn:Dec.
          { eexists. split; [reflexivity|].
            unfold afterg. cbn [fc enabled cached ridx stack out is_nil]. rewrite Hfc.
            repeat split; try assumption; try congruence.
            - destruct (is_nil Rk); reflexivity.
            - rewrite O2, Hr. unfold entry_rec, E_. cbn [gframe f_start f_depth f_addr].
              destruct (is_nil Rk) eqn:EN; cbn [negb].
              + destruct Rk; [|discriminate]. cbn [app]. rewrite <- !app_assoc. cbn [app]. reflexivity.
              + cbn [app]. rewrite <- !app_assoc. cbn [app]. reflexivity. }
          { eexists. split; [reflexivity|].
            apply orb_false_iff in Dec. destruct Dec as [_ Dn]. apply negb_false_iff in Dn.
            unfold afterg. cbn [fc enabled cached ridx stack out is_nil]. rewrite Hfc.
            rewrite Dn in *. destruct Rk; [|discriminate]. cbn [app] in O2. rewrite app_nil_r in *.
            repeat split; try assumption; congruence. }
        * (* outside every -F, or the depth budget is used up *)
          apply REJ; [|reflexivity]. right. split; [reflexivity|].
          apply andb_false_iff in Eacc. destruct Eacc as [Esc|Ebud].
          -- left. destruct fm eqn:Efm.
             ++ split; [reflexivity|]. destruct (Z.eq_dec i 0) as [|Hne]; [assumption|].
                assert (scope x = true) by (apply Hsc; right; lia). congruence.
             ++ assert (scope x = true) by (apply Hsc; left; reflexivity). congruence.
          -- right. lia.
  Qed.

  Theorem run_forest_sel : forall f, all_timed f -> heights f <= ms ->
    out (fst (exec c (flat_forest f) (init, []))) = flat_map (sel flt gd thr (x0 fm gd) 0) f.
  Proof.
    intros f HT Hh.
    assert (HF : Forall (fun k => timed k -> forall s hk i o dp x d,
                     fc s = fstate i o dp -> Rel i o dp x -> enabled s = true -> ridx s = d ->
                     idx s + height k <= ms ->
                     exists s', exec c (flat k) (s, hk) = (s', hk) /\ afterg s s' d (sel flt gd thr x d k)) f).
    { clear -Hgd. induction f as [|k r IH]; constructor; [|exact IH].
      intros Tk s hk i o dp x d. apply run_call_sel; assumption. }
    assert (HR : Rel 0 0 0 (x0 fm gd)).
    { unfold Rel, x0. cbn [dead scope budget].
      destruct fm; cbn [negb]; intuition (try lia; try discriminate; try congruence). }
    assert (Hix : idx init + heights f <= ms) by (cbn; lia).
    destruct (run_kids_sel f HF HT init [] 0%Z 0%Z 0 (x0 fm gd) 0 eq_refl HR eq_refl eq_refl Hix) as (s' & E & A).
    unfold flat_forest. rewrite E. cbn [fst].
    destruct A as (_ & _ & _ & _ & _ & O). rewrite O. cbn [init out stack flush_anc snd app].
    destruct (is_nil _); reflexivity.
  Qed.
End filt.
