(* C05, documented semantics of -F / -N / -D as a function on call trees, and the proof that the
   record-time automaton implements it (no time threshold, every call takes at least one tick,
   nesting within --max-stack, -D > 0). *)
From Coq Require Import NArith ZArith List Bool Lia.
Require Import ZifyBool.
Import ListNotations.
Require Import UV.Gen.Consts UV.Mcount.Model UV.Mcount.Forest UV.Mcount.PlainStep UV.Mcount.PlainProofs.
Local Open Scope N_scope.

(* ---------------------------------------------------------------- the specification *)
Record sctx := { dead : bool;        (* inside a -N function *)
                 scope : bool;       (* inside a -F function, or no -F option given *)
                 budget : N }.       (* nesting levels still shown *)

Definition ftrig (f : option bool) : trig :=
  {| t_filter := f; t_depth := None; t_time := None; t_size := None;
     t_trace_on := false; t_trace_off := false; t_trace := false; t_caller := false |}.
(* option sets of this stage: -F / -N per function (table [flt]), -D gd *)
Definition fcfg (flt : N -> option bool) (fm : bool) (gd ms : N) (sh : shape) : cfg :=
  {| trig_of := fun a => ftrig (flt a); fmode_in := fm; has_caller := false; gdepth := gd; threshold := 0;
     max_stack := ms; sym_size := fun _ => 0; shp := sh |}.

Definition E_ (a t d : N) : rec := {| r_time := t; r_type := ENTRY; r_depth := d; r_addr := a |}.
Definition X_ (a t d : N) : rec := {| r_time := t; r_type := EXIT; r_depth := d; r_addr := a |}.

(* documented meaning (doc/uftrace-record.md, FILTERS): -N f hides f and everything it calls; with -F,
   only the -F functions and what they call are shown; -D limits the nesting shown, counted from the
   outermost shown function and counted afresh inside a -F function. *)
Fixpoint sel (flt : N -> option bool) (gd : N) (x : sctx) (d : N) (k : call) : list rec :=
  match k with
  | Call a t0 t1 kids =>
      if dead x then []
      else match flt a with
           | Some false => []
           | Some true =>
               E_ a t0 d :: flat_map (sel flt gd {| dead := false; scope := true; budget := gd - 1 |} (d + 1)) kids
               ++ [X_ a t1 d]
           | None =>
               if scope x && (0 <? budget x)
               then E_ a t0 d :: flat_map (sel flt gd {| dead := false; scope := scope x; budget := budget x - 1 |}
                                               (d + 1)) kids ++ [X_ a t1 d]
               else flat_map (sel flt gd x d) kids
           end
  end.

Definition x0 (fm : bool) (gd : N) : sctx := {| dead := false; scope := negb fm; budget := gd |}.

(* ---------------------------------------------------------------- one-step lemmas *)
Definition gfl (sh : shape) (nr flt ntr : bool) : flags :=
  {| norecord := nr; notrace := ntr; filtered := flt; written := false; disabled := false;
     ftrace := false; fcaller := false; cygprof := match sh with CYG => true | PG => false end |}.
Definition gframe (sh : shape) (nr flt ntr : bool) (a t r : N) (f : fctl) : frame :=
  {| f_addr := a; f_start := t; f_end := 0; f_flags := gfl sh nr flt ntr; f_depth := r;
     sv_depth := depth f; sv_max := max_depth f; sv_time := ftime f; sv_size := fsize f; f_ghost := false |}.

(* states of this stage: only counters and depth vary *)
Definition fstate (i o : Z) (dp : N) : fctl :=
  {| in_count := i; out_count := o; depth := dp; max_depth := FILTER_NO_MAX_DEPTH; ftime := NO_TIME; fsize := 0 |}.

Section filt.
  Variable flt : N -> option bool.
  Variables (fm : bool) (gd ms : N) (sh : shape).
  Let c := fcfg flt fm gd ms sh.

  Ltac open_entry Hi :=
    unfold do_enter, hooked, entry_check;
    rewrite (check_rstack_ok c _ Hi); cbn [fc enabled cached stack ridx out warned];
    unfold c; cbn [fcfg trig_of ftrig t_filter t_depth t_time t_size t_trace_on t_trace_off t_trace t_caller
                   fmode_in gdepth shp has_caller threshold sym_size].

  (* accepted entry: frame pushed, record index and depth advance *)
  Lemma enter_accept s i o dp a t :
    fc s = fstate i o dp -> enabled s = true -> idx s < ms -> (o = 0)%Z -> (0 <= i)%Z -> 0 < gd ->
    match flt a with
    | Some true => True
    | Some false => False
    | None => (fm = false \/ (0 < i)%Z) /\ dp < gd
    end ->
    let flt_hit := match flt a with Some true => true | _ => false end in
    let f' := if flt_hit then fstate (i + 1) o 1 else fstate i o (dp + 1) in
    do_enter c s a t =
    {| fc := f'; enabled := true; cached := cached s;
       stack := gframe sh false flt_hit false a t (ridx s) (fstate i o dp) :: stack s;
       ridx := ridx s + 1; out := out s; warned := false |} /\ hooked c s a = true.
  Proof.
    intros Hfc Hen Hi Ho Hin Hgd Hk. cbv zeta. open_entry Hi. rewrite Hfc, Hen.
    cbn [fstate in_count out_count depth max_depth ftime fsize]. rewrite N.eqb_refl.
    subst o. cbn [Z.gtb Z.compare].
    destruct (flt a) as [[|]|] eqn:Ef; [| contradiction |].
    - (* -F hit *)
      unfold with_fc. cbn [fc enabled cached stack ridx out warned in_count out_count depth max_depth ftime fsize].
      assert (E : (gd <=? 0) = false) by lia. rewrite E.
      unfold entry_record.
      cbn [fc enabled cached stack ridx out warned in_count out_count fsize f_flags norecord f_addr f_start f_depth
           t_filter t_trace t_caller t_trace_on t_trace_off orb andb noflags cygprof Z.gtb Z.compare N.ltb N.compare
           fmode_in sym_size].
      assert (E2 : ((i + 1 =? 0)%Z && fm) = false) by (destruct fm; lia). 
      cbn [fcfg fmode_in ftrig t_filter t_trace t_caller sym_size]. rewrite ?orb_false_r, E2.
      destruct sh; split; reflexivity.
    - destruct Hk as [Hsc Hdp].
      assert (E0 : (fm && (i =? 0)%Z) = false) by (destruct Hsc as [->|Hp]; [reflexivity|destruct fm; lia]).
      rewrite E0.
      unfold with_fc. cbn [fc enabled cached stack ridx out warned in_count out_count depth max_depth ftime fsize].
      assert (E : (gd <=? dp) = false) by lia. rewrite E.
      unfold entry_record.
      cbn [fc enabled cached stack ridx out warned in_count out_count fsize f_flags norecord f_addr f_start f_depth
           t_filter t_trace t_caller t_trace_on t_trace_off orb andb noflags cygprof Z.gtb Z.compare N.ltb N.compare
           fmode_in sym_size].
      assert (E2 : ((i =? 0)%Z && fm) = false) by (destruct Hsc as [->|Hp]; [apply andb_false_r|destruct fm; lia]).
      cbn [fcfg fmode_in ftrig t_filter t_trace t_caller sym_size]. rewrite ?orb_false_r, E2.
      destruct sh; split; reflexivity.
  Qed.
End filt.
