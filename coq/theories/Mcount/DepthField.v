(* Calls too deep for the 10-bit depth field of a record (possible with --max-stack > 1024).
   record_ret_stack drops them ([storable], [disk] in Model.v).  Here: for a thread running any call forest
   under the plain configuration, dropping the unstorable records is the same as lowering the depth limit to
   1024 - the calls nested 1024 deep or deeper are left out as a whole (ENTRY and EXIT, with everything below
   them), every other call is written, and what the readers decode is exactly that sub-history. *)
From Coq Require Import NArith ZArith List Bool Lia.
Import ListNotations.
Require Import UV.Gen.Consts UV.Mcount.Model UV.Mcount.Forest UV.Mcount.PlainStep UV.Mcount.PlainProofs
  UV.Mcount.Overflow UV.Mcount.OverflowCyg UV.Mcount.Codec.
Local Open Scope N_scope.

Lemma storable_iff r : storable r = true <-> r_depth r < 1024.
Proof. unfold storable, REC_DEPTH_WIDTH. change (2 ^ 10) with 1024. apply N.ltb_lt. Qed.

Lemma recs_none thr lim d k : lim <= d -> recs thr lim d k = [].
Proof. intro H. destruct k as [a t0 t1 kids]. cbn [recs]. apply N.leb_le in H. rewrite H. reflexivity. Qed.

Lemma recs_none_list thr lim d ks : lim <= d -> flat_map (recs thr lim d) ks = [].
Proof. intro H. induction ks as [|k r IH]; cbn [flat_map]; [reflexivity|]. rewrite recs_none, IH; auto. Qed.

Lemma filter_app_one {A} (p : A -> bool) l x : filter p (l ++ [x]) = filter p l ++ (if p x then [x] else []).
Proof. induction l as [|y l IH]; cbn [app filter]; [reflexivity|]. rewrite IH. destruct (p y); reflexivity. Qed.

Lemma filter_flat_map {A B} (p : B -> bool) (f g : A -> list B) l :
  Forall (fun x => filter p (f x) = g x) l -> filter p (flat_map f l) = flat_map g l.
Proof.
  induction 1 as [|x l Hx _ IH]; cbn [flat_map]; [reflexivity|].
  rewrite filter_app, Hx, IH. reflexivity.
Qed.

(* with no time threshold and every call taking a tick: dropping the unstorable records = limit 1024 *)
Lemma filter_recs0 lim : forall k d,
  filter storable (recs 0 lim d k) = recs 0 (N.min lim 1024) d k.
Proof.
  induction k as [a t0 t1 kids IH] using call_ind'. intros d.
  cbn [recs].
  assert (E2 : (0 <=? t1 - t0) = true) by (apply N.leb_le; lia). rewrite E2. cbn [orb].
  assert (KS : forall d', filter storable (flat_map (recs 0 lim d') kids) =
                          flat_map (recs 0 (N.min lim 1024) d') kids).
  { intro d'. apply filter_flat_map. clear E2.
    induction IH as [|k r Hk' _ IHr]; constructor.
    - apply Hk'.
    - apply IHr. }
  destruct (lim <=? d) eqn:L.
  - apply N.leb_le in L. assert (M : (N.min lim 1024 <=? d) = true) by (apply N.leb_le; lia).
    rewrite M. reflexivity.
  - apply N.leb_gt in L. destruct (N.ltb_spec d 1024) as [D|D].
    + assert (M : (N.min lim 1024 <=? d) = false) by (apply N.leb_gt; lia). rewrite M.
      cbn [filter]. 
      assert (S1 : forall t ty, storable {| r_time := t; r_type := ty; r_depth := d; r_addr := a |} = true).
      { intros. apply storable_iff. exact D. }
      rewrite S1, filter_app_one, S1, KS. reflexivity.
    + assert (M : (N.min lim 1024 <=? d) = true) by (apply N.leb_le; lia). rewrite M.
      cbn [filter].
      assert (S0 : forall t ty, storable {| r_time := t; r_type := ty; r_depth := d; r_addr := a |} = false).
      { intros. destruct (storable _) eqn:S; [|reflexivity]. apply storable_iff in S. cbn in S. lia. }
      rewrite S0, filter_app_one, S0, KS, app_nil_r. apply recs_none_list. lia.
Qed.

Lemma filter_recs0_forest lim d f :
  filter storable (flat_map (recs 0 lim d) f) = flat_map (recs 0 (N.min lim 1024) d) f.
Proof.
  apply filter_flat_map. induction f as [|k r IH]; constructor.
  - apply filter_recs0.
  - apply IH.
Qed.

(* -pg / fentry / PLT shape: any -D gd, any --max-stack ms, any forest *)
Theorem deep_calls_dropped gd ms f : all_timed f ->
  filter storable (out (fst (exec (plain 0 gd ms PG) (flat_forest f) (init, [])))) =
  flat_map (recs 0 (N.min (N.min gd ms) 1024) 0) f.
Proof. intros HT. rewrite run_forest' by assumption. apply filter_recs0_forest. Qed.

(* -finstrument-functions / XRay shape *)
Theorem deep_calls_dropped_cyg gd ms f : ms <= gd -> all_timed f ->
  filter storable (out (fst (exec (plain 0 gd ms CYG) (flat_forest f) (init, [])))) =
  flat_map (recs 0 (N.min ms 1024) 0) f.
Proof. intros Hm HT. rewrite run_forest_cyg by assumption. apply filter_recs0_forest. Qed.

(* what the readers decode of it *)
Theorem deep_calls_on_disk gd ms f : all_timed f ->
  Forall (fun r => r_addr r < 281474976710656) (out (fst (exec (plain 0 gd ms PG) (flat_forest f) (init, [])))) ->
  disk (out (fst (exec (plain 0 gd ms PG) (flat_forest f) (init, [])))) =
  map ideal (flat_map (recs 0 (N.min (N.min gd ms) 1024) 0) f).
Proof. intros HT HA. rewrite disk_exact by exact HA. rewrite deep_calls_dropped by assumption. reflexivity. Qed.

(* non-vacuity: a chain 1026 deep under --max-stack=2000: 1024 calls stay, two are dropped *)
Fixpoint chain (n : nat) (t0 t1 : N) : list call :=
  match n with O => [] | S m => [Call 7 t0 t1 (chain m (t0 + 1) (t1 - 1))] end.
Example deep_example :
  let f := chain 1026 1 5000 in
  length (flat_map (recs 0 (N.min 2000 2000) 0) f) = 2052%nat /\
  length (filter storable (flat_map (recs 0 (N.min 2000 2000) 0) f)) = 2048%nat /\
  length (flat_map (recs 0 (N.min (N.min 2000 2000) 1024) 0) f) = 2048%nat.
Proof. vm_compute. repeat split. Qed.
