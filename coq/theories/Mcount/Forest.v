(* Call forests: the ground-truth object of a thread's execution, and the plain (no filter option)
   specification of what libmcount must record for it. *)
From Coq Require Import NArith ZArith List Bool.
Import ListNotations.
Require Import UV.Gen.Consts UV.Mcount.Model.
Local Open Scope N_scope.

Inductive call := Call (a : N) (t0 t1 : N) (kids : list call).

Section call_ind.
  Variable P : call -> Prop.
  Hypothesis H : forall a t0 t1 kids, Forall P kids -> P (Call a t0 t1 kids).
  Fixpoint call_ind' (c : call) : P c :=
    match c with
    | Call a t0 t1 kids =>
        H a t0 t1 kids ((fix go (l : list call) : Forall P l :=
                           match l with
                           | [] => Forall_nil _
                           | x :: t => Forall_cons _ (call_ind' x) (go t)
                           end) kids)
    end.
End call_ind.

Fixpoint flat (c : call) : list ev :=
  match c with
  | Call a t0 t1 kids => Enter a t0 :: flat_map flat kids ++ [Leave t1]
  end.
Definition flat_forest (f : list call) : list ev := flat_map flat f.

Fixpoint height (c : call) : N :=
  match c with
  | Call _ _ _ kids => 1 + fold_right (fun k m => N.max (height k) m) 0 kids
  end.
Definition heights (l : list call) : N := fold_right (fun k m => N.max (height k) m) 0 l.

(* timestamps are clock readings below 2^64 and do not go backwards inside a call *)
Fixpoint timed (c : call) : Prop :=
  match c with
  | Call _ t0 t1 kids => t0 <= t1 /\ t1 < 18446744073709551616 /\ 0 < t1 /\
                         (fix all (l : list call) : Prop :=
                            match l with [] => True | k :: r => timed k /\ all r end) kids
  end.
Fixpoint all_timed (l : list call) : Prop :=
  match l with [] => True | k :: r => timed k /\ all_timed r end.

Definition is_nil {A} (l : list A) : bool := match l with [] => true | _ => false end.

(* Plain specification: with time threshold [thr] and depth limit [lim] (-D), a call at nesting
   depth d is recorded iff d < lim and (it ran longer than thr or one of its callees is recorded);
   recorded calls appear as ENTRY ... callees ... EXIT with depth = number of open recorded calls. *)
Fixpoint recs (thr lim d : N) (c : call) : list rec :=
  match c with
  | Call a t0 t1 kids =>
      if lim <=? d then []
      else
        let ks := flat_map (recs thr lim (d + 1)) kids in
        if (thr <=? t1 - t0) || negb (is_nil ks)
        then {| r_time := t0; r_type := ENTRY; r_depth := d; r_addr := a |} :: ks ++
             [{| r_time := t1; r_type := EXIT; r_depth := d; r_addr := a |}]
        else []
  end.

(* the complete history: every call, in execution order *)
Fixpoint history (d : N) (c : call) : list rec :=
  match c with
  | Call a t0 t1 kids =>
      {| r_time := t0; r_type := ENTRY; r_depth := d; r_addr := a |} :: flat_map (history (d + 1)) kids ++
      [{| r_time := t1; r_type := EXIT; r_depth := d; r_addr := a |}]
  end.

(* every call takes at least one clock tick *)
Fixpoint positive (c : call) : Prop :=
  match c with
  | Call _ t0 t1 kids => t0 < t1 /\ (fix all (l : list call) : Prop :=
                                      match l with [] => True | k :: r => positive k /\ all r end) kids
  end.
Fixpoint all_positive (l : list call) : Prop :=
  match l with [] => True | k :: r => positive k /\ all_positive r end.

Definition plain (thr gd ms : N) (sh : shape) : cfg :=
  {| trig_of := fun _ => notrig; fmode_in := false; has_caller := false; gdepth := gd; threshold := thr;
     max_stack := ms; sym_size := fun _ => 0; shp := sh; lmode_in := false |}.
