(* C05: the recorded trace does not depend on the instrumentation method - for EVERY configuration.

   The two shapes of the hook automaton (-pg / fentry / PLT: a shadow-stack entry only for an accepted call or
   a rejected one whose trigger changed the filter state; -finstrument-functions / XRay: an entry for every
   call) are run on the same call forest with the same options (any trigger table: filter, notrace, depth=,
   time=, size=, trace, trace_on, trace_off, caller; any -D, -t, -C; any call forest that fits into
   --max-stack) and write the same records.  Proof: a simulation between the two runs by induction over call
   trees; the shadow stacks agree after dropping the not-recorded entries (which is all the lazy ENTRY flush
   looks at), and the not-recorded entries which only one shape keeps restore a filter state that is already
   the current one (restoration theorems of Restore.v). *)
From Coq Require Import NArith ZArith List Bool Lia.
Import ListNotations.
Require Import UV.Gen.Consts UV.Mcount.Model UV.Mcount.Forest UV.Mcount.Restore.
Local Open Scope N_scope.

Definition pg_of (c : cfg) : cfg :=
  {| trig_of := trig_of c; fmode_in := fmode_in c; has_caller := has_caller c; gdepth := gdepth c;
     threshold := threshold c; max_stack := max_stack c; sym_size := sym_size c; shp := PG; lmode_in := lmode_in c |}.

(* ---------------------------------------------------------------- what the two shadow stacks share *)
Definition uncyg (f : frame) : frame :=
  let g := f_flags f in
  {| f_addr := f_addr f; f_start := f_start f; f_end := f_end f;
     f_flags := {| norecord := norecord g; notrace := notrace g; filtered := filtered g; written := written g;
                   disabled := disabled g; ftrace := ftrace g; fcaller := fcaller g; cygprof := false |};
     f_depth := f_depth f; sv_depth := sv_depth f; sv_max := sv_max f; sv_time := sv_time f;
     sv_size := sv_size f; f_ghost := f_ghost f |}.
Definition keep (f : frame) : bool := negb (norecord (f_flags f)).
Definition vis (l : list frame) : list frame := map uncyg (filter keep l).

(* a not-recorded entry is never marked WRITTEN *)
Definition nw (l : list frame) : Prop :=
  Forall (fun f => norecord (f_flags f) = true -> written (f_flags f) = false) l.

Lemma vis_cons_keep f l : norecord (f_flags f) = false -> vis (f :: l) = uncyg f :: vis l.
Proof. intro H. unfold vis. cbn [filter]. unfold keep at 1. rewrite H. reflexivity. Qed.
Lemma vis_cons_drop f l : norecord (f_flags f) = true -> vis (f :: l) = vis l.
Proof. intro H. unfold vis. cbn [filter]. unfold keep at 1. rewrite H. reflexivity. Qed.

Lemma uncyg_set_written f : uncyg (set_written f) = set_written (uncyg f).
Proof. reflexivity. Qed.
Lemma entry_rec_uncyg f : entry_rec (uncyg f) = entry_rec f.
Proof. reflexivity. Qed.
Lemma exit_rec_uncyg f : exit_rec (uncyg f) = exit_rec f.
Proof. reflexivity. Qed.
Lemma skip_uncyg f : skip (uncyg f) = skip f.
Proof. reflexivity. Qed.

(* the lazy ENTRY flush sees only the recorded entries *)
Lemma flush_uncyg l : flush_anc (map uncyg l) = (map uncyg (fst (flush_anc l)), snd (flush_anc l)).
Proof.
  induction l as [|p r IH]; [reflexivity|].
  cbn [map flush_anc]. change (written (f_flags (uncyg p))) with (written (f_flags p)).
  destruct (written (f_flags p)); [reflexivity|].
  rewrite IH. destruct (flush_anc r) as [r' recs]. cbn [fst snd].
  rewrite skip_uncyg. destruct (skip p); cbn [fst snd map]; [reflexivity|].
  rewrite uncyg_set_written, entry_rec_uncyg. reflexivity.
Qed.

Lemma flush_keep l : nw l ->
  snd (flush_anc (filter keep l)) = snd (flush_anc l) /\
  fst (flush_anc (filter keep l)) = filter keep (fst (flush_anc l)).
Proof.
  induction l as [|p r IH]; intro H; [split; reflexivity|].
  inversion H as [|p' r' Hp Hr]; subst. specialize (IH Hr). destruct IH as [IH1 IH2].
  assert (K : keep p = negb (norecord (f_flags p))) by reflexivity.
  assert (K' : keep (set_written p) = keep p) by reflexivity.
  cbn [filter]. rewrite K. destruct (norecord (f_flags p)) eqn:NR; cbn [negb].
  - (* dropped: it is not WRITTEN and is skipped *)
    cbn [flush_anc]. rewrite (Hp eq_refl).
    destruct (flush_anc r) as [r' recs]. cbn [fst snd] in *.
    unfold skip. rewrite NR. cbn [orb fst snd filter]. rewrite K. cbn [negb]. auto.
  - cbn [flush_anc]. destruct (written (f_flags p)).
    + cbn [fst snd filter]. rewrite K. cbn [negb]. split; reflexivity.
    + destruct (flush_anc r) as [r' recs]. destruct (flush_anc (filter keep r)) as [r2 recs2].
      cbn [fst snd] in *. subst.
      destruct (skip p); cbn [fst snd filter]; rewrite ?K', K; cbn [negb]; split; reflexivity.
Qed.

Lemma flush_vis l : nw l ->
  snd (flush_anc (vis l)) = snd (flush_anc l) /\ fst (flush_anc (vis l)) = vis (fst (flush_anc l)).
Proof.
  intro H. unfold vis. rewrite flush_uncyg. cbn [fst snd].
  destruct (flush_keep l H) as [A B]. rewrite A, B. split; reflexivity.
Qed.

Lemma flush_rel l1 l2 : nw l1 -> nw l2 -> vis l1 = vis l2 ->
  snd (flush_anc l1) = snd (flush_anc l2) /\ vis (fst (flush_anc l1)) = vis (fst (flush_anc l2)).
Proof.
  intros H1 H2 E. destruct (flush_vis l1 H1) as [A1 B1]. destruct (flush_vis l2 H2) as [A2 B2].
  rewrite <- A1, <- A2, <- B1, <- B2, E. split; reflexivity.
Qed.

Lemma nw_flush l : nw l -> nw (fst (flush_anc l)).
Proof.
  induction l as [|p r IH]; intro H; [constructor|].
  inversion H as [|p' r' Hp Hr]; subst. cbn [flush_anc].
  destruct (written (f_flags p)) eqn:W; [exact H|].
  specialize (IH Hr). destruct (flush_anc r) as [r' recs]. cbn [fst] in *.
  destruct (skip p) eqn:Sk; cbn [fst]; constructor; try assumption.
  - intros _. exact W.
  - intro NR. change (norecord (f_flags (set_written p))) with (norecord (f_flags p)) in NR.
    unfold skip in Sk. rewrite NR in Sk. cbn [orb] in Sk. discriminate.
Qed.

Lemma uncyg_fun {A} (F : frame -> A) : (forall f, F (uncyg f) = F f) ->
  forall t1 t2, uncyg t1 = uncyg t2 -> F t1 = F t2.
Proof. intros HF t1 t2 E. rewrite <- (HF t1), E, HF. reflexivity. Qed.

(* record_trace_data on two related stacks *)
Lemma rtd_rel t1 t2 l1 l2 : uncyg t1 = uncyg t2 -> nw l1 -> nw l2 -> vis l1 = vis l2 ->
  let '(t1', a1, r1) := record_trace_data t1 l1 in
  let '(t2', a2, r2) := record_trace_data t2 l2 in
  r1 = r2 /\ uncyg t1' = uncyg t2' /\ vis a1 = vis a2 /\ nw a1 /\ nw a2 /\
  norecord (f_flags t1') = norecord (f_flags t1) /\ norecord (f_flags t2') = norecord (f_flags t2) /\
  f_ghost t1' = f_ghost t1.
Proof.
  intros E N1 N2 V. unfold record_trace_data.
  rewrite (uncyg_fun (fun f => written (f_flags f)) (fun _ => eq_refl) t1 t2 E).
  rewrite (uncyg_fun skip (fun _ => eq_refl) t1 t2 E).
  assert (PRE : let '(a1, p1) := if written (f_flags t2) then (l1, []) else flush_anc l1 in
                let '(a2, p2) := if written (f_flags t2) then (l2, []) else flush_anc l2 in
                p1 = p2 /\ vis a1 = vis a2 /\ nw a1 /\ nw a2).
  { destruct (written (f_flags t2)); [auto|].
    destruct (flush_rel l1 l2 N1 N2 V) as [A B]. pose proof (nw_flush l1 N1). pose proof (nw_flush l2 N2).
    destruct (flush_anc l1), (flush_anc l2). cbn [fst snd] in *. auto. }
  destruct (if written (f_flags t2) then (l1, []) else flush_anc l1) as [a1 p1].
  destruct (if written (f_flags t2) then (l2, []) else flush_anc l2) as [a2 p2].
  destruct PRE as (Ep & Ev & Na1 & Na2). subst p2.
  destruct (written (f_flags t2) || skip t2).
  - rewrite (uncyg_fun f_end (fun _ => eq_refl) t1 t2 E).
    rewrite (uncyg_fun exit_rec exit_rec_uncyg t1 t2 E). auto 12.
  - change (f_end (set_written t1)) with (f_end t1). change (f_end (set_written t2)) with (f_end t2).
    rewrite (uncyg_fun f_end (fun _ => eq_refl) t1 t2 E).
    rewrite (uncyg_fun entry_rec entry_rec_uncyg t1 t2 E).
    assert (Es : uncyg (set_written t1) = uncyg (set_written t2)) by (rewrite !uncyg_set_written, E; reflexivity).
    rewrite (uncyg_fun exit_rec exit_rec_uncyg _ _ Es). auto 12.
Qed.

(* ---------------------------------------------------------------- the two runs, related *)
Record R0 (sp sc : st) : Prop := {
  R_fc : fc sp = fc sc; R_en : enabled sp = enabled sc; R_ca : cached sp = cached sc;
  R_ri : ridx sp = ridx sc; R_out : out sp = out sc }.
Record R (sp sc : st) : Prop := {
  R_0 : R0 sp sc; R_vis : vis (stack sp) = vis (stack sc); R_nwp : nw (stack sp); R_nwc : nw (stack sc) }.

(* a frame up to WRITTEN, the end time and the cygprof mark *)
Definition core_fr (f : frame) : frame := uncyg (set_end (clear_written f) 0).
Lemma core_fun {A} (F : frame -> A) : (forall f, F (core_fr f) = F f) ->
  forall t1 t2, core_fr t1 = core_fr t2 -> F t1 = F t2.
Proof. intros HF t1 t2 E. rewrite <- (HF t1), E, HF. reflexivity. Qed.
Lemma core_set_end f t : core_fr (set_end f t) = core_fr f. Proof. reflexivity. Qed.
Lemma core_cw f : core_fr (clear_written f) = core_fr f. Proof. reflexivity. Qed.
Lemma core_of_cw f g : clear_written f = clear_written g -> core_fr f = core_fr g.
Proof. intro H. rewrite <- (core_cw f), H, core_cw. reflexivity. Qed.
Lemma core_of_uncyg f g : uncyg f = uncyg g -> core_fr f = core_fr g.
Proof.
  intro H. unfold core_fr.
  assert (forall x, uncyg (set_end (clear_written x) 0) = set_end (clear_written (uncyg x)) 0) as C by reflexivity.
  rewrite !C, H. reflexivity.
Qed.

(* mcount_entry_filter_check when the shadow stack is not full: a function of the filter state alone *)
Definition core (tr : trig) (fm lo : bool) (gd : N) (f : fctl) (en : bool) : fctl * bool * verdict * trig * saved4 :=
  let sv : saved4 := (depth f, max_depth f, ftime f, fsize f) in
  let max0 := if max_depth f =? FILTER_NO_MAX_DEPTH then gd else max_depth f in
  if (out_count f >? 0)%Z then (f, en, V_OUT, notrig, sv) else
  let f1 := match t_filter tr with
            | Some true  => {| in_count := in_count f + 1; out_count := out_count f; depth := 0;
                               max_depth := max_depth f; ftime := ftime f; fsize := fsize f |}
            | Some false => {| in_count := in_count f; out_count := out_count f + 1; depth := 0;
                               max_depth := max_depth f; ftime := ftime f; fsize := fsize f |}
            | None => f
            end in
  if (match t_filter tr with None => fm && (in_count f =? 0)%Z | _ => false end)
  then (f1, en, V_OUT, tr, sv) else
  if lo then (f1, en, V_OUT, tr, sv) else
  let f2 := match t_depth tr with
            | Some d => {| in_count := in_count f1; out_count := out_count f1; depth := 0; max_depth := d;
                           ftime := ftime f1; fsize := fsize f1 |}
            | None => f1 end in
  let mx := match t_depth tr with Some d => d | None => max0 end in
  let en' := if t_trace_off tr then false else if t_trace_on tr then true else en in
  let f3 := {| in_count := in_count f2; out_count := out_count f2; depth := depth f2; max_depth := max_depth f2;
               ftime := match t_time tr with Some t => t | None => ftime f2 end;
               fsize := match t_size tr with Some z => z | None => fsize f2 end |} in
  if mx <=? depth f3 then (f3, en', V_OUT, tr, sv)
  else ({| in_count := in_count f3; out_count := out_count f3; depth := depth f3 + 1;
           max_depth := max_depth f3; ftime := ftime f3; fsize := fsize f3 |}, en', V_IN, tr, sv).

Lemma entry_check_noover c s a : idx s < max_stack c ->
  entry_check c s a =
  let '(f', en', v, tr, sv) := core (trig_of c a) (fmode_in c) (loc_out c (trig_of c a)) (gdepth c) (fc s) (enabled s) in
  ({| fc := f'; enabled := en'; cached := cached s; stack := stack s; ridx := ridx s; out := out s;
      warned := false |}, v, tr, sv).
Proof.
  intro H. unfold entry_check, check_rstack.
  assert (E : (max_stack c <=? idx s) = false) by (apply N.leb_gt; exact H). rewrite E.
  cbn [fc enabled cached stack ridx out warned]. unfold core, with_fc.
  cbn [fc enabled cached stack ridx out warned].
  destruct (out_count (fc s) >? 0)%Z; [reflexivity|].
  match goal with |- context [if ?b then (_, V_OUT, trig_of c a, _) else _] => destruct b end; [reflexivity|].
  destruct (loc_out c (trig_of c a)); [reflexivity|].
  match goal with |- context [if ?b then _ else _] => destruct b end; reflexivity.
Qed.

Lemma core_not_rstack tr fm lo gd f en :
  let '(_, _, v, _, _) := core tr fm lo gd f en in v <> V_RSTACK.
Proof.
  unfold core. destruct (out_count f >? 0)%Z; [discriminate|].
  match goal with |- context [if ?b then (_, _, V_OUT, tr, _) else _] => destruct b end; [discriminate|].
  destruct lo; [discriminate|].
  match goal with |- context [if ?b then _ else _] => destruct b end; discriminate.
Qed.

(* mcount_entry_filter_record on both sides *)
Lemma entry_record_rel c sp sc frp frc tr sv : R sp sc -> uncyg frp = uncyg frc ->
  written (f_flags frp) = false -> f_ghost frp = false ->
  R (entry_record (pg_of c) sp frp tr sv) (entry_record (cyg_of c) sc frc tr sv) /\
  exists tp rp tc rc, stack (entry_record (pg_of c) sp frp tr sv) = tp :: rp /\
                      stack (entry_record (cyg_of c) sc frc tr sv) = tc :: rc /\
                      core_fr tp = core_fr tc /\ f_ghost tp = false.
Proof.
  intros [[Hfc Hen Hca Hri Hout] Hv Np Nc] E W G.
  destruct frp as [a1 s1 e1 [n1 t1 fi1 w1 d1 tr1 c1 cy1] dp1 x1 x2 x3 x4 g1],
           frc as [a2 s2 e2 [n2 t2 fi2 w2 d2 tr2 c2 cy2] dp2 y1 y2 y3 y4 g2].
  unfold uncyg in E. cbn in E. injection E; intros; subst. cbn in W, G. subst.
  unfold entry_record. destruct sv as [[[d m] t] z].
  cbn [pg_of cyg_of fmode_in sym_size f_flags f_addr f_start f_depth norecord cygprof].
  rewrite Hfc, Hen, Hca, Hri, Hout.
  match goal with |- context [if ?b then _ else _] => destruct b eqn:NR end.
  - split.
    + constructor; [constructor; reflexivity| | |]; cbn [stack].
      * rewrite !vis_cons_drop by reflexivity. exact Hv.
      * constructor; [intros _; reflexivity|exact Np].
      * constructor; [intros _; reflexivity|exact Nc].
    + eexists _, _, _, _. cbn [stack]. repeat split; reflexivity.
  - destruct (enabled sc).
    + split.
      * constructor; [constructor; reflexivity| | |]; cbn [stack].
        -- rewrite !vis_cons_keep by reflexivity. f_equal. exact Hv.
        -- constructor; [intro X; discriminate X|exact Np].
        -- constructor; [intro X; discriminate X|exact Nc].
      * eexists _, _, _, _. cbn [stack]. repeat split; reflexivity.
    + destruct (cached sc).
      * match goal with |- context [record_trace_data ?tp (stack sp)] =>
          match goal with |- context [record_trace_data ?tc (stack sc)] =>
            pose proof (rtd_rel tp tc (stack sp) (stack sc) eq_refl Np Nc Hv) as RT;
            destruct (record_trace_data tp (stack sp)) as [[tp' ap] rp];
            destruct (record_trace_data tc (stack sc)) as [[tc' ac] rc]
          end end.
        destruct RT as (Er & Et & Ea & Nap & Nac & N1 & N2 & Gh). cbn [f_flags norecord f_ghost] in N1, N2, Gh.
        split.
        -- constructor; [constructor; cbn [fc enabled cached ridx out]; try reflexivity; rewrite Er; reflexivity| | |];
             cbn [stack].
           ++ rewrite !vis_cons_keep by assumption. rewrite Et, Ea. reflexivity.
           ++ constructor; [intro X; rewrite N1 in X; discriminate X|exact Nap].
           ++ constructor; [intro X; rewrite N2 in X; discriminate X|exact Nac].
        -- eexists _, _, _, _. cbn [stack]. split; [reflexivity|]. split; [reflexivity|].
           split; [apply core_of_uncyg; exact Et|].
           exact Gh.
      * split.
        -- constructor; [constructor; cbn [fc enabled cached ridx out]; try reflexivity; rewrite app_nil_r; reflexivity| | |];
             cbn [stack].
           ++ rewrite !vis_cons_keep by reflexivity. f_equal. exact Hv.
           ++ constructor; [intro X; discriminate X|exact Np].
           ++ constructor; [intro X; discriminate X|exact Nc].
        -- eexists _, _, _, _. cbn [stack]. repeat split; reflexivity.
Qed.

(* mcount_exit_filter_record on both sides *)
Lemma exit_rel c sp sc tp tc ap ac : R0 sp sc -> core_fr tp = core_fr tc ->
  (norecord (f_flags tp) = false -> uncyg tp = uncyg tc) ->
  vis ap = vis ac -> nw ap -> nw ac ->
  R (exit_record (pg_of c) sp tp ap) (exit_record (cyg_of c) sc tc ac).
Proof.
  intros [Hfc Hen Hca Hri Hout] Ec Eu Hv Np Nc. unfold exit_record.
  rewrite (core_fun (fun f => filtered (f_flags f)) (fun _ => eq_refl) tp tc Ec).
  rewrite (core_fun (fun f => notrace (f_flags f)) (fun _ => eq_refl) tp tc Ec).
  rewrite (core_fun sv_depth (fun _ => eq_refl) tp tc Ec), (core_fun sv_max (fun _ => eq_refl) tp tc Ec),
    (core_fun sv_time (fun _ => eq_refl) tp tc Ec), (core_fun sv_size (fun _ => eq_refl) tp tc Ec).
  pose proof (core_fun (fun f => norecord (f_flags f)) (fun _ => eq_refl) tp tc Ec) as En. cbv beta in En.
  cbn [pg_of cyg_of threshold has_caller]. rewrite Hfc, Hen, Hca, Hri, Hout.
  destruct (norecord (f_flags tp)) eqn:NR; rewrite <- En.
  - constructor; [constructor; reflexivity|exact Hv|exact Np|exact Nc].
  - specialize (Eu eq_refl).
    destruct (negb (enabled sc)).
    + constructor; [constructor; reflexivity|exact Hv|exact Np|exact Nc].
    + rewrite (uncyg_fun f_end (fun _ => eq_refl) tp tc Eu), (uncyg_fun f_start (fun _ => eq_refl) tp tc Eu).
      rewrite (uncyg_fun (fun f => fcaller (f_flags f)) (fun _ => eq_refl) tp tc Eu).
      rewrite (uncyg_fun (fun f => written (f_flags f)) (fun _ => eq_refl) tp tc Eu).
      rewrite (uncyg_fun (fun f => ftrace (f_flags f)) (fun _ => eq_refl) tp tc Eu).
      match goal with |- context [if ?b then _ else _] => destruct b end.
      * pose proof (rtd_rel tp tc ap ac Eu Np Nc Hv) as RT.
        destruct (record_trace_data tp ap) as [[tp' ap'] rp]. destruct (record_trace_data tc ac) as [[tc' ac'] rc].
        destruct RT as (Er & _ & Ea & Nap & Nac & _).
        constructor; [constructor; cbn [fc enabled cached ridx out]; try reflexivity; rewrite Er; reflexivity
                     |exact Ea|exact Nap|exact Nac].
      * constructor; [constructor; reflexivity|exact Hv|exact Np|exact Nc].
Qed.

Lemma cons_inv {A} (a b : A) l m : a :: l = b :: m -> a = b /\ l = m.
Proof. intro H. split; [apply (f_equal (fun x => hd a x)) in H; exact H|apply (f_equal (@tl _)) in H; exact H]. Qed.

Lemma nw_tl f l : nw (f :: l) -> nw l.
Proof. intro H. inversion H; assumption. Qed.

Lemma eqw_cons_inv l t r : eqw l (t :: r) -> exists t2 r2, l = t2 :: r2 /\ clear_written t2 = clear_written t /\ eqw r2 r.
Proof.
  unfold eqw. destruct l as [|t2 r2]; cbn [map]; intro H; [discriminate|].
  exists t2, r2. split; [reflexivity|]. split.
  - apply (f_equal (fun l => hd (clear_written t) l)) in H. exact H.
  - apply (f_equal (@tl _)) in H. exact H.
Qed.

Lemma eqw_len l1 l2 : eqw l1 l2 -> length l1 = length l2.
Proof. unfold eqw. intro H. rewrite <- (map_length clear_written l1), H, map_length. reflexivity. Qed.

Lemma entry_record_len c s fr tr sv : f_ghost fr = false ->
  length (stack (entry_record c s fr tr sv)) = S (length (stack s)).
Proof.
  intro G. destruct sv as [[[d m] t] z].
  destruct (entry_record_entered c s s fr tr d m t z eq_refl (eqw_refl _) eq_refl G) as (top & rest & S1 & E1 & _).
  rewrite S1. cbn [length]. rewrite (eqw_len _ _ E1). reflexivity.
Qed.

(* a not-recorded frame is pushed as it is *)
Lemma entry_record_norec c s fr tr sv : norecord (f_flags fr) = true ->
  exists top, stack (entry_record c s fr tr sv) = top :: stack s /\ norecord (f_flags top) = true /\
              written (f_flags top) = false /\ f_ghost top = false /\
              enabled (entry_record c s fr tr sv) = enabled s /\ cached (entry_record c s fr tr sv) = cached s /\
              out (entry_record c s fr tr sv) = out s /\ ridx (entry_record c s fr tr sv) = ridx s /\
              fc (entry_record c s fr tr sv) = fc s.
Proof.
  intro H. unfold entry_record. destruct sv as [[[d m] t] z]. rewrite H. cbn [orb].
  eexists. cbn [stack enabled cached out ridx fc]. split; [reflexivity|]. cbn [f_flags norecord written f_ghost].
  repeat split; reflexivity.
Qed.

Section sim.
  Variable c : cfg.
  Let cp := pg_of c.
  Let cc := cyg_of c.

  Definition simgoal (es : list ev) (sp sc : st) (hkp hkc : list bool) : Prop :=
    exists sp' sc', exec cp es (sp, hkp) = (sp', hkp) /\ exec cc es (sc, hkc) = (sc', hkc) /\ R sp' sc' /\
                    eqw (stack sp') (stack sp) /\ eqw (stack sc') (stack sc).

  Lemma sim_call : forall k sp sc hkp hkc, R sp sc -> (length (stack sp) <= length (stack sc))%nat ->
    N.of_nat (length (stack sc)) + height k <= max_stack c -> simgoal (flat k) sp sc hkp hkc.
  Proof.
    induction k as [a t0 t1 kids IH] using call_ind'. intros sp sc hkp hkc HR HL HH.
    assert (SF : forall sp sc hkp hkc, R sp sc -> (length (stack sp) <= length (stack sc))%nat ->
                   N.of_nat (length (stack sc)) + heights kids <= max_stack c ->
                   simgoal (flat_map flat kids) sp sc hkp hkc).
    { clear sp sc hkp hkc HR HL HH. induction IH as [|k r Hk _ IHr]; intros sp sc hkp hkc HR HL HH.
      - exists sp, sc. split; [reflexivity|]. split; [reflexivity|]. split; [exact HR|]. split; apply eqw_refl.
      - cbn [heights fold_right] in HH. fold (heights r) in HH.
        destruct (Hk sp sc hkp hkc HR HL) as (s1p & s1c & E1p & E1c & R1 & W1p & W1c); [lia|].
        destruct (IHr s1p s1c hkp hkc R1) as (s2p & s2c & E2p & E2c & R2 & W2p & W2c).
        + rewrite (eqw_len _ _ W1p), (eqw_len _ _ W1c). exact HL.
        + rewrite (eqw_len _ _ W1c). lia.
        + exists s2p, s2c. cbn [flat_map]. unfold exec in *. rewrite !fold_left_app, E1p, E1c, E2p, E2c.
          split; [reflexivity|]. split; [reflexivity|]. split; [exact R2|]. split; eapply eqw_trans; eassumption. }
    cbn [height] in HH. fold (heights kids) in HH.
    (* restoration of each side for the whole call *)
    destruct (restored_pg cp eq_refl (Call a t0 t1 kids) sp hkp) as (Sp & EXp & FCp & RIp & EWp).
    destruct (restored_cyg cc eq_refl (Call a t0 t1 kids) sc hkc) as (Sc & EXc & FCc & RIc & EWc).
    exists Sp, Sc. split; [exact EXp|]. split; [exact EXc|]. split; [|split; assumption].
    (* what is left: the cached switch state, the records and the recorded entries of the two stacks *)
    destruct HR as [[Hfc Hen Hca Hri Hout] Hv Np Nc].
    assert (FIN : forall sp3 sc3, R sp3 sc3 -> (sp3, hkp) = (Sp, hkp) -> (sc3, hkc) = (Sc, hkc) -> R Sp Sc).
    { intros sp3 sc3 H3 E1 E2. injection E1 as ->. injection E2 as ->. exact H3. }
    assert (FIN1 : forall sp3 sc3, enabled sp3 = enabled sc3 -> cached sp3 = cached sc3 -> out sp3 = out sc3 ->
                     vis (stack sp3) = vis (stack sc3) -> nw (stack sp3) -> nw (stack sc3) ->
                     (sp3, hkp) = (Sp, hkp) -> (sc3, hkc) = (Sc, hkc) -> R Sp Sc).
    { intros sp3 sc3 H1 H2 H3 H4 H5 H6 E1 E2. injection E1 as <-. injection E2 as <-.
      constructor; [constructor|..]; try assumption; congruence. }
    revert EXp EXc. cbn [flat]. unfold exec. cbn [fold_left dstep]. rewrite !fold_left_app. cbn [fold_left].
    assert (Ip : idx sp < max_stack cp) by (unfold idx; cbn [cp pg_of max_stack]; lia).
    assert (Ic : idx sc < max_stack cc) by (unfold idx; cbn [cc cyg_of max_stack]; lia).
    unfold hooked, do_enter. rewrite (entry_check_noover cp sp a Ip), (entry_check_noover cc sc a Ic).
    cbn [cp cc pg_of cyg_of trig_of fmode_in gdepth shp].
    change (loc_out cp (trig_of c a)) with (loc_out c (trig_of c a)). change (loc_out cc (trig_of c a)) with (loc_out c (trig_of c a)).
    rewrite Hfc, Hen.
    pose proof (core_not_rstack (trig_of c a) (fmode_in c) (loc_out c (trig_of c a)) (gdepth c) (fc sc) (enabled sc)) as NRS.
    destruct (core (trig_of c a) (fmode_in c) (loc_out c (trig_of c a)) (gdepth c) (fc sc) (enabled sc)) as [[[[f' en'] v] tr] sv].
    set (s1p := {| fc := f'; enabled := en'; cached := cached sp; stack := stack sp; ridx := ridx sp; out := out sp;
                   warned := false |}).
    set (s1c := {| fc := f'; enabled := en'; cached := cached sc; stack := stack sc; ridx := ridx sc; out := out sc;
                   warned := false |}).
    assert (R1 : R s1p s1c) by (constructor; [constructor|..]; cbn; try reflexivity; assumption).
    (* both sides keep an entry *)
    assert (BOTH : forall frp frc, uncyg frp = uncyg frc -> written (f_flags frp) = false -> f_ghost frp = false ->
              dstep cp (fold_left (dstep cp) (flat_map flat kids) (entry_record cp s1p frp tr sv, true :: hkp)) (Leave t1)
                = (Sp, hkp) ->
              dstep cc (fold_left (dstep cc) (flat_map flat kids) (entry_record cc s1c frc tr sv, true :: hkc)) (Leave t1)
                = (Sc, hkc) -> R Sp Sc).
    { intros frp frc Eu Wf Gf.
      assert (Gfc : f_ghost frc = false) by (rewrite <- (uncyg_fun f_ghost (fun _ => eq_refl) _ _ Eu); exact Gf).
      destruct (entry_record_rel c s1p s1c frp frc tr sv R1 Eu Wf Gf) as (R2 & tp & rp & tc & rc & Sp2 & Sc2 & Ect & Gt).
      fold cp cc in R2, Sp2, Sc2.
      destruct (SF (entry_record cp s1p frp tr sv) (entry_record cc s1c frc tr sv) (true :: hkp) (true :: hkc) R2)
        as (s2p & s2c & E2p & E2c & R3 & W2p & W2c).
      - rewrite (entry_record_len cp s1p frp tr sv Gf), (entry_record_len cc s1c frc tr sv Gfc).
        cbn [s1p s1c stack]. lia.
      - rewrite (entry_record_len cc s1c frc tr sv Gfc). cbn [s1c stack]. lia.
      - unfold exec in E2p, E2c. rewrite E2p, E2c. cbn [dstep]. unfold do_leave.
        rewrite Sp2 in W2p. rewrite Sc2 in W2c.
        destruct (eqw_cons_inv _ _ _ W2p) as (t2p & r2p & St2p & Ct2p & Wr2p).
        destruct (eqw_cons_inv _ _ _ W2c) as (t2c & r2c & St2c & Ct2c & Wr2c).
        rewrite St2p, St2c.
        assert (Ec2 : core_fr t2p = core_fr t2c).
        { rewrite (core_of_cw _ _ Ct2p), (core_of_cw _ _ Ct2c). exact Ect. }
        rewrite (core_fun f_ghost (fun _ => eq_refl) _ _ Ec2).
        assert (Gc : f_ghost t2c = false).
        { rewrite <- (core_fun f_ghost (fun _ => eq_refl) _ _ Ec2), (core_fun f_ghost (fun _ => eq_refl) _ _ (core_of_cw _ _ Ct2p)).
          exact Gt. }
        rewrite Gc. cbn [cp cc pg_of cyg_of shp]. fold cp cc.
        destruct R3 as [R30 V3 N3p N3c]. rewrite St2p, St2c in *.
        pose proof (core_fun (fun f => norecord (f_flags f)) (fun _ => eq_refl) _ _ Ec2) as En. cbv beta in En.
        apply FIN. apply exit_rel; try assumption.
        + destruct (norecord (f_flags t2c)); rewrite ?core_set_end; exact Ec2.
        + cbn [set_end f_flags]. intro NRp. rewrite NRp in En. rewrite <- En.
          rewrite !vis_cons_keep in V3 by congruence. destruct (cons_inv _ _ _ _ V3) as [V3a V3b].
          change (set_end (uncyg t2p) t1 = set_end (uncyg t2c) t1). rewrite V3a. reflexivity.
        + destruct (norecord (f_flags t2p)) eqn:NRp.
          * rewrite !vis_cons_drop in V3 by congruence. exact V3.
          * rewrite !vis_cons_keep in V3 by congruence. destruct (cons_inv _ _ _ _ V3) as [_ V3b]. exact V3b.
        + eapply nw_tl; eassumption.
        + eapply nw_tl; eassumption. }
    destruct v.
    - apply BOTH; [unfold s1p, s1c; cbn [ridx]; rewrite Hri; reflexivity|reflexivity|reflexivity].
    - destruct (state_trig tr) eqn:ST.
      + apply BOTH; [unfold s1p, s1c; cbn [ridx]; rewrite Hri; reflexivity|reflexivity|reflexivity].
      + (* only the always-push shape keeps a (not recorded) entry; its exit restores what is already there *)
        match goal with |- context [entry_record cc s1c ?fr tr sv] =>
          destruct (entry_record_norec cc s1c fr tr sv eq_refl) as (topc & Stc & NRc & Wc & Gc & Enc & Cac & Outc & Ric & Fcc);
          set (s1c' := entry_record cc s1c fr tr sv) in * end.
        assert (R2 : R s1p s1c').
        { destruct R1 as [[A1 A2 A3 A4 A5] A6 A7 A8].
          constructor; [constructor; congruence| | |].
          - rewrite Stc, vis_cons_drop by exact NRc. exact A6.
          - exact A7.
          - rewrite Stc. constructor; [intros _; exact Wc|exact A8]. }
        destruct (SF s1p s1c' (false :: hkp) (true :: hkc) R2) as (s2p & s2c & E2p & E2c & R3 & W2p & W2c).
        * rewrite Stc. cbn [s1p s1c stack length]. lia.
        * rewrite Stc. cbn [s1c stack length]. lia.
        * unfold exec in E2p, E2c. rewrite E2p, E2c. cbn [dstep]. unfold do_leave.
          rewrite Stc in W2c. destruct (eqw_cons_inv _ _ _ W2c) as (t2c & r2c & St2c & Ct2c & Wr2c).
          rewrite St2c.
          assert (NR2 : norecord (f_flags t2c) = true).
          { assert (norecord (f_flags (clear_written t2c)) = norecord (f_flags t2c)) as <- by reflexivity.
            rewrite Ct2c. exact NRc. }
          assert (G2 : f_ghost t2c = false).
          { assert (f_ghost (clear_written t2c) = f_ghost t2c) as <- by reflexivity. rewrite Ct2c. exact Gc. }
          rewrite G2. cbn [cc cyg_of shp]. fold cc. rewrite NR2.
          destruct R3 as [[B1 B2 B3 B4 B5] V3 N3p N3c]. rewrite St2c in *.
          apply FIN1; unfold exit_record; rewrite ?NR2; cbn [enabled cached out stack]; try assumption.
          -- rewrite vis_cons_drop in V3 by exact NR2. exact V3.
          -- eapply nw_tl; eassumption.
    - exfalso. apply NRS. reflexivity.
  Qed.

  Lemma sim_forest : forall f sp sc hkp hkc, R sp sc -> (length (stack sp) <= length (stack sc))%nat ->
    N.of_nat (length (stack sc)) + heights f <= max_stack c -> simgoal (flat_forest f) sp sc hkp hkc.
  Proof.
    induction f as [|k r IHr]; intros sp sc hkp hkc HR HL HH.
    - exists sp, sc. split; [reflexivity|]. split; [reflexivity|]. split; [exact HR|]. split; apply eqw_refl.
    - cbn [heights fold_right] in HH. fold (heights r) in HH.
      destruct (sim_call k sp sc hkp hkc HR HL) as (s1p & s1c & E1p & E1c & R1 & W1p & W1c); [lia|].
      destruct (IHr s1p s1c hkp hkc R1) as (s2p & s2c & E2p & E2c & R2 & W2p & W2c).
      + rewrite (eqw_len _ _ W1p), (eqw_len _ _ W1c). exact HL.
      + rewrite (eqw_len _ _ W1c). lia.
      + exists s2p, s2c. unfold flat_forest in *. cbn [flat_map]. unfold exec in *.
        rewrite !fold_left_app, E1p, E1c, E2p, E2c.
        split; [reflexivity|]. split; [reflexivity|]. split; [exact R2|]. split; eapply eqw_trans; eassumption.
  Qed.
  (* ---------------------------------------------------------------- prefixes of a run (the state at any instant) *)
  Lemma sim_enter sp sc a t : R sp sc -> idx sp < max_stack cp -> idx sc < max_stack cc ->
    (length (stack sp) <= length (stack sc))%nat ->
    R (do_enter cp sp a t) (do_enter cc sc a t) /\
    (length (stack (do_enter cp sp a t)) <= length (stack (do_enter cc sc a t)))%nat /\
    length (stack (do_enter cc sc a t)) = S (length (stack sc)).
  Proof.
    intros HR Ip Ic HL. destruct HR as [[Hfc Hen Hca Hri Hout] Hv Np Nc].
    unfold do_enter. rewrite (entry_check_noover cp sp a Ip), (entry_check_noover cc sc a Ic).
    cbn [cp cc pg_of cyg_of trig_of fmode_in gdepth shp].
    change (loc_out cp (trig_of c a)) with (loc_out c (trig_of c a)). change (loc_out cc (trig_of c a)) with (loc_out c (trig_of c a)).
    rewrite Hfc, Hen.
    pose proof (core_not_rstack (trig_of c a) (fmode_in c) (loc_out c (trig_of c a)) (gdepth c) (fc sc) (enabled sc)) as NRS.
    destruct (core (trig_of c a) (fmode_in c) (loc_out c (trig_of c a)) (gdepth c) (fc sc) (enabled sc)) as [[[[f' en'] v] tr] sv].
    set (s1p := {| fc := f'; enabled := en'; cached := cached sp; stack := stack sp; ridx := ridx sp; out := out sp;
                   warned := false |}).
    set (s1c := {| fc := f'; enabled := en'; cached := cached sc; stack := stack sc; ridx := ridx sc; out := out sc;
                   warned := false |}).
    assert (R1 : R s1p s1c) by (constructor; [constructor|..]; cbn; try reflexivity; assumption).
    assert (BOTH : forall frp frc, uncyg frp = uncyg frc -> written (f_flags frp) = false -> f_ghost frp = false ->
              R (entry_record cp s1p frp tr sv) (entry_record cc s1c frc tr sv) /\
              (length (stack (entry_record cp s1p frp tr sv)) <= length (stack (entry_record cc s1c frc tr sv)))%nat /\
              length (stack (entry_record cc s1c frc tr sv)) = S (length (stack sc))).
    { intros frp frc Eu Wf Gf.
      assert (Gfc : f_ghost frc = false) by (rewrite <- (uncyg_fun f_ghost (fun _ => eq_refl) _ _ Eu); exact Gf).
      destruct (entry_record_rel c s1p s1c frp frc tr sv R1 Eu Wf Gf) as (R2 & _).
      fold cp cc in R2. split; [exact R2|].
      rewrite (entry_record_len cp s1p frp tr sv Gf), (entry_record_len cc s1c frc tr sv Gfc).
      cbn [s1p s1c stack]. split; [lia|reflexivity]. }
    destruct v.
    - apply BOTH; [unfold s1p, s1c; cbn [ridx]; rewrite Hri; reflexivity|reflexivity|reflexivity].
    - destruct (state_trig tr) eqn:ST.
      + apply BOTH; [unfold s1p, s1c; cbn [ridx]; rewrite Hri; reflexivity|reflexivity|reflexivity].
      + match goal with |- context [entry_record cc s1c ?fr tr sv] =>
          destruct (entry_record_norec cc s1c fr tr sv eq_refl) as (topc & Stc & NRc & Wc & Gc & Enc & Cac & Outc & Ric & Fcc);
          set (s1c' := entry_record cc s1c fr tr sv) in * end.
        split; [|rewrite Stc; cbn [s1p s1c stack length]; split; [lia|reflexivity]].
        destruct R1 as [[A1 A2 A3 A4 A5] A6 A7 A8].
        constructor; [constructor; congruence| | |].
        * rewrite Stc, vis_cons_drop by exact NRc. exact A6.
        * exact A7.
        * rewrite Stc. constructor; [intros _; exact Wc|exact A8].
    - exfalso. apply NRS. reflexivity.
  Qed.

  Definition pgoal (p q : list ev) (sp sc : st) (hkp hkc : list bool) : Prop :=
    exists sp' sc' hkp' hkc', exec cp p (sp, hkp) = (sp', hkp') /\ exec cc p (sc, hkc) = (sc', hkc') /\ R sp' sc' /\
      (length (stack sp') <= length (stack sc'))%nat /\
      match q with Enter _ _ :: _ => N.of_nat (length (stack sc')) < max_stack c | _ => True end.

  Lemma pgoal_nil q sp sc hkp hkc : R sp sc -> (length (stack sp) <= length (stack sc))%nat ->
    match q with Enter _ _ :: _ => N.of_nat (length (stack sc)) < max_stack c | _ => True end -> pgoal [] q sp sc hkp hkc.
  Proof.
    intros H1 H2 H3. exists sp, sc, hkp, hkc.
    split; [reflexivity|]. split; [reflexivity|]. split; [exact H1|]. split; [exact H2|exact H3].
  Qed.

  Lemma height_pos k : 1 <= height k.
  Proof. destruct k. cbn [height]. lia. Qed.

  (* prefixes of a forest, given the statement for prefixes of each of its calls *)
  Lemma sim_prefix_list (ks : list call) :
    Forall (fun k => forall sp sc hkp hkc, R sp sc -> (length (stack sp) <= length (stack sc))%nat ->
                     N.of_nat (length (stack sc)) + height k <= max_stack c ->
                     forall p q, flat k = p ++ q -> pgoal p q sp sc hkp hkc) ks ->
    forall sp sc hkp hkc, R sp sc -> (length (stack sp) <= length (stack sc))%nat ->
    N.of_nat (length (stack sc)) + heights ks <= max_stack c ->
    forall p q, flat_map flat ks = p ++ q -> pgoal p q sp sc hkp hkc.
  Proof.
    induction 1 as [|k r Hk _ IHr]; intros sp sc hkp hkc HR HL HH p q E.
    - cbn [flat_map] in E. symmetry in E. apply app_eq_nil in E. destruct E as [-> ->].
      apply pgoal_nil; [assumption|assumption|exact I].
    - cbn [heights fold_right] in HH. fold (heights r) in HH.
      cbn [flat_map] in E. symmetry in E.
      assert (COMPLETE : forall l, p = flat k ++ l -> flat_map flat r = l ++ q -> pgoal p q sp sc hkp hkc).
      { intros l -> El.
        destruct (sim_call k sp sc hkp hkc HR HL) as (s1p & s1c & E1p & E1c & R1 & W1p & W1c); [lia|].
        destruct (IHr s1p s1c hkp hkc R1) with (p := l) (q := q) as (s2p & s2c & h2p & h2c & E2p & E2c & R2 & L2 & B2).
        - rewrite (eqw_len _ _ W1p), (eqw_len _ _ W1c). exact HL.
        - rewrite (eqw_len _ _ W1c). lia.
        - exact El.
        - exists s2p, s2c, h2p, h2c. unfold exec in *. rewrite !fold_left_app, E1p, E1c, E2p, E2c.
          split; [reflexivity|]. split; [reflexivity|]. split; [exact R2|]. split; [exact L2|exact B2]. }
      destruct (app_eq_app _ _ _ _ E) as (l & [[-> El]|[Ek ->]]).
      + apply (COMPLETE l eq_refl El).
      + destruct l as [|e l'].
        * rewrite app_nil_r in Ek. subst p. apply (COMPLETE [] (eq_sym (app_nil_r _))). reflexivity.
        * destruct (Hk sp sc hkp hkc HR HL) with (p := p) (q := e :: l') as (s2p & s2c & h2p & h2c & E2p & E2c & R2 & L2 & B2);
            [lia|exact Ek|].
          exists s2p, s2c, h2p, h2c.
          split; [exact E2p|]. split; [exact E2c|]. split; [exact R2|]. split; [exact L2|exact B2].
  Qed.

  Lemma sim_prefix_call : forall k sp sc hkp hkc, R sp sc -> (length (stack sp) <= length (stack sc))%nat ->
    N.of_nat (length (stack sc)) + height k <= max_stack c ->
    forall p q, flat k = p ++ q -> pgoal p q sp sc hkp hkc.
  Proof.
    induction k as [a t0 t1 kids IH] using call_ind'. intros sp sc hkp hkc HR HL HH p q E.
    pose proof (sim_prefix_list kids IH) as PF. clear IH.
    assert (HH0 := HH). cbn [height] in HH. fold (heights kids) in HH.
    cbn [flat] in E.
    destruct p as [|e p1].
    - cbn [app] in E. subst q. apply pgoal_nil; [assumption|assumption|lia].
    - cbn [app] in E. injection E as <- E.
      assert (Ip : idx sp < max_stack cp) by (unfold idx; cbn [cp pg_of max_stack]; lia).
      assert (Ic : idx sc < max_stack cc) by (unfold idx; cbn [cc cyg_of max_stack]; lia).
      destruct (sim_enter sp sc a t0 HR Ip Ic HL) as (R1 & L1 & Len1).
      assert (B1 : N.of_nat (length (stack (do_enter cc sc a t0))) + heights kids <= max_stack c) by (rewrite Len1; lia).
      assert (STEP : forall sp' sc' hp' hc' (p2 : list ev),
                exec cp p2 (do_enter cp sp a t0, hooked cp sp a :: hkp) = (sp', hp') ->
                exec cc p2 (do_enter cc sc a t0, hooked cc sc a :: hkc) = (sc', hc') ->
                exec cp (Enter a t0 :: p2) (sp, hkp) = (sp', hp') /\ exec cc (Enter a t0 :: p2) (sc, hkc) = (sc', hc')).
      { intros. unfold exec in *. cbn [fold_left dstep]. split; assumption. }
      symmetry in E.
      destruct (app_eq_app _ _ _ _ E) as (l & [[-> El]|[Ek ->]]).
      + (* all the callees are done *)
        destruct l as [|e l'].
        * cbn [app] in El. subst q. rewrite app_nil_r.
          destruct (sim_forest kids (do_enter cp sp a t0) (do_enter cc sc a t0) (hooked cp sp a :: hkp) (hooked cc sc a :: hkc)
                               R1 L1 B1) as (s2p & s2c & E2p & E2c & R2 & W2p & W2c).
          destruct (STEP _ _ _ _ _ E2p E2c) as [X1 X2].
          exists s2p, s2c, (hooked cp sp a :: hkp), (hooked cc sc a :: hkc).
          split; [exact X1|]. split; [exact X2|]. split; [exact R2|].
          split; [rewrite (eqw_len _ _ W2p), (eqw_len _ _ W2c); exact L1|exact I].
        * (* the whole call *)
          destruct l' as [|e2 l2]; [|destruct l2; discriminate El].
          cbn [app] in El. injection El as <- <-.
          destruct (sim_call (Call a t0 t1 kids) sp sc hkp hkc HR HL HH0) as (s3p & s3c & E3p & E3c & R3 & W3p & W3c).
          exists s3p, s3c, hkp, hkc. cbn [flat] in E3p, E3c.
          split; [exact E3p|]. split; [exact E3c|]. split; [exact R3|].
          split; [rewrite (eqw_len _ _ W3p), (eqw_len _ _ W3c); exact HL|exact I].
      + (* inside the callees *)
        destruct (PF (do_enter cp sp a t0) (do_enter cc sc a t0) (hooked cp sp a :: hkp) (hooked cc sc a :: hkc) R1 L1 B1
                     p1 l Ek) as (s2p & s2c & h2p & h2c & E2p & E2c & R2 & L2 & B2).
        destruct (STEP _ _ _ _ _ E2p E2c) as [X1 X2].
        exists s2p, s2c, h2p, h2c. split; [exact X1|]. split; [exact X2|]. split; [exact R2|]. split; [exact L2|].
        destruct l as [|e l']; [exact I|exact B2].
  Qed.

  Lemma sim_prefix_forest f sp sc hkp hkc : R sp sc -> (length (stack sp) <= length (stack sc))%nat ->
    N.of_nat (length (stack sc)) + heights f <= max_stack c ->
    forall p q, flat_forest f = p ++ q -> pgoal p q sp sc hkp hkc.
  Proof.
    intros HR HL HH p q E. apply (sim_prefix_list f); try assumption.
    apply Forall_forall. intros k _. apply sim_prefix_call.
  Qed.
End sim.

(* the same records, whatever the options: from the start of a thread (z: the -Z size filter in force) *)
Theorem method_independent_all c z f : heights f <= max_stack c ->
  out (fst (exec (pg_of c) (flat_forest f) (init_z z, []))) =
  out (fst (exec (cyg_of c) (flat_forest f) (init_z z, []))).
Proof.
  intro H.
  destruct (sim_forest c f (init_z z) (init_z z) [] []) as (sp & sc & Ep & Ec & [[_ _ _ _ Ho] _ _ _] & _).
  - constructor; [constructor; reflexivity|reflexivity|constructor|constructor].
  - apply Nat.le_refl.
  - cbn [init_z stack length]. exact H.
  - rewrite Ep, Ec. exact Ho.
Qed.

Corollary method_independent_all0 c f : heights f <= max_stack c ->
  out (fst (exec (pg_of c) (flat_forest f) (init, []))) = out (fst (exec (cyg_of c) (flat_forest f) (init, []))).
Proof. exact (method_independent_all c 0 f). Qed.

(* and the filter state the two shapes end in is the same as well *)
Theorem method_independent_state c z f : heights f <= max_stack c ->
  let sp := fst (exec (pg_of c) (flat_forest f) (init_z z, [])) in
  let sc := fst (exec (cyg_of c) (flat_forest f) (init_z z, [])) in
  fc sp = fc sc /\ enabled sp = enabled sc /\ ridx sp = ridx sc.
Proof.
  intro H. cbv zeta.
  destruct (sim_forest c f (init_z z) (init_z z) [] []) as (sp & sc & Ep & Ec & [[H1 H2 _ H4 _] _ _ _] & _).
  - constructor; [constructor; reflexivity|reflexivity|constructor|constructor].
  - apply Nat.le_refl.
  - cbn [init_z stack length]. exact H.
  - rewrite Ep, Ec. auto.
Qed.

(* non-vacuity: trace_off / trace_on switches, a notrace function with a time= trigger and a filter function *)
Definition mi_cfg : cfg :=
  mkcfg [(1, {| t_filter := None; t_depth := None; t_time := None; t_size := None;
                t_trace_on := false; t_trace_off := true; t_trace := false; t_caller := false; t_loc := None; t_finish := false |});
         (2, {| t_filter := None; t_depth := None; t_time := None; t_size := None;
                t_trace_on := true; t_trace_off := false; t_trace := false; t_caller := false; t_loc := None; t_finish := false |});
         (3, {| t_filter := Some false; t_depth := None; t_time := Some 5; t_size := None;
                t_trace_on := false; t_trace_off := false; t_trace := false; t_caller := false; t_loc := None; t_finish := false |});
         (4, {| t_filter := Some true; t_depth := Some 2; t_time := None; t_size := None;
                t_trace_on := false; t_trace_off := false; t_trace := true; t_caller := false; t_loc := None; t_finish := false |})]
        true false 3 0 16 [] PG.
Definition mi_forest : list call :=
  [Call 0 10 100 [Call 4 12 60 [Call 1 14 20 [Call 5 15 16 []]; Call 5 22 24 []; Call 2 26 30 []; Call 3 32 40 [Call 5 33 34 []];
                                Call 5 42 50 [Call 6 43 44 [Call 7 45 46 []]]];
                  Call 5 62 64 []]].
Example mi_example :
  heights mi_forest <= max_stack mi_cfg /\
  length (out (fst (exec (pg_of mi_cfg) (flat_forest mi_forest) (init, [])))) = 6%nat /\
  out (fst (exec (pg_of mi_cfg) (flat_forest mi_forest) (init, []))) =
  out (fst (exec (cyg_of mi_cfg) (flat_forest mi_forest) (init, []))).
Proof. vm_compute. split; [discriminate|]. split; reflexivity. Qed.

