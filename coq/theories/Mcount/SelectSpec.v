(* C05 stage 1: documented semantics of -F / -N / -D as a function on call trees (no proofs here). *)
From Coq Require Import NArith ZArith List Bool.
Import ListNotations.
Require Import UV.Gen.Consts UV.Mcount.Model UV.Mcount.Forest.
Local Open Scope N_scope.

(* ---------------------------------------------------------------- the specification *)
Record sctx := { dead : bool;        (* inside a -N function *)
                 scope : bool;       (* inside a -F function, or no -F option given *)
                 budget : N }.       (* nesting levels still shown *)

Definition ftrig (f : option bool) : trig :=
  {| t_filter := f; t_depth := None; t_time := None; t_size := None;
     t_trace_on := false; t_trace_off := false; t_trace := false; t_caller := false; t_loc := None; t_finish := false |}.
(* option sets of this stage: -F / -N per function (table [flt]), -D gd *)
Definition fcfg (flt : N -> option bool) (fm : bool) (gd thr ms : N) (sh : shape) : cfg :=
  {| trig_of := fun a => ftrig (flt a); fmode_in := fm; has_caller := false; gdepth := gd; threshold := thr;
     max_stack := ms; sym_size := fun _ => 0; shp := sh; lmode_in := false |}.

Definition E_ (a t d : N) : rec := {| r_time := t; r_type := ENTRY; r_depth := d; r_addr := a |}.
Definition X_ (a t d : N) : rec := {| r_time := t; r_type := EXIT; r_depth := d; r_addr := a |}.

(* documented meaning (doc/uftrace-record.md, FILTERS): -N f hides f and everything it calls; with -F,
   only the -F functions and what they call are shown; -D limits the nesting shown, counted from the
   outermost shown function and counted afresh inside a -F function; -t hides a selected call that did
   not run longer than the threshold unless one of its callees is shown. *)
Fixpoint sel (flt : N -> option bool) (gd thr : N) (x : sctx) (d : N) (k : call) : list rec :=
  match k with
  | Call a t0 t1 kids =>
      if dead x then []
      else match flt a with
           | Some false => []
           | Some true =>
               let ks := flat_map (sel flt gd thr {| dead := false; scope := true; budget := gd - 1 |} (d + 1)) kids in
               if (thr <=? t1 - t0) || negb (is_nil ks) then E_ a t0 d :: ks ++ [X_ a t1 d] else []
           | None =>
               if scope x && (0 <? budget x)
               then let ks := flat_map (sel flt gd thr {| dead := false; scope := scope x; budget := budget x - 1 |}
                                                (d + 1)) kids in
                    if (thr <=? t1 - t0) || negb (is_nil ks) then E_ a t0 d :: ks ++ [X_ a t1 d] else []
               else flat_map (sel flt gd thr x d) kids
           end
  end.

Definition x0 (fm : bool) (gd : N) : sctx := {| dead := false; scope := negb fm; budget := gd |}.

