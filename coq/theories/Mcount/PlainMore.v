(* Further consequences for the plain configuration: timestamps, forked children. *)
From Coq Require Import NArith ZArith List Bool Lia.
Import ListNotations.
Require Import UV.Gen.Consts UV.Mcount.Model UV.Mcount.Forest UV.Mcount.PlainStep UV.Mcount.PlainProofs UV.Mcount.Codec.
Local Open Scope N_scope.

(* the timestamps of the complete history are exactly the clock values read at the hooks, in order *)
Lemma history_times : forall k d, map r_time (history d k) = map ev_time (flat k).
Proof.
  induction k as [a t0 t1 kids IH] using call_ind'. intro d. cbn [history flat map ev_time r_time].
  f_equal. rewrite !map_app. cbn [map ev_time r_time]. f_equal.
  induction IH as [|k r Hk _ IHr]; [reflexivity|]. cbn [flat_map]. rewrite !map_app, Hk, IHr. reflexivity.
Qed.

Lemma history_times_forest f : map r_time (flat_map (history 0) f) = map ev_time (flat_forest f).
Proof.
  unfold flat_forest. induction f as [|k r IH]; [reflexivity|]. cbn [flat_map].
  rewrite !map_app, history_times, IH. reflexivity.
Qed.

(* addresses and types: ENTRY/EXIT pairs carry the address of the call they belong to *)
Fixpoint paired (stk : list N) (l : list rec) : bool :=
  match l with
  | [] => match stk with [] => true | _ => false end
  | r :: t => match r_type r with
              | ENTRY => paired (r_addr r :: stk) t
              | EXIT => match stk with
                        | a :: s => (a =? r_addr r) && paired s t
                        | [] => false
                        end
              end
  end.

Lemma paired_recs thr gd : forall k d stk l, paired stk (recs thr gd d k ++ l) = paired stk l.
Proof.
  induction k as [a t0 t1 kids IH] using call_ind'. intros d stk l. cbn [recs].
  destruct (gd <=? d); [reflexivity|].
  assert (K : forall d' stk' l', paired stk' (flat_map (recs thr gd d') kids ++ l') = paired stk' l').
  { intros d' stk' l'. induction IH as [|k r Hk _ IHr]; [reflexivity|]. cbn [flat_map].
    rewrite <- app_assoc, Hk. exact IHr. }
  destruct ((thr <=? t1 - t0) || negb (is_nil (flat_map (recs thr gd (d + 1)) kids))); [|reflexivity].
  cbn [app paired r_type r_addr]. rewrite <- app_assoc, K. cbn [app paired r_type r_addr].
  rewrite N.eqb_refl. reflexivity.
Qed.

Theorem recorded_stream_paired thr gd ms sh : forall f, all_timed f -> heights f <= ms ->
  paired [] (out (fst (exec (plain thr gd ms sh) (flat_forest f) (init, [])))) = true.
Proof.
  intros f HT Hh. rewrite run_forest by assumption.
  induction f as [|k r IH]; [reflexivity|]. cbn [flat_map].
  destruct HT as [Tk Tr]. cbn [heights fold_right] in Hh. fold (heights r) in Hh.
  rewrite paired_recs. apply IH; [assumption|lia].
Qed.

(* ---------------------------------------------------------------- forked child *)
Lemma flush_anc_all_written stk : flush_anc (map set_written stk) = (map set_written stk, []).
Proof. destruct stk as [|p r]; [reflexivity|]. cbn [map flush_anc set_written f_flags written]. reflexivity. Qed.

(* A child created by fork() while k calls are open starts with an empty stream, records no ENTRY for
   the inherited frames, and records the calls it then makes at the parent's depth. *)
Theorem fork_child_continues thr gd ms sh : forall f s hk d,
  fc s = fcd d -> enabled s = true -> ridx s = d -> all_timed f -> idx s + heights f <= ms ->
  out (fst (exec (plain thr gd ms sh) (ForkChild :: flat_forest f) (s, hk))) = flat_map (recs thr gd d) f.
Proof.
  intros f s hk d Hfc Hen Hr HT Hh. unfold exec. cbn [fold_left dstep].
  destruct (run_kids thr gd ms sh f) with (s := do_fork_child s) (hk := hk) (d := d) as (s' & E & A); try assumption.
  - clear. induction f as [|k r IH]; constructor; [|exact IH].
    intros Tk s hk d. apply run_call. exact Tk.
  - unfold idx, do_fork_child in *. cbn [stack]. rewrite map_length. exact Hh.
  - unfold flat_forest, exec in *. rewrite E. cbn [fst].
    destruct A as (_ & _ & _ & _ & _ & O). rewrite O.
    unfold do_fork_child. cbn [out stack]. rewrite flush_anc_all_written. cbn [snd app].
    destruct (is_nil _); reflexivity.
Qed.
