(* The hand-packed record word of record_ret_stack / record_event (libmcount/record.c) versus the
   bit-field layout of struct uftrace_record the readers use (Gen.Consts REC_*: re-derived from
   uftrace.h by a compiled probe on every run). *)
From Coq Require Import NArith ZArith List Bool Lia.
Require Import ZifyBool ZifyN.
Import ListNotations.
Require Import UV.Gen.Consts UV.Mcount.Model.
Local Open Scope N_scope.
Ltac Zify.zify_post_hook ::= Z.div_mod_to_equations.

Lemma pack_fields ty more dep addr :
  ty < 4 -> more < 2 -> dep < 1024 -> addr < 281474976710656 ->
  let w := pack_word ty more dep addr in
  w_type w = ty /\ w_more w = more /\ w_magic w = RECORD_MAGIC /\ w_depth w = dep /\ w_addr w = addr.
Proof.
  intros Ht Hm Hd Ha. unfold pack_word, w_type, w_more, w_magic, w_depth, w_addr, field.
  unfold REC_TYPE_SHIFT, REC_TYPE_WIDTH, REC_MORE_SHIFT, REC_MORE_WIDTH, REC_MAGIC_SHIFT, REC_MAGIC_WIDTH,
    REC_DEPTH_SHIFT, REC_DEPTH_WIDTH, REC_ADDR_SHIFT, REC_ADDR_WIDTH, RECORD_MAGIC.
  change (2 ^ 0) with 1. change (2 ^ 2) with 4. change (2 ^ 1) with 2. change (2 ^ 3) with 8.
  change (2 ^ 6) with 64. change (2 ^ 10) with 1024. change (2 ^ 16) with 65536.
  change (2 ^ 48) with 281474976710656.
  destruct (more =? 0) eqn:E.
  - assert (more = 0) by lia. subst. repeat split; lia.
  - assert (more = 1) by lia. subst. repeat split; lia.
Qed.

(* what the readers see of a record written by record_ret_stack is the record itself *)
Lemma seen_exact r : r_depth r < 1024 -> r_addr r < 281474976710656 ->
  seen r = (r_time r, type_code (r_type r), RECORD_MAGIC, r_depth r, r_addr r).
Proof.
  intros Hd Ha. unfold seen.
  assert (Ht : type_code (r_type r) < 4) by (destruct (r_type r); unfold type_code, UFTRACE_ENTRY, UFTRACE_EXIT; lia).
  destruct (pack_fields (type_code (r_type r)) 0 (r_depth r) (r_addr r) Ht ltac:(lia) Hd Ha) as (A & _ & C & D & E).
  rewrite A, C, D, E. reflexivity.
Qed.

(* Genuine defect (recorded as a known finding): --max-stack may be as large as OPT_RSTACK_MAX = 65535
   but the depth field has 10 bits and record_ret_stack adds `depth << 6` unmasked: at depth 1024 the
   depth wraps to 0 and the address is off by one. *)
Lemma depth_overflow_refuted :
  exists r, r_depth r < OPT_RSTACK_MAX /\ r_addr r < 281474976710656 /\
            seen r <> (r_time r, type_code (r_type r), RECORD_MAGIC, r_depth r, r_addr r).
Proof.
  exists {| r_time := 1; r_type := ENTRY; r_depth := 1024; r_addr := 7 |}.
  vm_compute. repeat split; try reflexivity. intro H. discriminate H.
Qed.

(* event time of a program event *)
Definition ev_time (e : ev) : N := match e with Enter _ t => t | Leave t => t | ForkChild => 0 end.

(* ---------------------------------------------------------------- calls too deep for the depth field
   record_ret_stack drops a frame whose depth does not fit the 10-bit field: [disk] keeps the storable
   records only, and every one of them is read back unchanged. *)
Lemma storable_lt r : storable r = true -> r_depth r < 1024.
Proof. unfold storable, REC_DEPTH_WIDTH. change (2 ^ 10) with 1024. intro H. apply N.ltb_lt in H. exact H. Qed.

Lemma disk_exact l : Forall (fun r => r_addr r < 281474976710656) l ->
  disk l = map ideal (filter storable l).
Proof.
  unfold disk. induction 1 as [|r l Hr _ IH]; cbn [filter map]; [reflexivity|].
  destruct (storable r) eqn:S; cbn [map]; [|exact IH].
  rewrite IH. f_equal. apply seen_exact; [apply storable_lt; exact S|exact Hr].
Qed.

(* nothing is lost below the field's limit *)
Lemma disk_all l : Forall (fun r => r_depth r < 1024) l -> filter storable l = l.
Proof.
  induction 1 as [|r l Hr _ IH]; cbn [filter]; [reflexivity|].
  assert (S : storable r = true).
  { unfold storable, REC_DEPTH_WIDTH. change (2 ^ 10) with 1024. apply N.ltb_lt. exact Hr. }
  rewrite S, IH. reflexivity.
Qed.
