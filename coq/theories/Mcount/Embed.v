(* For EVERY configuration without a trace_on/trace_off trigger - any trigger table (-F/-N/-C/-D/-t/-Z,
   depth=/time=/size=/trace triggers), both instrumentation shapes - the recorded stream of a complete call
   forest is the flattening of a forest EMBEDDED in the call history: calls may be left out (their callees
   are promoted), but nothing is invented, reordered, re-timed or mis-nested, and every record's depth
   field is the number of open recorded calls.  This is the "properly nested" claim of C05 and the
   "sub-history" half of C02 for filtered recordings.  (The filter state itself is irrelevant here: the
   statement holds from any filter state, also inside the known -pg leak class.) *)
From Coq Require Import NArith ZArith List Bool Lia.
Import ListNotations.
Require Import UV.Gen.Consts UV.Mcount.Model UV.Mcount.Forest UV.Mcount.PlainStep UV.Mcount.PlainProofs.
Local Open Scope N_scope.

Definition no_switch (c : cfg) : Prop :=
  forall a, t_trace_on (trig_of c a) = false /\ t_trace_off (trig_of c a) = false.

(* g is f with some calls deleted (the callees of a deleted call take its place) *)
Inductive emb : list call -> list call -> Prop :=
| emb_nil : emb [] []
| emb_keep a t0 t1 ks ks' r r' :
    emb ks' ks -> emb r' r -> emb (Call a t0 t1 ks' :: r') (Call a t0 t1 ks :: r)
| emb_drop a t0 t1 ks ks' r r' :
    emb ks' ks -> emb r' r -> emb (ks' ++ r') (Call a t0 t1 ks :: r).

(* end times are real clock readings (non-zero): libmcount uses end_time == 0 for "still running" *)
Fixpoint ended (c : call) : Prop :=
  match c with
  | Call _ _ t1 kids => 0 < t1 /\ (fix all (l : list call) : Prop :=
                                     match l with [] => True | k :: r => ended k /\ all r end) kids
  end.
Fixpoint all_ended (l : list call) : Prop :=
  match l with [] => True | k :: r => ended k /\ all_ended r end.
Lemma ended_kids a t0 t1 kids : ended (Call a t0 t1 kids) -> all_ended kids.
Proof. cbn. intros (_ & H). induction kids; cbn in *; tauto. Qed.
Lemma timed_ended k : timed k -> ended k.
Proof.
  induction k as [a t0 t1 kids IH] using call_ind'. cbn. intros (_ & _ & Hp & Hk). split; [exact Hp|].
  induction IH as [|k r Pk _ IHr]; [exact I|]. destruct Hk as [Hk1 Hk2]. split; [apply Pk; exact Hk1|apply IHr; exact Hk2].
Qed.
Lemma all_timed_ended f : all_timed f -> all_ended f.
Proof. induction f; cbn; [tauto|]. intros [? ?]; split; auto using timed_ended. Qed.

(* ---------------------------------------------------------------- the two hooks, characterised *)
Section embed.
  Variable c : cfg.
  Hypothesis NS : no_switch c.

  Lemma entry_check_shape s a : idx s < max_stack c ->
    exists s1 v tr sv, entry_check c s a = (s1, v, tr, sv) /\
      v <> V_RSTACK /\ stack s1 = stack s /\ ridx s1 = ridx s /\ out s1 = out s /\
      enabled s1 = enabled s /\ (tr = notrig \/ tr = trig_of c a).
  Proof.
    intro Hi. unfold entry_check. cbv zeta.
    assert (CR : check_rstack c s = ({| fc := fc s; enabled := enabled s; cached := cached s; stack := stack s;
                                        ridx := ridx s; out := out s; warned := false |}, false)).
    { unfold check_rstack. apply N.leb_gt in Hi. rewrite Hi. reflexivity. }
    rewrite CR. cbn [fc].
    destruct (NS a) as [Hon Hoff].
    destruct (out_count (fc s) >? 0)%Z.
    { eexists _, _, _, _. split; [reflexivity|]. cbn. repeat split; auto; discriminate. }
    rewrite Hon, Hoff.
    match goal with |- context [if ?b then (_, V_OUT, trig_of c a, _) else _] => destruct b end.
    { eexists _, _, _, _. split; [reflexivity|]. cbn. repeat split; auto; discriminate. }
    match goal with |- context [if ?b then (_, V_OUT, trig_of c a, _) else _] => destruct b end.
    { eexists _, _, _, _. split; [reflexivity|]. cbn. repeat split; auto; discriminate. }
    match goal with |- context [if ?b then (_, V_OUT, trig_of c a, _) else _] => destruct b end.
    { eexists _, _, _, _. split; [reflexivity|]. cbn. repeat split; auto; discriminate. }
    eexists _, _, _, _. split; [reflexivity|]. cbn. repeat split; auto; discriminate.
  Qed.

  (* a freshly pushed frame *)
  Definition fresh (top fr : frame) (r0 : N) (s2 s1 : st) : Prop :=
    stack s2 = top :: stack s1 /\ out s2 = out s1 /\ enabled s2 = true /\
    f_ghost top = false /\ written (f_flags top) = false /\ f_end top = 0 /\
    (norecord (f_flags top) = true /\ ridx s2 = ridx s1 \/
     norecord (f_flags top) = false /\ disabled (f_flags top) = false /\ ridx s2 = ridx s1 + 1 /\
     f_depth top = f_depth fr /\ f_addr top = f_addr fr /\ f_start top = f_start fr).

  Lemma entry_record_shape s1 fr tr sv :
    enabled s1 = true -> t_trace_on tr = false -> t_trace_off tr = false ->
    exists top, fresh top fr (ridx s1) (entry_record c s1 fr tr sv) s1 /\
                (norecord (f_flags fr) = true -> norecord (f_flags top) = true).
  Proof.
    intros Hen Hon Hoff. unfold entry_record. destruct sv as [[[d m] t] z]. cbv zeta.
    match goal with |- context [if ?b then _ else _] => destruct b eqn:Enr end.
    - eexists. split.
      + unfold fresh. cbn. repeat split; auto.
      + intros _. reflexivity.
    - rewrite Hen. eexists. split.
      + unfold fresh. cbn. repeat split; auto. right. repeat split; auto.
      + intro H. rewrite H in Enr. cbn in Enr. discriminate.
  Qed.

  Lemma notrig_noswitch : t_trace_on notrig = false /\ t_trace_off notrig = false.
  Proof. split; reflexivity. Qed.

  (* post-condition of a complete list of events; g = the recorded forest, d = record_idx *)
  Definition aft (s s' : st) (g : list call) : Prop :=
    enabled s' = true /\ ridx s' = ridx s /\
    stack s' = (if is_nil g then stack s else fst (flush_anc (stack s))) /\
    out s' = out s ++ (if is_nil g then [] else snd (flush_anc (stack s))) ++ flat_map (history (ridx s)) g.

  Lemma aft_idx s s' g : aft s s' g -> idx s' = idx s.
  Proof.
    intros (_ & _ & Hst & _). unfold idx. rewrite Hst.
    destruct (is_nil g); [reflexivity|]. rewrite flush_anc_length. reflexivity.
  Qed.

  Lemma aft_trans s s1 s2 g1 g2 : aft s s1 g1 -> aft s1 s2 g2 -> aft s s2 (g1 ++ g2).
  Proof.
    intros (E1 & I1 & S1 & O1) (E2 & I2 & S2 & O2).
    unfold aft. repeat split; try assumption; try congruence.
    - rewrite S2, S1. destruct g1 as [|x g1]; cbn [is_nil app].
      + reflexivity.
      + destruct (is_nil g2); [reflexivity|]. rewrite flush_anc_idem. reflexivity.
    - rewrite O2, O1, S1, I1, flat_map_app. destruct g1 as [|x g1]; cbn [is_nil app flat_map].
      + rewrite app_nil_r. reflexivity.
      + destruct g2 as [|y g2]; cbn [is_nil flat_map].
        * rewrite !app_nil_r. reflexivity.
        * rewrite flush_anc_idem. cbn [snd app]. rewrite <- !app_assoc. reflexivity.
  Qed.

  Definition stmt (k : call) : Prop :=
    ended k -> forall s hk, enabled s = true -> idx s + height k <= max_stack c ->
    exists s' g, exec c (flat k) (s, hk) = (s', hk) /\ emb g [k] /\ aft s s' g.

  Lemma run_kids_emb (ks : list call) : Forall stmt ks ->
    all_ended ks -> forall s hk, enabled s = true -> idx s + heights ks <= max_stack c ->
    exists s' g, exec c (flat_map flat ks) (s, hk) = (s', hk) /\ emb g ks /\ aft s s' g.
  Proof.
    induction 1 as [|k r Hk _ IH]; intros HT s hk Hen Hh.
    - exists s, []. split; [reflexivity|]. split; [constructor|].
      unfold aft. cbn. rewrite app_nil_r. auto.
    - destruct HT as [Tk Tr]. cbn [heights fold_right] in Hh. fold (heights r) in Hh.
      destruct (Hk Tk s hk Hen) as (s1 & g1 & E1 & M1 & A1); [lia|].
      pose proof (aft_idx _ _ _ A1) as I1.
      destruct (IH Tr s1 hk) as (s2 & g2 & E2 & M2 & A2); [apply A1|lia|].
      exists s2, (g1 ++ g2). split; [|split].
      + cbn [flat_map]. unfold exec in *. rewrite fold_left_app, E1. exact E2.
      + (* emb (g1 ++ g2) (k :: r) from emb g1 [k] and emb g2 r *)
        inversion M1 as [|a t0 t1 ks0 ks' r0 r' Hks Hr|a t0 t1 ks0 ks' r0 r' Hks Hr]; subst.
        * inversion Hr; subst. cbn [app]. constructor; assumption.
        * inversion Hr; subst. rewrite app_nil_r. constructor; assumption.
      + eapply aft_trans; eassumption.
  Qed.

  Lemma flush_cons_unwritten top stk :
    written (f_flags top) = false ->
    flush_anc (top :: stk) =
      (if skip top then (top :: fst (flush_anc stk), snd (flush_anc stk))
       else (set_written top :: fst (flush_anc stk), snd (flush_anc stk) ++ [entry_rec top])).
  Proof.
    intro W. cbn [flush_anc]. rewrite W. destruct (flush_anc stk) as [r' recs]. cbn [fst snd].
    destruct (skip top); reflexivity.
  Qed.

  Lemma exit_record_norecord s top anc :
    norecord (f_flags top) = true ->
    let s' := exit_record c s top anc in
    stack s' = anc /\ out s' = out s /\ enabled s' = enabled s /\ ridx s' = ridx s.
  Proof. intro H. unfold exit_record. cbv zeta. rewrite H. cbn. auto. Qed.

  Lemma do_leave_norecord s top anc t :
    stack s = top :: anc -> f_ghost top = false -> norecord (f_flags top) = true ->
    stack (do_leave c s t) = anc /\ out (do_leave c s t) = out s /\
    enabled (do_leave c s t) = enabled s /\ ridx (do_leave c s t) = ridx s.
  Proof.
    intros St Gh Nr. unfold do_leave. rewrite St, Gh. destruct (shp c).
    - apply exit_record_norecord. cbn. exact Nr.
    - rewrite Nr. apply exit_record_norecord. exact Nr.
  Qed.

  Theorem run_call_emb : forall k, stmt k.
  Proof.
    induction k as [a t0 t1 kids IH] using call_ind'. intros HT s hk Hen Hh.
    pose proof (run_kids_emb kids IH (ended_kids _ _ _ _ HT)) as RK. clear IH.
    destruct HT as (Hpos & _).
    cbn [height] in Hh. fold (heights kids) in Hh.
    assert (Hi : idx s < max_stack c) by lia.
    cbn [flat]. unfold exec. cbn [fold_left dstep]. rewrite fold_left_app. cbn [fold_left].
    destruct (entry_check_shape s a Hi) as (s1 & v & tr & sv & EC & Hv & St1 & Ri1 & Ou1 & En1 & Htr).
    assert (Hsw : t_trace_on tr = false /\ t_trace_off tr = false).
    { destruct Htr as [-> | ->]; [apply notrig_noswitch|apply NS]. }
    destruct Hsw as [Hon Hoff].
    rewrite Hen in En1.
    (* the state after the entry hook and whether the call is hooked *)
    assert (CASES :
      (hooked c s a = false /\ stack (do_enter c s a t0) = stack s1 /\ ridx (do_enter c s a t0) = ridx s1 /\
       out (do_enter c s a t0) = out s1 /\ enabled (do_enter c s a t0) = true) \/
      (hooked c s a = true /\ exists fr top, f_depth fr = ridx s /\ f_addr fr = a /\
          (norecord (f_flags fr) = false -> f_start fr = t0) /\
          fresh top fr (ridx s1) (do_enter c s a t0) s1 /\
          (norecord (f_flags fr) = true -> norecord (f_flags top) = true))).
    { unfold do_enter, hooked. rewrite EC. destruct (shp c) eqn:Sh; destruct v; try congruence.
      - right. split; [reflexivity|].
        match goal with |- context [entry_record c s1 ?fr tr sv] =>
          destruct (entry_record_shape s1 fr tr sv En1 Hon Hoff) as (top & F & N); exists fr, top end.
        cbn [f_depth f_addr f_start f_flags norecord noflags]. split; [exact Ri1|]. split; [reflexivity|]. split; [first [intros _; reflexivity | intro Q; discriminate Q]|]. split; [exact F|exact N].
      - destruct (state_trig tr).
        + right. split; [reflexivity|].
          match goal with |- context [entry_record c s1 ?fr tr sv] =>
            destruct (entry_record_shape s1 fr tr sv En1 Hon Hoff) as (top & F & N); exists fr, top end.
          cbn [f_depth f_addr f_start f_flags norecord]. split; [exact Ri1|]. split; [reflexivity|]. split; [first [intros _; reflexivity | intro Q; discriminate Q]|]. split; [exact F|exact N].
        + left. cbn [stack ridx out enabled]. repeat split; try reflexivity. exact En1.
      - right. split; [reflexivity|].
        match goal with |- context [entry_record c s1 ?fr tr sv] =>
          destruct (entry_record_shape s1 fr tr sv En1 Hon Hoff) as (top & F & N); exists fr, top end.
        cbn [f_depth f_addr f_start f_flags norecord]. split; [exact Ri1|]. split; [reflexivity|]. split; [first [intros _; reflexivity | intro Q; discriminate Q]|]. split; [exact F|exact N].
      - right. split; [reflexivity|].
        match goal with |- context [entry_record c s1 ?fr tr sv] =>
          destruct (entry_record_shape s1 fr tr sv En1 Hon Hoff) as (top & F & N); exists fr, top end.
        cbn [f_depth f_addr f_start f_flags norecord]. split; [exact Ri1|]. split; [reflexivity|]. split; [first [intros _; reflexivity | intro Q; discriminate Q]|]. split; [exact F|exact N]. }
    destruct CASES as [(Hhk & St1' & Ri1' & Ou1' & En1') | (Hhk & fr & top & Fd & Fa & Fs & F & Nn)].
    - (* -pg shape, entry rejected: no frame, no exit hook; the callees run in place *)
      rewrite Hhk. set (s1' := do_enter c s a t0) in *.
      destruct (RK s1' (false :: hk) En1') as (s2 & g & E2 & M2 & A2).
      { unfold idx in *. rewrite St1', St1. lia. }
      unfold exec in E2. rewrite E2. cbn [dstep]. exists s2, g. split; [reflexivity|]. split.
      + rewrite <- (app_nil_r g). apply emb_drop; [exact M2|constructor].
      + destruct A2 as (E & I & S2 & O2). unfold aft. rewrite St1', Ri1', Ou1', St1, Ri1, Ou1 in *. auto.
    - rewrite Hhk. set (s2 := do_enter c s a t0) in *.
      destruct F as (St2 & Ou2 & En2 & Gh & Wr & Fe & Kind).
      destruct (RK s2 (true :: hk) En2) as (s3 & g & E3 & M3 & A3).
      { unfold idx in *. rewrite St2, St1. cbn [length]. lia. }
      unfold exec in E3. rewrite E3. cbn [dstep].
      destruct A3 as (En3 & Ri3 & St3 & Ou3).
      rewrite St2, St1 in St3. rewrite St2, St1, Ou2, Ou1 in Ou3.
      rewrite (flush_cons_unwritten top (stack s) Wr) in St3, Ou3.
      destruct Kind as [[Nr Ri2] | (Nr & Di & Ri2 & Dp & Ad & Sta)].
      + (* the frame is NORECORD: the call itself is left out, its callees are promoted *)
        assert (Sk : skip top = true) by (unfold skip; rewrite Nr; reflexivity).
        rewrite Sk in St3, Ou3. cbn [fst snd] in St3, Ou3.
        assert (L : exists s4, do_leave c s3 t1 = s4 /\ stack s4 = (if is_nil g then stack s else fst (flush_anc (stack s)))
                     /\ out s4 = out s3 /\ enabled s4 = true /\ ridx s4 = ridx s3).
        { eexists. split; [reflexivity|].
          destruct (do_leave_norecord s3 top (if is_nil g then stack s else fst (flush_anc (stack s))) t1)
            as (X1 & X2 & X3 & X4); auto.
          - rewrite St3. destruct (is_nil g); reflexivity.
          - rewrite X1, X2, X3, X4. auto. }
        destruct L as (s4 & EL & St4 & Ou4 & En4 & Ri4). rewrite EL.
        exists s4, g. split; [reflexivity|]. split.
        * rewrite <- (app_nil_r g). apply emb_drop; [exact M3|constructor].
        * unfold aft. rewrite En4, Ri4, Ri3, Ri2, Ri1, St4, Ou4, Ou3, Ri2, Ri1. auto.
      + (* an ordinary frame at record depth ridx s *)
        assert (Sk : skip top = false) by (unfold skip; rewrite Nr, Di; reflexivity).
        rewrite Sk in St3, Ou3. cbn [fst snd] in St3, Ou3.
        assert (Fs' : f_start top = t0) by (rewrite Sta; apply Fs; destruct (norecord (f_flags fr)) eqn:Q; [rewrite (Nn eq_refl) in Nr; discriminate|reflexivity]).
        assert (Dp' : f_depth top = ridx s) by congruence.
        assert (Ad' : f_addr top = a) by congruence.
        assert (R3 : ridx s3 = ridx s + 1) by congruence.
        assert (LE : do_leave c s3 t1 =
                     exit_record c s3 (set_end (if is_nil g then top else set_written top) t1)
                                 (if is_nil g then stack s else fst (flush_anc (stack s)))).
        { unfold do_leave. destruct (is_nil g); rewrite St3.
          - rewrite Gh. destruct (shp c); [reflexivity|]. rewrite Nr. reflexivity.
          - cbn [set_written f_ghost f_flags norecord]. rewrite Gh, Nr. destruct (shp c); reflexivity. }
        rewrite LE. unfold exit_record. cbv zeta.
        destruct (is_nil g) eqn:G.
        * (* nothing recorded below: the call is recorded iff the exit decision says so *)
          destruct g; [|discriminate]. cbn [flat_map app] in Ou3. rewrite app_nil_r in Ou3.
          cbn [set_end f_flags]. rewrite Nr, En3. cbn [negb]. rewrite Wr. rewrite R3.
          assert (P : (0 <? ridx s + 1) = true) by (apply N.ltb_lt; lia). rewrite P.
          replace (ridx s + 1 - 1) with (ridx s) by lia.
          match goal with |- context [if ?b then _ else _] => destruct b end.
          -- unfold record_trace_data. cbn [set_end f_flags]. rewrite Wr. cbn [orb].
             rewrite (surjective_pairing (flush_anc (stack s))).
             assert (Sk2 : skip (set_end top t1) = false) by (unfold skip; cbn [set_end f_flags]; rewrite Nr, Di; reflexivity).
             rewrite Sk2. cbn [set_written set_end f_end].
             assert (Z : (t1 =? 0) = false) by (apply N.eqb_neq; lia). rewrite Z.
             eexists _, [Call a t0 t1 []]. split; [reflexivity|]. split.
             ++ apply emb_keep; [exact M3|constructor].
             ++ unfold aft. cbn [fc enabled cached stack ridx out is_nil fst snd flat_map history app].
                repeat split; auto.
                rewrite Ou3. unfold entry_rec, exit_rec. cbn [set_end set_written f_start f_end f_depth f_addr].
                rewrite Fs', Dp', Ad'. rewrite <- ?app_assoc. reflexivity.
          -- eexists _, []. split; [reflexivity|]. split.
             ++ exact (emb_drop a t0 t1 kids [] [] [] M3 emb_nil).
             ++ unfold aft. cbn [fc enabled cached stack ridx out is_nil flat_map app].
                rewrite Ou3, app_nil_r. auto.
        * (* something was recorded below: the frame is WRITTEN and gets its EXIT *)
          cbn [set_end set_written f_flags norecord written]. rewrite Nr, En3. cbn [negb]. rewrite R3.
          assert (P : (0 <? ridx s + 1) = true) by (apply N.ltb_lt; lia). rewrite P.
          replace (ridx s + 1 - 1) with (ridx s) by lia.
          rewrite !orb_true_r. cbn [orb].
          unfold record_trace_data. cbn [set_end set_written f_flags written orb f_end].
          assert (Z : (t1 =? 0) = false) by (apply N.eqb_neq; lia). rewrite Z.
          eexists _, [Call a t0 t1 g]. split; [reflexivity|]. split.
          -- inversion M3; subst; apply emb_keep; try constructor; assumption.
          -- unfold aft. cbn [fc enabled cached stack ridx out is_nil fst snd flat_map history app].
             repeat split; auto.
             rewrite Ou3. unfold entry_rec, exit_rec. cbn [set_end set_written f_start f_end f_depth f_addr].
             rewrite Fs', Dp', Ad'. rewrite Ri2, Ri1. rewrite app_nil_r. rewrite <- !app_assoc. cbn [app]. reflexivity.
  Qed.

  Theorem run_forest_emb : forall f, all_ended f -> heights f <= max_stack c ->
    exists g, emb g f /\ out (fst (exec c (flat_forest f) (init, []))) = flat_map (history 0) g.
  Proof.
    intros f HT Hh.
    assert (ST : Forall stmt f) by (apply Forall_forall; intros; apply run_call_emb).
    destruct (run_kids_emb f ST HT init [] eq_refl) as (s' & g & E & M & A).
    { unfold idx. cbn. lia. }
    exists g. split; [exact M|]. unfold flat_forest. rewrite E. cbn [fst].
    destruct A as (_ & _ & _ & O). rewrite O. cbn. destruct (is_nil g); reflexivity.
  Qed.
End embed.
