(* --max-stack overflow under -finstrument-functions / XRay (C02: "deeper calls are dropped, never corrupted"), no
   threshold, no -D below --max-stack: every call nested deeper than --max-stack is dropped whole - it only counts
   in mtdp->idx (the ghost frames of the model) - and everything else is recorded exactly, whatever the overflow
   flush of mcount_check_rstack does in between.  Companion of Overflow.v (the -pg shape). *)
From Coq Require Import NArith ZArith List Bool Lia.
Import ListNotations.
Require Import UV.Gen.Consts UV.Mcount.Model UV.Mcount.Forest UV.Mcount.PlainStep UV.Mcount.PlainProofs UV.Mcount.Overflow.
Local Open Scope N_scope.

Definition ghostf (f : frame) : Prop := f_ghost f = true.

Section overflow_cyg.
  Variables gd ms : N.
  Hypothesis Hgm : ms <= gd.
  Let c := plain 0 gd ms CYG.

  (* beyond the stack limit: the call and everything below it leave no record; the frames below the limit are
     flushed at most once, at the first overflow (no ghost frame is on the stack then) *)
  Definition deep_stmt (k : call) : Prop :=
    forall s hk d G K,
      fc s = fcd d -> enabled s = true -> ridx s = d -> stack s = G ++ K ->
      Forall ghostf G -> Forall okframe K -> N.of_nat (length K) = ms -> (G <> [] -> warned s = true) ->
      exists (s' : st) (b : bool), exec c (flat k) (s, hk) = (s', hk) /\
        fc s' = fcd d /\ enabled s' = true /\ ridx s' = d /\ cached s' = cached s /\
        stack s' = G ++ (if b then fst (flush_anc K) else K) /\
        out s' = out s ++ (if b then snd (flush_anc K) else []) /\
        (G <> [] -> b = false) /\ warned s' = true.

  Lemma deep_kids (ks : list call) : Forall deep_stmt ks ->
    forall s hk d G K,
      fc s = fcd d -> enabled s = true -> ridx s = d -> stack s = G ++ K ->
      Forall ghostf G -> Forall okframe K -> N.of_nat (length K) = ms -> (G <> [] -> warned s = true) ->
      exists (s' : st) (b : bool), exec c (flat_map flat ks) (s, hk) = (s', hk) /\
        fc s' = fcd d /\ enabled s' = true /\ ridx s' = d /\ cached s' = cached s /\
        stack s' = G ++ (if b then fst (flush_anc K) else K) /\
        out s' = out s ++ (if b then snd (flush_anc K) else []) /\
        (G <> [] -> b = false) /\ (G <> [] -> warned s' = true).
  Proof.
    induction 1 as [|k r Hk _ IH]; intros s hk d G K Hfc Hen Hr Hst HG HK HL HW.
    - exists s, false. cbn [flat_map]. rewrite app_nil_r.
      split; [reflexivity|]. repeat split; auto.
    - destruct (Hk s hk d G K Hfc Hen Hr Hst HG HK HL HW) as (s1 & b1 & E1 & F1 & En1 & R1 & C1 & S1 & O1 & B1 & W1).
      set (K1 := if b1 then fst (flush_anc K) else K) in *.
      assert (HK1 : Forall okframe K1) by (subst K1; destruct b1; [apply flush_anc_ok|]; exact HK).
      assert (HL1 : N.of_nat (length K1) = ms) by (subst K1; destruct b1; [rewrite flush_anc_length|]; exact HL).
      destruct (IH s1 hk d G K1 F1 En1 R1 S1 HG HK1 HL1 (fun _ => W1))
        as (s2 & b2 & E2 & F2 & En2 & R2 & C2 & S2 & O2 & B2 & W2).
      exists s2, (b1 || b2). cbn [flat_map]. unfold exec in *. rewrite fold_left_app, E1, E2.
      split; [reflexivity|]. split; [exact F2|]. split; [exact En2|]. split; [exact R2|]. split; [congruence|].
      split; [|split; [|split]].
      + rewrite S2. subst K1. destruct b1, b2; cbn [orb]; try reflexivity. rewrite flush_anc_idem. reflexivity.
      + rewrite O2, O1. subst K1. destruct b1, b2; cbn [orb]; rewrite ?flush_anc_idem; cbn [snd];
          rewrite <- ?app_assoc, ?app_nil_r; reflexivity.
      + intro Hne. rewrite (B1 Hne), (B2 Hne). reflexivity.
      + exact W2.
  Qed.

  Lemma deep_call : forall k, deep_stmt k.
  Proof.
    induction k as [a t0 t1 kids IH] using call_ind'.
    intros s hk d G K Hfc Hen Hr Hst HG HK HL HW.
    pose proof (deep_kids kids IH) as DK. clear IH.
    cbn [flat]. unfold exec. cbn [fold_left dstep]. rewrite fold_left_app. cbn [fold_left].
    assert (Hidx : max_stack c <= idx s).
    { unfold idx. rewrite Hst, app_length. subst c. cbn [plain max_stack]. lia. }
    assert (E : (max_stack c <=? idx s) = true) by (apply N.leb_le; exact Hidx).
    assert (Hhk : hooked c s a = true) by (unfold hooked; subst c; reflexivity).
    rewrite Hhk.
    (* the entry: a ghost frame, after the overflow flush if this is the first overflow *)
    assert (ENT : exists b, (G <> [] -> b = false) /\
              do_enter c s a t0 =
              {| fc := fc s; enabled := enabled s; cached := cached s;
                 stack := ghost_frame :: G ++ (if b then fst (flush_anc K) else K); ridx := ridx s;
                 out := out s ++ (if b then snd (flush_anc K) else []); warned := true |}).
    { unfold do_enter, entry_check, check_rstack. rewrite E.
      destruct (warned s) eqn:W.
      - exists false. split; [reflexivity|]. subst c. cbn [plain shp]. rewrite Hst, app_nil_r.
        destruct s; cbn in *; subst; reflexivity.
      - assert (G = []) as -> by (destruct G as [|g G']; [reflexivity|]; assert (false = true) by (apply HW; discriminate); discriminate).
        cbn [app] in Hst.
        assert (Kz : (length (stack s) - N.to_nat (max_stack c))%nat = 0%nat).
        { rewrite Hst. subst c. cbn [plain max_stack]. lia. }
        rewrite Kz. cbn [firstn skipn app]. rewrite Hst.
        destruct K as [|top anc].
        + exists false. split; [reflexivity|]. subst c. cbn [plain shp app]. rewrite app_nil_r. reflexivity.
        + inversion HK as [|? ? Htop Hanc]; subst.
          rewrite (rtd_open top anc Htop).
          exists true. split; [intro X; contradiction|]. subst c. cbn [plain shp app fc enabled cached ridx out stack].
          assert (HD : hd top (fst (flush_anc (top :: anc))) :: tl (fst (flush_anc (top :: anc)))
                       = fst (flush_anc (top :: anc))).
          { pose proof (flush_anc_length (top :: anc)) as L.
            destruct (fst (flush_anc (top :: anc))); [discriminate|reflexivity]. }
          rewrite HD. reflexivity. }
    destruct ENT as (b1 & B1 & Een). rewrite Een.
    set (K1 := if b1 then fst (flush_anc K) else K) in *.
    set (s1 := {| fc := fc s; enabled := enabled s; cached := cached s; stack := ghost_frame :: G ++ K1; ridx := ridx s;
                  out := out s ++ (if b1 then snd (flush_anc K) else []); warned := true |}).
    assert (HK1 : Forall okframe K1) by (subst K1; destruct b1; [apply flush_anc_ok|]; exact HK).
    assert (HL1 : N.of_nat (length K1) = ms) by (subst K1; destruct b1; [rewrite flush_anc_length|]; exact HL).
    destruct (DK s1 (true :: hk) d (ghost_frame :: G) K1) as (s2 & b2 & E2 & F2 & En2 & R2 & C2 & S2 & O2 & B2 & W2);
      try assumption; try reflexivity.
    { constructor; [reflexivity|exact HG]. }
    unfold exec in E2. rewrite E2. cbn [dstep].
    assert (Nb2 : b2 = false) by (apply B2; discriminate). subst b2.
    unfold do_leave. rewrite S2. cbn [app]. cbn [ghost_frame f_ghost].
    eexists. exists b1. split; [reflexivity|]. cbn [fc enabled ridx cached stack out warned].
    split; [exact F2|]. split; [exact En2|]. split; [exact R2|]. split; [rewrite C2; reflexivity|].
    split; [reflexivity|]. split; [rewrite O2; cbn [s1 out]; rewrite app_nil_r; reflexivity|].
    split; [exact B1|]. apply W2. discriminate.
  Qed.

  (* ---------------------------------------------------------------- the whole run *)
  Lemma run_kids_cyg (ks : list call) :
    Forall (fun k => timed k -> forall s hk d, fc s = fcd d -> enabled s = true -> ridx s = d ->
                     idx s = d -> d <= ms -> Forall okframe (stack s) ->
                     exists s', exec c (flat k) (s, hk) = (s', hk) /\ after' s s' d (recs 0 ms d k)) ks ->
    all_timed ks -> forall s hk d, fc s = fcd d -> enabled s = true -> ridx s = d ->
    idx s = d -> d <= ms -> Forall okframe (stack s) ->
    exists s', exec c (flat_map flat ks) (s, hk) = (s', hk) /\ after' s s' d (flat_map (recs 0 ms d) ks).
  Proof.
    induction 1 as [|k r Hk _ IH]; intros HT s hk d Hfc Hen Hr Hi Hd Hok.
    - exists s. split; [reflexivity|]. apply after'_nil; assumption.
    - destruct HT as [Tk Tr].
      destruct (Hk Tk s hk d Hfc Hen Hr Hi Hd Hok) as (s1 & E1 & A1).
      pose proof (after'_idx _ _ _ _ A1) as I1. pose proof (after'_ok _ _ _ _ A1 Hok) as K1.
      assert (A1' := A1). destruct A1' as (b1 & _ & F1 & En1 & _ & R1 & _ & _).
      destruct (IH Tr s1 hk d F1 En1 R1) as (s2 & E2 & A2); try assumption; [congruence|].
      exists s2. split.
      + cbn [flat_map]. unfold exec in *. rewrite fold_left_app, E1. exact E2.
      + cbn [flat_map]. eapply after'_trans; eassumption.
  Qed.

  Theorem run_call_cyg : forall k, timed k -> forall s hk d,
    fc s = fcd d -> enabled s = true -> ridx s = d -> idx s = d -> d <= ms -> Forall okframe (stack s) ->
    exists s', exec c (flat k) (s, hk) = (s', hk) /\ after' s s' d (recs 0 ms d k).
  Proof.
    induction k as [a t0 t1 kids IH] using call_ind'. intros HT s hk d Hfc Hen Hr Hi Hd Hok.
    pose proof (run_kids_cyg kids IH (timed_kids _ _ _ _ HT)) as RK. clear IH.
    destruct (N.le_gt_cases ms d) as [Hout|Hin].
    - (* the shadow stack is full: this call and everything below is dropped *)
      rewrite recs_beyond by exact Hout.
      assert (HL : N.of_nat (length (stack s)) = ms) by (unfold idx in Hi; lia).
      destruct (deep_call (Call a t0 t1 kids) s hk d [] (stack s) Hfc Hen Hr eq_refl (Forall_nil _) Hok HL)
        as (s' & b & E & F' & En' & R' & C' & S' & O' & _ & _); [intro X; contradiction|].
      exists s'. split; [exact E|]. exists b. cbn [app] in S'.
      repeat split; try assumption; [intro X; discriminate X|rewrite app_nil_r; exact O'].
    - (* below the limit: recorded *)
      destruct HT as (Ht01 & Ht1 & Hpos & _).
      cbn [flat]. unfold exec. cbn [fold_left dstep]. rewrite fold_left_app. cbn [fold_left].
      assert (Hg : d < gd) by lia. assert (Hm : idx s < ms) by lia.
      unfold c in *.
      rewrite (enter_in 0 gd ms CYG s d a t0 Hfc Hen Hg Hm).
      rewrite (hooked_in 0 gd ms CYG s d a Hfc Hg Hm).
      set (s1 := {| fc := fcd (d + 1); enabled := true; cached := cached s;
                    stack := newframe CYG a t0 (ridx s) d :: stack s; ridx := ridx s + 1; out := out s;
                    warned := false |}).
      destruct (RK s1 (true :: hk) (d + 1)) as (s2 & E2 & A2); try reflexivity.
      { subst s1. cbn [ridx]. lia. }
      { subst s1. unfold idx in *. cbn [stack length]. lia. }
      { lia. }
      { subst s1. cbn [stack]. constructor; [repeat split; reflexivity|exact Hok]. }
      unfold exec in E2. rewrite E2. cbn [dstep].
      destruct A2 as (bk & Nk & F2 & En2 & C2 & R2 & S2 & O2).
      subst s1. cbn [stack out cached] in S2, O2, C2.
      set (Rk := flat_map (recs 0 ms (d + 1)) kids) in *.
      change (newframe CYG a t0 (ridx s) d) with (nf CYG false a t0 (ridx s) d) in S2, O2.
      rewrite flush_anc_nf in S2, O2. cbn [fst snd] in S2, O2.
      assert (S2' : stack s2 = nf CYG bk a t0 (ridx s) d :: (if bk then fst (flush_anc (stack s)) else stack s)).
      { rewrite S2. destruct bk; reflexivity. }
      rewrite (leave_in 0 gd ms CYG s2 bk a t0 (ridx s) d t1 _ (d + 1) S2' F2 En2) by (try assumption; lia).
      cbn [recs]. assert (EL : (ms <=? d) = false) by (apply N.leb_gt; exact Hin). rewrite EL.
      fold Rk.
      assert (E0 : (0 <=? t1 - t0) = true) by (apply N.leb_le; lia). rewrite E0. cbn [orb].
      eexists. split; [reflexivity|].
      exists true. cbn [fc enabled cached ridx stack out is_nil].
      repeat split; try assumption; try congruence.
      + destruct bk; reflexivity.
      + rewrite O2. unfold entry_rec. cbn [newframe f_start f_depth f_addr]. rewrite Hr.
        destruct bk; cbn [app]; rewrite <- ?app_assoc; cbn [app]; rewrite <- ?app_assoc; try reflexivity.
        assert (Rk = []) as -> by (destruct Rk; [reflexivity|]; specialize (Nk eq_refl); discriminate).
        cbn [app]. reflexivity.
  Qed.

  Theorem run_forest_cyg : forall f, all_timed f ->
    out (fst (exec c (flat_forest f) (init, []))) = flat_map (recs 0 ms 0) f.
  Proof.
    intros f HT.
    destruct (run_kids_cyg f) with (s := init) (hk := @nil bool) (d := 0) as (s' & E & A); try reflexivity; try assumption.
    - clear HT. induction f as [|k r IH]; constructor; [|exact IH].
      intros Tk s hk d. apply run_call_cyg; assumption.
    - lia.
    - constructor.
    - unfold flat_forest. rewrite E. cbn [fst].
      destruct A as (b & _ & _ & _ & _ & _ & _ & O). rewrite O. cbn [init out stack flush_anc snd app].
      destruct b; reflexivity.
  Qed.
End overflow_cyg.
