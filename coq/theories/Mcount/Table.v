(* C05: from the option list to the trigger table (utils/filter.c setup_trigger / update_trigger, the counts
   filter_count / caller_count / loc_count).

   An option is abstracted to the set of functions its pattern matches (pattern matching itself is libc's) and
   its actions.  Options are applied in the order libmcount sets them up (UFTRACE_FILTER, then UFTRACE_TRIGGER,
   UFTRACE_CALLER, UFTRACE_LOCATION, each left to right); a later option overrides an earlier one on the same
   function action by action; the opt-in mode is on iff some opt-in filter option matched a function (the count is
   never taken back when a later option turns the same function into notrace - the code as it is). *)
From Coq Require Import NArith ZArith List Bool Lia.
Import ListNotations.
Require Import UV.Gen.Consts UV.Mcount.Model.
Local Open Scope N_scope.

Inductive oact :=
| OFilter (m : bool)                 (* -F f / -T f@filter (true), -N f / -T f@notrace (false) *)
| ODepth (d : N) | OTime (t : N) | OSize (z : N)
| OTraceOn | OTraceOff | OTrace | OCaller | OLoc (m : bool) | OFinish.

Record opt := { o_match : list N;    (* the functions the option's pattern matches *)
                o_acts : list oact }.

(* update_trigger *)
Definition apply_act (tr : trig) (a : oact) : trig :=
  match a with
  | OFilter m => {| t_filter := Some m; t_depth := t_depth tr; t_time := t_time tr; t_size := t_size tr;
                    t_trace_on := t_trace_on tr; t_trace_off := t_trace_off tr; t_trace := t_trace tr;
                    t_caller := t_caller tr; t_loc := t_loc tr; t_finish := t_finish tr |}
  | ODepth d => {| t_filter := t_filter tr; t_depth := Some d; t_time := t_time tr; t_size := t_size tr;
                   t_trace_on := t_trace_on tr; t_trace_off := t_trace_off tr; t_trace := t_trace tr;
                   t_caller := t_caller tr; t_loc := t_loc tr; t_finish := t_finish tr |}
  | OTime t => {| t_filter := t_filter tr; t_depth := t_depth tr; t_time := Some t; t_size := t_size tr;
                  t_trace_on := t_trace_on tr; t_trace_off := t_trace_off tr; t_trace := t_trace tr;
                  t_caller := t_caller tr; t_loc := t_loc tr; t_finish := t_finish tr |}
  | OSize z => {| t_filter := t_filter tr; t_depth := t_depth tr; t_time := t_time tr; t_size := Some z;
                  t_trace_on := t_trace_on tr; t_trace_off := t_trace_off tr; t_trace := t_trace tr;
                  t_caller := t_caller tr; t_loc := t_loc tr; t_finish := t_finish tr |}
  | OTraceOn => {| t_filter := t_filter tr; t_depth := t_depth tr; t_time := t_time tr; t_size := t_size tr;
                   t_trace_on := true; t_trace_off := false; t_trace := t_trace tr;
                   t_caller := t_caller tr; t_loc := t_loc tr; t_finish := t_finish tr |}
  | OTraceOff => {| t_filter := t_filter tr; t_depth := t_depth tr; t_time := t_time tr; t_size := t_size tr;
                    t_trace_on := false; t_trace_off := true; t_trace := t_trace tr;
                    t_caller := t_caller tr; t_loc := t_loc tr; t_finish := t_finish tr |}
  | OTrace => {| t_filter := t_filter tr; t_depth := t_depth tr; t_time := t_time tr; t_size := t_size tr;
                 t_trace_on := t_trace_on tr; t_trace_off := t_trace_off tr; t_trace := true;
                 t_caller := t_caller tr; t_loc := t_loc tr; t_finish := t_finish tr |}
  | OCaller => {| t_filter := t_filter tr; t_depth := t_depth tr; t_time := t_time tr; t_size := t_size tr;
                  t_trace_on := t_trace_on tr; t_trace_off := t_trace_off tr; t_trace := t_trace tr;
                  t_caller := true; t_loc := t_loc tr; t_finish := t_finish tr |}
  | OLoc m => {| t_filter := t_filter tr; t_depth := t_depth tr; t_time := t_time tr; t_size := t_size tr;
                 t_trace_on := t_trace_on tr; t_trace_off := t_trace_off tr; t_trace := t_trace tr;
                 t_caller := t_caller tr; t_loc := Some m; t_finish := t_finish tr |}
  | OFinish => {| t_filter := t_filter tr; t_depth := t_depth tr; t_time := t_time tr; t_size := t_size tr;
                  t_trace_on := t_trace_on tr; t_trace_off := t_trace_off tr; t_trace := t_trace tr;
                  t_caller := t_caller tr; t_loc := t_loc tr; t_finish := true |}
  end.

Definition matches (o : opt) (k : N) : bool := existsb (N.eqb k) (o_match o).

Definition tab_step (tb : N -> trig) (o : opt) : N -> trig :=
  fun k => if matches o k then fold_left apply_act (o_acts o) (tb k) else tb k.
Definition table (opts : list opt) : N -> trig := fold_left tab_step opts (fun _ => notrig).

Definition has_act (p : oact -> bool) (o : opt) : bool :=
  negb (match o_match o with [] => true | _ => false end) && existsb p (o_acts o).
Definition is_in (a : oact) : bool := match a with OFilter true => true | _ => false end.
Definition is_caller (a : oact) : bool := match a with OCaller => true | _ => false end.
Definition is_loc_in (a : oact) : bool := match a with OLoc true => true | _ => false end.

Definition cfg_of_opts (opts : list opt) (gd thr ms : N) (sizes : list (N * N)) (sh : shape) : cfg :=
  {| trig_of := table opts;
     fmode_in := existsb (has_act is_in) opts;          (* filter_count > 0 *)
     has_caller := existsb (has_act is_caller) opts;    (* caller_count > 0 *)
     gdepth := gd; threshold := thr; max_stack := ms; sym_size := assoc 0 sizes; shp := sh;
     lmode_in := existsb (has_act is_loc_in) opts |}.   (* loc_count > 0 *)

(* ---------------------------------------------------------------- what the table is *)
Definition filt_of (acts : list oact) (cur : option bool) : option bool :=
  fold_left (fun c a => match a with OFilter m => Some m | _ => c end) acts cur.

Lemma t_filter_apply tr a : t_filter (apply_act tr a) = match a with OFilter m => Some m | _ => t_filter tr end.
Proof. destruct a; reflexivity. Qed.

Lemma t_filter_acts acts : forall tr, t_filter (fold_left apply_act acts tr) = filt_of acts (t_filter tr).
Proof.
  induction acts as [|a r IH]; intro tr; [reflexivity|].
  cbn [fold_left]. rewrite IH, t_filter_apply. unfold filt_of. cbn [fold_left]. destruct a; reflexivity.
Qed.

(* the filter mode of a function is the one of the LAST filter action of the last options that match it *)
Fixpoint last_filter (opts : list opt) (k : N) (cur : option bool) : option bool :=
  match opts with
  | [] => cur
  | o :: r => last_filter r k (if matches o k then filt_of (o_acts o) cur else cur)
  end.

Lemma table_filter_gen opts : forall tb k, t_filter (fold_left tab_step opts tb k) = last_filter opts k (t_filter (tb k)).
Proof.
  induction opts as [|o r IH]; intros tb k; [reflexivity|].
  cbn [fold_left last_filter]. rewrite IH. unfold tab_step.
  destruct (matches o k); [rewrite t_filter_acts|]; reflexivity.
Qed.

Theorem table_last_filter_wins opts k : t_filter (table opts k) = last_filter opts k None.
Proof. unfold table. rewrite table_filter_gen. reflexivity. Qed.

(* a function no option matches has no trigger *)
Lemma fold_unmatched opts k : (forall o, In o opts -> matches o k = false) ->
  forall tb, fold_left tab_step opts tb k = tb k.
Proof.
  induction opts as [|o r IH]; intros H tb; [reflexivity|].
  cbn [fold_left]. rewrite IH by (intros o' Ho'; apply H; right; exact Ho').
  unfold tab_step. rewrite (H o (or_introl eq_refl)). reflexivity.
Qed.
Theorem table_unmatched opts k : (forall o, In o opts -> matches o k = false) -> table opts k = notrig.
Proof. intro H. unfold table. rewrite (fold_unmatched opts k H). reflexivity. Qed.

(* opt-in mode <-> some opt-in filter option matched a function; in particular `-N p -F f` with f among p's matches
   is an opt-in filter on f (the seeded slip C05-8 lost exactly this count) *)
Theorem fmode_iff opts gd thr ms sizes sh :
  fmode_in (cfg_of_opts opts gd thr ms sizes sh) = true <->
  exists o, In o opts /\ o_match o <> [] /\ exists a, In a (o_acts o) /\ a = OFilter true.
Proof.
  cbn [cfg_of_opts fmode_in]. rewrite existsb_exists. split.
  - intros (o & Ho & H). unfold has_act in H. apply andb_true_iff in H. destruct H as [H1 H2].
    exists o. split; [exact Ho|]. split; [destruct (o_match o); [discriminate|discriminate]|].
    apply existsb_exists in H2. destruct H2 as (a & Ha & Hi). exists a. split; [exact Ha|].
    destruct a as [[|]| | | | | | | | |]; try discriminate. reflexivity.
  - intros (o & Ho & Hm & a & Ha & ->). exists o. split; [exact Ho|]. unfold has_act.
    apply andb_true_iff. split; [destruct (o_match o); [contradiction|reflexivity]|].
    apply existsb_exists. exists (OFilter true). split; [exact Ha|reflexivity].
Qed.

Example table_example :
  let opts := [{| o_match := [1; 2]; o_acts := [OFilter false] |};                  (* -N '^f[12]$' *)
               {| o_match := [1]; o_acts := [OFilter true; ODepth 2] |}] in         (* -F f1@depth=2 *)
  t_filter (table opts 1) = Some true /\ t_depth (table opts 1) = Some 2 /\
  t_filter (table opts 2) = Some false /\ table opts 3 = notrig /\
  fmode_in (cfg_of_opts opts 1024 0 1024 [] PG) = true.
Proof. vm_compute. repeat split; reflexivity. Qed.
