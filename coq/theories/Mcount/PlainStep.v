(* One-step characterisations of the hook automaton under the plain configuration
   (no -F/-N/-T/-C options; -D = gd, -t = thr, --max-stack = ms). *)
From Coq Require Import NArith ZArith List Bool Lia.
Import ListNotations.
Require Import UV.Gen.Consts UV.Mcount.Model UV.Mcount.Forest.
Local Open Scope N_scope.

Definition fcd (d : N) : fctl :=
  {| in_count := 0; out_count := 0; depth := d; max_depth := FILTER_NO_MAX_DEPTH; ftime := NO_TIME; fsize := 0 |}.

Definition fl_of (sh : shape) (nr : bool) : flags :=
  {| norecord := nr; notrace := false; filtered := false; written := false; disabled := false;
     ftrace := false; fcaller := false; cygprof := match sh with CYG => true | PG => false end |}.

Definition newframe (sh : shape) (a t r d : N) : frame :=
  {| f_addr := a; f_start := t; f_end := 0; f_flags := fl_of sh false; f_depth := r;
     sv_depth := d; sv_max := FILTER_NO_MAX_DEPTH; sv_time := NO_TIME; sv_size := 0; f_ghost := false |}.
Definition outframe (a r d : N) : frame :=
  {| f_addr := a; f_start := 0; f_end := 0; f_flags := fl_of CYG true; f_depth := r;
     sv_depth := d; sv_max := FILTER_NO_MAX_DEPTH; sv_time := NO_TIME; sv_size := 0; f_ghost := false |}.

Lemma check_rstack_ok c s : idx s < max_stack c ->
  check_rstack c s = ({| fc := fc s; enabled := enabled s; cached := cached s; stack := stack s; ridx := ridx s;
                         out := out s; warned := false |}, false).
Proof.
  intro H. unfold check_rstack. destruct (max_stack c <=? idx s) eqn:E; [|reflexivity].
  apply N.leb_le in E. lia.
Qed.

Section plain.
  Variables thr gd ms : N.
  Variable sh : shape.
  Let c := plain thr gd ms sh.

  Lemma enter_in s d a t : fc s = fcd d -> enabled s = true -> d < gd -> idx s < ms ->
    do_enter c s a t =
    {| fc := fcd (d + 1); enabled := true; cached := cached s;
       stack := newframe sh a t (ridx s) d :: stack s; ridx := ridx s + 1; out := out s; warned := false |}.
  Proof.
    intros Hfc Hen Hd Hi. unfold do_enter, entry_check.
    rewrite (check_rstack_ok c s) by exact Hi. cbn [fc enabled cached stack ridx out warned].
    rewrite Hfc. cbn [fcd in_count out_count depth max_depth ftime fsize].
    rewrite N.eqb_refl. cbn [Z.gtb Z.compare].
    subst c. cbn [plain trig_of notrig t_filter t_depth t_time t_size t_trace_on t_trace_off fmode_in gdepth shp andb].
    unfold with_fc. cbn [fcd fc enabled cached stack ridx out warned in_count out_count depth max_depth ftime fsize].
    assert (E : (gd <=? d) = false) by (apply N.leb_gt; exact Hd). rewrite E. rewrite Hen.
    unfold entry_record.
    cbn [fc enabled cached stack ridx out warned in_count out_count fsize f_flags norecord f_addr f_start f_depth
         t_filter t_trace t_caller t_trace_on t_trace_off notrig Z.gtb Z.compare Z.eqb orb andb N.ltb N.compare cygprof
         plain fmode_in].
    destruct sh; reflexivity.
  Qed.

  (* -D limit reached, -pg shape: mcount_entry returns -1, nothing pushed *)
  Lemma enter_out_pg s d a t : sh = PG -> fc s = fcd d -> gd <= d -> idx s < ms ->
    do_enter c s a t =
    {| fc := fc s; enabled := enabled s; cached := cached s; stack := stack s; ridx := ridx s; out := out s;
       warned := false |} /\ hooked c s a = false.
  Proof.
    intros Hs Hfc Hd Hi. unfold hooked, do_enter, entry_check.
    rewrite (check_rstack_ok c s) by exact Hi. cbn [fc enabled cached stack ridx out warned].
    rewrite Hfc. cbn [fcd in_count out_count depth max_depth ftime fsize].
    rewrite N.eqb_refl. cbn [Z.gtb Z.compare].
    subst c. cbn [plain trig_of notrig t_filter t_depth t_time t_size t_trace_on t_trace_off fmode_in gdepth shp andb].
    unfold with_fc. cbn [fcd fc enabled cached stack ridx out warned in_count out_count depth max_depth ftime fsize].
    assert (E : (gd <=? d) = true) by (apply N.leb_le; exact Hd). rewrite E. rewrite Hs.
    split; reflexivity.
  Qed.

  Lemma hooked_in s d a : fc s = fcd d -> d < gd -> idx s < ms -> hooked c s a = true.
  Proof.
    intros Hfc Hd Hi. unfold hooked, entry_check.
    rewrite (check_rstack_ok c s) by exact Hi. cbn [fc enabled cached stack ridx out warned].
    rewrite Hfc. cbn [fcd in_count out_count depth max_depth ftime fsize].
    rewrite N.eqb_refl. cbn [Z.gtb Z.compare].
    subst c. cbn [plain trig_of notrig t_filter t_depth t_time t_size t_trace_on t_trace_off fmode_in gdepth shp andb].
    unfold with_fc. cbn [fcd fc enabled cached stack ridx out warned in_count out_count depth max_depth ftime fsize].
    assert (E : (gd <=? d) = false) by (apply N.leb_gt; exact Hd). rewrite E.
    destruct sh; reflexivity.
  Qed.

  (* -D limit reached, cygprof shape: a NORECORD frame is pushed (the exit hook will be called) *)
  Lemma enter_out_cyg s d a t : sh = CYG -> fc s = fcd d -> gd <= d -> idx s < ms ->
    do_enter c s a t =
    {| fc := fc s; enabled := enabled s; cached := cached s; stack := outframe a (ridx s) d :: stack s;
       ridx := ridx s; out := out s; warned := false |} /\ hooked c s a = true.
  Proof.
    intros Hs Hfc Hd Hi. unfold hooked, do_enter, entry_check.
    rewrite (check_rstack_ok c s) by exact Hi. cbn [fc enabled cached stack ridx out warned].
    rewrite Hfc. cbn [fcd in_count out_count depth max_depth ftime fsize].
    rewrite N.eqb_refl. cbn [Z.gtb Z.compare].
    subst c. cbn [plain trig_of notrig t_filter t_depth t_time t_size t_trace_on t_trace_off fmode_in gdepth shp andb].
    unfold with_fc. cbn [fcd fc enabled cached stack ridx out warned in_count out_count depth max_depth ftime fsize].
    assert (E : (gd <=? d) = true) by (apply N.leb_le; exact Hd). rewrite E. rewrite Hs.
    split; [|reflexivity].
    unfold entry_record.
    cbn [fc enabled cached stack ridx out warned in_count out_count fsize f_flags norecord f_addr f_start f_depth
         orb]. rewrite ?Hfc. reflexivity.
  Qed.

  (* exit of a NORECORD frame: filter state restored, frame popped *)
  Lemma leave_out s a r d t anc : sh = CYG -> stack s = outframe a r d :: anc ->
    do_leave c s t =
    {| fc := {| in_count := in_count (fc s); out_count := out_count (fc s); depth := d;
                max_depth := FILTER_NO_MAX_DEPTH; ftime := NO_TIME; fsize := 0 |};
       enabled := enabled s; cached := cached s; stack := anc; ridx := ridx s; out := out s; warned := warned s |}.
  Proof.
    intros Hs Hst. unfold do_leave. rewrite Hst. cbn [outframe f_ghost].
    subst c. cbn [plain shp]. rewrite Hs. cbn [f_flags fl_of norecord].
    unfold exit_record. cbn [f_flags fl_of norecord filtered notrace sv_depth sv_max sv_time sv_size]. reflexivity.
  Qed.
End plain.

(* ---------------------------------------------------------------- flush_anc facts *)
Lemma flush_anc_idem l : flush_anc (fst (flush_anc l)) = (fst (flush_anc l), []).
Proof.
  induction l as [|p rest IH]; [reflexivity|]. cbn [flush_anc].
  destruct (written (f_flags p)) eqn:W.
  - cbn [fst flush_anc]. rewrite W. reflexivity.
  - destruct (flush_anc rest) as [rest' recs] eqn:E. cbn [fst] in IH.
    destruct (skip p) eqn:S; cbn [fst flush_anc].
    + rewrite W, IH, S. reflexivity.
    + cbn [set_written f_flags written]. reflexivity.
Qed.

Lemma flush_anc_length l : length (fst (flush_anc l)) = length l.
Proof.
  induction l as [|p rest IH]; [reflexivity|]. cbn [flush_anc].
  destruct (written (f_flags p)); [reflexivity|].
  destruct (flush_anc rest) as [rest' recs]. cbn [fst] in IH.
  destruct (skip p); cbn [fst length]; rewrite IH; reflexivity.
Qed.

Section plain_leave.
  Variables thr gd ms : N.
  Variable sh : shape.
  Let c := plain thr gd ms sh.

  Definition nf (w : bool) (a t r d : N) : frame :=
    if w then set_written (newframe sh a t r d) else newframe sh a t r d.

  Lemma flush_anc_nf a t r d stk :
    flush_anc (nf false a t r d :: stk) =
    (nf true a t r d :: fst (flush_anc stk), snd (flush_anc stk) ++ [entry_rec (newframe sh a t r d)]).
  Proof.
    cbn [nf flush_anc newframe f_flags fl_of written]. destruct (flush_anc stk) as [rest' recs].
    unfold skip. cbn [f_flags fl_of norecord disabled orb fst snd]. reflexivity.
  Qed.

  (* exit of a recorded frame *)
  Lemma leave_in s w a t0 r d t1 anc dd :
    stack s = nf w a t0 r d :: anc -> fc s = fcd dd -> enabled s = true -> ridx s = r + 1 ->
    t0 <= t1 -> t1 < 18446744073709551616 -> 0 < t1 ->
    do_leave c s t1 =
    if (thr <=? t1 - t0) || w then
      {| fc := fcd d; enabled := true; cached := cached s;
         stack := if w then anc else fst (flush_anc anc); ridx := r;
         out := out s ++ (if w then [] else snd (flush_anc anc) ++ [entry_rec (newframe sh a t0 r d)])
                ++ [{| r_time := t1; r_type := EXIT; r_depth := r; r_addr := a |}];
         warned := warned s |}
    else
      {| fc := fcd d; enabled := true; cached := cached s; stack := anc; ridx := r; out := out s;
         warned := warned s |}.
  Proof.
    intros Hst Hfc Hen Hr Ht Hlt Hpos. unfold do_leave. rewrite Hst.
    assert (Hg : f_ghost (nf w a t0 r d) = false) by (destruct w; reflexivity). rewrite Hg.
    assert (Hnr : norecord (f_flags (nf w a t0 r d)) = false) by (destruct w; reflexivity).
    assert (Hexit : exit_record c s (set_end (nf w a t0 r d) t1) anc = _ ) by reflexivity.
    assert (Hsame : match shp c with
                    | PG => exit_record c s (set_end (nf w a t0 r d) t1) anc
                    | CYG => exit_record c s (if norecord (f_flags (nf w a t0 r d)) then nf w a t0 r d
                                              else set_end (nf w a t0 r d) t1) anc
                    end = exit_record c s (set_end (nf w a t0 r d) t1) anc).
    { rewrite Hnr. destruct (shp c); reflexivity. }
    rewrite Hsame. clear Hsame Hexit.
    unfold exit_record. rewrite Hfc, Hen, Hr.
    cbn [fcd ftime in_count out_count]. rewrite N.eqb_refl.
    assert (Hdur : (f_end (set_end (nf w a t0 r d) t1) + 18446744073709551616 - f_start (set_end (nf w a t0 r d) t1))
                   mod 18446744073709551616 = t1 - t0).
    { assert (f_end (set_end (nf w a t0 r d) t1) = t1) as -> by reflexivity.
      assert (f_start (set_end (nf w a t0 r d) t1) = t0) as -> by (destruct w; reflexivity).
      replace (t1 + 18446744073709551616 - t0) with ((t1 - t0) + 1 * 18446744073709551616) by lia.
      rewrite N.mod_add by lia. apply N.mod_small. lia. }
    rewrite Hdur.
    assert (Hfl : f_flags (set_end (nf w a t0 r d) t1) = f_flags (nf w a t0 r d)) by reflexivity.
    rewrite Hfl.
    assert (Hnr' : norecord (f_flags (nf w a t0 r d)) = false) by exact Hnr. rewrite Hnr'.
    assert (Hfi : filtered (f_flags (nf w a t0 r d)) = false) by (destruct w; reflexivity).
    assert (Hnt : notrace (f_flags (nf w a t0 r d)) = false) by (destruct w; reflexivity).
    assert (Hft : ftrace (f_flags (nf w a t0 r d)) = false) by (destruct w; reflexivity).
    assert (Hfcl : fcaller (f_flags (nf w a t0 r d)) = false) by (destruct w; reflexivity).
    assert (Hw : written (f_flags (nf w a t0 r d)) = w) by (destruct w; reflexivity).
    rewrite Hfi, Hnt, Hft, Hw.
    assert (Hsv : sv_depth (set_end (nf w a t0 r d) t1) = d /\ sv_max (set_end (nf w a t0 r d) t1) = FILTER_NO_MAX_DEPTH
                  /\ sv_time (set_end (nf w a t0 r d) t1) = NO_TIME /\ sv_size (set_end (nf w a t0 r d) t1) = 0)
      by (destruct w; repeat split; reflexivity).
    destruct Hsv as (-> & -> & -> & ->).
    assert (Hr1 : (0 <? r + 1) = true) by (apply N.ltb_lt; lia). rewrite Hr1.
    replace (r + 1 - 1) with r by lia.
    subst c. cbn [plain has_caller threshold negb andb orb].
    rewrite andb_true_r, orb_false_r.
    destruct ((thr <=? t1 - t0) || w) eqn:Dec; [|reflexivity].
    unfold record_trace_data. rewrite Hfl, Hw.
    assert (Hend : (f_end (set_end (nf w a t0 r d) t1) =? 0) = false) by (cbn [set_end f_end]; apply N.eqb_neq; lia).
    destruct w.
    - cbn [orb]. rewrite Hend. cbn [app]. unfold exit_rec. cbn [set_end nf set_written newframe f_end f_depth f_addr].
      reflexivity.
    - unfold skip. rewrite Hfl. cbn [nf newframe f_flags fl_of norecord disabled orb].
      destruct (flush_anc anc) as [anc' pre] eqn:EF. cbn [fst snd].
      assert (Hend' : (f_end (set_written (set_end (newframe sh a t0 r d) t1)) =? 0) = false)
        by (cbn [set_written set_end f_end]; apply N.eqb_neq; lia).
      cbn [nf] in *. rewrite Hend'.
      unfold exit_rec, entry_rec. cbn [set_written set_end newframe f_end f_depth f_addr f_start].
      rewrite <- !app_assoc. reflexivity.
  Qed.
End plain_leave.
