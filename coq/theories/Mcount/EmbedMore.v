(* Consequences of Embed.v: the recorded stream of any switch-free configuration is properly nested, and the
   executable checker [ok_emb] (Check.v) applied to implementation outputs accepts every embedded stream
   (so the checker cannot raise a false alarm on an output the theorem allows). *)
From Coq Require Import NArith ZArith List Bool Lia.
Import ListNotations.
Require Import UV.Gen.Consts UV.Mcount.Model UV.Mcount.Forest UV.Mcount.PlainProofs UV.Mcount.Embed UV.Mcount.Check UV.Mcount.Monotone UV.Mcount.EmbedOver.
Local Open Scope N_scope.

Lemma scan_history : forall k d, scan d (history d k) = Some d.
Proof.
  induction k as [a t0 t1 kids IH] using call_ind'. intro d. cbn [history].
  assert (K : forall d', scan d' (flat_map (history d') kids) = Some d').
  { intro d'. induction IH as [|k r Hk _ IHr]; [reflexivity|]. cbn [flat_map].
    rewrite (scan_app d' _ _ d') by apply Hk. exact IHr. }
  cbn [scan r_type r_depth]. rewrite N.eqb_refl.
  rewrite (scan_app (d + 1) _ _ (d + 1)) by apply K.
  cbn [scan r_type r_depth].
  replace (d + 1 - 1) with d by lia. rewrite N.eqb_refl.
  assert (P : (0 <? d + 1) = true) by (apply N.ltb_lt; lia). rewrite P. reflexivity.
Qed.

Lemma scan_histories g d : scan d (flat_map (history d) g) = Some d.
Proof.
  induction g as [|k r IH]; [reflexivity|]. cbn [flat_map].
  rewrite (scan_app d _ _ d) by apply scan_history. exact IH.
Qed.

Theorem nested_any_cfg c : no_switch c -> forall f, all_ended f -> heights f <= max_stack c ->
  scan 0 (out (fst (exec c (flat_forest f) (init, [])))) = Some 0.
Proof.
  intros NS f HT Hh. destruct (run_forest_emb c NS f HT Hh) as (g & _ & E). rewrite E. apply scan_histories.
Qed.

(* ---------------------------------------------------------------- the checker accepts every embedded stream *)
Lemma is_rec_ideal ty a t d :
  is_rec (ideal {| r_time := t; r_type := ty; r_depth := d; r_addr := a |}) (type_code ty) a t d = true.
Proof. unfold is_rec, ideal. cbn. rewrite !N.eqb_refl. reflexivity. Qed.

Definition kids_m := (fix go (ks : list call) (d' : N) (l : list seen5) (k : list seen5 -> bool) {struct ks} : bool :=
                       match ks with
                       | [] => k l
                       | x :: r => mcall x d' l (fun l' => go r d' l' k)
                       end).
Lemma kids_m_mforest ks d l k : kids_m ks d l k = mforest ks d l k.
Proof. revert l k. induction ks as [|x r IH]; intros; cbn; [reflexivity|]. f_equal. Qed.

Lemma mcall_unfold a t0 t1 kids d l k :
  mcall (Call a t0 t1 kids) d l k =
  if (match l with
      | r :: l' =>
          if is_rec r UFTRACE_ENTRY a t0 d
          then mforest kids (d + 1) l' (fun l2 => match l2 with
                                                  | x :: l3 => if is_rec x UFTRACE_EXIT a t1 d then k l3 else false
                                                  | [] => false
                                                  end)
          else false
      | [] => false
      end)
  then true else mforest kids d l k.
Proof.
  cbn [mcall]. fold kids_m. rewrite !kids_m_mforest.
  destruct l as [|r l']; [reflexivity|]. destruct (is_rec r UFTRACE_ENTRY a t0 d); [|reflexivity].
  rewrite kids_m_mforest. reflexivity.
Qed.

Lemma mcall_ext : forall c d l k k', (forall x, k x = k' x) -> mcall c d l k = mcall c d l k'.
Proof.
  induction c as [a t0 t1 kids IH] using call_ind'. intros d l k k' H.
  assert (KM : forall d l k k', (forall x, k x = k' x) -> mforest kids d l k = mforest kids d l k').
  { clear -IH. induction IH as [|c0 r0 Hc _ IHk]; intros d l k k' H; cbn [mforest]; [apply H|].
    apply Hc. intro x. apply IHk. exact H. }
  rewrite !mcall_unfold. rewrite (KM d l k k' H).
  destruct l as [|x l']; [reflexivity|]. destruct (is_rec x UFTRACE_ENTRY a t0 d); [|reflexivity].
  rewrite (KM (d + 1) l' _ (fun l2 => match l2 with
                                      | x0 :: l3 => if is_rec x0 UFTRACE_EXIT a t1 d then k' l3 else false
                                      | [] => false end)); [reflexivity|].
  intros [|y l3]; [reflexivity|]. rewrite H. reflexivity.
Qed.

Lemma mforest_ext f : forall d l k k', (forall x, k x = k' x) -> mforest f d l k = mforest f d l k'.
Proof.
  induction f as [|c r IHr]; intros d l k k' H; cbn [mforest]; [apply H|].
  apply mcall_ext. intro x. apply IHr. exact H.
Qed.

Lemma mforest_app f1 f2 d l k : mforest (f1 ++ f2) d l k = mforest f1 d l (fun l' => mforest f2 d l' k).
Proof.
  revert l k. induction f1 as [|c r IH]; intros l k; cbn [app mforest]; [reflexivity|].
  apply mcall_ext. intro x. apply IH.
Qed.

Theorem emb_accepted : forall g f, emb g f -> forall d l k, k l = true ->
  mforest f d (map ideal (flat_map (history d) g) ++ l) k = true.
Proof.
  induction 1 as [|a t0 t1 ks ks' r r' Hks IHks Hr IHr|a t0 t1 ks ks' r r' Hks IHks Hr IHr]; intros d l k Hk.
  - exact Hk.
  - cbn [mforest flat_map history]. rewrite mcall_unfold.
    cbn [map app]. change UFTRACE_ENTRY with (type_code ENTRY). rewrite is_rec_ideal.
    rewrite !map_app, <- !app_assoc. cbn [map app].
    rewrite IHks; [reflexivity|].
    change UFTRACE_EXIT with (type_code EXIT). rewrite is_rec_ideal. apply IHr. exact Hk.
  - cbn [mforest]. rewrite mcall_unfold.
    match goal with |- (if ?b then true else _) = true => destruct b; [reflexivity|] end.
    rewrite flat_map_app, map_app, <- app_assoc. apply IHks. apply IHr. exact Hk.
Qed.

Theorem ok_emb_complete g f : emb g f -> ok_emb f (map ideal (flat_map (history 0) g)) = true.
Proof.
  intro H. unfold ok_emb. rewrite <- (app_nil_r (map ideal _)). apply (emb_accepted g f H). reflexivity.
Qed.

(* the model's output always passes the checker (inside the theorem's domain) *)
Theorem model_passes_ok_emb c : no_switch c -> forall f, all_ended f -> heights f <= max_stack c ->
  ok_emb f (map ideal (out (fst (exec c (flat_forest f) (init, []))))) = true.
Proof.
  intros NS f HT Hh. destruct (run_forest_emb c NS f HT Hh) as (g & M & E). rewrite E. apply ok_emb_complete. exact M.
Qed.

(* ---------------------------------------------------------------- ... and nothing else (soundness of the checker) *)
Lemma is_rec_true r ty a t d : is_rec r ty a t d = true -> r = (t, ty, RECORD_MAGIC, d, a).
Proof.
  destruct r as [[[[tm ty'] mg] dep] ad]. unfold is_rec.
  rewrite !andb_true_iff, !N.eqb_eq. intros [[[[-> ->] ->] ->] ->]. reflexivity.
Qed.

Lemma emb_single_app g1 g2 c r : emb g1 [c] -> emb g2 r -> emb (g1 ++ g2) (c :: r).
Proof.
  intros M1 M2.
  inversion M1 as [|a t0 t1 ks0 ks' r0 r' Hks Hr|a t0 t1 ks0 ks' r0 r' Hks Hr]; subst.
  - inversion Hr; subst. cbn [app]. constructor; assumption.
  - inversion Hr; subst. rewrite app_nil_r. constructor; assumption.
Qed.

Lemma mcall_sound : forall c d l k, mcall c d l k = true ->
  exists g l', emb g [c] /\ l = map ideal (flat_map (history d) g) ++ l' /\ k l' = true.
Proof.
  induction c as [a t0 t1 kids IH] using call_ind'. intros d l k H.
  assert (KM : forall d l k, mforest kids d l k = true ->
               exists g l', emb g kids /\ l = map ideal (flat_map (history d) g) ++ l' /\ k l' = true).
  { clear -IH. induction IH as [|c0 r0 Hc _ IHk]; intros d l k H; cbn [mforest] in H.
    - exists [], l. split; [constructor|]. split; [reflexivity|exact H].
    - destruct (Hc d l _ H) as (g1 & l1 & M1 & E1 & K1).
      destruct (IHk d l1 k K1) as (g2 & l2 & M2 & E2 & K2).
      exists (g1 ++ g2), l2. split; [apply emb_single_app; assumption|]. split; [|exact K2].
      rewrite flat_map_app, map_app, <- app_assoc, <- E2. exact E1. }
  rewrite mcall_unfold in H.
  match type of H with (if ?b then _ else _) = _ => destruct b eqn:A end.
  - destruct l as [|x l1]; [discriminate|].
    destruct (is_rec x UFTRACE_ENTRY a t0 d) eqn:R; [|discriminate].
    apply is_rec_true in R. subst x.
    destruct (KM _ _ _ A) as (gk & l2 & Mk & E2 & K2).
    destruct l2 as [|y l3]; [discriminate|].
    destruct (is_rec y UFTRACE_EXIT a t1 d) eqn:R2; [|discriminate].
    apply is_rec_true in R2. subst y.
    exists [Call a t0 t1 gk], l3. split; [apply emb_keep; [exact Mk|constructor]|]. split; [|exact K2].
    cbn [flat_map history app map]. rewrite app_nil_r, map_app, <- app_assoc. cbn [map app ideal r_time r_type r_depth r_addr type_code].
    unfold ideal at 1. cbn [r_time r_type r_depth r_addr type_code]. rewrite E2. reflexivity.
  - destruct (KM _ _ _ H) as (gk & l2 & Mk & E2 & K2).
    exists gk, l2. split; [|split; assumption].
    rewrite <- (app_nil_r gk). apply emb_drop; [exact Mk|constructor].
Qed.

Theorem ok_emb_sound f l : ok_emb f l = true ->
  exists g, emb g f /\ l = map ideal (flat_map (history 0) g).
Proof.
  unfold ok_emb. generalize 0 as d. revert l.
  assert (G : forall f d l k, mforest f d l k = true ->
              exists g l', emb g f /\ l = map ideal (flat_map (history d) g) ++ l' /\ k l' = true).
  { clear. induction f as [|c r IH]; intros d l k H; cbn [mforest] in H.
    - exists [], l. split; [constructor|]. split; [reflexivity|exact H].
    - destruct (mcall_sound c d l _ H) as (g1 & l1 & M1 & E1 & K1).
      destruct (IH d l1 k K1) as (g2 & l2 & M2 & E2 & K2).
      exists (g1 ++ g2), l2. split; [apply emb_single_app; assumption|]. split; [|exact K2].
      rewrite flat_map_app, map_app, <- app_assoc, <- E2. exact E1. }
  intros l d H. destruct (G f d l _ H) as (g & l' & M & E & K).
  destruct l'; [|discriminate]. rewrite app_nil_r in E. exists g. split; assumption.
Qed.

Lemma no_switch_example :
  no_switch (mkcfg [(1, {| t_filter := Some true; t_depth := Some 2; t_time := None; t_size := None;
                           t_trace_on := false; t_trace_off := false; t_trace := false; t_caller := true; t_loc := None; t_finish := false |});
                    (2, {| t_filter := Some false; t_depth := None; t_time := Some 50; t_size := Some 40;
                           t_trace_on := false; t_trace_off := false; t_trace := true; t_caller := false; t_loc := None; t_finish := false |})]
                   true true 3 10 1024 [] PG).
Proof.
  intro a. unfold mkcfg. cbn [trig_of assoc]. destruct (a =? 1); [split; reflexivity|].
  destruct (a =? 2); split; reflexivity.
Qed.

Theorem ok_emb_exact f l : ok_emb f l = true <-> exists g, emb g f /\ l = map ideal (flat_map (history 0) g).
Proof.
  split; [exact (ok_emb_sound f l)|]. intros (g & M & ->). exact (ok_emb_complete g f M).
Qed.

(* at ANY instant of the run (after any prefix of the thread's history - also where a crash or kill stops it)
   the stream written so far is a list prefix of the flattening of a forest embedded in the history *)
Theorem stream_at_any_instant c : no_switch c -> forall f, all_ended f -> heights f <= max_stack c ->
  forall p q, flat_forest f = p ++ q ->
  exists g l, emb g f /\ out (fst (exec c p (init, []))) ++ l = flat_map (history 0) g.
Proof.
  intros NS f HT Hh p q Hpq.
  destruct (run_forest_emb c NS f HT Hh) as (g & M & E).
  assert (NF : no_fork q) by (apply (no_fork_suffix p); rewrite <- Hpq; apply flat_forest_no_fork).
  destruct (stream_append_only c p q (init, []) NF) as [l Hl].
  exists g, l. split; [exact M|]. rewrite <- E, Hpq. symmetry. exact Hl.
Qed.

(* ---------------------------------------------------------------- the same without the --max-stack bound *)
Theorem nested_any_cfg_any_depth c : no_switch c -> forall f, all_ended f ->
  scan 0 (out (fst (exec c (flat_forest f) (init, [])))) = Some 0.
Proof. intros NS f HT. destruct (forest_over c NS f HT) as (g & _ & E). rewrite E. apply scan_histories. Qed.

Theorem stream_at_any_instant_any_depth c : no_switch c -> forall f, all_ended f ->
  forall p q, flat_forest f = p ++ q ->
  exists g l, emb g f /\ out (fst (exec c p (init, []))) ++ l = flat_map (history 0) g.
Proof.
  intros NS f HT p q Hpq.
  destruct (forest_over c NS f HT) as (g & M & E).
  assert (NF : no_fork q) by (apply (no_fork_suffix p); rewrite <- Hpq; apply flat_forest_no_fork).
  destruct (stream_append_only c p q (init, []) NF) as [l Hl].
  exists g, l. split; [exact M|]. rewrite <- E, Hpq. symmetry. exact Hl.
Qed.

Theorem model_passes_ok_emb_any_depth c : no_switch c -> forall f, all_ended f ->
  ok_emb f (map ideal (out (fst (exec c (flat_forest f) (init, []))))) = true.
Proof. intros NS f HT. destruct (forest_over c NS f HT) as (g & M & E). rewrite E. apply ok_emb_complete. exact M. Qed.
