(* C05: the finish trigger (-T f@finish).

   The thread's stream is the stream of the events before the first entry whose finish trigger fires, followed by
   the pending ENTRY records up to (and including, if it is recorded) the finishing function - nothing after it.
   The trigger fires for every function whose trigger is looked up and that gets a shadow-stack entry; since the
   repair recorded as pg-finish-rejected that is the same set of functions under both instrumentation shapes (the
   code as found skipped a rejected function on the -pg shape: [finish_legacy_refuted]). *)
From Coq Require Import NArith ZArith List Bool Lia.
Import ListNotations.
Require Import UV.Gen.Consts UV.Mcount.Model UV.Mcount.Forest UV.Mcount.Restore.
Local Open Scope N_scope.

Lemma exec_f_app c p q d : exec_f c (p ++ q) d = exec_f c q (exec_f c p d).
Proof. unfold exec_f. apply fold_left_app. Qed.

(* a finished thread records nothing more *)
Lemma exec_f_dead c es s hk : exec_f c es (s, hk, true) = (s, hk, true).
Proof. induction es as [|e r IH]; [reflexivity|]. cbn [exec_f fold_left fstep]. exact IH. Qed.

(* the trigger entry_check hands back is the function's own, or none (inside notrace / beyond the stack limit) *)
Lemma entry_check_tr c s a :
  let '(_, _, tr, _) := entry_check c s a in tr = notrig \/ tr = trig_of c a.
Proof.
  unfold entry_check. destruct (check_rstack c s) as [s1 over].
  destruct over; [left; reflexivity|].
  destruct (out_count (fc s1) >? 0)%Z; [left; reflexivity|].
  match goal with |- context [if ?b then (_, V_OUT, trig_of c a, _) else _] => destruct b end; [right; reflexivity|].
  destruct (loc_out c (trig_of c a)); [right; reflexivity|].
  match goal with |- context [if ?b then _ else _] => destruct b end; right; reflexivity.
Qed.

Lemma no_finish_no_fire c : (forall a, t_finish (trig_of c a) = false) -> forall s a, finish_fires c s a = false.
Proof.
  intros H s a. unfold finish_fires. pose proof (entry_check_tr c s a) as T.
  destruct (entry_check c s a) as [[[s1 v] tr] sv].
  assert (F : t_finish tr = false) by (destruct T as [->| ->]; [reflexivity|apply H]).
  rewrite F. destruct v; reflexivity.
Qed.

(* without a finish trigger in the table the run is the ordinary one *)
Theorem exec_f_nofinish c : (forall a, t_finish (trig_of c a) = false) ->
  forall es s hk, exec_f c es (s, hk, false) = (exec c es (s, hk), false).
Proof.
  intro H. induction es as [|e r IH]; intros s hk; [reflexivity|].
  cbn [exec_f exec fold_left fstep].
  assert (E : fstep c (s, hk, false) e = (dstep c (s, hk) e, false)).
  { cbn [fstep]. destruct e as [a t|t|]; try (destruct (dstep c (s, hk) _) as [s' hk']; reflexivity).
    rewrite (no_finish_no_fire c H). destruct (dstep c (s, hk) (Enter a t)) as [s' hk']. reflexivity. }
  fold (fstep c (s, hk, false) e). rewrite E.
  destruct (dstep c (s, hk) e) as [s' hk']. apply IH.
Qed.

(* finish truncates: after the events [p] without a firing entry, the entry that fires ends the stream; whatever
   follows ([q]) leaves no trace *)
Theorem finish_truncates c p a t q s hk s' hk' :
  exec_f c p (s, hk, false) = (s', hk', false) -> finish_fires c s' a = true ->
  exec_f c (p ++ Enter a t :: q) (s, hk, false) = (finish_enter c s' a t, hk', true).
Proof.
  intros Hp Hf. rewrite exec_f_app, Hp. cbn [exec_f fold_left fstep]. rewrite Hf.
  apply exec_f_dead.
Qed.

(* what the finishing entry writes: ENTRY records only (the pending ones of the open calls, oldest first, then its
   own if it is recorded) - no EXIT, nothing of a call that is not open *)
Lemma flush_anc_entries l : Forall (fun r => r_type r = ENTRY) (snd (flush_anc l)).
Proof.
  induction l as [|p r IH]; [constructor|]. cbn [flush_anc].
  destruct (written (f_flags p)); [constructor|].
  destruct (flush_anc r) as [r' recs]. cbn [snd] in *.
  destruct (skip p); cbn [snd]; [exact IH|].
  apply Forall_app. split; [exact IH|]. constructor; [reflexivity|constructor].
Qed.

Lemma rtd_open_entries top anc : f_end top = 0 ->
  let '(_, _, recs) := record_trace_data top anc in Forall (fun r => r_type r = ENTRY) recs.
Proof.
  intro E. unfold record_trace_data.
  pose proof (flush_anc_entries anc) as FA.
  destruct (written (f_flags top)).
  - cbn [orb]. rewrite E. cbn [N.eqb app]. constructor.
  - destruct (flush_anc anc) as [anc' pre]. cbn [snd] in FA. cbn [orb].
    destruct (skip top).
    + rewrite E. cbn [N.eqb]. rewrite !app_nil_r. exact FA.
    + assert (f_end (set_written top) = 0) as -> by exact E. cbn [N.eqb]. rewrite app_nil_r.
      apply Forall_app. split; [exact FA|]. constructor; [reflexivity|constructor].
Qed.

Lemma entry_record_top_open c s fr tr sv : enabled s = true -> f_end fr = 0 ->
  exists top, stack (entry_record c s fr tr sv) = top :: stack s /\ f_end top = 0 /\ out (entry_record c s fr tr sv) = out s.
Proof.
  intros En E. unfold entry_record. destruct sv as [[[d m] t] z].
  match goal with |- context [if ?b then _ else _] => destruct b end.
  - eexists. cbn [stack out f_end]. auto.
  - rewrite En. eexists. cbn [stack out f_end]. auto.
Qed.

Theorem finish_writes_entries_only c s0 a t :
  exists recs, out (finish_enter c s0 a t) = out (fst (fst (fst (entry_check c s0 a)))) ++ recs /\
               Forall (fun r => r_type r = ENTRY) recs.
Proof.
  unfold finish_enter. destruct (entry_check c s0 a) as [[[s v] tr] sv]. cbn [fst].
  match goal with |- context [entry_record c ?S ?FR tr sv] =>
    destruct (entry_record_top_open c S FR tr sv eq_refl eq_refl) as (top & St & Et & Ot); rewrite St end.
  pose proof (rtd_open_entries top (stack (with_fc s (fc s) true)) Et) as RT.
  destruct (record_trace_data top (stack (with_fc s (fc s) true))) as [[top' anc'] recs].
  exists recs. cbn [out]. split; [reflexivity|exact RT].
Qed.

(* ---------------------------------------------------------------- examples / the code as found *)
(* main{ a{ b } c } with -D 1 and -T a@finish: a is rejected by the depth limit.  The code as found kept no
   shadow-stack entry for a on the -pg shape, so mcount_entry_filter_record never saw the trigger and the whole
   program was recorded, while -finstrument-functions finished at a.  [hooked0]/[fires0] are that behaviour. *)
Definition fin_cfg (sh : shape) : cfg :=
  mkcfg [(1, {| t_filter := None; t_depth := None; t_time := None; t_size := None; t_trace_on := false;
                t_trace_off := false; t_trace := false; t_caller := false; t_loc := None; t_finish := true |})]
        false false 1 0 1024 [] sh.
Definition fin_events : list ev := [Enter 0 100; Enter 1 110; Enter 2 120; Leave 130; Leave 140; Enter 3 150; Leave 160; Leave 200].

Definition fires0 (c : cfg) (s0 : st) (a : N) : bool :=
  let '(_, v, tr, _) := entry_check c s0 a in
  match shp c, v with
  | _, V_RSTACK => false
  | CYG, _ => t_finish tr
  | PG, V_IN => t_finish tr
  | PG, V_OUT => t_finish tr && match t_filter tr, t_depth tr, t_time tr, t_size tr with
                                | None, None, None, None => false | _, _, _, _ => true end
  end.
Definition fstep0 (c : cfg) (d : fstate) (e : ev) : fstate :=
  let '(s, hk, dead) := d in
  if dead then d
  else match e with
       | Enter a t => if fires0 c s a then (finish_enter c s a t, hk, true)
                      else let '(s', hk') := dstep_legacy c (s, hk) e in (s', hk', false)
       | _ => let '(s', hk') := dstep_legacy c (s, hk) e in (s', hk', false)
       end.

Lemma finish_legacy_refuted :
  (* as found: the -pg shape records the whole program (two records: main's ENTRY and EXIT), cygprof stops at a *)
  length (out (fst (fst (fold_left (fstep0 (fin_cfg PG)) fin_events (init, [], false))))) = 2%nat /\
  length (out (fst (fst (fold_left (fstep0 (fin_cfg CYG)) fin_events (init, [], false))))) = 1%nat /\
  (* repaired: both shapes stop at a, leaving main's pending ENTRY *)
  out (fst (fst (exec_f (fin_cfg PG) fin_events (init, [], false)))) =
  out (fst (fst (exec_f (fin_cfg CYG) fin_events (init, [], false)))) /\
  out (fst (fst (exec_f (fin_cfg PG) fin_events (init, [], false)))) =
    [{| r_time := 100; r_type := ENTRY; r_depth := 0; r_addr := 0 |}].
Proof. vm_compute. repeat split; reflexivity. Qed.
