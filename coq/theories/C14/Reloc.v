(* C14 - reading __patchable_function_entries: file addresses, load bias, first-segment p_vaddr *)
From Coq Require Import NArith ZArith List Bool Lia.
Import ListNotations.
Require Import UV.C14.Model.
Local Open Scope Z_scope.

(* repaired code: for EVERY first-segment p_vaddr and every load bias (ET_EXEC: bias 0) the result is the
   list of locations relative to the module's start (map->start = first_vaddr + bias), i.e. in the
   coordinates of the symbol table *)
Theorem read_patchable_loc_correct ei locs rt :
  length locs = ei_n ei ->
  (ei_dyn ei = false -> ei_bias ei = 0) ->
  loaded_section ei locs rt ->
  read_patchable_loc true ei rt = map (fun l => l - ei_first_vaddr ei) locs.
Proof.
  intros Hn Hx L. unfold read_patchable_loc. rewrite <- Hn.
  apply nth_ext with (d := 0) (d' := 0); [now rewrite !map_length, seq_length|].
  rewrite map_length, seq_length. intros i Hi.
  set (f := fun i => rt (section_read_addr true ei + 8 * Z.of_nat i) - ei_base ei).
  set (g := fun l => l - ei_first_vaddr ei).
  rewrite nth_indep with (d' := f 0%nat) by (rewrite map_length, seq_length; exact Hi).
  rewrite map_nth, seq_nth by exact Hi. cbn [plus].
  rewrite nth_indep with (d' := g 0) by (rewrite map_length; exact Hi).
  rewrite map_nth. unfold f, g.
  assert (A : section_read_addr true ei = ei_sh_addr ei + ei_bias ei).
  { unfold section_read_addr, ei_base. destruct (ei_dyn ei) eqn:D; [lia|]. rewrite (Hx eq_refl). lia. }
  rewrite A, (L i Hi). unfold ei_base. lia.
Qed.

(* the code as found is right exactly when it cannot tell the difference: first_vaddr = 0 or ET_EXEC *)
Theorem read_patchable_loc_legacy_same ei rt :
  ei_dyn ei = false \/ ei_first_vaddr ei = 0 ->
  read_patchable_loc false ei rt = read_patchable_loc true ei rt.
Proof.
  intro H. unfold read_patchable_loc. f_equal.
  assert (E : section_read_addr false ei = section_read_addr true ei).
  { unfold section_read_addr, ei_base. destruct H as [-> | ->]; [reflexivity|]. destruct (ei_dyn ei); lia. }
  now rewrite E.
Qed.

(* a PIE linked at image base 0x200000 (lld): the code as found reads 0x200000 bytes behind the section *)
Definition lld_ei : elfinfo :=
  {| ei_dyn := true; ei_sh_addr := 2106016; ei_first_vaddr := 2097152; ei_bias := 93824990838784; ei_n := 2 |}.
Definition lld_locs : list Z := [2103024; 2103040].
Definition lld_rt : Z -> Z :=
  fun a => if a =? 2106016 + 93824990838784 then 2103024 + 93824990838784
           else if a =? 2106016 + 93824990838784 + 8 then 2103040 + 93824990838784 else 0.
Lemma read_patchable_loc_legacy_refuted :
  loaded_section lld_ei lld_locs lld_rt
  /\ read_patchable_loc true lld_ei lld_rt = [5872; 5888]
  /\ read_patchable_loc false lld_ei lld_rt <> [5872; 5888]
  /\ section_read_addr false lld_ei - section_read_addr true lld_ei = ei_first_vaddr lld_ei.
Proof.
  split.
  - intros i Hi. cbn in Hi. destruct i as [|[|i]]; [reflexivity|reflexivity|lia].
  - vm_compute. repeat split; congruence.
Qed.
