(* C14 - locations of __patchable_function_entries that lie in front of a function
   (-fpatchable-function-entry=N,M with M > 0) *)
From Coq Require Import NArith ZArith List Bool Lia.
Require Import ZifyBool.
Import ListNotations.
Require Import UV.C14.Model UV.C14.Proofs UV.C14.Patch.
Local Open Scope N_scope.

Lemma first_some_none {A B} (f : A -> option B) l :
  first_some (map f l) = None -> forall x, In x l -> f x = None.
Proof.
  induction l as [|y l IH]; intros H x I; [destruct I|]. cbn in H.
  destruct (f y) eqn:E; [discriminate|]. destruct I as [<-|I]; [exact E|now apply IH].
Qed.
Lemma first_some_some {A B} (f : A -> option B) l v :
  first_some (map f l) = Some v -> exists x, In x l /\ f x = Some v.
Proof.
  induction l as [|y l IH]; intro H; [discriminate|]. cbn in H.
  destruct (f y) eqn:E.
  - injection H as <-. exists y. split; [now left|exact E].
  - destruct (IH H) as (x & I & Fx). exists x. split; [now right|exact Fx].
Qed.

(* a location becomes a symbol-less ("fake") patch site only if no symbol of the table begins 1..4
   bytes behind it, i.e. only if the five bytes that may be rewritten do not cover a known entry *)
Theorem resolve_none_no_start syms a :
  resolve_target syms a = None ->
  find_sym syms a = None
  /\ forall k, In k [1; 2; 3; 4] -> forall t, find_sym syms (a + k) = Some t -> s_addr t <> a + k.
Proof.
  unfold resolve_target. destruct (find_sym syms a) as [s|] eqn:F; [discriminate|].
  intro H. split; [reflexivity|]. intros k Hk t Ft E.
  pose proof (first_some_none _ _ H k Hk) as S. unfold sym_starting_at in S.
  rewrite Ft in S. rewrite <- E in S. rewrite N.eqb_refl in S. discriminate.
Qed.

(* a location in front of a function stands for that function: the symbol it resolves to begins 1..4
   bytes behind it, so (frame theorem) the bytes at the location itself are never written *)
Theorem resolve_pre_entry syms a s :
  find_sym syms a = None -> resolve_target syms a = Some s ->
  exists k, In k [1; 2; 3; 4] /\ s_addr s = a + k.
Proof.
  unfold resolve_target. intros F H. rewrite F in H.
  destruct (first_some_some _ _ _ H) as (k & Ik & Sk). exists k. split; [exact Ik|].
  unfold sym_starting_at in Sk. destruct (find_sym syms (a + k)) as [t|]; [|discriminate].
  destruct (N.eqb_spec (s_addr t) (a + k)) as [E|E]; [|discriminate]. injection Sk as <-. exact E.
Qed.
Theorem resolve_inside syms a s : find_sym syms a = Some s -> resolve_target syms a = Some s.
Proof. unfold resolve_target. now intros ->. Qed.

(* ---------- the code as found and the repaired code on -fpatchable-function-entry=5,2 / 7,2 ---------- *)
(* two NOPs in front of the entry, three (resp. five) behind it; the section lists the address of the
   first NOP; pattern '*' *)
Definition pe_sym : sym := {| s_addr := 2; s_size := 12; s_type := ST_GLOBAL_FUNC; s_name := [97] |}.
Definition pe_cfg : cfg :=
  {| c_pats := [{| pi_patt := {| pt_type := PGlob; pt_str := [42] |}; pi_mod := []; pi_pos := true; pi_exact := false |}];
     c_lib := [109]; c_so := None; c_ty := DPatchable; c_tramp := 4080; c_min := 0 |}.
Definition pe_mem52 : mem := mem_of 0 ([144; 144] ++ [144; 144; 144; 141; 68; 127; 1; 195] ++ [204; 204; 204; 204; 204; 204; 204; 204]).
Definition pe_mem72 : mem := mem_of 0 ([144; 144] ++ [144; 144; 144; 144; 144; 141; 68; 127; 1; 195] ++ [204; 204; 204; 204; 204; 204; 204; 204]).

(* code as found: the call is written over [0,5): the entry point (address 2) now lies inside it - its
   bytes changed and they are not a call instruction: the program executes garbage (SIGILL/SIGSEGV
   observed end-to-end) *)
Lemma pre_entry_legacy_refuted :
  let m' := fst (patch_patchable_func_matched_legacy O0 pe_cfg [pe_sym] [0] (pe_mem52, stats0)) in
  m' 2 <> pe_mem52 2 /\ rd m' 2 5 <> call_insn 4080 2 /\ rd m' 0 5 = call_insn 4080 0.
Proof. vm_compute. repeat split; congruence. Qed.
(* repaired: the location stands for the function; 5,2 leaves only three NOPs at the entry: untouched;
   7,2 leaves five: the call is written AT the entry and the two NOPs in front stay *)
Example pre_entry_fixed_52 :
  rd (fst (patch_patchable_func_matched O0 pe_cfg [pe_sym] [0] (pe_mem52, stats0))) 0 18 = rd pe_mem52 0 18.
Proof. vm_compute. reflexivity. Qed.
Example pre_entry_fixed_72 :
  let m' := fst (patch_patchable_func_matched O0 pe_cfg [pe_sym] [0] (pe_mem72, stats0)) in
  rd m' 2 5 = call_insn 4080 2 /\ rd m' 0 2 = [144; 144] /\ rd m' 7 5 = rd pe_mem72 7 5.
Proof. vm_compute. repeat split. Qed.
