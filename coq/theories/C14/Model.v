(* C14 - model of dynamic patching: libmcount/dynamic.c (parse_pattern_list, match_pattern_list,
   skip_sym, patch_patchable_func_matched, patch_normal_func_matched, mcount_freeze_code) and
   arch/x86_64/mcount-dynamic.c (mcount_setup_trampoline, mcount_cleanup_trampoline,
   patch_fentry_code, unpatch_func, mcount_patch_func, mcount_unpatch_func) for the patch
   methods of this build (no capstone): __patchable_function_entries and fentry NOPs.

   Strings are byte lists.  Addresses are relative to the module's load address map->start
   (page aligned).  Code memory is a window of bytes [m_base, m_base + length m_data).
   libc pattern matching (regcomp/regexec, fnmatch with bracket expressions) is an oracle.
   NO proofs in this file.                                                                    *)
From Coq Require Import NArith ZArith List Bool.
Import ListNotations.
Local Open Scope N_scope.

Definition bytes := list N.

Fixpoint bytes_eqb (a b : bytes) : bool :=
  match a, b with
  | [], [] => true
  | x :: a', y :: b' => (x =? y) && bytes_eqb a' b'
  | _, _ => false
  end.
(* strncmp(s, p, strlen(p)) == 0 *)
Fixpoint prefixb (p s : bytes) : bool :=
  match p, s with
  | [], _ => true
  | _ :: _, [] => false
  | x :: p', y :: s' => (x =? y) && prefixb p' s'
  end.
Definition memb (c : N) (l : bytes) : bool := existsb (N.eqb c) l.

(* uftrace_basename: after the last '/' *)
Fixpoint basename_aux (s acc : bytes) : bytes :=
  match s with
  | [] => acc
  | c :: r => if c =? 47 then basename_aux r r else basename_aux r acc
  end.
Definition basename (s : bytes) : bytes := basename_aux s s.

(* ------------------------------------------------------------------ patterns *)
Inductive ptype := PSimple | PRegex | PGlob.
Record patt := { pt_type : ptype; pt_str : bytes }.
(* pi_exact: no "@module" was given - the default module (the main executable's file name) must be
   the module's name, not just a prefix of it (after "fix: dynamic: a pattern without @module ...") *)
Record pitem := { pi_patt : patt; pi_mod : bytes; pi_pos : bool; pi_exact : bool }.

Record oracle := {
  o_regcomp : bytes -> bool;            (* regcomp(REG_NOSUB|REG_EXTENDED) succeeds *)
  o_regexec : bytes -> bytes -> bool;   (* regexec(pattern, name) == 0 *)
  o_fnmatch : bytes -> bytes -> bool    (* fnmatch(pattern, name, 0) == 0, patterns with [ or \ *)
}.

(* ".?*+-^$|()[]{}" *)
Definition REGEX_CHARS : bytes := [46; 63; 42; 43; 45; 94; 36; 124; 40; 41; 91; 93; 123; 125].
Definition str_operator : bytes := [111; 112; 101; 114; 97; 116; 111; 114; 32].   (* "operator " *)

Definition init_filter_pattern (O : oracle) (t : ptype) (s : bytes) : patt :=
  if negb (existsb (fun c => memb c REGEX_CHARS) s) then {| pt_type := PSimple; pt_str := s |}
  else match t with
       | PRegex => if prefixb str_operator s then {| pt_type := PSimple; pt_str := s |}
                   else if o_regcomp O s then {| pt_type := PRegex; pt_str := s |}
                   else {| pt_type := PSimple; pt_str := s |}
       | _ => {| pt_type := t; pt_str := s |}
       end.

(* fnmatch(p, s, 0) for patterns made of literals, '*' and '?' *)
Fixpoint glob (p s : bytes) {struct p} : bool :=
  match p with
  | [] => match s with [] => true | _ => false end
  | c :: p' =>
      if c =? 42 then
        (fix star (s : bytes) : bool :=
           glob p' s || match s with [] => false | _ :: s' => star s' end) s
      else match s with
           | [] => false
           | d :: s' => ((c =? 63) || (c =? d)) && glob p' s'
           end
  end.
Definition glob_plain (p : bytes) : bool := negb (existsb (fun c => memb c [91; 92]) p).

Definition matches (O : oracle) (p : patt) (name : bytes) : bool :=
  match pt_type p with
  | PSimple => bytes_eqb (pt_str p) name
  | PRegex => o_regexec O (pt_str p) name
  | PGlob => if glob_plain (pt_str p) then glob (pt_str p) name else o_fnmatch O (pt_str p) name
  end.

(* strv_split(str, ";") *)
Fixpoint split_semi (s cur : bytes) : list bytes :=
  match s with
  | [] => [rev cur]
  | c :: r => if c =? 59 then rev cur :: split_semi r [] else split_semi r (c :: cur)
  end.
(* strchr(name, '@'): text before the first '@', and what follows it *)
Fixpoint split_at (s : bytes) : bytes * option bytes :=
  match s with
  | [] => ([], None)
  | c :: r => if c =? 64 then ([], Some r)
              else let '(a, b) := split_at r in (c :: a, b)
  end.

Definition parse_item (O : oracle) (def_mod : bytes) (t : ptype) (name : bytes) : pitem :=
  let '(pos, name1) := match name with
                       | c :: r => if c =? 33 then (false, r) else (true, name)
                       | [] => (true, name)
                       end in
  let '(pat, modopt) := split_at name1 in
  {| pi_patt := init_filter_pattern O t pat;
     pi_mod := match modopt with Some m => m | None => def_mod end;
     pi_pos := pos;
     pi_exact := match modopt with Some _ => false | None => true end |}.

Definition parse_pattern_list (O : oracle) (patch_funcs def_mod : bytes) (t : ptype) : list pitem :=
  map (parse_item O def_mod t) (split_semi patch_funcs []).

(* the module test of match_pattern_list / match_pattern_module: a given "@module" is a prefix of
   basename(map->libname) or of the soname; the default module must be equal to one of them.
   [mod_applies_legacy]: the code as found compared the default module as a prefix too. *)
Definition mod_applies_gen (exact : bool) (lib : bytes) (so : option bytes) (m : bytes) : bool :=
  let cmp := if exact then bytes_eqb else prefixb in
  cmp m (basename lib) || match so with Some s => cmp m s | None => false end.
Definition mod_applies (lib : bytes) (so : option bytes) (p : pitem) : bool :=
  mod_applies_gen (pi_exact p) lib so (pi_mod p).
Definition mod_applies_legacy (lib : bytes) (so : option bytes) (p : pitem) : bool :=
  mod_applies_gen false lib so (pi_mod p).

Definition item_hits (O : oracle) (lib : bytes) (so : option bytes) (name : bytes) (p : pitem) : bool :=
  mod_applies lib so p && matches O (pi_patt p) name.

(* match_pattern_list: the loop overwrites ret at every hit *)
Definition match_pattern_list (O : oracle) (pl : list pitem) (lib : bytes) (so : option bytes)
           (name : bytes) : Z :=
  fold_left (fun ret p => if item_hits O lib so name p then (if pi_pos p then 1 else -1)%Z else ret)
            pl 0%Z.

(* match_pattern_module (mcount_dynamic_dlopen): a dlopen()ed library is looked at only if some
   pattern's module is a prefix of its file name or soname *)
Definition match_pattern_module (pl : list pitem) (path : bytes) (so : option bytes) : bool :=
  existsb (fun p => mod_applies path so p) pl.

(* the command line: -P x  appends "x", -U x appends "!x", joined by ';' (uftrace.c) *)
Inductive cliopt := OptP (arg : bytes) | OptU (arg : bytes).
Definition render_opt (o : cliopt) : bytes :=
  match o with OptP a => a | OptU a => 33 :: a end.
Fixpoint render_opts (l : list cliopt) : bytes :=
  match l with
  | [] => []
  | [o] => render_opt o
  | o :: r => render_opt o ++ 59 :: render_opts r
  end.

(* ------------------------------------------------------------------ code memory *)
(* address (relative to map->start) -> byte *)
Definition mem := N -> N.

Definition rd (m : mem) (a : N) (len : nat) : bytes := map (fun i => m (a + N.of_nat i)) (seq 0 len).
Definition in_span (a : N) (len : N) (x : N) : bool := (a <=? x) && (x <? a + len).
Definition wr (m : mem) (a : N) (v : bytes) : mem :=
  fun x => if in_span a (N.of_nat (length v)) x then nth (N.to_nat (x - a)) v 0 else m x.

Definition endbr64 : bytes := [243; 15; 30; 250].                  (* f3 0f 1e fa *)
Definition fentry_nop_patt1 : bytes := [103; 15; 31; 4; 0].        (* 67 0f 1f 04 00 *)
Definition fentry_nop_patt2 : bytes := [15; 31; 68; 0; 0].         (* 0f 1f 44 00 00 *)
Definition patchable_gcc_nop : bytes := [144; 144; 144; 144; 144]. (* 90 x 5 *)
Definition patchable_clang_nop : bytes := [15; 31; 68; 0; 8].      (* 0f 1f 44 00 08 *)
Definition nop_sigs : list bytes :=
  [patchable_gcc_nop; patchable_clang_nop; fentry_nop_patt1; fentry_nop_patt2].
Definition is_nop_sig (b : bytes) : bool := existsb (bytes_eqb b) nop_sigs.

Definition CALL_INSN_SIZE : N := 5.

Fixpoint le_bytes (n : nat) (v : Z) : bytes :=
  match n with
  | O => []
  | S n' => Z.to_N (v mod 256) :: le_bytes n' (v / 256)
  end.
Fixpoint le_val (b : bytes) : Z :=
  match b with
  | [] => 0
  | x :: r => Z.of_N x + 256 * le_val r
  end%Z.

Inductive res := Success | Failed | Skipped.
Definition res_eqb (a b : res) : bool :=
  match a, b with Success, Success | Failed, Failed | Skipped, Skipped => true | _, _ => false end.

(* address of the instruction patch_fentry_code looks at: after an endbr64 if there is one *)
Definition entry_of (m : mem) (addr : N) : N :=
  if bytes_eqb (rd m addr 4) endbr64 then addr + 4 else addr.

(* (unsigned int)(mdi->trampoline - (insn + CALL_INSN_SIZE)) *)
Definition rel32 (tramp : Z) (insn : N) : Z := ((tramp - (Z.of_N insn + 5)) mod 4294967296)%Z.
Definition call_insn (tramp : Z) (insn : N) : bytes := 232 :: le_bytes 4 (rel32 tramp insn).

Definition patch_fentry_code (tramp : Z) (m : mem) (addr : N) : mem * res :=
  let e := entry_of m addr in
  if is_nop_sig (rd m e 5) then
    if (rel32 tramp e =? 0)%Z then (m, Skipped)
    else (wr m e (call_insn tramp e), Success)
  else (m, Skipped).

Inductive dyntype := DNone | DPg | DFentry | DFentryNop | DXray | DPatchable.

Record sym := { s_addr : N; s_size : N; s_type : N; s_name : bytes }.

Definition eff_min_size (min_size : N) : N := N.max min_size (CALL_INSN_SIZE + 1).

(* mcount_patch_func.  DNone: disasm_check_insns of a build without capstone fails.
   DXray is outside this model (treated like the types that are never patched). *)
Definition mcount_patch_func (ty : dyntype) (tramp : Z) (min_size : N) (m : mem) (s : sym) : mem * res :=
  if s_size s <? eff_min_size min_size then (m, Skipped)
  else match ty with
       | DFentryNop | DPatchable => patch_fentry_code tramp m (s_addr s)
       | DNone => (m, Failed)
       | _ => (m, Skipped)
       end.

Definition nop5 : bytes := [15; 31; 68; 0; 0].
Definition nop6 : bytes := [102; 15; 31; 68; 0; 0].
Definition unpatch_func (m : mem) (addr : N) : mem * res :=
  if m addr =? 232 then (wr m addr nop5, Success)
  else if (m addr =? 255) && (m (addr + 1) =? 21) then (wr m addr nop6, Success)
  else (m, Skipped).
(* mcount_unpatch_func; DPg (needs __mcount_loc) is outside this model *)
Definition mcount_unpatch_func (ty : dyntype) (m : mem) (s : sym) : mem * res :=
  match ty with
  | DFentry | DPatchable => unpatch_func m (s_addr s)
  | _ => (m, Skipped)
  end.

(* ------------------------------------------------------------------ the per-module loops *)
Definition n_start : bytes := [95; 115; 116; 97; 114; 116].                                   (* _start *)
Definition n_csu_init : bytes := [95; 95; 108; 105; 98; 99; 95; 99; 115; 117; 95; 105; 110; 105; 116].
Definition n_csu_fini : bytes := [95; 95; 108; 105; 98; 99; 95; 99; 115; 117; 95; 102; 105; 110; 105].
Definition ST_LOCAL_FUNC : N := 116.   (* 't' *)
Definition ST_GLOBAL_FUNC : N := 84.   (* 'T' *)
Definition ST_WEAK_FUNC : N := 119.    (* 'w' *)
Definition skip_sym (s : sym) : bool :=
  bytes_eqb (s_name s) n_start || bytes_eqb (s_name s) n_csu_init || bytes_eqb (s_name s) n_csu_fini
  || negb ((s_type s =? ST_LOCAL_FUNC) || (s_type s =? ST_GLOBAL_FUNC) || (s_type s =? ST_WEAK_FUNC)).

Record stats := { st_total : N; st_failed : N; st_skipped : N; st_nomatch : N }.
Definition stats0 : stats := {| st_total := 0; st_failed := 0; st_skipped := 0; st_nomatch := 0 |}.
Definition stats_eqb (a b : stats) : bool :=
  (st_total a =? st_total b) && (st_failed a =? st_failed b) && (st_skipped a =? st_skipped b)
  && (st_nomatch a =? st_nomatch b).

Record cfg := {
  c_pats : list pitem;
  c_lib : bytes;            (* map->libname *)
  c_so : option bytes;      (* get_soname(map->libname) *)
  c_ty : dyntype;
  c_tramp : Z;              (* mdi->trampoline, relative to map->start *)
  c_min : N                 (* min_size *)
}.

Definition decision (O : oracle) (c : cfg) (s : sym) : Z :=
  match_pattern_list O (c_pats c) (c_lib c) (c_so c) (s_name s).

(* body of both loops once a symbol got through skip_sym *)
Definition visit (O : oracle) (c : cfg) (st : mem * stats) (s : sym) : mem * stats :=
  let '(m, k) := st in
  let d := decision O c s in
  if (d =? 0)%Z then st
  else if (d =? 1)%Z then
    let '(m', r) := mcount_patch_func (c_ty c) (c_tramp c) (c_min c) m s in
    (m', {| st_total := st_total k + 1;
            st_failed := st_failed k + (if res_eqb r Failed then 1 else 0);
            st_skipped := st_skipped k + (if res_eqb r Skipped then 1 else 0);
            st_nomatch := st_nomatch k |})
  else (fst (mcount_unpatch_func (c_ty c) m s), k).

Definition patch_normal_func_matched (O : oracle) (c : cfg) (syms : list sym) (st : mem * stats)
  : mem * stats :=
  let '(m, k) := fold_left (fun st s => if skip_sym s then st else visit O c st s) syms st in
  (m, if existsb (fun s => negb (skip_sym s)) syms then k
      else {| st_total := st_total k; st_failed := st_failed k; st_skipped := st_skipped k;
              st_nomatch := st_nomatch k + 1 |}).

(* find_sym: the symbol whose [addr, addr+size) contains a (table sorted, ranges disjoint);
   the dummy end-markers are never generated *)
Definition find_sym (syms : list sym) (a : N) : option sym :=
  find (fun s => (s_addr s <=? a) && (a <? s_addr s + s_size s)) syms.

(* "<%lx>" *)
Definition hex_digit (d : N) : N := if d <? 10 then 48 + d else 87 + d.
Fixpoint hex_aux (fuel : nat) (n : N) (acc : bytes) : bytes :=
  match fuel with
  | O => acc
  | S f => let acc' := hex_digit (n mod 16) :: acc in
           if n / 16 =? 0 then acc' else hex_aux f (n / 16) acc'
  end.
Definition hex (n : N) : bytes := hex_aux 16 n [].
Definition UINT_MAX : N := 4294967295.
Definition fake_sym (a : N) : sym :=
  {| s_addr := a; s_size := UINT_MAX; s_type := 0; s_name := 60 :: hex a ++ [62] |}.

(* which symbol a location of __patchable_function_entries stands for.  The symbol containing it; else
   (after "fix: dynamic: a patchable location in front of a function ...") the symbol that begins 1..4
   bytes behind it (-fpatchable-function-entry=N,M records the location M bytes before the entry);
   None = no symbol: a fake one named after the address.
   [resolve_target_legacy]: the code as found went straight to the fake symbol. *)
Definition sym_starting_at (syms : list sym) (a : N) : option sym :=
  match find_sym syms a with
  | Some s => if s_addr s =? a then Some s else None
  | None => None
  end.
Fixpoint first_some {A} (l : list (option A)) : option A :=
  match l with
  | [] => None
  | Some x :: _ => Some x
  | None :: r => first_some r
  end.
Definition resolve_target_legacy (syms : list sym) (a : N) : option sym := find_sym syms a.
Definition resolve_target (syms : list sym) (a : N) : option sym :=
  match find_sym syms a with
  | Some s => Some s
  | None => first_some (map (fun k => sym_starting_at syms (a + k)) [1; 2; 3; 4])
  end.

Definition patchable_loop (resolve : list sym -> N -> option sym) (O : oracle) (c : cfg) (syms : list sym)
           (targets : list N) (st : mem * stats) : mem * stats :=
  let step (acc : mem * stats * bool) (a : N) :=
    let '(st, found) := acc in
    match resolve syms a with
    | None => (visit O c st (fake_sym a), true)
    | Some s => if skip_sym s then acc else (visit O c st s, true)
    end in
  let '(m, k, found) := fold_left step targets (st, false) in
  (m, if found then k
      else {| st_total := st_total k; st_failed := st_failed k; st_skipped := st_skipped k;
              st_nomatch := st_nomatch k + 1 |}).
Definition patch_patchable_func_matched := patchable_loop resolve_target.
Definition patch_patchable_func_matched_legacy := patchable_loop resolve_target_legacy.

Definition patch_func_matched (O : oracle) (c : cfg) (syms : list sym) (targets : list N)
           (st : mem * stats) : mem * stats :=
  match c_ty c with
  | DPatchable => patch_patchable_func_matched O c syms targets st
  | _ => patch_normal_func_matched O c syms st
  end.

(* ------------------------------------------------------------------ page permissions *)
Inductive perm := Unmapped | P_NONE | P_R | P_RW | P_RX | P_RWX.
Definition perm_eqb (a b : perm) : bool :=
  match a, b with
  | Unmapped, Unmapped | P_NONE, P_NONE | P_R, P_R | P_RW, P_RW | P_RX, P_RX | P_RWX, P_RWX => true
  | _, _ => false
  end.
Definition writable (p : perm) : bool := match p with P_RW | P_RWX => true | _ => false end.
Definition pmap := Z -> perm.                 (* page number -> permission *)
Local Open Scope Z_scope.
Definition PAGE_SIZE : Z := 4096.
Definition page_of (a : Z) : Z := a / PAGE_SIZE.
Definition align_up (a : Z) : Z := ((a + PAGE_SIZE - 1) / PAGE_SIZE) * PAGE_SIZE.

(* pages an mprotect(PAGE_ADDR(a), PAGE_LEN(a, l), ...) call covers (the kernel rounds the length up) *)
Definition in_range (a l : Z) (pg : Z) : bool :=
  (0 <? l) && (page_of a <=? pg) && (pg <=? page_of (a + l - 1)).
(* mprotect is assumed to succeed (every page of a module's text is mapped) *)
Definition mprotect (pm : pmap) (a l : Z) (p : perm) : pmap :=
  fun pg => if in_range a l pg then p else pm pg.
Definition set_page (pm : pmap) (pg0 : Z) (p : perm) : pmap :=
  fun pg => if pg =? pg0 then p else pm pg.

Record mdi := { d_text_addr : Z; d_text_size : Z; d_tramp : Z; d_ty : dyntype }.

(* mcount_setup_trampoline: None = pr_err (the process exits) *)
Definition setup_trampoline (pm : pmap) (d : mdi) : option (pmap * mdi) :=
  let tsz := match d_ty d with DXray => 32 | _ => 16 end in
  let tend := d_text_addr d + d_text_size d in
  let t0 := align_up tend - tsz in
  if t0 <? tend then
    let t := t0 + tsz in
    let d' := {| d_text_addr := d_text_addr d; d_text_size := d_text_size d + PAGE_SIZE;
                 d_tramp := t; d_ty := d_ty d |} in
    match pm (page_of t) with
    | Unmapped =>                        (* mmap(MAP_FIXED_NOREPLACE) of one fresh rwx page *)
        let pm1 := set_page pm (page_of t) P_RWX in
        Some (mprotect pm1 (d_text_addr d') (d_text_size d') P_RWX, d')
    | _ => None
    end
  else
    let d' := {| d_text_addr := d_text_addr d; d_text_size := d_text_size d;
                 d_tramp := t0; d_ty := d_ty d |} in
    Some (mprotect pm (d_text_addr d) (d_text_size d) P_RWX, d').

Definition cleanup_trampoline (pm : pmap) (d : mdi) : pmap :=
  mprotect pm (d_text_addr d) (d_text_size d) P_RX.

(* [fixed = false]: the code as found - a failed mmap of the trampoline page is a pr_err.
   [fixed = true]: proposed-fixes/C14-1.diff - undo and return -1, the module stays unpatched. *)
Inductive setup_res := SetupOk (pm : pmap) (d : mdi) | SetupFail | SetupFatal.
Definition setup_trampoline_v (fixed : bool) (pm : pmap) (d : mdi) : setup_res :=
  match setup_trampoline pm d with
  | Some (pm1, d1) => SetupOk pm1 d1
  | None => if fixed then SetupFail else SetupFatal
  end.

(* jmpq *0x1(%rip) ; int3 ; .quad target *)
Definition trampoline_head : bytes := [62; 255; 37; 1; 0; 0; 0; 204]%N.
Definition trampoline_bytes (target : Z) : bytes := trampoline_head ++ le_bytes 8 target.

(* code pages of mcount_save_code / mcount_freeze_code: (first page number, frozen) *)
Definition CODE_CHUNK_PAGES : Z := 8.
Record code_page := { cp_page : Z; cp_frozen : bool; cp_pos : Z }.
Definition chunk_range (pm : pmap) (pg0 : Z) (p : perm) : pmap :=
  fun pg => if (pg0 <=? pg) && (pg <? pg0 + CODE_CHUNK_PAGES) then p else pm pg.
Definition alloc_codepage (pm : pmap) (cps : list code_page) (pg0 : Z) : pmap * list code_page :=
  (chunk_range pm pg0 P_RWX, cps ++ [{| cp_page := pg0; cp_frozen := false; cp_pos := 0 |}]).
Definition freeze_code (pm : pmap) (cps : list code_page) : pmap * list code_page :=
  (fold_left (fun pm cp => if cp_frozen cp then pm else chunk_range pm (cp_page cp) P_RX) cps pm,
   map (fun cp => {| cp_page := cp_page cp; cp_frozen := true; cp_pos := cp_pos cp |}) cps).

(* mcount_save_code seen from the page table: a new chunk when there is none, when the last one
   is full or when it is frozen; [fresh] is where mmap puts a new chunk.  psz = patch_size. *)
Definition CODE_CHUNK : Z := CODE_CHUNK_PAGES * PAGE_SIZE.
Definition bump_last (cps : list code_page) (psz : Z) : list code_page :=
  match rev cps with
  | [] => []
  | cp :: r => rev r ++ [{| cp_page := cp_page cp; cp_frozen := cp_frozen cp; cp_pos := cp_pos cp + psz |}]
  end.
Definition save_code (pm : pmap) (cps : list code_page) (fresh : Z) (psz : Z) : pmap * list code_page :=
  let need := match rev cps with
              | [] => true
              | cp :: _ => (CODE_CHUNK <? cp_pos cp + psz) || cp_frozen cp
              end in
  let '(pm1, cps1) := if need then alloc_codepage pm cps fresh else (pm, cps) in
  (pm1, bump_last cps1 psz).
Definition align32 (n : Z) : Z := ((n + 31) / 32) * 32.

(* do_dynamic_update + freeze_dynamic_update seen from the page table: every module that gets
   patched is set up (text rwx), patched, and at the end every module is cleaned up (text r-x)
   and the code pages are frozen.  None = a pr_err on the way. *)
Fixpoint setup_all (pm : pmap) (ds : list mdi) : option (pmap * list mdi) :=
  match ds with
  | [] => Some (pm, [])
  | d :: r => match setup_trampoline pm d with
              | None => None
              | Some (pm1, d1) => match setup_all pm1 r with
                                  | None => None
                                  | Some (pm2, r2) => Some (pm2, d1 :: r2)
                                  end
              end
  end.
Definition cleanup_all (pm : pmap) (ds : list mdi) : pmap := fold_left cleanup_trampoline ds pm.

Definition dynamic_update_pages (pm : pmap) (ds : list mdi) (cps : list code_page) (new_chunks : list Z)
  : option (pmap * list mdi * list code_page) :=
  match setup_all pm ds with
  | None => None
  | Some (pm1, ds1) =>
      let '(pm2, cps2) := fold_left (fun st pg0 => alloc_codepage (fst st) (snd st) pg0) new_chunks (pm1, cps) in
      let pm3 := cleanup_all pm2 ds1 in
      let '(pm4, cps4) := freeze_code pm3 cps2 in
      Some (pm4, ds1, cps4)
  end.

Definition touched (ds : list mdi) (cps : list code_page) (pg : Z) : bool :=
  existsb (fun d => in_range (d_text_addr d) (d_text_size d) pg) ds
  || existsb (fun cp => negb (cp_frozen cp) && (cp_page cp <=? pg) && (pg <? cp_page cp + CODE_CHUNK_PAGES)) cps.
Local Close Scope Z_scope.

(* ------------------------------------------------------------------ specification side *)
(* last element of the list that hits, by an independent formulation (search from the end) *)
Definition last_hit (O : oracle) (pl : list pitem) (lib : bytes) (so : option bytes) (name : bytes)
  : option pitem := find (item_hits O lib so name) (rev pl).
Definition polarity (o : option pitem) : Z :=
  match o with Some p => if pi_pos p then 1%Z else (-1)%Z | None => 0%Z end.
Definition spec_decision (O : oracle) (c : cfg) (s : sym) : Z :=
  polarity (last_hit O (c_pats c) (c_lib c) (c_so c) (s_name s)).

(* "the function can be patched": big enough and its entry is one of the four NOP forms *)
Definition patchable (c : cfg) (m : mem) (s : sym) : bool :=
  negb (s_size s <? eff_min_size (c_min c))
  && match c_ty c with DFentryNop | DPatchable => true | _ => false end
  && is_nop_sig (rd m (entry_of m (s_addr s)) 5).

(* decode "e8 rel32" at insn: target of the call (rel32 sign-extended, 64-bit wrap) *)
Definition sext32 (v : Z) : Z := (if v <? 2147483648 then v else v - 4294967296)%Z.
Definition call_target (insn : N) (code : bytes) : option Z :=
  match code with
  | [op; b0; b1; b2; b3] =>
      if op =? 232 then Some ((Z.of_N insn + 5 + sext32 (le_val [b0; b1; b2; b3])) mod 18446744073709551616)%Z
      else None
  | _ => None
  end.

(* symbols the loops get to (after skip_sym): every function symbol of the table, or (patchable
   section) the symbol each listed address falls into / a fake one for a symbol-less address *)
Definition visited (c : cfg) (syms : list sym) (targets : list N) : list sym :=
  match c_ty c with
  | DPatchable => flat_map (fun a => match resolve_target syms a with
                                     | Some s => if skip_sym s then [] else [s]
                                     | None => [fake_sym a]
                                     end) targets
  | _ => filter (fun s => negb (skip_sym s)) syms
  end.

(* what the property allows to happen to one visited symbol, judged on the memory BEFORE the update:
   Some (address, new bytes) or None = byte-for-byte untouched *)
Definition spec_change (O : oracle) (c : cfg) (m : mem) (s : sym) : option (N * bytes) :=
    let d := spec_decision O c s in
    if (d =? 1)%Z then
      let e := entry_of m (s_addr s) in
      if patchable c m s && negb (rel32 (c_tramp c) e =? 0)%Z then Some (e, call_insn (c_tramp c) e) else None
    else if (d =? -1)%Z then
      match c_ty c with
      | DFentry | DPatchable =>          (* a call at the very start is turned back into a NOP *)
          if m (s_addr s) =? 232 then Some (s_addr s, nop5)
          else if (m (s_addr s) =? 255) && (m (s_addr s + 1) =? 21) then Some (s_addr s, nop6)
          else None
      | _ => None
      end
    else None.

Fixpoint changes (O : oracle) (c : cfg) (m : mem) (vis : list sym) : list (N * bytes) :=
  match vis with
  | [] => []
  | s :: r => match spec_change O c m s with
              | Some ch => ch :: changes O c m r
              | None => changes O c m r
              end
  end.
Fixpoint apply_changes (m : mem) (chs : list (N * bytes)) (a : N) : N :=
  match chs with
  | [] => m a
  | (e, code) :: r => if in_span e (N.of_nat (length code)) a then nth (N.to_nat (a - e)) code 0
                      else apply_changes m r a
  end.
Definition expect (O : oracle) (c : cfg) (m : mem) (vis : list sym) : mem :=
  apply_changes m (changes O c m vis).

(* the layout hypothesis of the exactness theorem, as a decision procedure (used by the tie to count
   how many generated cases lie inside the theorem's domain) *)
Definition has_endbr (m : mem) (s : sym) : bool := bytes_eqb (rd m (s_addr s) 4) endbr64.
Definition in_sym (s : sym) (a : N) : bool := in_span (s_addr s) (s_size s) a.
Definition ranges_overlap (s t : sym) : bool :=
  (s_addr s <? s_addr t + s_size t) && (s_addr t <? s_addr s + s_size s).
Fixpoint ranges_disjointb (vis : list sym) : bool :=
  match vis with
  | [] => true
  | s :: r => forallb (fun t => negb (ranges_overlap s t)) r && ranges_disjointb r
  end.
Definition layout_okb (O : oracle) (c : cfg) (m : mem) (vis : list sym) : bool :=
  ranges_disjointb vis
  && forallb (fun s => (negb (has_endbr m s) || (9 <=? s_size s))
                       && (negb (spec_decision O c s =? -1)%Z || (6 <=? s_size s))) vis.

(* executable property checker for an observed update: before/after byte windows at [base, base+len) *)
(* (the upper bound keeps N.to_nat small when the checker executes a stray jump to a far address) *)
Definition mem_of (base : N) (l : bytes) : mem :=
  fun a => if (base <=? a) && (a <? base + N.of_nat (length l)) then nth (N.to_nat (a - base)) l 0 else 0.
Definition window (m : mem) (base : N) (len : nat) : bytes := rd m base len.
Definition ok_update (O : oracle) (c : cfg) (syms : list sym) (targets : list N) (base : N)
           (before after : bytes) : bool :=
  let chs := changes O c (mem_of base before) (visited c syms targets) in
  Nat.eqb (length before) (length after)
  && bytes_eqb after (window (apply_changes (mem_of base before) chs) base (length before)).

(* page side of the property: after the update no page is writable that was not writable before,
   text pages and pages added by uftrace are r-x *)
Definition ok_pages (ds : list mdi) (cps : list code_page) (before after : pmap) (pages : list Z) : bool :=
  forallb (fun pg => if touched ds cps pg then perm_eqb (after pg) P_RX
                     else perm_eqb (after pg) (before pg)) pages.

(* ------------------------------------------------------------------ executing a function entry *)
(* A three-instruction machine, just enough to say what a patched entry does when it is executed:
   the 5-byte NOP forms, `call rel32`, the trampoline's `jmp *1(%rip)`, and __fentry__ as an oracle
   step that returns to the address on top of the stack with everything else preserved (that it does so
   is property C01's subject).  Stack slots are 8-byte words addressed by their address. *)
Record mstate := { st_rip : Z; st_rsp : Z; st_stk : Z -> Z }.
Inductive insn := INop5 | ICall (target : Z) | IJmpInd (target : Z) | IOther.
Definition decode (m : mem) (rip : Z) : insn :=
  let a := Z.to_N rip in
  if is_nop_sig (rd m a 5) then INop5
  else match call_target a (rd m a 5) with
       | Some t => ICall t
       | None => if bytes_eqb (rd m a 8) trampoline_head then IJmpInd (le_val (rd m (a + 8) 8)) else IOther
       end.
Definition step (m : mem) (fentry : Z) (s : mstate) : option mstate :=
  if (st_rip s =? fentry)%Z then
    Some {| st_rip := st_stk s (st_rsp s); st_rsp := (st_rsp s + 8)%Z; st_stk := st_stk s |}
  else match decode m (st_rip s) with
       | INop5 => Some {| st_rip := (st_rip s + 5)%Z; st_rsp := st_rsp s; st_stk := st_stk s |}
       | ICall t => Some {| st_rip := t; st_rsp := (st_rsp s - 8)%Z;
                            st_stk := fun a => if (a =? st_rsp s - 8)%Z then (st_rip s + 5)%Z else st_stk s a |}
       | IJmpInd t => Some {| st_rip := t; st_rsp := st_rsp s; st_stk := st_stk s |}
       | IOther => None
       end.
Fixpoint steps (n : nat) (m : mem) (fentry : Z) (s : mstate) : option mstate :=
  match n with
  | O => Some s
  | S n' => match step m fentry s with Some s' => steps n' m fentry s' | None => None end
  end.

(* ------------------------------------------------------------------ correspondence cases *)
Fixpoint assoc1 (tbl : list (bytes * bool)) (p : bytes) : bool :=
  match tbl with
  | [] => false
  | (p', b) :: r => if bytes_eqb p p' then b else assoc1 r p
  end.
Fixpoint assoc2 (tbl : list (bytes * bytes * bool)) (p n : bytes) : bool :=
  match tbl with
  | [] => false
  | (p', n', b) :: r => if bytes_eqb p p' && bytes_eqb n n' then b else assoc2 r p n
  end.
Definition mk_oracle (regok : list (bytes * bool)) (tbl : list (bytes * bytes * bool)) : oracle :=
  {| o_regcomp := assoc1 regok; o_regexec := assoc2 tbl; o_fnmatch := assoc2 tbl |}.

Definition ptype_eqb (a b : ptype) : bool :=
  match a, b with PSimple, PSimple | PRegex, PRegex | PGlob, PGlob => true | _, _ => false end.
Definition pitem_eqb (a b : pitem) : bool :=
  ptype_eqb (pt_type (pi_patt a)) (pt_type (pi_patt b)) && bytes_eqb (pt_str (pi_patt a)) (pt_str (pi_patt b))
  && bytes_eqb (pi_mod a) (pi_mod b) && Bool.eqb (pi_pos a) (pi_pos b) && Bool.eqb (pi_exact a) (pi_exact b).
Fixpoint list_eqb {A B} (f : A -> B -> bool) (a : list A) (b : list B) : bool :=
  match a, b with
  | [], [] => true
  | x :: a', y :: b' => f x y && list_eqb f a' b'
  | _, _ => false
  end.

Record query := { q_lib : bytes; q_so : option bytes; q_name : bytes; q_ret : Z; q_bits : list bool }.
Record pcase := {
  p_ptype : ptype; p_funcs : bytes; p_defmod : bytes;
  p_cli : option (list cliopt);            (* the -P/-U options the string was rendered from *)
  p_regok : list (bytes * bool); p_tbl : list (bytes * bytes * bool);
  p_items : list pitem;                    (* the implementation's parsed list *)
  p_queries : list query;
  p_mods : list (bytes * option bytes * bool)   (* path, get_soname(path), match_pattern_module(path) *)
}.
Definition p_oracle (c : pcase) : oracle := mk_oracle (p_regok c) (p_tbl c).

Definition p_agrees (c : pcase) : bool :=
  let O := p_oracle c in
  let pl := parse_pattern_list O (p_funcs c) (p_defmod c) (p_ptype c) in
  list_eqb pitem_eqb pl (p_items c)
  && forallb (fun q => (match_pattern_list O pl (q_lib q) (q_so q) (q_name q) =? q_ret q)%Z
                       && list_eqb Bool.eqb (map (fun p => matches O (pi_patt p) (q_name q)) pl) (q_bits q))
             (p_queries c)
  && forallb (fun x => let '(path, so, r) := x in Bool.eqb (match_pattern_module pl path so) r) (p_mods c).

(* the property on the implementation's own outputs: its verdict is the polarity of the last of
   ITS items whose module applies and whose pattern (ITS match result) matches; and for a list that
   came from -P/-U options the items are those options in order *)
Fixpoint last_hit_bits (items : list pitem) (bits : list bool) (lib : bytes) (so : option bytes)
         (acc : option pitem) : option pitem :=
  match items, bits with
  | p :: r, b :: rb => last_hit_bits r rb lib so (if mod_applies lib so p && b then Some p else acc)
  | _, _ => acc
  end.
Definition cli_item_ok (defmod : bytes) (o : cliopt) (p : pitem) : bool :=
  let '(arg, pos) := match o with OptP a => (a, true) | OptU a => (a, false) end in
  let '(pat, modopt) := split_at arg in
  Bool.eqb (pi_pos p) pos && bytes_eqb (pt_str (pi_patt p)) pat
  && bytes_eqb (pi_mod p) (match modopt with Some m => m | None => defmod end)
  && Bool.eqb (pi_exact p) (match modopt with Some _ => false | None => true end).
Definition p_ok (c : pcase) : bool :=
  forallb (fun q => (q_ret q =? polarity (last_hit_bits (p_items c) (q_bits q) (q_lib q) (q_so q) None))%Z
                    && Nat.eqb (length (q_bits q)) (length (p_items c)))
          (p_queries c)
  && match p_cli c with
     | Some opts => list_eqb (fun o p => cli_item_ok (p_defmod c) o p) opts (p_items c)
     | None => true
     end
  (* a library is skipped exactly when no item's module applies to it *)
  && forallb (fun x => let '(path, so, r) := x in
                       Bool.eqb (existsb (fun p => mod_applies path so p) (p_items c)) r) (p_mods c).

Definition dyntype_of (n : N) : dyntype :=
  match n with 1 => DPg | 2 => DFentry | 3 => DFentryNop | 4 => DXray | 5 => DPatchable | _ => DNone end.
Definition pm_of (l : list perm) : pmap :=
  fun pg => if (0 <=? pg)%Z then nth (Z.to_nat pg) l Unmapped else Unmapped.
Definition perms_of (pm : pmap) (n : nat) : list perm := map (fun i => pm (Z.of_nat i)) (seq 0 n).

Record ucase := {
  u_ptype : ptype; u_funcs : bytes; u_defmod : bytes;
  u_regok : list (bytes * bool); u_tbl : list (bytes * bytes * bool);
  u_ty : N; u_min : N; u_lib : bytes;
  u_text_addr : Z; u_text_size : Z; u_perms : list perm;
  u_wbase : N; u_before : bytes; u_syms : list sym; u_targets : list N;
  u_ncode : nat; u_codesz : Z;
  (* what the implementation did *)
  i_fatal : bool; i_rc : Z; i_tramp : Z; i_tsize : Z; i_perm1 : list perm; i_perm2 : list perm;
  i_after : bytes; i_stats : stats; i_thead : bytes; i_tdelta : Z; i_canary : N;
  i_ncp : nat; i_cp_before : list perm; i_cp_after : list perm
}.
Definition u_oracle (u : ucase) : oracle := mk_oracle (u_regok u) (u_tbl u).
Definition u_cfg (u : ucase) (tramp : Z) : cfg :=
  {| c_pats := parse_pattern_list (u_oracle u) (u_funcs u) (u_defmod u) (u_ptype u);
     c_lib := u_lib u; c_so := None; c_ty := dyntype_of (u_ty u); c_tramp := tramp; c_min := u_min u |}.
Definition u_mdi (u : ucase) : mdi :=
  {| d_text_addr := u_text_addr u; d_text_size := u_text_size u; d_tramp := 0; d_ty := dyntype_of (u_ty u) |}.
Definition cp_first (cps : list code_page) : list Z := map cp_page cps.
(* chunk i of the implementation is given the page number 1000 + 8 i *)
Fixpoint save_codes (pm : pmap) (cps : list code_page) (n : nat) (psz : Z) : pmap * list code_page :=
  match n with
  | O => (pm, cps)
  | S n' => let '(pm1, cps1) := save_code pm cps (1000 + 8 * Z.of_nat (length cps))%Z psz in
            save_codes pm1 cps1 n' psz
  end.
Definition perm_list_eqb := list_eqb perm_eqb.

Definition u_pages_agree (u : ucase) (pm1 : pmap) (d1 : mdi) : bool :=
  let np := length (u_perms u) in
  let '(pm2, cps2) := save_codes pm1 [] (u_ncode u) (align32 (Z.min (u_codesz u) 64 + 15)) in
  let pm3 := cleanup_trampoline pm2 d1 in
  let '(pm4, cps4) := freeze_code pm3 cps2 in
  perm_list_eqb (perms_of pm4 np) (i_perm2 u)
  && Nat.eqb (length cps2) (i_ncp u)
  && perm_list_eqb (map (fun cp => pm2 (cp_page cp)) cps2) (i_cp_before u)
  && perm_list_eqb (map (fun cp => pm4 (cp_page cp)) cps4) (i_cp_after u).

Definition u_agrees (fixed : bool) (u : ucase) : bool :=
  let np := length (u_perms u) in
  match setup_trampoline_v fixed (pm_of (u_perms u)) (u_mdi u) with
  | SetupFatal => i_fatal u
  | SetupFail =>
      negb (i_fatal u) && (i_rc u =? -1)%Z && (i_tsize u =? u_text_size u)%Z
      && perm_list_eqb (u_perms u) (i_perm1 u)
      && bytes_eqb (u_before u) (i_after u) && stats_eqb stats0 (i_stats u)
      && u_pages_agree u (pm_of (u_perms u)) (u_mdi u)
  | SetupOk pm1 d1 =>
      negb (i_fatal u) && (i_rc u =? 0)%Z && (d_tramp d1 =? i_tramp u)%Z && (d_text_size d1 =? i_tsize u)%Z
      && perm_list_eqb (perms_of pm1 np) (i_perm1 u)
      && (let '(m, k) := patch_func_matched (u_oracle u) (u_cfg u (d_tramp d1)) (u_syms u) (u_targets u)
                                            (mem_of (u_wbase u) (u_before u), stats0) in
          bytes_eqb (window m (u_wbase u) (length (u_before u))) (i_after u) && stats_eqb k (i_stats u))
      && u_pages_agree u pm1 d1
  end.

(* is the case inside the domain of C14_update_exact_layout ? *)
Definition u_layout (u : ucase) : bool :=
  let c := u_cfg u (i_tramp u) in
  layout_okb (u_oracle u) c (mem_of (u_wbase u) (u_before u)) (visited c (u_syms u) (u_targets u)).

(* the property on the implementation's outputs *)
(* a module whose trampoline cannot be set up (the page behind the text is needed and occupied) cannot be
   patched: it must be left byte-for-byte untouched, its page permissions unchanged, the process running *)
(* executing every entry the implementation turned into a call, on the implementation's own bytes
   (window after the update + the 16 trampoline bytes it wrote, whose target was checked to be
   __fentry__): call, jmp, return must come back to entry+5 with the stack pointer unchanged *)
Definition FENTRY_ADDR : Z := 140737488355328.
Definition u_exec_ok (u : ucase) : bool :=
  let c := u_cfg u (i_tramp u) in
  let m0 := mem_of (u_wbase u) (u_before u) in
  let mem_after := wr (mem_of (u_wbase u) (i_after u)) (Z.to_N (i_tramp u)) (i_thead u ++ le_bytes 8 FENTRY_ADDR) in
  forallb (fun s => match spec_change (u_oracle u) c m0 s with
                    | Some (e, 232 :: _) =>
                        match steps 3 mem_after FENTRY_ADDR
                                    {| st_rip := Z.of_N e; st_rsp := 8000000; st_stk := fun _ => 0%Z |} with
                        | Some s3 => (st_rip s3 =? Z.of_N e + 5)%Z && (st_rsp s3 =? 8000000)%Z
                        | None => false
                        end
                    | _ => true
                    end) (visited c (u_syms u) (u_targets u)).

Definition u_ok_unpatchable (u : ucase) : bool :=
  negb (i_fatal u) && (i_canary u =? 0) && bytes_eqb (u_before u) (i_after u)
  && perm_list_eqb (u_perms u) (i_perm2 u).
Definition u_ok_patchable (u : ucase) : bool :=
  let np := length (u_perms u) in
  let d := {| d_text_addr := u_text_addr u; d_text_size := i_tsize u; d_tramp := i_tramp u;
              d_ty := dyntype_of (u_ty u) |} in
  negb (i_fatal u)                                                   (* the process keeps running *)
  && (i_canary u =? 0)                                               (* nothing else was written *)
  && match dyntype_of (u_ty u) with                                   (* trampoline jumps to __fentry__ *)
     | DFentryNop | DPatchable => bytes_eqb (i_thead u) trampoline_head && (i_tdelta u =? 0)%Z
     | _ => true                       (* nothing is ever made to call it for the other types *)
     end
  && (u_text_addr u + u_text_size u <=? i_tramp u)%Z                 (* ... and lies behind the code *)
  && in_range (u_text_addr u) (i_tsize u) (page_of (i_tramp u))
  && in_range (u_text_addr u) (i_tsize u) (page_of (i_tramp u + 15))
  && ok_update (u_oracle u) (u_cfg u (i_tramp u)) (u_syms u) (u_targets u) (u_wbase u) (u_before u) (i_after u)
  && u_exec_ok u
  && ok_pages [d] [] (pm_of (u_perms u)) (pm_of (i_perm2 u)) (map Z.of_nat (seq 0 np))
  && forallb (perm_eqb P_RX) (i_cp_after u).
Definition u_ok (u : ucase) : bool :=
  match setup_trampoline (pm_of (u_perms u)) (u_mdi u) with
  | None => u_ok_unpatchable u
  | Some _ => u_ok_patchable u
  end.

(* ------------------------------------------------------------------ which patch method a module gets *)
(* mcount_arch_find_module: a __patchable_function_entries / xray_instr_map section decides; else the
   first ordinary function (LOCAL/GLOBAL, name not starting with '_') that begins with one of the four
   NOP forms makes the module DYNAMIC_FENTRY_NOP; else check_trace_functions (mcount -> PG,
   __fentry__ -> FENTRY, nothing -> NONE).
   [fixed = false]: the code as found probes the very first bytes of the function;
   [fixed = true]: it skips an endbr64 first, as patch_fentry_code does. *)
Inductive elf_sect := SectNone | SectPatchable | SectXray.
Definition probe_sym (fixed : bool) (m : mem) (s : sym) : bool :=
  ((s_type s =? ST_LOCAL_FUNC) || (s_type s =? ST_GLOBAL_FUNC))
  && negb (match s_name s with c :: _ => c =? 95 | [] => false end)
  && is_nop_sig (rd m (if fixed then entry_of m (s_addr s) else s_addr s) 5).
Definition find_module_type (fixed : bool) (sect : elf_sect) (chk : dyntype) (m : mem) (syms : list sym) : dyntype :=
  match sect with
  | SectPatchable => DPatchable
  | SectXray => DXray
  | SectNone => if existsb (probe_sym fixed m) syms then DFentryNop else chk
  end.
(* check_trace_functions' answer as a module type *)
Definition chk_type (n : Z) : dyntype := match n with 1%Z => DPg | 3%Z => DFentry | _ => DNone end.

Record fcase := {
  f_chk : Z; f_wbase : N; f_window : bytes; f_syms : list sym;
  i_type : N                              (* mdi->type the implementation chose *)
}.
Definition dyntype_eqb (a b : dyntype) : bool :=
  match a, b with
  | DNone, DNone | DPg, DPg | DFentry, DFentry | DFentryNop, DFentryNop | DXray, DXray | DPatchable, DPatchable => true
  | _, _ => false
  end.
Definition f_agrees (fixed : bool) (f : fcase) : bool :=
  dyntype_eqb (find_module_type fixed SectNone (chk_type (f_chk f)) (mem_of (f_wbase f) (f_window f)) (f_syms f))
              (dyntype_of (i_type f)).
(* the property: if some ordinary function of the module can be patched by patch_fentry_code (NOP form
   at its post-endbr64 entry) the module must get a type that patches *)
Definition f_ok (f : fcase) : bool :=
  let m := mem_of (f_wbase f) (f_window f) in
  if existsb (probe_sym true m) (f_syms f)
  then match dyntype_of (i_type f) with DFentryNop | DPatchable => true | _ => false end
  else true.

(* ------------------------------------------------------------------ reading __patchable_function_entries *)
(* read_patchable_loc (arch/x86_64/mcount-dynamic.c).  File addresses vs run-time addresses: a module
   is loaded with a load bias (dlpi_addr); its first PT_LOAD segment has p_vaddr [first_vaddr] (0 for
   a PIE linked by GNU ld, the image base for an lld PIE or a non-PIE); mdi->base_addr = map->start =
   first_vaddr + bias.  The section lives at sh_addr + bias and - after relocation - holds the run-time
   addresses of the patchable locations.  The result is relative to map->start.
   [fixed = false]: the code as found added base_addr (not the bias) to sh_addr for ET_DYN. *)
Local Open Scope Z_scope.
Record elfinfo := { ei_dyn : bool; ei_sh_addr : Z; ei_first_vaddr : Z; ei_bias : Z; ei_n : nat }.
Definition ei_base (ei : elfinfo) : Z := ei_first_vaddr ei + ei_bias ei.
Definition section_read_addr (fixed : bool) (ei : elfinfo) : Z :=
  ei_sh_addr ei + (if ei_dyn ei then (if fixed then ei_base ei - ei_first_vaddr ei else ei_base ei) else 0).
Definition read_patchable_loc (fixed : bool) (ei : elfinfo) (rt : Z -> Z) : list Z :=
  map (fun i => rt (section_read_addr fixed ei + 8 * Z.of_nat i) - ei_base ei) (seq 0 (ei_n ei)).
(* the loader put the relocated section where it belongs *)
Definition loaded_section (ei : elfinfo) (locs : list Z) (rt : Z -> Z) : Prop :=
  forall i, (i < length locs)%nat -> rt (ei_sh_addr ei + ei_bias ei + 8 * Z.of_nat i) = nth i locs 0 + ei_bias ei.

Record rcase := {
  r_dyn : bool; r_sh_addr : Z; r_first_vaddr : Z; r_locs : list Z;       (* file addresses *)
  i_fatal_r : bool; i_rtype : N; i_targets : list Z
}.
Definition Zlist_eqb := list_eqb Z.eqb.
(* both: the model with the memory the harness prepared, and the property (every location, relative
   to the module's start) *)
Definition r_expected (r : rcase) : list Z := map (fun l => l - r_first_vaddr r) (r_locs r).
Definition r_agrees (fixed : bool) (r : rcase) : bool :=
  let ei := {| ei_dyn := r_dyn r; ei_sh_addr := r_sh_addr r; ei_first_vaddr := r_first_vaddr r;
               ei_bias := if r_dyn r then 4096000 else 0; ei_n := length (r_locs r) |} in
  let rt := fun a => let k := (a - (ei_sh_addr ei + ei_bias ei)) / 8 in
                     if (0 <=? a - (ei_sh_addr ei + ei_bias ei)) && (k <? Z.of_nat (length (r_locs r)))
                        && ((a - (ei_sh_addr ei + ei_bias ei)) mod 8 =? 0)
                     then nth (Z.to_nat k) (r_locs r) 0 + ei_bias ei else 0 in
  if fixed then negb (i_fatal_r r) && Zlist_eqb (read_patchable_loc true ei rt) (i_targets r)
  else true.
Definition r_ok (r : rcase) : bool :=
  negb (i_fatal_r r) && (i_rtype r =? 5)%N && Zlist_eqb (r_expected r) (i_targets r).
Local Close Scope Z_scope.

(* ------------------------------------------------------------------ -Z SIZE on the command line *)
(* uftrace.c (case 'Z'): strtol(arg, NULL, 0) -> opts->size_filter (int);  cmds/record.c: if non-zero,
   snprintf("%d") -> UFTRACE_MIN_SIZE;  libmcount/dynamic.c: min_size (unsigned) = strtoul(env).
   [v] is the number the user wrote.  [fixed = false]: the code as found (long assigned to int);
   [fixed = true]: after "fix: size filter: do not wrap around" (clamped to INT_MAX). *)
Local Open Scope Z_scope.
Definition LONG_MAX : Z := 9223372036854775807.
Definition INT_MAX : Z := 2147483647.
Definition strtol_val (v : Z) : Z := Z.max (- LONG_MAX - 1) (Z.min v LONG_MAX).
Definition to_int32 (v : Z) : Z :=
  let w := v mod 4294967296 in if w <? 2147483648 then w else w - 4294967296.
Definition cli_size_filter (fixed : bool) (v : Z) : Z :=
  let l := strtol_val v in
  if fixed then (if l <=? 0 then 0 else if INT_MAX <? l then INT_MAX else l)
  else (let i := to_int32 l in if i <=? 0 then 0 else i).
Definition env_min_size (sf : Z) : option Z := if sf =? 0 then None else Some sf.
Definition libmcount_min_size (e : option Z) : N :=
  match e with None => 0%N | Some t => Z.to_N (t mod 4294967296) end.
Definition cli_min_size (fixed : bool) (v : Z) : N :=
  libmcount_min_size (env_min_size (cli_size_filter fixed v)).
(* what the user asked for: functions smaller than v are not to be patched (v <= 0: no filter) *)
Definition requested_min (v : Z) : N := if v <=? 0 then 0%N else Z.to_N v.
Local Close Scope Z_scope.

(* ------------------------------------------------------------------ end-to-end cases *)
(* which modules mcount_dynamic_update / mcount_dynamic_dlopen look at: the main executable always; a
   library loaded at start-up only when some pattern carries an '@' (needs_modules); a dlopen()ed library
   when match_pattern_module accepts it *)
Inductive mkind := MMain | MLoadLib | MDlopen.
Definition needs_modules (patch_funcs : bytes) : bool := memb 64 patch_funcs.
Definition module_visited (k : mkind) (patch_funcs : bytes) (pl : list pitem) (lib : bytes) (so : option bytes) : bool :=
  match k with
  | MMain => true
  | MLoadLib => needs_modules patch_funcs
  | MDlopen => match_pattern_module pl lib so
  end.

Record ecase := {
  e_ptype : ptype; e_funcs : bytes; e_defmod : bytes;
  e_regok : list (bytes * bool); e_tbl : list (bytes * bytes * bool);
  e_sect : elf_sect; e_chk : Z; e_zarg : Z; e_lib : bytes; e_so : option bytes; e_kind : mkind;
  e_text_addr : Z; e_text_size : Z; e_next_mapped : bool;
  e_wbase : N; e_before : bytes; e_syms : list sym; e_targets : list N;
  (* observed on the real uftrace record run *)
  o_died : bool; o_after : bytes; o_traced : list bytes; o_same_output : bool; o_rc_same : bool;
  o_wx : N; o_tramp_perm : perm; o_env : option Z       (* UFTRACE_MIN_SIZE as the tracee saw it *)
}.
Definition e_oracle (e : ecase) : oracle := mk_oracle (e_regok e) (e_tbl e).
(* the module type: mcount_arch_find_module (repaired probe) on the ELF's sections, the native code
   window and the symbols in it *)
Definition e_type (e : ecase) : dyntype :=
  find_module_type true (e_sect e) (chk_type (e_chk e)) (mem_of (e_wbase e) (e_before e)) (e_syms e).
Definition e_cfg (e : ecase) (tramp : Z) (mn : N) : cfg :=
  {| c_pats := parse_pattern_list (e_oracle e) (e_funcs e) (e_defmod e) (e_ptype e);
     c_lib := e_lib e; c_so := e_so e; c_ty := e_type e; c_tramp := tramp; c_min := mn |}.
Definition e_visited (e : ecase) : bool :=
  module_visited (e_kind e) (e_funcs e) (parse_pattern_list (e_oracle e) (e_funcs e) (e_defmod e) (e_ptype e))
                 (e_lib e) (e_so e).
Definition optZ_eqb (a b : option Z) : bool :=
  match a, b with None, None => true | Some x, Some y => (x =? y)%Z | _, _ => false end.
Definition e_pm (e : ecase) : pmap :=
  fun pg => if in_range (e_text_addr e) (e_text_size e) pg then P_RX
            else if e_next_mapped e && (pg =? page_of (align_up (e_text_addr e + e_text_size e)))%Z then P_R
            else Unmapped.
Definition names_subset (a b : list bytes) : bool := forallb (fun n => existsb (bytes_eqb n) b) a.
Definition names_eq (a b : list bytes) : bool := names_subset a b && names_subset b a.

Definition e_model (fixed : bool) (e : ecase) : option (bytes * list bytes) :=
  if negb (e_visited e) then Some (e_before e, []) else
  match setup_trampoline_v fixed (e_pm e)
          {| d_text_addr := e_text_addr e; d_text_size := e_text_size e; d_tramp := 0; d_ty := e_type e |} with
  | SetupFatal => None
  | SetupFail => Some (e_before e, [])
  | SetupOk _ d1 =>
      let c := e_cfg e (d_tramp d1) (cli_min_size true (e_zarg e)) in
      let m0 := mem_of (e_wbase e) (e_before e) in
      let m := fst (patch_func_matched (e_oracle e) c (e_syms e) (e_targets e) (m0, stats0)) in
      Some (window m (e_wbase e) (length (e_before e)),
            map s_name (filter (fun s => let en := entry_of m0 (s_addr s) in
                                         bytes_eqb (rd m en 5) (call_insn (d_tramp d1) en))
                               (visited c (e_syms e) (e_targets e))))
  end.
Definition e_agrees (fixed : bool) (e : ecase) : bool :=
  match e_model fixed e with
  | None => o_died e
  | Some (w, names) => negb (o_died e) && bytes_eqb w (o_after e) && names_eq names (o_traced e)
                       && optZ_eqb (env_min_size (cli_size_filter true (e_zarg e))) (o_env e)
  end.

Definition tramp_of (text_addr text_size : Z) : Z :=
  let tend := (text_addr + text_size)%Z in
  let t0 := (align_up tend - 16)%Z in
  if (t0 <? tend)%Z then (t0 + 16)%Z else t0.
(* the property on what was observed: the program ran and printed what it prints natively, no mapping
   is writable and executable, the trampoline page is r-x, the code bytes changed exactly as the
   specification says, and exactly the selected functions show up in the trace *)
Definition e_ok_patchable (e : ecase) : bool :=
  (* the size filter of the specification is the number the user wrote, not what the option parser
     made of it *)
  let c := e_cfg e (tramp_of (e_text_addr e) (e_text_size e)) (requested_min (e_zarg e)) in
  let m0 := mem_of (e_wbase e) (e_before e) in
  let vis := visited c (e_syms e) (e_targets e) in
  negb (o_died e) && o_same_output e && o_rc_same e && (o_wx e =? 0) && perm_eqb (o_tramp_perm e) P_RX
  && ok_update (e_oracle e) c (e_syms e) (e_targets e) (e_wbase e) (e_before e) (o_after e)
  && names_eq (map s_name (filter (fun s => match spec_change (e_oracle e) c m0 s with
                                            | Some (_, op :: _) => op =? 232
                                            | _ => false
                                            end) vis))
              (o_traced e).

Definition e_ok (e : ecase) : bool :=
  match setup_trampoline (e_pm e) {| d_text_addr := e_text_addr e; d_text_size := e_text_size e; d_tramp := 0;
                                     d_ty := e_type e |} with
  | None => negb (o_died e) && o_same_output e && o_rc_same e && (o_wx e =? 0)
            && bytes_eqb (e_before e) (o_after e) && names_eq [] (o_traced e)
  | Some _ => e_ok_patchable e
  end.

Fixpoint bad_indices {A} (f : A -> bool) (l : list A) (i : nat) : list nat :=
  match l with
  | [] => []
  | x :: r => if f x then bad_indices f r (S i) else i :: bad_indices f r (S i)
  end.
