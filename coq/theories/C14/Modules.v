(* C14 - which modules are looked at (main executable, libraries loaded at start-up, dlopen()ed ones)
   and why skipping the others loses nothing *)
From Coq Require Import NArith ZArith List Bool Lia.
Import ListNotations.
Require Import UV.C14.Model UV.C14.Proofs.
Local Open Scope N_scope.

(* pieces of a string without '@' contain no '@' *)
Lemma split_semi_no_at s : forall cur,
  memb 64 s = false -> memb 64 cur = false ->
  forall piece, In piece (split_semi s cur) -> memb 64 piece = false.
Proof.
  unfold memb. induction s as [|c s IH]; intros cur Hs Hc piece I.
  - cbn in I. destruct I as [<-|[]].
    destruct (existsb (N.eqb 64) (rev cur)) eqn:E; [|reflexivity].
    apply existsb_exists in E. destruct E as (x & Ix & Ex). apply in_rev in Ix.
    assert (existsb (N.eqb 64) cur = true) by (apply existsb_exists; now exists x). congruence.
  - cbn [existsb] in Hs. apply orb_false_elim in Hs. destruct Hs as [Hc0 Hs].
    cbn [split_semi] in I. destruct (c =? 59).
    + destruct I as [<-|I].
      * destruct (existsb (N.eqb 64) (rev cur)) eqn:E; [|reflexivity].
        apply existsb_exists in E. destruct E as (x & Ix & Ex). apply in_rev in Ix.
        assert (existsb (N.eqb 64) cur = true) by (apply existsb_exists; now exists x). congruence.
      * apply (IH [] Hs eq_refl piece I).
    + apply (IH (c :: cur) Hs); [cbn [existsb]; now rewrite Hc0, Hc|exact I].
Qed.

Lemma split_at_no_at s : memb 64 s = false -> split_at s = (s, None).
Proof.
  unfold memb. induction s as [|c s IH]; intro H; [reflexivity|].
  cbn [existsb] in H. apply orb_false_elim in H. destruct H as [Hc Hs].
  cbn [split_at]. rewrite N.eqb_sym in Hc. rewrite Hc. now rewrite (IH Hs).
Qed.

(* no '@' anywhere in the option string: every list element is for the default module, exactly *)
Lemma parse_no_at O funcs def t p :
  needs_modules funcs = false -> In p (parse_pattern_list O funcs def t) ->
  pi_exact p = true /\ pi_mod p = def.
Proof.
  unfold needs_modules, parse_pattern_list. intros H I.
  apply in_map_iff in I. destruct I as (piece & <- & Ip).
  pose proof (split_semi_no_at funcs [] H eq_refl piece Ip) as Hp.
  unfold parse_item.
  assert (T : forall name1, memb 64 name1 = false ->
              let '(pat, modopt) := split_at name1 in modopt = None).
  { intros n Hn. now rewrite (split_at_no_at n Hn). }
  destruct piece as [|c r].
  - cbn. auto.
  - destruct (c =? 33) eqn:B.
    + assert (Hr : memb 64 r = false).
      { unfold memb in *. cbn [existsb] in Hp. apply orb_false_elim in Hp. tauto. }
      rewrite (split_at_no_at r Hr). cbn. auto.
    + rewrite (split_at_no_at (c :: r) Hp). cbn. auto.
Qed.

(* the repaired module test: a default-module element applies only to a module whose file name (or
   soname) IS the default module *)
Lemma exact_applies lib so p :
  pi_exact p = true -> mod_applies lib so p = true ->
  bytes_eqb (pi_mod p) (basename lib) = true \/ exists s, so = Some s /\ bytes_eqb (pi_mod p) s = true.
Proof.
  unfold mod_applies, mod_applies_gen. intros -> H. apply orb_prop in H. destruct H as [H|H]; [now left|].
  destruct so as [s|]; [|discriminate]. right. now exists s.
Qed.

(* A module that mcount_dynamic_update / mcount_dynamic_dlopen do not look at contains no selected
   function: for every symbol name the verdict of the pattern list is 0.  (A library is "not the main
   executable" when neither its file name nor its soname equals the default module.) *)
Theorem unvisited_module_unselected O k funcs def t lib so :
  module_visited k funcs (parse_pattern_list O funcs def t) lib so = false ->
  bytes_eqb def (basename lib) = false ->
  (forall s, so = Some s -> bytes_eqb def s = false) ->
  forall name, match_pattern_list O (parse_pattern_list O funcs def t) lib so name = 0%Z.
Proof.
  intros V Hl Hs name. destruct k; cbn [module_visited] in V.
  - discriminate.
  - apply match_none. intros p I. unfold item_hits.
    destruct (parse_no_at O funcs def t p V I) as [Ex Em].
    destruct (mod_applies lib so p) eqn:M; [|reflexivity]. exfalso.
    destruct (exact_applies lib so p Ex M) as [E|(s & -> & E)]; rewrite Em in E.
    + congruence.
    + rewrite (Hs s eq_refl) in E. discriminate.
  - now apply module_skip_sound.
Qed.

(* the code as found compared the default module as a prefix: with the executable "prog" and the library
   "prog_plugin.so", `-P plug` selects plug() of the library (verdict +1) but the library is not looked at
   (no '@' in the list); `-P plug -P nothing@other` makes it looked at - the same function is traced or
   not depending on an unrelated option *)
Definition match_pattern_list_legacy (O : oracle) (pl : list pitem) (lib : bytes) (so : option bytes) (name : bytes) : Z :=
  fold_left (fun ret p => if mod_applies_legacy lib so p && matches O (pi_patt p) name
                          then (if pi_pos p then 1 else -1)%Z else ret) pl 0%Z.
Definition O1 : oracle := {| o_regcomp := fun _ => true; o_regexec := fun _ _ => false; o_fnmatch := fun _ _ => false |}.
Definition n_prog : bytes := [112; 114; 111; 103].
Definition n_plugin : bytes := [47; 120; 47; 112; 114; 111; 103; 95; 112; 108; 117; 103; 105; 110; 46; 115; 111].  (* /x/prog_plugin.so *)
Definition n_plug : bytes := [112; 108; 117; 103].
Lemma default_module_prefix_legacy_refuted :
  let pl := parse_pattern_list O1 n_plug n_prog PRegex in
  module_visited MLoadLib n_plug pl n_plugin None = false
  /\ bytes_eqb n_prog (basename n_plugin) = false
  /\ match_pattern_list_legacy O1 pl n_plugin None n_plug = 1%Z
  /\ match_pattern_list O1 pl n_plugin None n_plug = 0%Z.
Proof. vm_compute. repeat split. Qed.

(* ---------- whether libraries are looked at does not depend on the ORDER of the options ---------- *)
From Coq Require Import Permutation.
Definition opt_arg (o : cliopt) : bytes := match o with OptP a => a | OptU a => a end.
Definition opt_has_at (o : cliopt) : bool := memb 64 (opt_arg o).

Lemma memb_app c x y : memb c (x ++ y) = memb c x || memb c y.
Proof. unfold memb. apply existsb_app. Qed.
Lemma memb_render_opt o : memb 64 (render_opt o) = opt_has_at o.
Proof. destruct o; reflexivity. Qed.

Lemma needs_modules_render l : needs_modules (render_opts l) = existsb opt_has_at l.
Proof.
  unfold needs_modules. induction l as [|o l IH]; [reflexivity|].
  destruct l as [|o' l].
  - cbn [render_opts existsb]. rewrite memb_render_opt. now rewrite orb_false_r.
  - change (render_opts (o :: o' :: l)) with (render_opt o ++ 59 :: render_opts (o' :: l)).
    rewrite memb_app, memb_render_opt. change (memb 64 (59 :: render_opts (o' :: l))) with (memb 64 (render_opts (o' :: l))).
    rewrite IH. reflexivity.
Qed.

Lemma existsb_perm {A} (f : A -> bool) l l' : Permutation l l' -> existsb f l = existsb f l'.
Proof.
  induction 1; cbn; try congruence.
  - destruct (f y), (f x); reflexivity.
Qed.

Theorem visited_order_independent l l' :
  Permutation l l' -> needs_modules (render_opts l) = needs_modules (render_opts l').
Proof. intro P. rewrite !needs_modules_render. now apply existsb_perm. Qed.

(* a library some of whose functions the list selects IS looked at - whatever the order of the options *)
Corollary selected_module_is_visited O k funcs def t lib so name :
  match_pattern_list O (parse_pattern_list O funcs def t) lib so name <> 0%Z ->
  bytes_eqb def (basename lib) = false ->
  (forall s, so = Some s -> bytes_eqb def s = false) ->
  module_visited k funcs (parse_pattern_list O funcs def t) lib so = true.
Proof.
  intros H Hl Hs. destruct (module_visited k funcs (parse_pattern_list O funcs def t) lib so) eqn:V; [reflexivity|].
  exfalso. apply H. now apply (unvisited_module_unselected O k funcs def t lib so V Hl Hs).
Qed.

(* non-vacuity: an @module option first, in the middle or last makes no difference *)
Example visited_order_example :
  let a := OptP [108; 64; 120] in let b := OptP [109] in let c := OptU [122] in
  needs_modules (render_opts [a; b; c]) = true /\ needs_modules (render_opts [b; a; c]) = true
  /\ needs_modules (render_opts [b; c; a]) = true /\ needs_modules (render_opts [b; c]) = false.
Proof. vm_compute. repeat split. Qed.
