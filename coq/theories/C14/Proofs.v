From Coq Require Import NArith ZArith List Bool Lia.
Import ListNotations.
Require Import UV.C14.Model.
Local Open Scope N_scope.

(* ---------- last match wins ---------- *)
Lemma fold_hits_app O lib so name l1 l2 z :
  fold_left (fun ret p => if item_hits O lib so name p then (if pi_pos p then 1 else -1)%Z else ret) (l1 ++ l2) z
  = fold_left (fun ret p => if item_hits O lib so name p then (if pi_pos p then 1 else -1)%Z else ret) l2
      (fold_left (fun ret p => if item_hits O lib so name p then (if pi_pos p then 1 else -1)%Z else ret) l1 z).
Proof. apply fold_left_app. Qed.

Lemma last_match_wins O pl lib so name :
  match_pattern_list O pl lib so name = polarity (last_hit O pl lib so name).
Proof.
  unfold match_pattern_list, last_hit.
  induction pl as [|p pl IH] using rev_ind; [reflexivity|].
  rewrite fold_left_app, rev_app_distr. cbn [fold_left rev app find].
  destruct (item_hits O lib so name p) eqn:H; [reflexivity|]. exact IH.
Qed.

Lemma polarity_cases o : polarity o = 0%Z \/ polarity o = 1%Z \/ polarity o = (-1)%Z.
Proof. destruct o as [p|]; cbn; [destruct (pi_pos p)|]; auto. Qed.

(* appending one more pattern: it decides iff it hits *)
Lemma match_snoc O pl p lib so name :
  match_pattern_list O (pl ++ [p]) lib so name =
  if item_hits O lib so name p then (if pi_pos p then 1 else -1)%Z else match_pattern_list O pl lib so name.
Proof. unfold match_pattern_list. rewrite fold_left_app. reflexivity. Qed.

(* no match at all: 0 *)
Lemma match_none O pl lib so name :
  (forall p, In p pl -> item_hits O lib so name p = false) -> match_pattern_list O pl lib so name = 0%Z.
Proof.
  intro H. rewrite last_match_wins. unfold last_hit.
  destruct (find _ (rev pl)) as [p|] eqn:F; [|reflexivity].
  apply find_some in F. destruct F as [I Hp]. apply in_rev in I. rewrite (H p I) in Hp. discriminate.
Qed.

(* the decisive element: it hits and nothing behind it does *)
Lemma last_hit_split O pl lib so name p :
  last_hit O pl lib so name = Some p ->
  exists l1 l2, pl = l1 ++ p :: l2 /\ item_hits O lib so name p = true
                /\ forall q, In q l2 -> item_hits O lib so name q = false.
Proof.
  unfold last_hit. induction pl as [|q pl IH] using rev_ind; [discriminate|].
  rewrite rev_app_distr. cbn [rev app find].
  destruct (item_hits O lib so name q) eqn:H.
  - intro E. injection E as <-. exists pl, []. repeat split; auto. intros ? [].
  - intro E. destruct (IH E) as (l1 & l2 & -> & Hp & Hl). exists l1, (l2 ++ [q]).
    rewrite <- app_assoc. repeat split; auto.
    intros x I. apply in_app_or in I. destruct I as [I|[<-|[]]]; auto.
Qed.

(* ---------- the command line: -P/-U options in order become the list in order ---------- *)
Definition no_semi (a : bytes) : Prop := forall c, In c a -> (c =? 59) = false.
Definition not_bang (a : bytes) : Prop := match a with c :: _ => (c =? 33) = false | [] => True end.
Definition wf_opt (o : cliopt) : Prop :=
  match o with OptP a => no_semi a /\ not_bang a | OptU a => no_semi a end.

Lemma split_semi_nosemi s : no_semi s -> forall cur, split_semi s cur = [rev cur ++ s].
Proof.
  induction s as [|c s IH]; intros H cur; cbn.
  - now rewrite app_nil_r.
  - rewrite (H c (or_introl eq_refl)). rewrite IH by (intros x I; apply H; now right).
    cbn. now rewrite <- app_assoc.
Qed.
Lemma split_semi_app s r : no_semi s -> forall cur,
  split_semi (s ++ 59 :: r) cur = (rev cur ++ s) :: split_semi r [].
Proof.
  induction s as [|c s IH]; intros H cur; cbn.
  - now rewrite app_nil_r.
  - rewrite (H c (or_introl eq_refl)). rewrite IH by (intros x I; apply H; now right).
    cbn. now rewrite <- app_assoc.
Qed.
Lemma no_semi_render o : wf_opt o -> no_semi (render_opt o).
Proof.
  destruct o as [a|a]; cbn; [intros [H _]; exact H|].
  intros H c [<-|I]; [reflexivity|auto].
Qed.
Lemma split_render o l : Forall wf_opt (o :: l) ->
  split_semi (render_opts (o :: l)) [] = map render_opt (o :: l).
Proof.
  revert o. induction l as [|o' l IH]; intros o H; inversion H as [|? ? Ho Hl]; subst.
  - cbn [render_opts map]. now rewrite split_semi_nosemi by now apply no_semi_render.
  - change (render_opts (o :: o' :: l)) with (render_opt o ++ 59 :: render_opts (o' :: l)).
    rewrite split_semi_app by now apply no_semi_render. cbn [rev app map]. f_equal. now apply IH.
Qed.

Definition item_of_opt (O : oracle) (def_mod : bytes) (t : ptype) (o : cliopt) : pitem :=
  let '(arg, pos) := match o with OptP a => (a, true) | OptU a => (a, false) end in
  let '(pat, modopt) := split_at arg in
  {| pi_patt := init_filter_pattern O t pat;
     pi_mod := match modopt with Some m => m | None => def_mod end;
     pi_pos := pos;
     pi_exact := match modopt with Some _ => false | None => true end |}.

Lemma parse_item_render O def t o : wf_opt o -> parse_item O def t (render_opt o) = item_of_opt O def t o.
Proof.
  destruct o as [a|a]; cbn [render_opt wf_opt]; unfold parse_item, item_of_opt.
  - intros [_ B]. destruct a as [|c a]; [reflexivity|]. cbn in B. rewrite B. reflexivity.
  - intros _. cbn. reflexivity.
Qed.

Lemma parse_render O def t o l : Forall wf_opt (o :: l) ->
  parse_pattern_list O (render_opts (o :: l)) def t = map (item_of_opt O def t) (o :: l).
Proof.
  intro H. unfold parse_pattern_list. rewrite split_render by exact H. rewrite map_map.
  apply map_ext_in. intros x I. apply parse_item_render. rewrite Forall_forall in H. now apply H.
Qed.

(* ---------- dlopen: skipping a library loses nothing ---------- *)
Lemma module_skip_sound pl path so :
  match_pattern_module pl path so = false ->
  forall O name, match_pattern_list O pl path so name = 0%Z.
Proof.
  intros H O name. apply match_none. intros p I. unfold item_hits.
  unfold match_pattern_module in H.
  destruct (mod_applies path so p) eqn:M; [|reflexivity].
  assert (existsb (fun p => mod_applies path so p) pl = true)
    by (apply existsb_exists; exists p; split; assumption).
  congruence.
Qed.
Lemma module_needed pl path so O name :
  match_pattern_list O pl path so name <> 0%Z -> match_pattern_module pl path so = true.
Proof.
  intro H. destruct (match_pattern_module pl path so) eqn:E; [reflexivity|].
  exfalso. apply H. now apply module_skip_sound.
Qed.
