From Coq Require Import NArith ZArith List Bool Lia.
Import ListNotations.
Require Import UV.C14.Model.
Local Open Scope N_scope.

(* ---------- last match wins ---------- *)
Lemma fold_hits_app O lib so name l1 l2 z :
  fold_left (fun ret p => if item_hits O lib so name p then (if pi_pos p then 1 else -1)%Z else ret) (l1 ++ l2) z
  = fold_left (fun ret p => if item_hits O lib so name p then (if pi_pos p then 1 else -1)%Z else ret) l2
      (fold_left (fun ret p => if item_hits O lib so name p then (if pi_pos p then 1 else -1)%Z else ret) l1 z).
Proof. apply fold_left_app. Qed.

Lemma last_match_wins O pl lib so name :
  match_pattern_list O pl lib so name = polarity (last_hit O pl lib so name).
Proof.
  unfold match_pattern_list, last_hit.
  induction pl as [|p pl IH] using rev_ind; [reflexivity|].
  rewrite fold_left_app, rev_app_distr. cbn [fold_left rev app find].
  destruct (item_hits O lib so name p) eqn:H; [reflexivity|]. exact IH.
Qed.
