(* C14 - which patch method a module gets (mcount_arch_find_module) *)
From Coq Require Import NArith ZArith List Bool Lia.
Require Import ZifyBool.
Import ListNotations.
Require Import UV.C14.Model UV.C14.Proofs UV.C14.Patch.
Local Open Scope N_scope.

Definition ordinary (s : sym) : bool :=
  ((s_type s =? ST_LOCAL_FUNC) || (s_type s =? ST_GLOBAL_FUNC))
  && negb (match s_name s with c :: _ => c =? 95 | [] => false end).

(* repaired probe: a module in which ANY ordinary function can be patched by patch_fentry_code (NOP
   form at its post-endbr64 entry) gets a type that patches *)
Lemma detect_finds_patchable sect chk m syms s :
  sect <> SectXray -> In s syms -> ordinary s = true ->
  is_nop_sig (rd m (entry_of m (s_addr s)) 5) = true ->
  ty_patches (find_module_type true sect chk m syms) = true.
Proof.
  intros Hx I Ho Hn. unfold find_module_type. destruct sect; [|reflexivity|contradiction].
  assert (E : existsb (probe_sym true m) syms = true).
  { apply existsb_exists. exists s. split; [exact I|]. unfold probe_sym. unfold ordinary in Ho. now rewrite Ho, Hn. }
  now rewrite E.
Qed.

(* ... hence every such function that passes the size gate is "patchable" in the sense of the
   specification, whatever else the module contains *)
Theorem detected_module_patches sect chk m syms s pats lib so tramp mn :
  sect <> SectXray -> In s syms -> ordinary s = true ->
  is_nop_sig (rd m (entry_of m (s_addr s)) 5) = true ->
  patchable {| c_pats := pats; c_lib := lib; c_so := so; c_ty := find_module_type true sect chk m syms;
               c_tramp := tramp; c_min := mn |} m s
  = negb (s_size s <? eff_min_size mn).
Proof.
  intros Hx I Ho Hn. unfold patchable. cbn [c_min c_ty].
  pose proof (detect_finds_patchable sect chk m syms s Hx I Ho Hn) as T. unfold ty_patches in T.
  rewrite Hn. destruct (find_module_type true sect chk m syms); try discriminate;
    destruct (negb (s_size s <? eff_min_size mn)); reflexivity.
Qed.

(* no section and nothing to probe: check_trace_functions decides *)
Lemma detect_falls_back fixed chk m syms :
  (forall s, In s syms -> probe_sym fixed m s = false) -> find_module_type fixed SectNone chk m syms = chk.
Proof.
  intro H. unfold find_module_type.
  destruct (existsb (probe_sym fixed m) syms) eqn:E; [|reflexivity].
  apply existsb_exists in E. destruct E as (s & I & P). rewrite (H s I) in P. discriminate.
Qed.

(* the code as found: a -pg -mfentry -mnop-mcount -fcf-protection=full module (every function starts
   with endbr64; no mcount symbol) is classified NONE although patch_fentry_code could patch the function;
   with -P nothing is traced *)
Definition cet_sym : sym := {| s_addr := 0; s_size := 14; s_type := ST_GLOBAL_FUNC; s_name := [97] |}.
Definition cet_mem : mem := mem_of 0 (endbr64 ++ fentry_nop_patt2 ++ [141; 68; 127; 1; 195] ++ [204; 204; 204; 204; 204; 204; 204; 204]).
Lemma detect_endbr_refuted :
  ordinary cet_sym = true
  /\ snd (patch_fentry_code 4080 cet_mem (s_addr cet_sym)) = Success
  /\ find_module_type false SectNone DNone cet_mem [cet_sym] = DNone
  /\ mcount_patch_func (find_module_type false SectNone DNone cet_mem [cet_sym]) 4080 0 cet_mem cet_sym = (cet_mem, Failed)
  /\ find_module_type true SectNone DNone cet_mem [cet_sym] = DFentryNop
  /\ snd (mcount_patch_func (find_module_type true SectNone DNone cet_mem [cet_sym]) 4080 0 cet_mem cet_sym) = Success.
Proof. vm_compute. repeat split; congruence. Qed.
