(* C14 - the -Z SIZE option from the command line down to mcount_patch_func *)
From Coq Require Import NArith ZArith List Bool Lia.
Require Import ZifyBool.
Import ListNotations.
Require Import UV.C14.Model UV.C14.Proofs UV.C14.Patch.
Local Open Scope Z_scope.

Lemma strtol_pos v : 0 < v -> strtol_val v = Z.min v LONG_MAX.
Proof. unfold strtol_val, LONG_MAX. lia. Qed.

(* ordinary values arrive unchanged, in both variants *)
Lemma cli_min_size_exact fixed v : 0 < v <= INT_MAX -> cli_min_size fixed v = Z.to_N v.
Proof.
  unfold INT_MAX. intro H.
  unfold cli_min_size, cli_size_filter. rewrite strtol_pos by lia. unfold LONG_MAX, INT_MAX, to_int32.
  rewrite Z.min_l by lia.
  destruct fixed.
  - destruct (Z.leb_spec v 0); [lia|]. destruct (Z.ltb_spec 2147483647 v); [lia|].
    unfold env_min_size. destruct (Z.eqb_spec v 0); [lia|]. cbn [libmcount_min_size].
    now rewrite Z.mod_small by lia.
  - rewrite Z.mod_small by lia. destruct (Z.ltb_spec v 2147483648); [|lia].
    destruct (Z.leb_spec v 0); [lia|].
    unfold env_min_size. destruct (Z.eqb_spec v 0); [lia|]. cbn [libmcount_min_size].
    now rewrite Z.mod_small by lia.
Qed.

(* repaired parser: whatever positive number the user writes, the filter that reaches libmcount is
   min(v, INT_MAX) *)
Lemma cli_min_size_fixed v : 0 < v -> cli_min_size true v = Z.to_N (Z.min v INT_MAX).
Proof.
  intro H. unfold cli_min_size, cli_size_filter. rewrite strtol_pos by exact H.
  unfold LONG_MAX, INT_MAX.
  destruct (Z.leb_spec (Z.min v 9223372036854775807) 0); [lia|].
  destruct (Z.ltb_spec 2147483647 (Z.min v 9223372036854775807)).
  - cbn. rewrite Z.min_r by lia. reflexivity.
  - unfold env_min_size. destruct (Z.eqb_spec (Z.min v 9223372036854775807) 0); [lia|]. cbn [libmcount_min_size].
    rewrite Z.mod_small by lia. f_equal. lia.
Qed.

(* the size filter end to end, repaired parser: a function smaller than the SIZE the user wrote is
   never patched (sizes below INT_MAX; a symbol-less function has no size to compare) *)
Theorem cli_size_filter_sound ty tramp m s v :
  0 < v -> Z.of_N (s_size s) < v -> Z.of_N (s_size s) < INT_MAX ->
  mcount_patch_func ty tramp (cli_min_size true v) m s = (m, Skipped).
Proof.
  intros Hv Hs Hi. apply size_filter. rewrite cli_min_size_fixed by exact Hv. unfold INT_MAX in *. lia.
Qed.
Theorem cli_size_filter_none_fixed v : v <= 0 -> cli_min_size true v = 0%N.
Proof.
  intro H. unfold cli_min_size, cli_size_filter.
  assert (E : (strtol_val v <=? 0) = true) by (unfold strtol_val, LONG_MAX; lia).
  rewrite E. reflexivity.
Qed.

(* the code as found: -Z 4294967297 reaches libmcount as 1, and a 16-byte function is patched *)
Definition z_sym : sym := {| s_addr := 0; s_size := 16; s_type := ST_GLOBAL_FUNC; s_name := [97%N] |}.
Definition z_mem : mem := mem_of 0 [144; 144; 144; 144; 144; 85; 72; 137; 229; 93; 195; 204; 204; 204; 204; 204]%N.
Lemma cli_size_filter_refuted :
  Z.of_N (s_size z_sym) < 4294967297
  /\ cli_min_size false 4294967297 = 1%N
  /\ snd (mcount_patch_func DPatchable 4080 (cli_min_size false 4294967297) z_mem z_sym) = Success
  /\ cli_min_size false 2147483648 = 0%N
  /\ cli_min_size false (-4294967295) = 1%N.
Proof. vm_compute. repeat split; congruence. Qed.
(* ... which the repaired parser does not do *)
Example cli_size_filter_fixed_witness :
  mcount_patch_func DPatchable 4080 (cli_min_size true 4294967297) z_mem z_sym = (z_mem, Skipped)
  /\ cli_min_size true 2147483648 = 2147483647%N /\ cli_min_size true (-4294967295) = 0%N
  /\ cli_min_size true 16 = 16%N
  /\ snd (mcount_patch_func DPatchable 4080 (cli_min_size true 16) z_mem z_sym) = Success.
Proof.
  split; [apply cli_size_filter_sound; vm_compute; reflexivity|]. vm_compute. repeat split; congruence.
Qed.
