(* C14 - executing a patched entry: `call trampoline ; jmp *__fentry__ ; (return)` lands where the NOP did *)
From Coq Require Import NArith ZArith List Bool Lia.
Require Import ZifyBool.
Import ListNotations.
Require Import UV.C14.Model UV.C14.Proofs UV.C14.Patch UV.C14.Layout.
Local Open Scope N_scope.

Lemma nth_skipn' {A} (l : list A) : forall i j d, nth j (skipn i l) d = nth (i + j) l d.
Proof. induction l as [|x l IH]; intros [|i] j d; cbn; try reflexivity; try (now destruct j); apply IH. Qed.
Lemma nth_firstn_lt {A} (l : list A) : forall k j d, (j < k)%nat -> nth j (firstn k l) d = nth j l d.
Proof.
  induction l as [|x l IH]; intros [|k] j d H; cbn; try reflexivity; try lia; try (now destruct j).
  destruct j; [reflexivity|]. apply IH. lia.
Qed.

(* reading a piece of what was just written *)
Lemma rd_wr_sub M t v i k : (i + k <= length v)%nat ->
  rd (wr M t v) (t + N.of_nat i) k = firstn k (skipn i v).
Proof.
  intro H. apply nth_ext with (d := 0) (d' := 0).
  - rewrite rd_length, firstn_length, skipn_length. lia.
  - rewrite rd_length. intros j Hj. rewrite nth_rd by exact Hj.
    rewrite wr_in by (unfold in_span; lia).
    replace (t + N.of_nat i + N.of_nat j - t) with (N.of_nat (i + j)) by lia. rewrite Nat2N.id.
    rewrite nth_firstn_lt by exact Hj. now rewrite nth_skipn'.
Qed.
Lemma rd_wr_disjoint M t v a k :
  (forall x, in_span a (N.of_nat k) x = true -> in_span t (N.of_nat (length v)) x = false) ->
  rd (wr M t v) a k = rd M a k.
Proof. intro H. apply rd_ext. intros x Hx. apply wr_out. now apply H. Qed.

Lemma call_not_nop tramp e : is_nop_sig (call_insn tramp e) = false.
Proof. reflexivity. Qed.

Section Entry.
  Variable m : mem.            (* code before patching *)
  Variable e : N.              (* the (post-endbr64) entry that gets patched *)
  Variable tramp fentry : Z.
  Hypothesis Hnop : is_nop_sig (rd m e 5) = true.
  Hypothesis Htr : (0 <= tramp < 18446744073709551616)%Z.
  Hypothesis Hrel : (-2147483648 <= tramp - (Z.of_N e + 5) < 2147483648)%Z.
  Hypothesis Hbehind : (Z.of_N e + 5 <= tramp)%Z.          (* the trampoline lies behind the code *)
  Hypothesis Hfe : (0 <= fentry < 18446744073709551616)%Z.
  Hypothesis Hfe1 : fentry <> Z.of_N e.
  Hypothesis Hfe2 : fentry <> tramp.

  (* memory after mcount_setup_trampoline and patch_fentry_code *)
  Definition patched : mem := wr (wr m e (call_insn tramp e)) (Z.to_N tramp) (trampoline_bytes fentry).

  Variable s0 : mstate.
  Hypothesis Hrip : st_rip s0 = Z.of_N e.

  (* the original code: one NOP *)
  Lemma original_entry :
    step m fentry s0 = Some {| st_rip := (Z.of_N e + 5)%Z; st_rsp := st_rsp s0; st_stk := st_stk s0 |}.
  Proof.
    unfold step. rewrite Hrip. destruct (Z.eqb_spec (Z.of_N e) fentry) as [E|_]; [congruence|].
    unfold decode. rewrite N2Z.id. now rewrite Hnop.
  Qed.

  Lemma patched_rd_entry : rd patched e 5 = call_insn tramp e.
  Proof.
    unfold patched. rewrite rd_wr_disjoint.
    - exact (rd_wr_same m e (call_insn tramp e)).
    - intros x Hx. unfold trampoline_bytes, in_span in *. cbn [length app trampoline_head le_bytes]. lia.
  Qed.
  Lemma patched_rd_tramp i k : (i + k <= 16)%nat ->
    rd patched (Z.to_N tramp + N.of_nat i) k = firstn k (skipn i (trampoline_bytes fentry)).
  Proof. intro H. unfold patched. apply rd_wr_sub. exact H. Qed.

  (* the patched code: call, indirect jump, __fentry__ returns - same place, same stack pointer, and the
     only stack slot that differs is the one below the stack pointer *)
  Theorem patched_entry :
    exists s3, steps 3 patched fentry s0 = Some s3
               /\ st_rip s3 = (Z.of_N e + 5)%Z /\ st_rsp s3 = st_rsp s0
               /\ forall a, a <> (st_rsp s0 - 8)%Z -> st_stk s3 a = st_stk s0 a.
  Proof.
    (* step 1: the call *)
    assert (S1 : step patched fentry s0
                 = Some {| st_rip := tramp; st_rsp := (st_rsp s0 - 8)%Z;
                           st_stk := fun a => if (a =? st_rsp s0 - 8)%Z then (Z.of_N e + 5)%Z else st_stk s0 a |}).
    { unfold step. rewrite Hrip. destruct (Z.eqb_spec (Z.of_N e) fentry) as [E|_]; [congruence|].
      unfold decode. rewrite N2Z.id, patched_rd_entry, call_not_nop.
      now rewrite (call_decodes tramp e Htr Hrel). }
    (* step 2: the trampoline *)
    set (s1 := {| st_rip := tramp; st_rsp := (st_rsp s0 - 8)%Z;
                  st_stk := fun a => if (a =? st_rsp s0 - 8)%Z then (Z.of_N e + 5)%Z else st_stk s0 a |}) in *.
    assert (S2 : step patched fentry s1
                 = Some {| st_rip := fentry; st_rsp := st_rsp s1; st_stk := st_stk s1 |}).
    { unfold step. cbn [st_rip s1]. destruct (Z.eqb_spec tramp fentry) as [E|_]; [congruence|].
      unfold decode.
      pose proof (patched_rd_tramp 0 5) as R5. pose proof (patched_rd_tramp 0 8) as R8.
      pose proof (patched_rd_tramp 8 8) as R16.
      rewrite N.add_0_r in R5, R8. rewrite R5, R8 by lia. change (N.of_nat 8) with 8 in R16. rewrite R16 by lia.
      destruct (trampoline_decodes fentry Hfe) as [Hh Ht].
      change (firstn 5 (skipn 0 (trampoline_bytes fentry))) with [62; 255; 37; 1; 0].
      change (firstn 8 (skipn 0 (trampoline_bytes fentry))) with (firstn 8 (trampoline_bytes fentry)).
      rewrite Hh.
      change (firstn 8 (skipn 8 (trampoline_bytes fentry))) with (skipn 8 (trampoline_bytes fentry)).
      rewrite Ht. reflexivity. }
    (* step 3: __fentry__ returns *)
    eexists. split.
    - cbn [steps]. rewrite S1. rewrite S2. unfold step. cbn [st_rip]. rewrite Z.eqb_refl. reflexivity.
    - cbn [st_rip st_rsp st_stk s1]. rewrite Z.eqb_refl. repeat split; [lia|].
      intros a Ha. destruct (Z.eqb_spec a (st_rsp s0 - 8)); [contradiction|reflexivity].
  Qed.
End Entry.

(* non-vacuity: the adjacent-functions example, first function *)
Example patched_entry_example :
  exists s3, steps 3 (patched adj_mem 0 4080 140737488355328) 140737488355328
                   {| st_rip := 0; st_rsp := 8000; st_stk := fun _ => 7%Z |} = Some s3
             /\ st_rip s3 = 5%Z /\ st_rsp s3 = 8000%Z.
Proof.
  destruct (patched_entry adj_mem 0 4080 140737488355328) with
    (s0 := {| st_rip := 0; st_rsp := 8000; st_stk := fun _ => 7%Z |}) as (s3 & H1 & H2 & H3 & _);
    try reflexivity; try lia; try (vm_compute; congruence).
  exists s3. auto.
Qed.
