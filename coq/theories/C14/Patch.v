(* C14 - proofs about code memory: one function, and the whole per-module loop *)
From Coq Require Import NArith ZArith List Bool Lia.
Require Import ZifyBool.
Import ListNotations.
Require Import UV.C14.Model UV.C14.Proofs.
Local Open Scope N_scope.

(* ---------- reads and writes ---------- *)
Lemma nth_rd m a n i d : (i < n)%nat -> nth i (rd m a n) d = m (a + N.of_nat i).
Proof.
  intro H. unfold rd. set (f := fun i => m (a + N.of_nat i)).
  rewrite nth_indep with (d' := f 0%nat) by (rewrite map_length, seq_length; lia).
  rewrite map_nth. rewrite seq_nth by lia. reflexivity.
Qed.
Lemma rd_length m a n : length (rd m a n) = n.
Proof. unfold rd. now rewrite map_length, seq_length. Qed.
Lemma rd_ext m m' a n :
  (forall x, in_span a (N.of_nat n) x = true -> m x = m' x) -> rd m a n = rd m' a n.
Proof.
  intro H. unfold rd. apply map_ext_in. intros i Hi. apply in_seq in Hi. apply H. unfold in_span. lia.
Qed.
Lemma wr_in m e v x : in_span e (N.of_nat (length v)) x = true -> wr m e v x = nth (N.to_nat (x - e)) v 0.
Proof. intro H. unfold wr. now rewrite H. Qed.
Lemma wr_out m e v x : in_span e (N.of_nat (length v)) x = false -> wr m e v x = m x.
Proof. intro H. unfold wr. now rewrite H. Qed.
Lemma rd_wr_same m e v : rd (wr m e v) e (length v) = v.
Proof.
  apply nth_ext with (d := 0) (d' := 0); [apply rd_length|].
  rewrite rd_length. intros i Hi. rewrite nth_rd by exact Hi.
  rewrite wr_in by (unfold in_span; lia).
  replace (e + N.of_nat i - e) with (N.of_nat i) by lia. now rewrite Nat2N.id.
Qed.

Lemma call_insn_length tramp e : length (call_insn tramp e) = 5%nat.
Proof. reflexivity. Qed.

(* ---------- little endian ---------- *)
Lemma le_val_bytes n v : (0 <= v)%Z -> le_val (le_bytes n v) = (v mod 256 ^ Z.of_nat n)%Z.
Proof.
  revert v. induction n as [|n IH]; intros v Hv.
  - cbn. now rewrite Z.mod_1_r.
  - cbn [le_bytes le_val]. rewrite IH by (apply Z.div_pos; lia).
    rewrite Z2N.id by (apply Z.mod_pos_bound; lia).
    rewrite Nat2Z.inj_succ, Z.pow_succ_r by lia.
    rewrite Z.rem_mul_r by lia. reflexivity.
Qed.

Lemma call_decodes tramp e :
  (0 <= tramp < 18446744073709551616)%Z ->
  (-2147483648 <= tramp - (Z.of_N e + 5) < 2147483648)%Z ->
  call_target e (call_insn tramp e) = Some tramp.
Proof.
  intros Ht Hd. unfold call_insn. cbn [le_bytes]. unfold call_target.
  change (232 =? 232) with true. cbv iota.
  set (r := rel32 tramp e).
  change [Z.to_N (r mod 256); Z.to_N (r / 256 mod 256); Z.to_N (r / 256 / 256 mod 256);
          Z.to_N (r / 256 / 256 / 256 mod 256)] with (le_bytes 4 r).
  assert (Hr : (0 <= r < 4294967296)%Z) by (unfold r, rel32; apply Z.mod_pos_bound; lia).
  rewrite le_val_bytes by lia. change (256 ^ Z.of_nat 4)%Z with 4294967296%Z.
  rewrite (Z.mod_small r) by lia. f_equal.
  unfold sext32. unfold r, rel32 in *.
  set (d := (tramp - (Z.of_N e + 5))%Z) in *.
  destruct (Z.ltb_spec (d mod 4294967296) 2147483648) as [L|L].
  - assert (d mod 4294967296 = d)%Z as -> by
      (destruct (Z.ltb_spec d 0); [exfalso|apply Z.mod_small; lia];
       assert (d mod 4294967296 = d + 4294967296)%Z
         by (symmetry; apply Z.mod_unique with (q := (-1)%Z); lia); lia).
    replace (Z.of_N e + 5 + d)%Z with tramp by (unfold d; lia). apply Z.mod_small; lia.
  - assert (d mod 4294967296 = d + 4294967296)%Z as ->.
    { destruct (Z.ltb_spec d 0).
      - symmetry; apply Z.mod_unique with (q := (-1)%Z); lia.
      - rewrite Z.mod_small in L by lia. lia. }
    replace (Z.of_N e + 5 + (d + 4294967296 - 4294967296))%Z with tramp by (unfold d; lia).
    apply Z.mod_small; lia.
Qed.

Lemma trampoline_decodes target :
  (0 <= target < 18446744073709551616)%Z ->
  firstn 8 (trampoline_bytes target) = trampoline_head /\ le_val (skipn 8 (trampoline_bytes target)) = target.
Proof.
  intro H. unfold trampoline_bytes. split; [reflexivity|].
  change (skipn 8 (trampoline_head ++ le_bytes 8 target)) with (le_bytes 8 target).
  rewrite le_val_bytes by lia. change (256 ^ Z.of_nat 8)%Z with 18446744073709551616%Z.
  apply Z.mod_small; lia.
Qed.

(* ---------- one function ---------- *)
Definition ty_patches (ty : dyntype) : bool := match ty with DFentryNop | DPatchable => true | _ => false end.
Definition will_patch (ty : dyntype) (tramp : Z) (min_size : N) (m : mem) (s : sym) : bool :=
  negb (s_size s <? eff_min_size min_size) && ty_patches ty
  && is_nop_sig (rd m (entry_of m (s_addr s)) 5)
  && negb (rel32 tramp (entry_of m (s_addr s)) =? 0)%Z.

Lemma patch_fentry_code_spec tramp m addr :
  patch_fentry_code tramp m addr =
  if is_nop_sig (rd m (entry_of m addr) 5) && negb (rel32 tramp (entry_of m addr) =? 0)%Z
  then (wr m (entry_of m addr) (call_insn tramp (entry_of m addr)), Success) else (m, Skipped).
Proof.
  unfold patch_fentry_code. cbv zeta.
  destruct (is_nop_sig _); destruct (rel32 _ _ =? 0)%Z; reflexivity.
Qed.

Lemma mcount_patch_func_mem ty tramp mn m s :
  fst (mcount_patch_func ty tramp mn m s) =
  if will_patch ty tramp mn m s then wr m (entry_of m (s_addr s)) (call_insn tramp (entry_of m (s_addr s))) else m.
Proof.
  unfold mcount_patch_func, will_patch.
  destruct (s_size s <? eff_min_size mn); [reflexivity|]. cbn [negb andb].
  destruct ty; cbn [ty_patches andb]; try reflexivity; rewrite patch_fentry_code_spec;
    destruct (is_nop_sig _ && negb _); reflexivity.
Qed.
Lemma mcount_patch_func_res ty tramp mn m s :
  snd (mcount_patch_func ty tramp mn m s) = Success <-> will_patch ty tramp mn m s = true.
Proof.
  unfold mcount_patch_func, will_patch.
  destruct (s_size s <? eff_min_size mn); [cbn; split; discriminate|]. cbn [negb andb].
  destruct ty; cbn [ty_patches andb]; try (cbn; split; discriminate); rewrite patch_fentry_code_spec;
    destruct (is_nop_sig _ && negb _); cbn; split; (reflexivity || discriminate).
Qed.

Lemma entry_cases m addr : entry_of m addr = addr \/ entry_of m addr = addr + 4.
Proof. unfold entry_of. destruct (bytes_eqb _ _); auto. Qed.

Theorem patch_exact ty tramp mn m s m' r :
  mcount_patch_func ty tramp mn m s = (m', r) ->
  let e := entry_of m (s_addr s) in
  (r = Success ->
     N.max mn 6 <= s_size s /\ (ty = DFentryNop \/ ty = DPatchable)
     /\ is_nop_sig (rd m e 5) = true /\ (e = s_addr s \/ e = s_addr s + 4)
     /\ rd m' e 5 = call_insn tramp e
     /\ forall a, in_span e 5 a = false -> m' a = m a)
  /\ (r <> Success -> m' = m).
Proof.
  intros E e.
  pose proof (mcount_patch_func_mem ty tramp mn m s) as Hm.
  pose proof (mcount_patch_func_res ty tramp mn m s) as Hr.
  rewrite E in Hm, Hr. cbn [fst snd] in Hm, Hr. fold e in Hm.
  destruct (will_patch ty tramp mn m s) eqn:W.
  - split; [intros _|intro N; exfalso; apply N; now apply Hr].
    unfold will_patch in W. fold e in W.
    apply andb_prop in W. destruct W as [W W4]. apply andb_prop in W. destruct W as [W W3].
    apply andb_prop in W. destruct W as [W1 W2].
    repeat split.
    + unfold eff_min_size, CALL_INSN_SIZE in W1. change (5 + 1) with 6 in W1. lia.
    + destruct ty; cbn in W2; try discriminate; auto.
    + exact W3.
    + apply entry_cases.
    + subst m'. exact (rd_wr_same m e (call_insn tramp e)).
    + intros a Ha. subst m'. now apply wr_out.
  - split; [intro S; apply Hr in S; discriminate|intros _; exact Hm].
Qed.

Lemma size_filter ty tramp mn m s : s_size s < mn -> mcount_patch_func ty tramp mn m s = (m, Skipped).
Proof.
  intro H. unfold mcount_patch_func. unfold eff_min_size.
  destruct (N.ltb_spec (s_size s) (N.max mn (CALL_INSN_SIZE + 1))); [reflexivity|lia].
Qed.
Lemma size_floor ty tramp mn m s : s_size s < 6 -> mcount_patch_func ty tramp mn m s = (m, Skipped).
Proof.
  intro H. unfold mcount_patch_func. unfold eff_min_size, CALL_INSN_SIZE. change (5 + 1) with 6.
  destruct (N.ltb_spec (s_size s) (N.max mn 6)); [reflexivity|lia].
Qed.

(* ---------- the per-module loops ---------- *)
Definition mstep (O : oracle) (c : cfg) (m : mem) (s : sym) : mem := fst (visit O c (m, stats0) s).

Lemma visit_fst_indep O c m k k' s : fst (visit O c (m, k) s) = fst (visit O c (m, k') s).
Proof.
  unfold visit. destruct (decision O c s =? 0)%Z; [reflexivity|].
  destruct (decision O c s =? 1)%Z; [|reflexivity].
  destruct (mcount_patch_func _ _ _ m s); reflexivity.
Qed.

Lemma normal_loop_mem O c syms : forall m k,
  fst (fold_left (fun st s => if skip_sym s then st else visit O c st s) syms (m, k))
  = fold_left (mstep O c) (filter (fun s => negb (skip_sym s)) syms) m.
Proof.
  induction syms as [|s syms IH]; intros m k; [reflexivity|]. cbn [fold_left filter].
  destruct (skip_sym s); cbn [negb]; [apply IH|].
  cbn [fold_left]. destruct (visit O c (m, k) s) as [m1 k1] eqn:V. rewrite IH.
  f_equal. unfold mstep. rewrite (visit_fst_indep O c m stats0 k). now rewrite V.
Qed.

Definition pstep (O : oracle) (c : cfg) (syms : list sym) (acc : mem * stats * bool) (a : N) :=
  let '(st, found) := acc in
  match resolve_target syms a with
  | None => (visit O c st (fake_sym a), true)
  | Some s => if skip_sym s then acc else (visit O c st s, true)
  end.
Lemma patchable_loop_mem O c syms targets : forall m k f,
  fst (fst (fold_left (pstep O c syms) targets (m, k, f)))
  = fold_left (mstep O c)
      (flat_map (fun a => match resolve_target syms a with
                          | Some s => if skip_sym s then [] else [s]
                          | None => [fake_sym a]
                          end) targets) m.
Proof.
  induction targets as [|a targets IH]; intros m k f; [reflexivity|].
  cbn [fold_left flat_map]. rewrite fold_left_app. unfold pstep at 2.
  destruct (resolve_target syms a) as [s|].
  - destruct (skip_sym s); [apply IH|].
    destruct (visit O c (m, k) s) as [m1 k1] eqn:V. rewrite IH. cbn [fold_left]. f_equal.
    unfold mstep. rewrite (visit_fst_indep O c m stats0 k). now rewrite V.
  - destruct (visit O c (m, k) (fake_sym a)) as [m1 k1] eqn:V. rewrite IH. cbn [fold_left]. f_equal.
    unfold mstep. rewrite (visit_fst_indep O c m stats0 k). now rewrite V.
Qed.

Lemma loop_mem O c syms targets m k :
  fst (patch_func_matched O c syms targets (m, k)) = fold_left (mstep O c) (visited c syms targets) m.
Proof.
  unfold patch_func_matched, visited.
  assert (N : fst (patch_normal_func_matched O c syms (m, k))
              = fold_left (mstep O c) (filter (fun s => negb (skip_sym s)) syms) m).
  { unfold patch_normal_func_matched.
    destruct (fold_left _ syms (m, k)) as [m1 k1] eqn:F. cbn [fst].
    pose proof (normal_loop_mem O c syms m k) as H. rewrite F in H. exact H. }
  destruct (c_ty c); try exact N.
  unfold patch_patchable_func_matched, patchable_loop. fold (pstep O c syms).
  destruct (fold_left (pstep O c syms) targets (m, k, false)) as [[m1 k1] f1] eqn:F. cbn [fst].
  pose proof (patchable_loop_mem O c syms targets m k false) as H. rewrite F in H. exact H.
Qed.

(* what one visit does, in terms of the specification's reading of the memory it sees *)
Lemma mstep_self O c m s :
  mstep O c m s = match spec_change O c m s with Some (e, code) => wr m e code | None => m end.
Proof.
  unfold mstep, visit, spec_change, spec_decision, decision. rewrite last_match_wins.
  set (d := polarity _). destruct (polarity_cases (last_hit O (c_pats c) (c_lib c) (c_so c) (s_name s))) as [E|[E|E]];
    fold d in E; rewrite E; cbn [Z.eqb Pos.eqb].
  - reflexivity.
  - pose proof (mcount_patch_func_mem (c_ty c) (c_tramp c) (c_min c) m s) as Hm.
    destruct (mcount_patch_func (c_ty c) (c_tramp c) (c_min c) m s) as [m1 r]. cbn [fst] in *.
    rewrite Hm. unfold will_patch, patchable, ty_patches.
    destruct (negb (s_size s <? eff_min_size (c_min c)) && _ && _ && _); reflexivity.
  - unfold mcount_unpatch_func, unpatch_func.
    destruct (c_ty c); try reflexivity;
      (destruct (m (s_addr s) =? 232); [reflexivity|];
       destruct ((m (s_addr s) =? 255) && (m (s_addr s + 1) =? 21)); reflexivity).
Qed.

(* the 9 bytes at a symbol's start are all a visit reads or writes *)
Definition fp (s : sym) (a : N) : bool := in_span (s_addr s) 9 a.

Lemma entry_ext m m0 addr :
  (forall a, in_span addr 9 a = true -> m a = m0 a) -> entry_of m addr = entry_of m0 addr.
Proof.
  intro H. unfold entry_of. rewrite (rd_ext m m0 addr 4); [reflexivity|].
  intros x Hx. apply H. unfold in_span in *. lia.
Qed.
Lemma spec_change_ext O c m m0 s :
  (forall a, fp s a = true -> m a = m0 a) -> spec_change O c m s = spec_change O c m0 s.
Proof.
  intro H. unfold fp in H. unfold spec_change, patchable.
  rewrite (entry_ext m m0 (s_addr s) H).
  assert (R : rd m (entry_of m0 (s_addr s)) 5 = rd m0 (entry_of m0 (s_addr s)) 5).
  { apply rd_ext. intros x Hx. apply H. destruct (entry_cases m0 (s_addr s)) as [E|E]; rewrite E in Hx;
      unfold in_span in *; lia. }
  rewrite R.
  rewrite (H (s_addr s)) by (unfold in_span; lia).
  rewrite (H (s_addr s + 1)) by (unfold in_span; lia).
  reflexivity.
Qed.
Lemma spec_change_span O c m s e code a :
  spec_change O c m s = Some (e, code) -> in_span e (N.of_nat (length code)) a = true -> fp s a = true.
Proof.
  unfold spec_change, fp. intros E H.
  destruct (spec_decision O c s =? 1)%Z.
  - destruct (patchable c m s && _); [|discriminate]. injection E as <- <-.
    rewrite call_insn_length in H. destruct (entry_cases m (s_addr s)) as [E|E]; rewrite E in H;
      unfold in_span in *; lia.
  - destruct (spec_decision O c s =? -1)%Z; [|discriminate].
    destruct (c_ty c); try discriminate;
      (destruct (m (s_addr s) =? 232);
       [injection E as <- <-; cbn in H; unfold in_span in *; lia|];
       destruct ((m (s_addr s) =? 255) && (m (s_addr s + 1) =? 21)); [|discriminate];
       injection E as <- <-; cbn in H; unfold in_span in *; lia).
Qed.

Lemma mstep_frame O c m s a : fp s a = false -> mstep O c m s a = m a.
Proof.
  intro H. rewrite mstep_self. destruct (spec_change O c m s) as [[e code]|] eqn:E; [|reflexivity].
  apply wr_out. destruct (in_span e (N.of_nat (length code)) a) eqn:I; [|reflexivity].
  rewrite (spec_change_span O c m s e code a E I) in H. discriminate.
Qed.

(* frame: whatever the memory and the symbol table look like, a byte that is not among the first
   nine bytes of a visited symbol is never written *)
Theorem update_frame O c vis : forall m a,
  (forall s, In s vis -> fp s a = false) -> fold_left (mstep O c) vis m a = m a.
Proof.
  induction vis as [|s vis IH]; intros m a H; [reflexivity|]. cbn [fold_left].
  rewrite IH by (intros t I; apply H; now right). apply mstep_frame. apply H. now left.
Qed.

Lemma apply_changes_ext m m' chs a : m a = m' a -> apply_changes m chs a = apply_changes m' chs a.
Proof.
  intro H. induction chs as [|[e code] chs IH]; cbn; [exact H|].
  destruct (in_span e (N.of_nat (length code)) a); [reflexivity|exact IH].
Qed.
Lemma changes_outside O c m0 m vis a :
  (forall s, In s vis -> fp s a = false) -> apply_changes m (changes O c m0 vis) a = m a.
Proof.
  induction vis as [|s vis IH]; intro H; [reflexivity|]. cbn [changes].
  destruct (spec_change O c m0 s) as [[e code]|] eqn:E.
  - cbn [apply_changes]. destruct (in_span e (N.of_nat (length code)) a) eqn:I.
    + pose proof (H s (or_introl eq_refl)) as Hs.
      rewrite (spec_change_span O c m0 s e code a E I) in Hs. discriminate.
    + apply IH. intros t It. apply H. now right.
  - apply IH. intros t It. apply H. now right.
Qed.

Fixpoint disjoint_fps (vis : list sym) : Prop :=
  match vis with
  | [] => True
  | s :: r => (forall t, In t r -> forall a, fp s a = true -> fp t a = false) /\ disjoint_fps r
  end.

Lemma fold_spec O c m0 vis : forall m,
  disjoint_fps vis ->
  (forall s, In s vis -> forall a, fp s a = true -> m a = m0 a) ->
  forall a, fold_left (mstep O c) vis m a = apply_changes m (changes O c m0 vis) a.
Proof.
  induction vis as [|s r IH]; intros m D A a; [reflexivity|].
  destruct D as [Ds Dr]. cbn [fold_left changes].
  assert (S1 : mstep O c m s = match spec_change O c m0 s with Some (e, code) => wr m e code | None => m end).
  { rewrite mstep_self. rewrite (spec_change_ext O c m m0 s); [reflexivity|]. intros x Hx. apply (A s); [now left|exact Hx]. }
  assert (A1 : forall t, In t r -> forall x, fp t x = true -> mstep O c m s x = m0 x).
  { intros t It x Hx. rewrite mstep_frame.
    - apply (A t); [now right|exact Hx].
    - destruct (fp s x) eqn:F; [|reflexivity]. rewrite (Ds t It x F) in Hx. discriminate. }
  rewrite (IH (mstep O c m s) Dr A1 a).
  destruct (spec_change O c m0 s) as [[e code]|] eqn:E.
  - cbn [apply_changes]. destruct (in_span e (N.of_nat (length code)) a) eqn:I.
    + rewrite changes_outside.
      * rewrite S1. now apply wr_in.
      * intros t It. apply (Ds t It). exact (spec_change_span O c m0 s e code a E I).
    + apply apply_changes_ext. rewrite S1. now apply wr_out.
  - now rewrite S1.
Qed.

(* exactness: with pairwise disjoint 9-byte heads, the memory after the loop is the memory before
   with exactly the changes the specification derives from the memory BEFORE the update *)
Theorem update_exact O c syms targets m k :
  disjoint_fps (visited c syms targets) ->
  forall a, fst (patch_func_matched O c syms targets (m, k)) a = expect O c m (visited c syms targets) a.
Proof.
  intros D a. rewrite loop_mem. unfold expect. apply fold_spec; [exact D|reflexivity].
Qed.

Theorem update_untouched O c syms targets m k a :
  (forall s, In s (visited c syms targets) -> fp s a = false) ->
  fst (patch_func_matched O c syms targets (m, k)) a = m a.
Proof. intro H. rewrite loop_mem. now apply update_frame. Qed.

(* a function the specification does not select keeps its first nine bytes, hence (frame) all of them *)
Lemma In_disjoint vis s t : disjoint_fps vis -> In s vis -> In t vis -> s <> t ->
  forall a, fp s a = true -> fp t a = false.
Proof.
  induction vis as [|u r IH]; intros D Is It Ne a F; [destruct Is|].
  destruct D as [Du Dr]. destruct Is as [Es|Is]; destruct It as [Et|It].
  - exfalso. apply Ne. congruence.
  - subst u. exact (Du t It a F).
  - subst u. destruct (fp t a) eqn:G; [|reflexivity]. rewrite (Du s Is a G) in F. discriminate.
  - exact (IH Dr Is It Ne a F).
Qed.

Lemma apply_changes_none O c m0 m vis a :
  (forall s, In s vis -> fp s a = true -> spec_change O c m0 s = None) ->
  apply_changes m (changes O c m0 vis) a = m a.
Proof.
  induction vis as [|s vis IH]; intro H; [reflexivity|]. cbn [changes].
  destruct (spec_change O c m0 s) as [[e code]|] eqn:E.
  - cbn [apply_changes]. destruct (in_span e (N.of_nat (length code)) a) eqn:I.
    + rewrite (H s (or_introl eq_refl) (spec_change_span O c m0 s e code a E I)) in E. discriminate.
    + apply IH. intros t It. apply H. now right.
  - apply IH. intros t It. apply H. now right.
Qed.

Theorem unselected_untouched O c syms targets m k :
  disjoint_fps (visited c syms targets) ->
  forall a, (forall s, In s (visited c syms targets) -> fp s a = true -> spec_change O c m s = None) ->
  fst (patch_func_matched O c syms targets (m, k)) a = m a.
Proof. intros D a H. rewrite update_exact by exact D. unfold expect. now apply apply_changes_none. Qed.

(* the size filter at the level of the specification *)
Lemma spec_size_filter O c m s :
  s_size s < N.max (c_min c) 6 -> (spec_decision O c s =? -1)%Z = false -> spec_change O c m s = None.
Proof.
  intros H N. unfold spec_change. rewrite N. unfold patchable, eff_min_size, CALL_INSN_SIZE. change (5 + 1) with 6.
  destruct (N.ltb_spec (s_size s) (N.max (c_min c) 6)); [|lia]. cbn [negb andb].
  destruct (spec_decision O c s =? 1)%Z; reflexivity.
Qed.

(* the run-time checker accepts the model's own output *)
Lemma bytes_eqb_refl b : bytes_eqb b b = true.
Proof. induction b as [|x b IH]; [reflexivity|]. cbn. now rewrite N.eqb_refl. Qed.
Theorem checker_accepts_model O c syms targets base before :
  disjoint_fps (visited c syms targets) ->
  ok_update O c syms targets base before
    (window (fst (patch_func_matched O c syms targets (mem_of base before, stats0))) base (length before)) = true.
Proof.
  intro D. unfold ok_update. cbv zeta. unfold window at 1. rewrite rd_length, Nat.eqb_refl. cbn [andb].
  match goal with |- bytes_eqb ?x ?y = true => assert (E : x = y); [|rewrite E; apply bytes_eqb_refl] end.
  unfold window. apply rd_ext. intros x _. now apply update_exact.
Qed.

Lemma sym_eq_dec (s t : sym) : {s = t} + {s <> t}.
Proof. decide equality; try apply N.eq_dec; apply (list_eq_dec N.eq_dec). Qed.

(* the size filter over the whole update: a visited function smaller than max(min_size, 6) whose
   last match is not a -U keeps its first nine bytes *)
Theorem size_filter_update O c syms targets m k s :
  disjoint_fps (visited c syms targets) -> In s (visited c syms targets) ->
  s_size s < N.max (c_min c) 6 -> (spec_decision O c s =? -1)%Z = false ->
  forall a, fp s a = true -> fst (patch_func_matched O c syms targets (m, k)) a = m a.
Proof.
  intros D I Hs Hd a Fa. apply unselected_untouched; [exact D|].
  intros t It Ft. destruct (sym_eq_dec s t) as [<-|Ne]; [now apply spec_size_filter|].
  rewrite (In_disjoint _ s t D I It Ne a Fa) in Ft. discriminate.
Qed.

(* ---------- the command line ---------- *)
Theorem cli_last_option_wins O def t o l lib so name :
  Forall wf_opt (o :: l) ->
  match_pattern_list O (parse_pattern_list O (render_opts (o :: l)) def t) lib so name
  = polarity (last_hit O (map (item_of_opt O def t) (o :: l)) lib so name).
Proof. intro H. rewrite parse_render by exact H. apply last_match_wins. Qed.

(* ---------- a faithful-model corner: the size gate is 6 bytes but an endbr64 function needs 9 ---------- *)
Definition O0 : oracle := {| o_regcomp := fun _ => false; o_regexec := fun _ _ => false; o_fnmatch := fun _ _ => false |}.
Definition spill_A : sym := {| s_addr := 0; s_size := 6; s_type := ST_GLOBAL_FUNC; s_name := [97] |}.
Definition spill_B : sym := {| s_addr := 6; s_size := 3; s_type := ST_GLOBAL_FUNC; s_name := [98] |}.
Definition spill_mem : mem := mem_of 0 (endbr64 ++ [144; 144] ++ [144; 144; 144] ++ [195; 204; 204; 204; 204; 204; 204; 204]).
Definition spill_cfg : cfg :=
  {| c_pats := [{| pi_patt := {| pt_type := PGlob; pt_str := [42] |}; pi_mod := []; pi_pos := true; pi_exact := false |}];
     c_lib := [109]; c_so := None; c_ty := DFentryNop; c_tramp := 4080; c_min := 0 |}.
Lemma spill_refuted :
  s_addr spill_A + s_size spill_A <= s_addr spill_B        (* the two symbols do not overlap *)
  /\ s_size spill_B < 6                                      (* B is below the size gate *)
  /\ fst (patch_func_matched O0 spill_cfg [spill_A; spill_B] [] (spill_mem, stats0)) 6 <> spill_mem 6.
Proof. vm_compute. repeat split; congruence. Qed.

(* non-vacuity of the exactness theorem: two adjacent 16-byte functions *)
Definition ex_syms : list sym :=
  [{| s_addr := 16; s_size := 16; s_type := ST_GLOBAL_FUNC; s_name := [97] |};
   {| s_addr := 32; s_size := 16; s_type := ST_LOCAL_FUNC; s_name := [98] |}].
Example ex_disjoint : disjoint_fps (visited spill_cfg ex_syms []).
Proof.
  cbn. split; [|split; [intros t []|exact I]].
  intros t [<-|[]] a. unfold fp, in_span. cbn [s_addr]. lia.
Qed.

(* every selected function does get its change *)
Lemma expect_selected O c m vis s e code a :
  disjoint_fps vis -> In s vis -> spec_change O c m s = Some (e, code) ->
  in_span e (N.of_nat (length code)) a = true ->
  expect O c m vis a = nth (N.to_nat (a - e)) code 0.
Proof.
  unfold expect. induction vis as [|t r IH]; intros D I E Ha; [destruct I|].
  cbn [changes]. destruct D as [Dt Dr].
  destruct (sym_eq_dec t s) as [->|Ne].
  - rewrite E. cbn [apply_changes]. now rewrite Ha.
  - destruct I as [->|I]; [exfalso; now apply Ne|].
    destruct (spec_change O c m t) as [[e' code']|] eqn:E'.
    + cbn [apply_changes]. destruct (in_span e' (N.of_nat (length code')) a) eqn:I'.
      * exfalso. pose proof (spec_change_span O c m t e' code' a E' I') as Ft.
        pose proof (spec_change_span O c m s e code a E Ha) as Fs.
        rewrite (Dt s I a Ft) in Fs. discriminate.
      * now apply IH.
    + now apply IH.
Qed.

Theorem selected_patched O c syms targets m k s e code :
  disjoint_fps (visited c syms targets) -> In s (visited c syms targets) ->
  spec_change O c m s = Some (e, code) ->
  rd (fst (patch_func_matched O c syms targets (m, k))) e (length code) = code.
Proof.
  intros D I E. apply nth_ext with (d := 0) (d' := 0); [apply rd_length|].
  rewrite rd_length. intros i Hi. rewrite nth_rd by exact Hi.
  rewrite update_exact by exact D.
  rewrite (expect_selected O c m _ s e code (e + N.of_nat i) D I E) by (unfold in_span; lia).
  replace (e + N.of_nat i - e) with (N.of_nat i) by lia. now rewrite Nat2N.id.
Qed.

(* in particular: last match -P, big enough, NOP form at the entry  ==>  `call trampoline` at the entry *)
Corollary selected_gets_call O c syms targets m k s :
  disjoint_fps (visited c syms targets) -> In s (visited c syms targets) ->
  spec_decision O c s = 1%Z -> patchable c m s = true ->
  rel32 (c_tramp c) (entry_of m (s_addr s)) <> 0%Z ->
  rd (fst (patch_func_matched O c syms targets (m, k))) (entry_of m (s_addr s)) 5
  = call_insn (c_tramp c) (entry_of m (s_addr s)).
Proof.
  intros D I Hd Hp Hr.
  apply (selected_patched O c syms targets m k s (entry_of m (s_addr s)) (call_insn (c_tramp c) (entry_of m (s_addr s))) D I).
  unfold spec_change. rewrite Hd. cbn [Z.eqb Pos.eqb]. rewrite Hp.
  destruct (Z.eqb_spec (rel32 (c_tramp c) (entry_of m (s_addr s))) 0); [contradiction|reflexivity].
Qed.
