(* C14 - exactness of the per-module loop under a REALISTIC layout hypothesis:
   symbol ranges [addr, addr+size) pairwise disjoint and every visited symbol at least as long
   as the bytes a visit really looks at (5 without endbr64, 9 with; 5/6 for an unpatched call).
   Adjacent 6-byte functions are covered (the 9-byte-head hypothesis of Patch.v excludes them). *)
From Coq Require Import NArith ZArith List Bool Lia.
Require Import ZifyBool.
Import ListNotations.
Require Import UV.C14.Model UV.C14.Proofs UV.C14.Patch.
Local Open Scope N_scope.

(* ---------- generic: any footprint F that (P1) covers what spec_change reads, relative to the
   memory m0 before the update, and (P2) covers what it writes ---------- *)
Section Generic.
  Variable O : oracle.
  Variable c : cfg.
  Variable m0 : mem.
  Variable F : sym -> N -> bool.
  Hypothesis P1 : forall s m, (forall a, F s a = true -> m a = m0 a) -> spec_change O c m s = spec_change O c m0 s.
  Hypothesis P2 : forall s e code a, spec_change O c m0 s = Some (e, code) ->
                                     in_span e (N.of_nat (length code)) a = true -> F s a = true.

  Fixpoint disjointF (vis : list sym) : Prop :=
    match vis with
    | [] => True
    | s :: r => (forall t, In t r -> forall a, F s a = true -> F t a = false) /\ disjointF r
    end.

  Lemma changes_outsideF m vis a :
    (forall s, In s vis -> F s a = false) -> apply_changes m (changes O c m0 vis) a = m a.
  Proof.
    induction vis as [|s vis IH]; intro H; [reflexivity|]. cbn [changes].
    destruct (spec_change O c m0 s) as [[e code]|] eqn:E.
    - cbn [apply_changes]. destruct (in_span e (N.of_nat (length code)) a) eqn:I.
      + pose proof (H s (or_introl eq_refl)) as Hs. rewrite (P2 s e code a E I) in Hs. discriminate.
      + apply IH. intros t It. apply H. now right.
    - apply IH. intros t It. apply H. now right.
  Qed.

  Lemma fold_specF vis : forall m,
    disjointF vis ->
    (forall s, In s vis -> forall a, F s a = true -> m a = m0 a) ->
    forall a, fold_left (mstep O c) vis m a = apply_changes m (changes O c m0 vis) a.
  Proof.
    induction vis as [|s r IH]; intros m D A a; [reflexivity|].
    destruct D as [Ds Dr]. cbn [fold_left changes].
    assert (S1 : mstep O c m s = match spec_change O c m0 s with Some (e, code) => wr m e code | None => m end).
    { rewrite mstep_self. rewrite (P1 s m); [reflexivity|]. intros x Hx. apply (A s); [now left|exact Hx]. }
    assert (A1 : forall t, In t r -> forall x, F t x = true -> mstep O c m s x = m0 x).
    { intros t It x Hx. rewrite S1.
      assert (Fs : F s x = false).
      { destruct (F s x) eqn:G; [|reflexivity]. rewrite (Ds t It x G) in Hx. discriminate. }
      destruct (spec_change O c m0 s) as [[e code]|] eqn:E.
      - rewrite wr_out; [apply (A t); [now right|exact Hx]|].
        destruct (in_span e (N.of_nat (length code)) x) eqn:I; [|reflexivity].
        rewrite (P2 s e code x E I) in Fs. discriminate.
      - apply (A t); [now right|exact Hx]. }
    rewrite (IH (mstep O c m s) Dr A1 a).
    destruct (spec_change O c m0 s) as [[e code]|] eqn:E.
    - cbn [apply_changes]. destruct (in_span e (N.of_nat (length code)) a) eqn:I.
      + rewrite changes_outsideF.
        * rewrite S1. now apply wr_in.
        * intros t It. apply (Ds t It). exact (P2 s e code a E I).
      + apply apply_changes_ext. rewrite S1. now apply wr_out.
    - now rewrite S1.
  Qed.

  Lemma expect_selectedF vis s e code a :
    disjointF vis -> In s vis -> spec_change O c m0 s = Some (e, code) ->
    in_span e (N.of_nat (length code)) a = true ->
    expect O c m0 vis a = nth (N.to_nat (a - e)) code 0.
  Proof.
    unfold expect. induction vis as [|t r IH]; intros D I E Ha; [destruct I|].
    cbn [changes]. destruct D as [Dt Dr].
    destruct (sym_eq_dec t s) as [->|Ne].
    - rewrite E. cbn [apply_changes]. now rewrite Ha.
    - destruct I as [->|I]; [exfalso; now apply Ne|].
      destruct (spec_change O c m0 t) as [[e' code']|] eqn:E'.
      + cbn [apply_changes]. destruct (in_span e' (N.of_nat (length code')) a) eqn:I'.
        * exfalso. pose proof (P2 t e' code' a E' I') as Ft. pose proof (P2 s e code a E Ha) as Fs.
          rewrite (Dt s I a Ft) in Fs. discriminate.
        * now apply IH.
      + now apply IH.
  Qed.

  Lemma apply_changes_noneF m vis a :
    (forall s, In s vis -> F s a = true -> spec_change O c m0 s = None) ->
    apply_changes m (changes O c m0 vis) a = m a.
  Proof.
    induction vis as [|s vis IH]; intro H; [reflexivity|]. cbn [changes].
    destruct (spec_change O c m0 s) as [[e code]|] eqn:E.
    - cbn [apply_changes]. destruct (in_span e (N.of_nat (length code)) a) eqn:I.
      + rewrite (H s (or_introl eq_refl) (P2 s e code a E I)) in E. discriminate.
      + apply IH. intros t It. apply H. now right.
    - apply IH. intros t It. apply H. now right.
  Qed.
End Generic.

(* ---------- the effective footprint: what a visit really reads and writes ---------- *)
Definition efp_len (O : oracle) (c : cfg) (m : mem) (s : sym) : N :=
  let d := spec_decision O c s in
  if (d =? 1)%Z then
    if (s_size s <? eff_min_size (c_min c)) || negb (ty_patches (c_ty c)) then 0
    else if has_endbr m s then 9 else 5
  else if (d =? -1)%Z then
    match c_ty c with
    | DFentry | DPatchable =>
        if m (s_addr s) =? 232 then 5
        else if (m (s_addr s) =? 255) && (m (s_addr s + 1) =? 21) then 6 else 2
    | _ => 0
    end
  else 0.
Definition efp (O : oracle) (c : cfg) (m : mem) (s : sym) (a : N) : bool :=
  in_span (s_addr s) (efp_len O c m s) a.

Lemma efp_P1 O c m0 s m :
  (forall a, efp O c m0 s a = true -> m a = m0 a) -> spec_change O c m s = spec_change O c m0 s.
Proof.
  unfold efp, efp_len, spec_change, patchable, has_endbr. intro H.
  destruct (spec_decision O c s =? 1)%Z.
  - destruct (s_size s <? eff_min_size (c_min c)); cbn [negb andb orb]; [reflexivity|].
    destruct (c_ty c); cbn [ty_patches negb andb orb] in *; try reflexivity.
    + (* DFentryNop *)
      assert (R4 : rd m (s_addr s) 4 = rd m0 (s_addr s) 4).
      { apply rd_ext. intros x Hx. apply H. destruct (bytes_eqb (rd m0 (s_addr s) 4) endbr64); unfold in_span in *; lia. }
      unfold entry_of. rewrite R4.
      destruct (bytes_eqb (rd m0 (s_addr s) 4) endbr64) eqn:B.
      * rewrite (rd_ext m m0 (s_addr s + 4) 5); [reflexivity|]. intros x Hx. apply H. unfold in_span in *. lia.
      * rewrite (rd_ext m m0 (s_addr s) 5); [reflexivity|]. intros x Hx. apply H. unfold in_span in *. lia.
    + (* DPatchable *)
      assert (R4 : rd m (s_addr s) 4 = rd m0 (s_addr s) 4).
      { apply rd_ext. intros x Hx. apply H. destruct (bytes_eqb (rd m0 (s_addr s) 4) endbr64); unfold in_span in *; lia. }
      unfold entry_of. rewrite R4.
      destruct (bytes_eqb (rd m0 (s_addr s) 4) endbr64) eqn:B.
      * rewrite (rd_ext m m0 (s_addr s + 4) 5); [reflexivity|]. intros x Hx. apply H. unfold in_span in *. lia.
      * rewrite (rd_ext m m0 (s_addr s) 5); [reflexivity|]. intros x Hx. apply H. unfold in_span in *. lia.
  - destruct (spec_decision O c s =? -1)%Z; [|reflexivity].
    destruct (c_ty c); try reflexivity.
    + assert (E0 : m (s_addr s) = m0 (s_addr s)).
      { apply H. destruct (m0 (s_addr s) =? 232); [|destruct ((m0 (s_addr s) =? 255) && (m0 (s_addr s + 1) =? 21))];
          unfold in_span; lia. }
      assert (E1 : m (s_addr s + 1) = m0 (s_addr s + 1)).
      { apply H. destruct (m0 (s_addr s) =? 232); [|destruct ((m0 (s_addr s) =? 255) && (m0 (s_addr s + 1) =? 21))];
          unfold in_span; lia. }
      now rewrite E0, E1.
    + assert (E0 : m (s_addr s) = m0 (s_addr s)).
      { apply H. destruct (m0 (s_addr s) =? 232); [|destruct ((m0 (s_addr s) =? 255) && (m0 (s_addr s + 1) =? 21))];
          unfold in_span; lia. }
      assert (E1 : m (s_addr s + 1) = m0 (s_addr s + 1)).
      { apply H. destruct (m0 (s_addr s) =? 232); [|destruct ((m0 (s_addr s) =? 255) && (m0 (s_addr s + 1) =? 21))];
          unfold in_span; lia. }
      now rewrite E0, E1.
Qed.

Lemma efp_P2 O c m0 s e code a :
  spec_change O c m0 s = Some (e, code) -> in_span e (N.of_nat (length code)) a = true -> efp O c m0 s a = true.
Proof.
  unfold efp, efp_len, spec_change, patchable, has_endbr. intros E H.
  destruct (spec_decision O c s =? 1)%Z.
  - destruct (s_size s <? eff_min_size (c_min c)); cbn [negb andb orb] in *; [discriminate|].
    destruct (c_ty c); cbn [ty_patches negb andb orb] in *; try discriminate;
      (destruct (is_nop_sig _ && negb _); [|discriminate]; injection E as <- <-;
       rewrite call_insn_length in H; unfold entry_of in H;
       destruct (bytes_eqb (rd m0 (s_addr s) 4) endbr64); unfold in_span in *; lia).
  - destruct (spec_decision O c s =? -1)%Z; [|discriminate].
    destruct (c_ty c); try discriminate;
      (destruct (m0 (s_addr s) =? 232);
       [injection E as <- <-; cbn in H; unfold in_span in *; lia|];
       destruct ((m0 (s_addr s) =? 255) && (m0 (s_addr s + 1) =? 21)); [|discriminate];
       injection E as <- <-; cbn in H; unfold in_span in *; lia).
Qed.

(* ---------- layout: disjoint symbol ranges, long enough symbols ---------- *)
Fixpoint ranges_disjoint (vis : list sym) : Prop :=
  match vis with
  | [] => True
  | s :: r => (forall t, In t r -> forall a, in_sym s a = true -> in_sym t a = false) /\ ranges_disjoint r
  end.

Lemma layout_disjoint O c m0 vis :
  ranges_disjoint vis -> (forall s, In s vis -> efp_len O c m0 s <= s_size s) ->
  disjointF (efp O c m0) vis.
Proof.
  induction vis as [|s r IH]; intros D L; [exact I|]. destruct D as [Ds Dr]. split.
  - intros t It a Ha.
    assert (Sa : in_sym s a = true).
    { pose proof (L s (or_introl eq_refl)). unfold efp, in_sym, in_span in *. lia. }
    pose proof (Ds t It a Sa) as Ta. pose proof (L t (or_intror It)).
    unfold efp, in_sym, in_span in *. lia.
  - apply IH; [exact Dr|]. intros t It. apply L. now right.
Qed.

(* the length condition follows from two facts about real functions *)
Lemma efp_len_ok O c m s :
  (has_endbr m s = true -> 9 <= s_size s) ->
  (spec_decision O c s = (-1)%Z -> 6 <= s_size s) ->
  efp_len O c m s <= s_size s.
Proof.
  intros He Hu. unfold efp_len.
  destruct (Z.eqb_spec (spec_decision O c s) 1) as [D1|D1].
  - destruct (N.ltb_spec (s_size s) (eff_min_size (c_min c))) as [L|L]; cbn [orb]; [lia|].
    destruct (negb (ty_patches (c_ty c))); [lia|].
    unfold eff_min_size, CALL_INSN_SIZE in L. destruct (has_endbr m s); [apply He; reflexivity|lia].
  - destruct (Z.eqb_spec (spec_decision O c s) (-1)) as [D2|D2]; [|lia].
    specialize (Hu D2).
    destruct (c_ty c); try lia;
      (destruct (m (s_addr s) =? 232); [lia|];
       destruct ((m (s_addr s) =? 255) && (m (s_addr s + 1) =? 21)); lia).
Qed.

Definition layout_ok (O : oracle) (c : cfg) (m : mem) (vis : list sym) : Prop :=
  ranges_disjoint vis
  /\ (forall s, In s vis -> has_endbr m s = true -> 9 <= s_size s)
  /\ (forall s, In s vis -> spec_decision O c s = (-1)%Z -> 6 <= s_size s).

Lemma layout_ok_disjoint O c m vis : layout_ok O c m vis -> disjointF (efp O c m) vis.
Proof.
  intros (D & He & Hu). apply layout_disjoint; [exact D|].
  intros s Is. apply efp_len_ok; [apply He|apply Hu]; exact Is.
Qed.

Lemma ranges_disjointb_sound vis : ranges_disjointb vis = true -> ranges_disjoint vis.
Proof.
  induction vis as [|s r IH]; intro H; [exact I|]. cbn [ranges_disjointb] in H.
  apply andb_prop in H. destruct H as [H1 H2]. split; [|now apply IH].
  intros t It a Ha. rewrite forallb_forall in H1. specialize (H1 t It).
  unfold ranges_overlap, in_sym, in_span in *. lia.
Qed.
Lemma layout_okb_sound O c m vis : layout_okb O c m vis = true -> layout_ok O c m vis.
Proof.
  unfold layout_okb, layout_ok. intro H. apply andb_prop in H. destruct H as [H1 H2].
  rewrite forallb_forall in H2. repeat split.
  - now apply ranges_disjointb_sound.
  - intros s Is He. specialize (H2 s Is). rewrite He in H2. lia.
  - intros s Is Hd. specialize (H2 s Is). rewrite Hd in H2. cbn in H2. lia.
Qed.

Theorem update_exact_layout O c syms targets m k :
  layout_ok O c m (visited c syms targets) ->
  forall a, fst (patch_func_matched O c syms targets (m, k)) a = expect O c m (visited c syms targets) a.
Proof.
  intros L a. rewrite loop_mem. unfold expect.
  apply (fold_specF O c m (efp O c m) (efp_P1 O c m) (efp_P2 O c m)); [now apply layout_ok_disjoint|reflexivity].
Qed.

Theorem selected_gets_call_layout O c syms targets m k s :
  layout_ok O c m (visited c syms targets) -> In s (visited c syms targets) ->
  spec_decision O c s = 1%Z -> patchable c m s = true ->
  rel32 (c_tramp c) (entry_of m (s_addr s)) <> 0%Z ->
  rd (fst (patch_func_matched O c syms targets (m, k))) (entry_of m (s_addr s)) 5
  = call_insn (c_tramp c) (entry_of m (s_addr s)).
Proof.
  intros L I Hd Hp Hr.
  set (e := entry_of m (s_addr s)). set (code := call_insn (c_tramp c) e).
  assert (E : spec_change O c m s = Some (e, code)).
  { unfold spec_change. rewrite Hd. cbn [Z.eqb Pos.eqb]. rewrite Hp. fold e.
    destruct (Z.eqb_spec (rel32 (c_tramp c) e) 0); [contradiction|reflexivity]. }
  change 5%nat with (length code).
  apply nth_ext with (d := 0) (d' := 0); [apply rd_length|].
  rewrite rd_length. intros i Hi. rewrite nth_rd by exact Hi.
  rewrite update_exact_layout by exact L.
  rewrite (expect_selectedF O c m (efp O c m) (efp_P2 O c m) _ s e code (e + N.of_nat i)
             (layout_ok_disjoint O c m _ L) I E) by (unfold in_span; lia).
  replace (e + N.of_nat i - e) with (N.of_nat i) by lia. now rewrite Nat2N.id.
Qed.

(* every byte of a function the specification does not select is untouched: whole symbol range *)
Theorem unselected_function_untouched O c syms targets m k s :
  layout_ok O c m (visited c syms targets) -> In s (visited c syms targets) ->
  spec_change O c m s = None ->
  forall a, in_sym s a = true -> fst (patch_func_matched O c syms targets (m, k)) a = m a.
Proof.
  intros L I E a Ha. rewrite update_exact_layout by exact L. unfold expect.
  apply (apply_changes_noneF O c m (efp O c m) (efp_P2 O c m)).
  intros t It Ft. destruct (sym_eq_dec s t) as [<-|Ne]; [exact E|]. exfalso.
  destruct L as (D & He & Hu).
  assert (Lt : efp_len O c m t <= s_size t) by (apply efp_len_ok; [apply He|apply Hu]; exact It).
  assert (Ta : in_sym t a = true) by (unfold efp, in_sym, in_span in *; lia).
  clear - D I It Ne Ha Ta.
  induction (visited c syms targets) as [|u r IH]; [destruct I|].
  destruct D as [Du Dr]. destruct I as [Es|Is]; destruct It as [Et|It].
  - apply Ne. congruence.
  - subst u. rewrite (Du t It a Ha) in Ta. discriminate.
  - subst u. rewrite (Du s Is a Ta) in Ha. discriminate.
  - exact (IH Dr Is It).
Qed.

(* the checker accepts the model under the layout hypothesis *)
Theorem checker_accepts_model_layout O c syms targets base before :
  layout_ok O c (mem_of base before) (visited c syms targets) ->
  ok_update O c syms targets base before
    (window (fst (patch_func_matched O c syms targets (mem_of base before, stats0))) base (length before)) = true.
Proof.
  intro L. unfold ok_update. cbv zeta. unfold window at 1. rewrite rd_length, Nat.eqb_refl. cbn [andb].
  match goal with |- bytes_eqb ?x ?y = true => assert (E : x = y); [|rewrite E; apply bytes_eqb_refl] end.
  unfold window. apply rd_ext. intros x _. now apply update_exact_layout.
Qed.

(* non-vacuity: two ADJACENT 6-byte functions (nop5 + ret) and a 10-byte endbr64 function;
   the 9-byte-head hypothesis of Patch.v fails for them, the layout hypothesis holds *)
Definition adj_syms : list sym :=
  [{| s_addr := 0; s_size := 6; s_type := ST_GLOBAL_FUNC; s_name := [97] |};
   {| s_addr := 6; s_size := 6; s_type := ST_LOCAL_FUNC; s_name := [98] |};
   {| s_addr := 12; s_size := 10; s_type := ST_GLOBAL_FUNC; s_name := [99] |}].
Definition adj_mem : mem :=
  mem_of 0 ([144; 144; 144; 144; 144; 195] ++ [144; 144; 144; 144; 144; 195]
            ++ endbr64 ++ [144; 144; 144; 144; 144; 195] ++ [204; 204; 204; 204; 204; 204; 204; 204]).
Example adj_layout_ok : layout_ok O0 spill_cfg adj_mem (visited spill_cfg adj_syms []).
Proof. apply layout_okb_sound. vm_compute. reflexivity. Qed.
Example adj_not_heads : ~ disjoint_fps (visited spill_cfg adj_syms []).
Proof.
  intros [H _]. specialize (H {| s_addr := 6; s_size := 6; s_type := ST_LOCAL_FUNC; s_name := [98] |}).
  assert (I : In {| s_addr := 6; s_size := 6; s_type := ST_LOCAL_FUNC; s_name := [98] |}
                 [{| s_addr := 6; s_size := 6; s_type := ST_LOCAL_FUNC; s_name := [98] |};
                  {| s_addr := 12; s_size := 10; s_type := ST_GLOBAL_FUNC; s_name := [99] |}]) by now left.
  specialize (H I 7 eq_refl). discriminate.
Qed.
Example adj_all_patched :
  rd (fst (patch_func_matched O0 spill_cfg adj_syms [] (adj_mem, stats0))) 0 22
  = call_insn 4080 0 ++ [195] ++ call_insn 4080 6 ++ [195] ++ endbr64 ++ call_insn 4080 16 ++ [195].
Proof. vm_compute. reflexivity. Qed.
