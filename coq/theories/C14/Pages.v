(* C14 - page permissions: W^X after the dynamic update *)
From Coq Require Import NArith ZArith List Bool Lia.
Require Import ZifyBool.
Import ListNotations.
Require Import UV.C14.Model.
Local Open Scope Z_scope.
Ltac Zify.zify_post_hook ::= Z.div_mod_to_equations.

Definition text_range (d : mdi) (pg : Z) : bool := in_range (d_text_addr d) (d_text_size d) pg.

Lemma setup_pages pm d pm1 d1 :
  0 <= d_text_size d ->
  setup_trampoline pm d = Some (pm1, d1) ->
  d_text_addr d1 = d_text_addr d /\ d_text_size d <= d_text_size d1 /\ d_ty d1 = d_ty d
  /\ (forall pg, pm1 pg = if text_range d1 pg then P_RWX else pm pg)
  /\ (forall pg, text_range d pg = true -> text_range d1 pg = true)
  (* a page that uftrace mapped itself lies inside the range that is cleaned up *)
  /\ (forall pg, text_range d1 pg = true -> text_range d pg = false -> d_text_size d = 0 \/ pg = page_of (d_tramp d1)).
Proof.
  intros Hs. unfold setup_trampoline.
  set (tsz := match d_ty d with DXray => 32 | _ => 16 end).
  assert (Ht : tsz = 16 \/ tsz = 32) by (unfold tsz; destruct (d_ty d); auto).
  set (tend := d_text_addr d + d_text_size d).
  destruct (Z.ltb_spec (align_up tend - tsz) tend) as [L|L].
  - destruct (pm (page_of (align_up tend - tsz + tsz))) eqn:U; try discriminate.
    intro E. injection E as <- <-. cbn [d_text_addr d_text_size d_ty d_tramp].
    repeat split; try reflexivity.
    + unfold PAGE_SIZE. lia.
    + intro pg. unfold text_range, mprotect, set_page. cbn [d_text_addr d_text_size].
      destruct (in_range (d_text_addr d) (d_text_size d + PAGE_SIZE) pg) eqn:R; [reflexivity|].
      destruct (Z.eqb_spec pg (page_of (align_up tend - tsz + tsz))) as [->|]; [|reflexivity].
      exfalso. revert R. unfold in_range, page_of, align_up, PAGE_SIZE, tend in *. lia.
    + intros pg. unfold text_range, in_range, page_of, PAGE_SIZE. cbn [d_text_addr d_text_size]. lia.
    + intros pg. unfold text_range, in_range, page_of, align_up, PAGE_SIZE, tend in *.
      cbn [d_text_addr d_text_size]. lia.
  - intro E. injection E as <- <-. cbn [d_text_addr d_text_size d_ty d_tramp].
    repeat split; try reflexivity; try lia.
    + intros pg H. exact H.
    + intros pg H1 H2. unfold text_range in *. cbn [d_text_addr d_text_size] in H1. congruence.
Qed.

Lemma setup_all_pages : forall ds pm pm1 ds1,
  Forall (fun d => 0 <= d_text_size d) ds ->
  setup_all pm ds = Some (pm1, ds1) ->
  forall pg, pm1 pg = if existsb (fun d => text_range d pg) ds1 then P_RWX else pm pg.
Proof.
  induction ds as [|d ds IH]; intros pm pm1 ds1 F E pg.
  - injection E as <- <-. reflexivity.
  - cbn [setup_all] in E. inversion F as [|? ? Fd Fr]; subst.
    destruct (setup_trampoline pm d) as [[pma d1]|] eqn:S; [|discriminate].
    destruct (setup_all pma ds) as [[pmb r2]|] eqn:A; [|discriminate].
    injection E as <- <-. cbn [existsb].
    destruct (setup_pages pm d pma d1 Fd S) as (_ & _ & _ & Hp & _).
    rewrite (IH pma pmb r2 Fr A pg). rewrite Hp.
    destruct (text_range d1 pg), (existsb (fun d0 => text_range d0 pg) r2); reflexivity.
Qed.

Lemma cleanup_all_pages : forall ds pm pg,
  cleanup_all pm ds pg = if existsb (fun d => text_range d pg) ds then P_RX else pm pg.
Proof.
  unfold cleanup_all. induction ds as [|d ds IH]; intros pm pg; [reflexivity|].
  cbn [fold_left existsb]. rewrite IH. unfold cleanup_trampoline, mprotect, text_range.
  destruct (in_range (d_text_addr d) (d_text_size d) pg), (existsb _ ds); reflexivity.
Qed.

Lemma existsb_ext' {A} (f g : A -> bool) l : (forall x, f x = g x) -> existsb f l = existsb g l.
Proof. intro H. induction l as [|x l IH]; [reflexivity|]. cbn. now rewrite H, IH. Qed.

Definition in_chunk (pg0 pg : Z) : bool := (pg0 <=? pg) && (pg <? pg0 + CODE_CHUNK_PAGES).
Definition live_chunk (cp : code_page) (pg : Z) : bool := negb (cp_frozen cp) && in_chunk (cp_page cp) pg.

Lemma freeze_pages : forall cps pm pg,
  fst (freeze_code pm cps) pg = if existsb (fun cp => live_chunk cp pg) cps then P_RX else pm pg.
Proof.
  unfold freeze_code. cbn [fst]. induction cps as [|cp cps IH]; intros pm pg; [reflexivity|].
  cbn [fold_left existsb]. rewrite IH. unfold live_chunk, in_chunk.
  destruct (cp_frozen cp); cbn [negb andb orb]; [reflexivity|]. unfold chunk_range.
  destruct ((cp_page cp <=? pg) && (pg <? cp_page cp + CODE_CHUNK_PAGES)), (existsb _ cps); reflexivity.
Qed.
Lemma freeze_all_frozen pm cps : forall cp, In cp (snd (freeze_code pm cps)) -> cp_frozen cp = true.
Proof.
  unfold freeze_code. cbn [snd]. intros cp I. apply in_map_iff in I. destruct I as (x & <- & _). reflexivity.
Qed.

Lemma alloc_pages : forall chunks pm cps pg,
  fst (fold_left (fun st pg0 => alloc_codepage (fst st) (snd st) pg0) chunks (pm, cps)) pg
  = (if existsb (fun pg0 => in_chunk pg0 pg) chunks then P_RWX else pm pg)
  /\ snd (fold_left (fun st pg0 => alloc_codepage (fst st) (snd st) pg0) chunks (pm, cps))
     = cps ++ map (fun pg0 => {| cp_page := pg0; cp_frozen := false; cp_pos := 0 |}) chunks.
Proof.
  induction chunks as [|c chunks IH]; intros pm cps pg; cbn [fold_left existsb map].
  - cbn [fst snd]. now rewrite app_nil_r.
  - change (alloc_codepage (fst (pm, cps)) (snd (pm, cps)) c)
      with (chunk_range pm c P_RWX, cps ++ [{| cp_page := c; cp_frozen := false; cp_pos := 0 |}]).
    destruct (IH (chunk_range pm c P_RWX) (cps ++ [{| cp_page := c; cp_frozen := false; cp_pos := 0 |}]) pg) as [H1 H2].
    split.
    + rewrite H1. unfold chunk_range, in_chunk.
      destruct ((c <=? pg) && (pg <? c + CODE_CHUNK_PAGES)), (existsb _ chunks); reflexivity.
    + rewrite H2. now rewrite <- app_assoc.
Qed.

(* W^X: after mcount_dynamic_update (when it does not die in pr_err) every page of a module's text
   range - including a trampoline page uftrace added - and every code page that was not frozen
   before is r-x; every other page has the permission it had before. *)
Theorem wx_update pm ds cps chunks pm' ds' cps' :
  Forall (fun d => 0 <= d_text_size d) ds ->
  dynamic_update_pages pm ds cps chunks = Some (pm', ds', cps') ->
  (forall pg, pm' pg = if touched ds' (cps ++ map (fun pg0 => {| cp_page := pg0; cp_frozen := false; cp_pos := 0 |}) chunks) pg
                       then P_RX else pm pg)
  /\ (forall cp, In cp cps' -> cp_frozen cp = true).
Proof.
  intros F. unfold dynamic_update_pages.
  destruct (setup_all pm ds) as [[pm1 ds1]|] eqn:S; [|discriminate].
  pose proof (alloc_pages chunks pm1 cps) as HA.
  destruct (fold_left _ chunks (pm1, cps)) as [pm2 cps2] eqn:A.
  pose proof (freeze_pages cps2 (cleanup_all pm2 ds1)) as HF.
  pose proof (freeze_all_frozen (cleanup_all pm2 ds1) cps2) as HZ.
  destruct (freeze_code (cleanup_all pm2 ds1) cps2) as [pm4 cps4] eqn:Z.
  intro E. injection E as <- <- <-. cbn [fst snd] in *.
  split; [|exact HZ].
  intro pg. rewrite HF, cleanup_all_pages.
  destruct (HA pg) as [H1 H2]. rewrite H1, (setup_all_pages ds pm pm1 ds1 F S pg).
  unfold touched. rewrite <- H2.
  assert (X : existsb (fun cp => negb (cp_frozen cp) && (cp_page cp <=? pg) && (pg <? cp_page cp + CODE_CHUNK_PAGES)) cps2
              = existsb (fun cp => live_chunk cp pg) cps2).
  { apply existsb_ext'. intros cp. unfold live_chunk, in_chunk. now rewrite andb_assoc. }
  fold (text_range) in *. change (fun d => in_range (d_text_addr d) (d_text_size d) pg) with (fun d => text_range d pg).
  rewrite X.
  destruct (existsb (fun d => text_range d pg) ds1) eqn:T; cbn [orb].
  - destruct (existsb (fun cp => live_chunk cp pg) cps2); reflexivity.
  - destruct (existsb (fun cp => live_chunk cp pg) cps2) eqn:L; [reflexivity|].
    destruct (existsb (fun pg0 => in_chunk pg0 pg) chunks) eqn:C; [|reflexivity].
    exfalso. rewrite H2 in L. rewrite existsb_app in L. apply orb_false_elim in L. destruct L as [_ L].
    apply existsb_exists in C. destruct C as (c0 & I0 & C0).
    assert (existsb (fun cp => live_chunk cp pg) (map (fun pg0 => {| cp_page := pg0; cp_frozen := false; cp_pos := 0 |}) chunks) = true).
    { apply existsb_exists. exists {| cp_page := c0; cp_frozen := false; cp_pos := 0 |}. split.
      - apply in_map_iff. now exists c0.
      - unfold live_chunk. cbn. exact C0. }
    congruence.
Qed.

Corollary wx_no_new_writable pm ds cps chunks pm' ds' cps' :
  Forall (fun d => 0 <= d_text_size d) ds ->
  dynamic_update_pages pm ds cps chunks = Some (pm', ds', cps') ->
  forall pg, writable (pm' pg) = true -> writable (pm pg) = true /\ pm' pg = pm pg.
Proof.
  intros F E pg W. destruct (wx_update pm ds cps chunks pm' ds' cps' F E) as [H _].
  rewrite H in W |- *. destruct (touched _ _ pg); [discriminate|auto].
Qed.

(* the code as it is dies when the page behind the text is occupied: an ordinary ELF layout
   (r-x text ending 8 bytes before a page boundary, read-only data in the next page) *)
Definition pm_elf : pmap := fun pg => if pg =? 1 then P_RX else if pg =? 2 then P_R else if pg =? 0 then P_R else Unmapped.
Definition d_elf : mdi := {| d_text_addr := 4096; d_text_size := 4088; d_tramp := 0; d_ty := DPatchable |}.
Lemma trampoline_page_refuted :
  pm_elf (page_of (d_text_addr d_elf)) = P_RX /\ pm_elf (page_of (d_text_addr d_elf + d_text_size d_elf - 1)) = P_RX
  /\ setup_trampoline pm_elf d_elf = None.
Proof. vm_compute. repeat split. Qed.
(* ... and succeeds as soon as 16 bytes are free *)
Lemma trampoline_fits pm d :
  0 <= d_text_size d -> d_ty d <> DXray ->
  (d_text_addr d + d_text_size d) mod PAGE_SIZE <> 0 ->
  (d_text_addr d + d_text_size d) mod PAGE_SIZE <= PAGE_SIZE - 16 ->
  exists pm1 d1, setup_trampoline pm d = Some (pm1, d1)
                 /\ d_text_size d1 = d_text_size d
                 /\ d_text_addr d + d_text_size d <= d_tramp d1
                 /\ page_of (d_tramp d1 + 15) = page_of (d_text_addr d + d_text_size d - 1) .
Proof.
  intros Hs Hx Hm Hr. unfold setup_trampoline.
  assert (T : match d_ty d with DXray => 32 | _ => 16 end = 16) by (destruct (d_ty d); congruence).
  rewrite T.
  destruct (Z.ltb_spec (align_up (d_text_addr d + d_text_size d) - 16) (d_text_addr d + d_text_size d)) as [L|L].
  - exfalso. unfold align_up, PAGE_SIZE in *. lia.
  - eexists _, _. split; [reflexivity|]. cbn [d_text_size d_tramp]. repeat split; try lia.
    unfold page_of, align_up, PAGE_SIZE in *. lia.
Qed.

(* the repaired variant (proposed-fixes/C14-1.diff) never kills the process, and differs from the code
   as found only where that one dies *)
Lemma repaired_never_fatal pm d : setup_trampoline_v true pm d <> SetupFatal.
Proof. unfold setup_trampoline_v. destruct (setup_trampoline pm d) as [[? ?]|]; discriminate. Qed.
Lemma repaired_same_when_ok pm d pm1 d1 :
  setup_trampoline_v false pm d = SetupOk pm1 d1 <-> setup_trampoline_v true pm d = SetupOk pm1 d1.
Proof. unfold setup_trampoline_v. destruct (setup_trampoline pm d) as [[? ?]|]; split; congruence. Qed.
