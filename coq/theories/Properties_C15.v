(* Property C15 - only statements, each closed by [exact]. *)
From Coq Require Import NArith List Bool.
Import ListNotations.
Require Import UV.C15.Model UV.C15.Proofs.
Local Open Scope N_scope.

(* Function names and string arguments: whatever bytes a name consists of, the text that
   print_json_escaped_char produces, put between quotes, is exactly one JSON string token. *)
Theorem C15_json_names_valid : forall s : list N, json_string_ok (quoted (json_escape s)) = true.
Proof. exact json_names_valid. Qed.
Print Assumptions C15_json_names_valid.

(* ... it is printable ASCII ... *)
Theorem C15_json_escape_ascii : forall s b, In b (json_escape s) -> 32 <= b <= 126.
Proof. exact json_escape_ascii. Qed.
Print Assumptions C15_json_escape_ascii.

(* ... and a JSON parser decodes it to [shown s] (the name with \n \t \xHH spelled out). *)
Theorem C15_json_name_shown : forall s, unescape (json_escape s) = shown s.
Proof. exact json_name_shown. Qed.
Print Assumptions C15_json_name_shown.

(* The command line is only passed through json_quote at record time.  That is enough exactly as long as
   it contains printable ASCII without backslashes (NUL / NL separators become blanks) ... *)
Theorem C15_json_cmdline_guarded : forall raw, forallb plain_or_sep raw = true ->
  json_string_ok (quoted (cmdline_info raw)) = true.
Proof. exact json_cmdline_info_valid. Qed.
Print Assumptions C15_json_cmdline_guarded.

(* ... and false of the code as it is otherwise: a TAB in an argument, a backslash before a quote,
   a lone backslash, a non-UTF-8 byte. *)
Theorem C15_json_cmdline_refuted :
  json_string_ok (quoted (cmdline_info [112; 0; 97; 9; 98; 0])) = false
  /\ json_string_ok (quoted (cmdline_info [112; 0; 97; 92; 34; 98; 0])) = false
  /\ json_string_ok (quoted (cmdline_info [112; 0; 92; 0])) = false
  /\ json_string_ok (quoted (cmdline_info [112; 0; 233; 0])) = false.
Proof. exact json_cmdline_refuted. Qed.
Print Assumptions C15_json_cmdline_refuted.

(* The call graph (utils/graph.c driven by the replay loop of cmds/graph.c / cmds/dump.c, including the
   loop that closes the calls still open at the end of the data) aggregates the trace: for EVERY name
   path q, the node found by walking q from the root carries
     nr_calls = number of calls of the trace whose name path is q,
     time     = sum of their durations (mod 2^64; an open call lasts until its task's last time stamp),
   and there is no such node exactly when both are 0.  Any number of tasks, any interleaving, recursion. *)
Theorem C15_graph_sums : forall rootname tids s q, wf_stream s = true -> NoDup tids ->
  calls_at q (graph_build 0 rootname tids s) = count_path q (ref_entries [] s)
  /\ time_at q (graph_build 0 rootname tids s) = time_path q (ref_calls tids s) mod W64.
Proof. exact graph_sums. Qed.
Print Assumptions C15_graph_sums.
