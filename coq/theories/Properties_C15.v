(* Property C15 - only statements, each closed by [exact]. *)
From Coq Require Import NArith List Bool.
Import ListNotations.
Require Import UV.C15.Model UV.C15.Doc UV.C15.GraphF UV.C15.BackTrace UV.C15.GraphText UV.C15.Proofs.
Local Open Scope N_scope.

(* Function names and string arguments: whatever bytes a name consists of, the text that
   print_json_escaped_char produces, put between quotes, is exactly one JSON string token. *)
Theorem C15_json_names_valid : forall s : list N, json_string_ok (quoted (json_escape s)) = true.
Proof. exact json_names_valid. Qed.
Print Assumptions C15_json_names_valid.

(* ... it is printable ASCII ... *)
Theorem C15_json_escape_ascii : forall s b, In b (json_escape s) -> 32 <= b <= 126.
Proof. exact json_escape_ascii. Qed.
Print Assumptions C15_json_escape_ascii.

(* ... and a JSON parser decodes it to [shown s] (the name with \n \t \xHH spelled out). *)
Theorem C15_json_name_shown : forall s, unescape (json_escape s) = shown s.
Proof. exact json_name_shown. Qed.
Print Assumptions C15_json_name_shown.

(* The command line is only passed through json_quote at record time.  That is enough exactly as long as
   it contains printable ASCII without backslashes (NUL / NL separators become blanks) ... *)
Theorem C15_json_cmdline_guarded : forall raw, forallb plain_or_sep raw = true ->
  json_string_ok (quoted (cmdline_info raw)) = true.
Proof. exact json_cmdline_info_valid. Qed.
Print Assumptions C15_json_cmdline_guarded.

(* ... and false of the code as it is otherwise: a TAB in an argument, a backslash before a quote,
   a lone backslash, a non-UTF-8 byte. *)
Theorem C15_json_cmdline_refuted :
  json_string_ok (quoted (cmdline_info [112; 0; 97; 9; 98; 0])) = false
  /\ json_string_ok (quoted (cmdline_info [112; 0; 97; 92; 34; 98; 0])) = false
  /\ json_string_ok (quoted (cmdline_info [112; 0; 92; 0])) = false
  /\ json_string_ok (quoted (cmdline_info [112; 0; 233; 0])) = false.
Proof. exact json_cmdline_refuted. Qed.
Print Assumptions C15_json_cmdline_refuted.

(* The call graph (utils/graph.c driven by the replay loop of cmds/graph.c / cmds/dump.c, including the
   loop that closes the calls still open at the end of the data) aggregates the trace: for EVERY name
   path q, the node found by walking q from the root carries
     nr_calls = number of calls of the trace whose name path is q,
     time     = sum of their durations (mod 2^64; an open call lasts until its task's last time stamp),
   and there is no such node exactly when both are 0.  Any number of tasks, any interleaving, recursion. *)
Theorem C15_graph_sums : forall rootname tids s q, wf_stream s = true -> NoDup tids ->
  calls_at q (graph_build 0 rootname tids s) = count_path q (ref_entries [] s)
  /\ time_at q (graph_build 0 rootname tids s) = time_path q (ref_calls tids s) mod W64.
Proof. exact graph_sums. Qed.
Print Assumptions C15_graph_sums.

(* The tree the printers walk never has two children of one node with the same name, and the walk
   (shared by graph, flame graph, graphviz and mermaid) visits every node below the root exactly once. *)
Theorem C15_graph_unique_children : forall sample rootname tids s, uniq (graph_build sample rootname tids s).
Proof. exact uniq_graph_build. Qed.
Print Assumptions C15_graph_unique_children.

Theorem C15_walk_is_the_tree : forall root e, uniq root ->
  (In e (walk_root root) <->
   w_path e <> [] /\ find_path (w_path e) root = Some (w_node e) /\ find_path (removelast (w_path e)) root = Some (w_par e)).
Proof. exact walk_root_spec. Qed.
Print Assumptions C15_walk_is_the_tree.

(* `dump --flame-graph` without sampling: (p, c) is a printed line  iff  c is the number of calls along the
   name path p and that number is not 0 ... *)
Theorem C15_flame_count : forall rootname tids s, wf_stream s = true -> NoDup tids ->
  forall p c, In (p, c) (flame_rows 0 (graph_build 0 rootname tids s))
              <-> (c = count_path p (ref_entries [] s) /\ c <> 0).
Proof. exact flame_count_lines. Qed.
Print Assumptions C15_flame_count.

(* ... and no path is printed twice. *)
Theorem C15_flame_one_line_per_path : forall rootname tids s,
  NoDup (map fst (flame_rows 0 (graph_build 0 rootname tids s))).
Proof. exact flame_one_line_per_path. Qed.
Print Assumptions C15_flame_one_line_per_path.

(* The TEXT of a flame line shows that count only while it has no more digits than the path text has
   characters (print_flame_graph: snprintf(ptr, len, ...) with len = length of the names) ... *)
Theorem C15_flame_text_guarded : forall l, flame_fits l = true -> flame_text l = flame_text_full l.
Proof. exact flame_text_fits. Qed.
Print Assumptions C15_flame_text_guarded.

(* ... and is cut otherwise: f called 13 times is printed as `f 1`. *)
Theorem C15_flame_text_refuted :
  wf_stream trunc_witness = true
  /\ flame_rows 0 (graph_build 0 [] [100] trunc_witness) = [([[102]], 13)]
  /\ map flame_text (flame_lines 0 (graph_build 0 [] [100] trunc_witness)) = [[102; 32; 49]]
  /\ map flame_text_full (flame_lines 0 (graph_build 0 [] [100] trunc_witness)) = [[102; 32; 49; 51]].
Proof. exact flame_truncation_refuted. Qed.
Print Assumptions C15_flame_text_refuted.

(* `dump --graphviz`: (a, b, c) is a printed edge `a -> b [xlabel = c]`  iff  there is a name path p with c <> 0 calls
   along it whose last name is b and whose caller (last name but one, or the program) is a. *)
Theorem C15_edges_graphviz : forall rootname tids s, wf_stream s = true -> NoDup tids ->
  forall a b c, In (a, b, c) (dot_rows (graph_build 0 rootname tids s)) <->
    exists p, c = count_path p (ref_entries [] s) /\ c <> 0 /\ b = last p [] /\ a = last (removelast p) rootname.
Proof. exact dot_edges. Qed.
Print Assumptions C15_edges_graphviz.

(* `dump --mermaid`: every edge line is made from a walk entry e; its |n| label is the number of calls along
   e's path, the two boxes carry the callee's and the caller's name. *)
Theorem C15_edges_mermaid : forall rootname tids s, wf_stream s = true -> NoDup tids ->
  forall e, In e (walk_root (graph_build 0 rootname tids s)) ->
    n_calls (w_node e) = count_path (w_path e) (ref_entries [] s)
    /\ n_name (w_node e) = last (w_path e) [] /\ n_name (w_par e) = last (removelast (w_path e)) rootname.
Proof. exact mermaid_edges. Qed.
Print Assumptions C15_edges_mermaid.

(* `uftrace graph`: every row below the program's own row is (depth, name, calls, TOTAL TIME) of one name path;
   every path with a call has its row. *)
Theorem C15_graph_rows : forall rootname tids s, wf_stream s = true -> NoDup tids ->
  forall d x c t, In (d, x, c, t) (tl (graph_rows (graph_build 0 rootname tids s))) ->
    exists p, d = N.of_nat (length p) /\ x = last p [] /\ c = count_path p (ref_entries [] s)
              /\ t = time_unit (time_path p (ref_calls tids s) mod W64).
Proof. exact graph_rows_faithful. Qed.
Print Assumptions C15_graph_rows.

Theorem C15_graph_rows_complete : forall rootname tids s, wf_stream s = true -> NoDup tids ->
  forall p, count_path p (ref_entries [] s) <> 0 ->
    In (N.of_nat (length p), last p [], count_path p (ref_entries [] s),
        time_unit (time_path p (ref_calls tids s) mod W64)) (tl (graph_rows (graph_build 0 rootname tids s))).
Proof. exact graph_rows_complete. Qed.
Print Assumptions C15_graph_rows_complete.

(* `dump --chrome`, structure of the event list (whole-document JSON validity is checked by the tie, not proved):
   for every well-formed stream whose tasks are listed, the executable checker ok_chrome accepts the model's
   events, i.e. for each task its thread's events are exactly its records in order (B for ENTRY, E for EXIT, the
   name a JSON parser reads is [shown name], ts = time/1000 . time mod 1000), followed by E events at the task's
   last time stamp for the calls still open; the sequence is balanced, properly nested, every E names the
   innermost open B, and time stamps do not decrease. *)
Theorem C15_chrome_structure : forall tasks s,
  wf_stream s = true -> NoDup (map fst tasks) -> (forall r, In r s -> In (fst r) (map fst tasks)) ->
  ok_chrome tasks s (chrome_events tasks s) = true.
Proof. exact chrome_structure. Qed.
Print Assumptions C15_chrome_structure.

(* String arguments and return values (shown by default): the text get_argspec_string puts into the
   `arguments` / `retval` member is one JSON string for EVERY payload string, and decodes to the spelled-out value. *)
Theorem C15_json_args_valid : forall entry raw, json_string_ok (quoted (arg_json entry raw)) = true.
Proof. exact json_args_valid. Qed.
Print Assumptions C15_json_args_valid.

Theorem C15_json_args_shown : forall entry raw, unescape (arg_json entry raw) = arg_shown entry raw.
Proof. exact json_args_shown. Qed.
Print Assumptions C15_json_args_shown.

(* Counts and total times do not depend on the sample time given to the flame graph. *)
Theorem C15_graph_sums_any_sample : forall sample rootname tids s q, wf_stream s = true -> NoDup tids ->
  calls_at q (graph_build sample rootname tids s) = count_path q (ref_entries [] s)
  /\ time_at q (graph_build sample rootname tids s) = time_path q (ref_calls tids s) mod W64.
Proof. exact graph_sums_gen. Qed.
Print Assumptions C15_graph_sums_any_sample.

(* a task that is switched out when the data ends: its linux:schedule call is ended under that name
   (C15_chrome_structure / C15_chrome_sched_stream_wf state it for every stream); the code as found (before bc8d6cc)
   named the closing event after the event number: *)
Theorem C15_chrome_close_sched_legacy_refuted :
  wf_stream wit_stuck = true
  /\ ok_chrome [(100, 100)] (chrome_stream wit_stuck) (chrome_events [(100, 100)] (chrome_stream wit_stuck)) = true
  /\ map c_name (chrome_events [(100, 100)] (chrome_stream wit_stuck)) = [wit_main; s_sched; s_sched; wit_main]
  /\ map c_name (chrome_events_legacy [(100, 100)] wit_stuck) = [wit_main; s_sched; [60; 51; 48; 100; 52; 50; 62]; wit_main]
  /\ ok_chrome [(100, 100)] (chrome_stream wit_stuck) (chrome_events_legacy [(100, 100)] wit_stuck) = false.
Proof. exact chrome_close_sched_legacy_refuted. Qed.
Print Assumptions C15_chrome_close_sched_legacy_refuted.

(* the calls still open at the end of the data count up to the LAST RECORD OF THEIR OWN TASK (C15_graph_sums states
   it for every stream); the code as found (before feda1db) took, for a task whose last record is a scheduler event,
   the time of the last scheduler event of any task: *)
Theorem C15_graph_last_time_legacy_refuted :
  wf_stream wit_last = true
  /\ time_path [wit_main; wit_f] (ref_calls [100; 101] wit_last) = 200
  /\ time_at [wit_main; wit_f] (graph_build 1 [112] [100; 101] wit_last) = 200
  /\ time_at [wit_main; wit_f] (graph_build_legacy 1 [112] [100; 101] wit_last) = 1000.
Proof. exact graph_last_time_legacy_refuted. Qed.
Print Assumptions C15_graph_last_time_legacy_refuted.

(* child_time of the node at a non-empty path q = sum over the calls whose CALLER's path is q of their duration
   (sample = 0), resp. of that duration rounded down to whole samples (adjust_fg_time), modulo 2^64. *)
Theorem C15_graph_child_time : forall sample rootname tids s q,
  wf_stream s = true -> NoDup tids -> (forall r, In r s -> In (fst r) tids) -> q <> [] ->
  ctime_at q (graph_build sample rootname tids s) mod W64 = Asum sample q (ref_calls tids s) mod W64.
Proof. exact graph_ctime. Qed.
Print Assumptions C15_graph_child_time.

(* `dump --flame-graph --sample-time=S` (S <> 0): (p, c) is a printed line  iff  the trace has calls along p and
   c <> 0 is (total time of these calls - whole samples shown for their callees) / S, computed in 64 bits.
   PARTIAL: that the subtraction never wraps (callees run inside their caller) is not proved. *)
Theorem C15_flame_sampled_partial : forall sample rootname tids s,
  wf_stream s = true -> NoDup tids -> (forall r, In r s -> In (fst r) tids) -> sample <> 0 ->
  forall p c, In (p, c) (flame_rows sample (graph_build sample rootname tids s)) <->
    (count_path p (ref_entries [] s) <> 0
     /\ c = sub64 (time_path p (ref_calls tids s)) (sampled_child_time sample p (ref_calls tids s)) / sample
     /\ c <> 0).
Proof. exact flame_sampled_lines. Qed.
Print Assumptions C15_flame_sampled_partial.

Theorem C15_flame_sampled_one_line_per_path : forall sample rootname tids s,
  NoDup (map fst (flame_rows sample (graph_build sample rootname tids s))).
Proof. exact flame_sampled_one_line_per_path. Qed.
Print Assumptions C15_flame_sampled_one_line_per_path.

(* ---------------------------------------------------------------------------------------------------------- *)
(* `dump --chrome` IS VALID JSON.  json_ok is a validator for RFC 8259 texts (push-down automaton over the bytes,
   strings checked as UTF-8); chrome_doc is the complete text dump_chrome_header / dump_chrome_task_rstack /
   dump_chrome_footer write (compared byte for byte with the real output on every run).  For EVERY list of tasks
   and task names (also none), EVERY list of function events (also none: all records filtered out), every function
   name, string argument / return value and stored command line the text is one JSON document; only the version
   string and the date (ctime) must be free of quotes, backslashes and control bytes. *)
Theorem C15_chrome_json_valid : forall comms evts version date cmdline,
  (forall tc, In tc comms -> fst tc < BIG) -> Forall evt_bounded evts ->
  forallb plain2 version = true -> forallb plain2 date = true ->
  json_ok (chrome_doc true comms evts version date cmdline) = true.
Proof. exact chrome_doc_valid. Qed.
Print Assumptions C15_chrome_json_valid.

(* ... in particular for the events of any record stream whose ids and time stamps are below 10^40 (any 64-bit
   value), closing events included; these events are, decoded, the ones C15_chrome_structure speaks about. *)
Theorem C15_chrome_json_valid_stream : forall tasks comms s args version date cmdline,
  (forall tp, In tp tasks -> fst tp < BIG /\ snd tp < BIG) -> (forall tc, In tc comms -> fst tc < BIG) ->
  (forall r, In r s -> fst r < BIG /\ ev_time (snd r) < BIG) ->
  forallb plain2 version = true -> forallb plain2 date = true ->
  json_ok (chrome_doc true comms (chrome_evts tasks s args) version date cmdline) = true.
Proof. exact chrome_stream_doc_valid. Qed.
Print Assumptions C15_chrome_json_valid_stream.

Theorem C15_chrome_doc_events : forall tasks s args, map cev_of (chrome_evts tasks s args) = chrome_events tasks s.
Proof. exact chrome_evts_decoded. Qed.
Print Assumptions C15_chrome_doc_events.

(* the code as found (every metadata event followed by a comma) was NOT valid when no function event is printed *)
Theorem C15_chrome_json_legacy_refuted :
  json_ok (chrome_doc false [(100, [112])] [] [118] [100] None) = false
  /\ json_ok (chrome_doc true [(100, [112])] [] [118] [100] None) = true.
Proof. exact chrome_doc_legacy_refuted. Qed.
Print Assumptions C15_chrome_json_legacy_refuted.

(* ---------------------------------------------------------------------------------------------------------- *)
(* Callees run inside their caller: along every non-empty name path the calls made from the calls on that path
   last, together, at most as long as those calls (open calls included). *)
Theorem C15_callees_inside_caller : forall tids s q,
  wf_stream s = true -> NoDup tids -> (forall r, In r s -> In (fst r) tids) -> q <> [] ->
  child_time_of q (ref_calls tids s) <= time_path q (ref_calls tids s).
Proof. exact child_le_time. Qed.
Print Assumptions C15_callees_inside_caller.

(* Hence the subtraction in the sampled flame count never wraps: when the per-path totals fit 64 bits, (p, c) is a
   printed line of `dump --flame-graph --sample-time=S` iff the trace has calls along p and
   c = (total time along p - whole samples shown for the callees) / S is not 0.   (closes C15_flame_sampled_partial) *)
Theorem C15_flame_sampled : forall sample rootname tids s,
  wf_stream s = true -> NoDup tids -> (forall r, In r s -> In (fst r) tids) -> sample <> 0 ->
  (forall p, time_path p (ref_calls tids s) < W64) ->
  forall p c, In (p, c) (flame_rows sample (graph_build sample rootname tids s)) <->
    (count_path p (ref_entries [] s) <> 0
     /\ c = (time_path p (ref_calls tids s) - sampled_child_time sample p (ref_calls tids s)) / sample
     /\ c <> 0).
Proof. exact flame_sampled_exact. Qed.
Print Assumptions C15_flame_sampled.

(* DESIGN.md's bound `sum of count * sample <= total time` is FALSE of the code: 1.2 us of run time, 2 samples of 1 us
   (replayed on the real uftrace by the tie: `main 1`, `main;f 1`). *)
Theorem C15_flame_total_bound_refuted :
  wf_stream overcount_witness = true
  /\ flame_rows 1000 (graph_build 1000 [] [100] overcount_witness) = [([[109]], 1); ([[109]; [102]], 1)]
  /\ time_path [[109]] (ref_calls [100] overcount_witness) = 1200.
Proof. exact flame_total_bound_refuted. Qed.
Print Assumptions C15_flame_total_bound_refuted.

(* ---------------------------------------------------------------------------------------------------------- *)
(* `uftrace graph FUNC` (cmds/graph.c with a function argument: start_graph / end_graph / tg->enabled): for EVERY
   well-formed stream and every name path q, the node reached by q below the root line (FUNC) counts the calls whose
   name path, cut after the OUTERMOST occurrence of FUNC, is q, and carries the sum of their durations; the root
   line itself (q = []) counts and times the outermost calls of FUNC.  Recursion of FUNC, several tasks, open calls. *)
Theorem C15_graph_func_sums : forall func tids s q, wf_stream s = true -> NoDup tids ->
  calls_at q (graphf_build func tids s) = countf func q (ref_entries [] s)
  /\ time_at q (graphf_build func tids s) = timef func q (ref_calls tids s) mod W64.
Proof. exact graphf_sums. Qed.
Print Assumptions C15_graph_func_sums.

Theorem C15_graph_func_rows : forall func tids s, wf_stream s = true -> NoDup tids ->
  forall e, In e (walk_root (graphf_build func tids s)) ->
    n_calls (w_node e) = countf func (w_path e) (ref_entries [] s)
    /\ n_time (w_node e) = timef func (w_path e) (ref_calls tids s) mod W64
    /\ n_name (w_node e) = last (w_path e) [].
Proof. exact graphf_walk_faithful. Qed.
Print Assumptions C15_graph_func_rows.

Theorem C15_graph_func_rows_complete : forall func tids s, wf_stream s = true -> NoDup tids ->
  forall q, q <> [] -> countf func q (ref_entries [] s) <> 0 ->
    exists e, In e (walk_root (graphf_build func tids s)) /\ w_path e = q.
Proof. exact graphf_walk_complete. Qed.
Print Assumptions C15_graph_func_rows_complete.

(* The BACKTRACE section of `uftrace graph FUNC` (save_backtrace_addr / save_backtrace_time): functions are symbol
   indices (an address determines the symbol), isf i = symbol i is called FUNC.  For EVERY stack of symbols q the
   `hit` printed for q (0 = q is not listed) is the number of outermost entries of FUNC made with exactly that stack,
   and for every stack that ends in an outermost FUNC the `time` is the total duration of those calls (mod 2^64). *)
Theorem C15_graph_func_backtraces : forall isf tids s,
  wf_stream (istream_as_stream s) = true -> NoDup tids ->
  (forall q, hit_of q (backtraces isf tids s) = ref_bt_hit q (ref_bt_keys isf s))
  /\ (forall q, outermost isf q = true ->
        time_of q (backtraces isf tids s) = ref_bt_time q (ref_calls tids (istream_as_stream s)) mod W64).
Proof. exact backtraces_sums. Qed.
Print Assumptions C15_graph_func_backtraces.

(* Re-entry of FUNC (direct or mutual recursion, FUNC again after it returned, FUNC in several tasks): the FUNC line
   counts exactly the entries of FUNC made while no FUNC was running in the same task, i.e. the entries whose name
   path is pre ++ [FUNC] with FUNC not in pre; nested entries are nodes below the root (C15_graph_func_sums). *)
Theorem C15_graph_func_root_outermost : forall func tids s, wf_stream s = true -> NoDup tids ->
  n_calls (graphf_build func tids s) = N.of_nat (length (filter (outer_entry func) (ref_entries [] s))).
Proof. exact graphf_root_outermost. Qed.
Print Assumptions C15_graph_func_root_outermost.

Theorem C15_outer_entry_spec : forall func p,
  rel_path func p = Some [] <-> exists pre, p = pre ++ [func] /\ ~ In func pre.
Proof. exact rel_path_nil_spec. Qed.
Print Assumptions C15_outer_entry_spec.

(* The argument text as get_argspec_string writes it into dump's 2 KiB buffer after 618ee80 (any number of string and
   char arguments; a piece - separator, quote, ONE escaped character - that does not fit is dropped whole and nothing
   more is taken): wherever the buffer ends, the text is the inside of one JSON string, never half an escape sequence.
   C15_chrome_json_valid is stated over documents whose events carry these texts. *)
Theorem C15_json_args_text_valid : forall entry args, json_string_ok (quoted (args_text entry args)) = true.
Proof. exact json_args_text_valid. Qed.
Print Assumptions C15_json_args_text_valid.

(* arguments of other formats in the chrome text: a pointer is printed as `&` + the ESCAPED name of the symbol it
   points to (fix 767f11d; C15_json_args_text_valid covers it for every name), else as 0 / 0x...; the code as found
   printed the name raw: *)
Theorem C15_json_ptr_legacy_refuted :
  json_string_ok (quoted ([40] ++ ptr_text_legacy [102; 34; 103] ++ [41])) = false
  /\ json_string_ok (quoted (args_text true [APtr (Some [102; 34; 103]) 4198912])) = true.
Proof. exact json_ptr_legacy_refuted. Qed.
Print Assumptions C15_json_ptr_legacy_refuted.

(* a struct passed by value is printed as its ESCAPED type name + {...} (fix for the struct name; also covered by
   C15_json_args_text_valid for every name, as are the integer formats d/i/x/o and doubles); the code as found
   printed the type name raw: *)
Theorem C15_json_struct_legacy_refuted :
  json_string_ok (quoted ([40] ++ struct_text_legacy [110; 34; 109] 8 ++ [41])) = false
  /\ json_string_ok (quoted (args_text true [AStruct (Some [110; 34; 109]) 8])) = true.
Proof. exact json_struct_legacy_refuted. Qed.
Print Assumptions C15_json_struct_legacy_refuted.

(* `dump --flame-graph` on recorded data (info has a record date) and no --sample-time: the sample time is the
   smallest of 1us, 10us, ... 1s of which a million cover the elapsed time (1s at most) ... *)
Theorem C15_flame_auto_sample : forall total,
  let s := auto_sample total in
  In s [1000; 10000; 100000; 1000000; 10000000; 100000000; 1000000000]
  /\ (total <= s * 1000000 \/ s = 1000000000)
  /\ (s = 1000 \/ (s / 10) * 1000000 < total).
Proof. exact auto_sample_spec. Qed.
Print Assumptions C15_flame_auto_sample.

(* ... and the lines are the sampled counts at that sample time. *)
Theorem C15_flame_auto_lines : forall total rootname tids s,
  wf_stream s = true -> NoDup tids -> (forall r, In r s -> In (fst r) tids) ->
  (forall p, time_path p (ref_calls tids s) < W64) ->
  forall p c, In (p, c) (flame_rows (auto_sample total) (graph_build (auto_sample total) rootname tids s)) <->
    (count_path p (ref_entries [] s) <> 0
     /\ c = (time_path p (ref_calls tids s) - sampled_child_time (auto_sample total) p (ref_calls tids s)) / auto_sample total
     /\ c <> 0).
Proof. exact flame_auto_lines. Qed.
Print Assumptions C15_flame_auto_lines.

(* Tasks renamed while they run (perf COMM events: prctl(PR_SET_NAME), pthread_setname_np, exec) put process_name /
   thread_name metadata events into the middle of traceEvents (dump_chrome_perf_event, escaped since 30262fc).  The
   document with any such items among the events is valid JSON, whatever bytes the new names consist of ... *)
Theorem C15_chrome_json_valid_items : forall comms items version date cmdline,
  (forall tc, In tc comms -> fst tc < BIG) -> Forall item_bounded items ->
  forallb plain2 version = true -> forallb plain2 date = true ->
  json_ok (chrome_doc_items true comms items version date cmdline) = true.
Proof. exact chrome_doc_items_valid. Qed.
Print Assumptions C15_chrome_json_valid_items.

Theorem C15_chrome_json_valid_stream_items : forall tasks comms s args renames version date cmdline,
  (forall tp, In tp tasks -> fst tp < BIG /\ snd tp < BIG) -> (forall tc, In tc comms -> fst tc < BIG) ->
  (forall r, In r s -> fst r < BIG /\ ev_time (snd r) < BIG) -> (forall r, In r renames -> snd (fst r) < BIG) ->
  forallb plain2 version = true -> forallb plain2 date = true ->
  json_ok (chrome_doc_items true comms (chrome_items tasks s args renames) version date cmdline) = true.
Proof. exact chrome_stream_items_valid. Qed.
Print Assumptions C15_chrome_json_valid_stream_items.

(* ... and was not with the code as found: a task renamed to a-quote-b *)
Theorem C15_chrome_comm_legacy_refuted :
  json_ok (chrome_doc_texts true [(100, [112])] [comm_text_legacy 100 [97; 34; 98]] [118] [100] None) = false
  /\ json_ok (chrome_doc_items true [(100, [112])] [DComm 100 100 [97; 34; 98]] [118] [100] None) = true.
Proof. exact chrome_comm_legacy_refuted. Qed.
Print Assumptions C15_chrome_comm_legacy_refuted.

(* Scheduler events (perf data) are calls of the pseudo functions linux:schedule / linux:schedule (pre-empted) in every
   exporter (since e743adf also the pre-empted ones in dump); dump --chrome names both linux:schedule.  The renamed
   stream of a well-formed stream is well formed, so C15_chrome_structure and the JSON theorems apply to it. *)
Theorem C15_chrome_sched_stream_wf : forall s, wf_stream s = true -> wf_stream (chrome_stream s) = true.
Proof. exact chrome_stream_wf. Qed.
Print Assumptions C15_chrome_sched_stream_wf.
