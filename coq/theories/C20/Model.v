(* C20 - model of utils/utils.c: is_uftrace_directory, is_empty_directory,
   can_remove_directory, remove_directory, create_directory (+ create_default_opts),
   and of a `uftrace record -d DIR` run seen from DIR's parent directory.

   The world is the pair of directory entries the code can touch: DIR and DIR.old
   (both live in the same, writable parent directory; the process can read every
   entry - the harness runs as root like the test-suite does).                      *)
From Coq Require Import NArith List Bool.
Import ListNotations.
Require Import UV.Gen.Consts.
Local Open Scope N_scope.

Definition name := list N.                 (* file name bytes *)
Inductive tree :=
| File (content : list N)
| Dir (entries : list (name * tree))
| Link                                     (* a symbolic link to a foreign directory outside DIR and DIR.old *)
| ULink.                                   (* a symbolic link to a uftrace data directory outside DIR and DIR.old *)
Definition slot := option tree.            (* None = the path does not exist *)
Record world := { dir : slot; old : slot }.

Fixpoint name_eqb (a b : name) : bool :=
  match a, b with
  | [], [] => true
  | x :: a', y :: b' => (x =? y) && name_eqb a' b'
  | _, _ => false
  end.
Fixpoint lookup (n : name) (es : list (name * tree)) : option tree :=
  match es with
  | [] => None
  | (m, t) :: r => if name_eqb n m then Some t else lookup n r
  end.

Definition n_info : name := [105; 110; 102; 111].                                   (* "info" *)
Definition n_default_opts : name := [100; 101; 102; 97; 117; 108; 116; 46; 111; 112; 116; 115]. (* "default.opts" *)

Fixpoint list_eqb (a b : list N) : bool :=
  match a, b with
  | [], [] => true
  | x :: a', y :: b' => (x =? y) && list_eqb a' b'
  | _, _ => false
  end.

(* read(fd, sig, UFTRACE_MAGIC_LEN) into a zeroed buffer, then memcmp with "Ftrace!\0" *)
Definition magic8 : list N := UFTRACE_MAGIC_STR ++ [0].
Definition sig_of (content : list N) : list N :=
  firstn (N.to_nat UFTRACE_MAGIC_LEN) (content ++ repeat 0 (N.to_nat UFTRACE_MAGIC_LEN)).

Definition is_uftrace_directory (es : list (name * tree)) : bool :=
  match lookup n_info es with
  | Some (File c) => list_eqb (sig_of c) magic8          (* open ok: the magic decides *)
  | Some (Dir _) => false                                  (* open ok, read fails: sig stays zero *)
  | Some Link => false                                     (* opens the directory it points to: read fails as well *)
  | Some ULink => false
  | None => match lookup n_default_opts es with Some _ => true | None => false end
  end.
Definition is_empty_directory (es : list (name * tree)) : bool :=
  match es with [] => true | _ => false end.

(* can_remove_directory(path): exists and (uftrace data or empty); a plain file is neither.  access(), open() and
   opendir() follow a symbolic link: a link to uftrace data elsewhere passes the test *)
Definition can_remove (s : slot) : bool :=
  match s with
  | Some (Dir es) => is_uftrace_directory es || is_empty_directory es
  | Some ULink => true
  | _ => false
  end.
(* lstat() says S_ISDIR: a real directory, not a link to one *)
Definition real_dir (s : slot) : bool := match s with Some (Dir _) => true | _ => false end.
Definition exists_ (s : slot) : bool := match s with Some _ => true | None => false end.

Inductive result := OK | Error.

(* rename(DIR, DIR.old).  A directory: the target may only be absent or an empty directory.  A symbolic link (DIR is a
   link to a directory): the target may be absent - or a file or a link, which rename() REPLACES without asking; only a
   directory in the way makes it fail (EISDIR) *)
Definition rename_ok (src dst : slot) : bool :=
  match src, dst with
  | Some (Dir _), None => true
  | Some (Dir _), Some (Dir []) => true
  | Some (Dir _), _ => false
  | Some (File _), _ => false
  | Some _, Some (Dir _) => false
  | Some _, _ => true
  | None, _ => false
  end.

(* fopen("DIR/default.opts", "w") ; write ; close   -- only possible inside a directory, and not
   over an entry that is itself a directory *)
Fixpoint set_entry (n : name) (t : tree) (es : list (name * tree)) : list (name * tree) :=
  match es with
  | [] => [(n, t)]
  | (m, u) :: r => if name_eqb n m then (m, t) :: r else (m, u) :: set_entry n t r
  end.
Definition write_default_opts (opts : list N) (s : slot) : slot :=
  match s with
  | Some (Dir es) =>
      match lookup n_default_opts es with
      | Some (Dir _) => s
      | _ => Some (Dir (set_entry n_default_opts (File opts) es))
      end
  | _ => s
  end.

(* create_directory.  [guarded] = the code after the "fix:" commits: create_default_opts is called only after a
   successful mkdir, and a DIR.old that exists but is not a real directory holding uftrace data (or nothing) makes
   the run fail before anything is renamed; [guarded = false] is the code as found, which left that to rename() -
   enough when DIR is a directory (rename fails), not when DIR is a symbolic link (rename replaces a file or link). *)
Definition create_directory (guarded : bool) (opts : list N) (w : world) : world * result :=
  let rotate := can_remove (dir w) in
  let old_ours := real_dir (old w) && can_remove (old w) in
  (* guarded: refuse; as found: remove_directory() of a link to uftrace data empties the target and fails at rmdir *)
  if rotate && exists_ (old w) && negb old_ours && (guarded || can_remove (old w)) then (w, Error)
  else
  (* remove an old DIR.old that is uftrace data or empty *)
  let old1 := if rotate && old_ours then None else old w in
  if rotate && negb (rename_ok (dir w) old1) then ({| dir := dir w; old := old1 |}, Error)
  else
    let w1 := if rotate then {| dir := None; old := dir w |} else {| dir := dir w; old := old1 |} in
    match dir w1 with
    | None => ({| dir := write_default_opts opts (Some (Dir [])); old := old w1 |}, OK)
    | Some _ =>  (* mkdir fails with EEXIST *)
        if guarded then (w1, Error)
        else ({| dir := write_default_opts opts (dir w1); old := old w1 |}, Error)
    end.

(* A run of `uftrace record -d DIR`: create_directory, and on success the recorder fills DIR
   with files of its own choosing (arbitrary [extra], e.g. nothing when it is killed at once). *)
Record run := { r_opts : list N; r_extra : list (name * tree) }.
Definition populate (extra : list (name * tree)) (s : slot) : slot :=
  match s with
  | Some (Dir es) => Some (Dir (es ++ extra))
  | _ => s
  end.
Definition record_run (guarded : bool) (w : world) (r : run) : world * result :=
  match create_directory guarded (r_opts r) w with
  | (w', OK) => ({| dir := populate (r_extra r) (dir w'); old := old w' |}, OK)
  | (w', Error) => (w', Error)
  end.
Definition record_runs (guarded : bool) (w : world) (rs : list run) : world :=
  fold_left (fun w r => fst (record_run guarded w r)) rs w.

(* Foreign data: something that exists and is neither an empty directory nor uftrace data *)
Definition foreign (s : slot) : bool :=
  match s with Some _ => negb (can_remove s) | None => false end.

(* ----- executable checker used on IMPLEMENTATION outputs (before/after snapshots) ----- *)
Fixpoint tree_eqb (a b : tree) {struct a} : bool :=
  match a, b with
  | File x, File y => list_eqb x y
  | Link, Link => true
  | ULink, ULink => true
  | Dir xs, Dir ys =>
      (fix go (l1 l2 : list (name * tree)) {struct l1} : bool :=
         match l1, l2 with
         | [], [] => true
         | (n1, t1) :: r1, (n2, t2) :: r2 => name_eqb n1 n2 && tree_eqb t1 t2 && go r1 r2
         | _, _ => false
         end) xs ys
  | _, _ => false
  end.
Definition slot_eqb (a b : slot) : bool :=
  match a, b with
  | None, None => true
  | Some x, Some y => tree_eqb x y
  | _, _ => false
  end.
Definition result_eqb (a b : result) : bool :=
  match a, b with OK, OK | Error, Error => true | _, _ => false end.
Definition world_eqb (a b : world) : bool := slot_eqb (dir a) (dir b) && slot_eqb (old a) (old b).

(* property C20 for ONE observed run: before-world, after-world, result *)
Definition ok_run (before after : world) (res : result) : bool :=
  (* foreign DIR: untouched, recording fails, DIR.old untouched *)
  (if foreign (dir before)
   then slot_eqb (dir after) (dir before) && slot_eqb (old after) (old before) && result_eqb res Error
   else true) &&
  (* foreign DIR.old is never modified or removed *)
  (if foreign (old before) then slot_eqb (old after) (old before) else true) &&
  (* DIR replaced only when empty/uftrace data, and then its previous content is DIR.old *)
  (match dir before with
   | Some t => if slot_eqb (dir after) (dir before) then true
               else can_remove (dir before) && slot_eqb (old after) (Some t)
   | None => slot_eqb (old after) (old before)
   end) &&
  (* a failing run changes nothing that is foreign and does not create DIR out of nothing... *)
  (match res with
   | Error => if foreign (dir before) || foreign (old before)
              then slot_eqb (dir after) (dir before) else true
   | OK => true
   end).

(* ----- normalisation: directory entries sorted by name (readdir order is not observable) ----- *)
Fixpoint name_leb (a b : name) : bool :=
  match a, b with
  | [], _ => true
  | _ :: _, [] => false
  | x :: a', y :: b' => if x <? y then true else if y <? x then false else name_leb a' b'
  end.
Fixpoint insert_entry (e : name * tree) (l : list (name * tree)) : list (name * tree) :=
  match l with
  | [] => [e]
  | f :: r => if name_leb (fst e) (fst f) then e :: l else f :: insert_entry e r
  end.
Fixpoint norm (t : tree) : tree :=
  match t with
  | File c => File c
  | Link => Link
  | ULink => ULink
  | Dir es => Dir (fold_right insert_entry [] (map (fun e => (fst e, norm (snd e))) es))
  end.
Definition norm_slot (s : slot) : slot := option_map norm s.
Definition norm_world (w : world) : world := {| dir := norm_slot (dir w); old := norm_slot (old w) |}.

(* correspondence: model of create_directory vs observed (before, opts, after, result) *)
Definition agrees (guarded : bool) (c : world * list N * world * result) : bool :=
  let '(before, opts, after, res) := c in
  let '(m, mres) := create_directory guarded opts before in
  world_eqb (norm_world m) (norm_world after) && result_eqb mres res.
Definition okc (c : world * list N * world * result) : bool :=
  let '(before, opts, after, res) := c in ok_run (norm_world before) (norm_world after) res.

(* whole-history checker: what was foreign at the start is identical at the end *)
Definition ok_history (first last : world) : bool :=
  (if foreign (dir first) then slot_eqb (norm_slot (dir last)) (norm_slot (dir first)) else true) &&
  (if foreign (old first) then slot_eqb (norm_slot (old last)) (norm_slot (old first)) else true).

Fixpoint bad_indices {A} (f : A -> bool) (l : list A) (i : nat) : list nat :=
  match l with
  | [] => []
  | x :: r => if f x then bad_indices f r (S i) else i :: bad_indices f r (S i)
  end.

(* `record --host H -d DIR`: DIR is only a local staging directory; after a successful run the
   recorder sends its content and removes the directory it created itself (cmds/record.c
   write_symbol_files: remove_directory(opts->dirname)); when create_directory fails nothing else
   happens (command_record returns -1 at once). *)
Definition record_run_host (guarded : bool) (w : world) (r : run) : world * result :=
  match create_directory guarded (r_opts r) w with
  | (w', OK) => ({| dir := None; old := old w' |}, OK)
  | (w', Error) => (w', Error)
  end.

(* ----- live mode (cmds/live.c): the data directory is a name obtained from mkstemp + unlink - a name that did
   not exist then - recorded into like any DIR; cleanup_tempdir removes it at exit if can_remove_directory says it
   is uftrace data or empty ([guarded_cleanup]; the code as found removed it unconditionally) *)
Definition live_run (guarded_cleanup : bool) (w : world) (r : run) : world :=
  let w' := fst (record_run true w r) in
  {| dir := if guarded_cleanup && negb (can_remove (dir w')) then dir w' else None; old := old w' |}.

(* ----- what lies OUTSIDE DIR and DIR.old: remove_directory must not follow a symbolic link ----- *)
Fixpoint has_link (t : tree) : bool :=
  match t with
  | Link => true
  | ULink => false
  | File _ => false
  | Dir es => (fix go (l : list (name * tree)) : bool :=
                 match l with [] => false | (_, u) :: r => has_link u || go r end) es
  end.
(* remove_directory(t) with [follow] = the entries are examined with stat() (the code as found): a link to a directory
   is taken for a directory and what it points to is emptied; with lstat() (repaired) the link itself is unlinked *)
Definition remove_effect (follow : bool) (t : tree) (ext : slot) : slot :=
  if follow && has_link t then match ext with Some (Dir _) => Some (Dir []) | _ => ext end else ext.
(* the outside directory after `uftrace record -d DIR`: create_directory removes DIR.old (only) when both DIR and
   DIR.old may be replaced *)
Definition outside_after (follow : bool) (w : world) (ext : slot) : slot :=
  if can_remove (dir w) && can_remove (old w)
  then match old w with Some t => remove_effect follow t ext | None => ext end
  else ext.
