From Coq Require Import NArith List Bool Lia.
Import ListNotations.
Require Import UV.Gen.Consts UV.C20.Model.
Local Open Scope N_scope.

(* ---------- complete characterisation of the guarded create_directory ---------- *)
Lemma foreign_not_removable s : foreign s = true -> can_remove s = false.
Proof. unfold foreign. destruct s as [t|]; [|discriminate]. destruct (can_remove (Some t)); cbn; congruence. Qed.

Lemma rename_ok_None t : can_remove (Some t) = true -> rename_ok (Some t) None = true.
Proof. destruct t as [c|es| |]; cbn; [discriminate|reflexivity|discriminate|reflexivity]. Qed.

Definition fresh (opts : list N) : slot := Some (Dir [(n_default_opts, File opts)]).

(* DIR.old is "ours": a real directory (not a link to one) holding uftrace data or nothing *)
Definition old_ours (s : slot) : bool := real_dir s && can_remove s.
(* DIR.old is in the way: it exists and is not ours - a foreign directory, a file, any symbolic link *)
Definition in_the_way (s : slot) : bool := exists_ s && negb (old_ours s).

Lemma foreign_in_the_way s : foreign s = true -> in_the_way s = true.
Proof.
  unfold foreign, in_the_way, old_ours. destruct s as [t|]; [|discriminate]. intro H.
  apply negb_true_iff in H. rewrite H, andb_false_r. reflexivity.
Qed.

Lemma create_spec opts w :
  create_directory true opts w =
  match dir w with
  | None => ({| dir := fresh opts; old := old w |}, OK)
  | Some t =>
      if can_remove (Some t)
      then (if in_the_way (old w) then (w, Error)
            else ({| dir := fresh opts; old := Some t |}, OK))
      else (w, Error)
  end.
Proof.
  destruct w as [d o]; unfold create_directory, in_the_way, old_ours; cbn [dir old].
  destruct d as [t|].
  - destruct (can_remove (Some t)) eqn:R; cbn [andb negb orb].
    + destruct (exists_ o && negb (real_dir o && can_remove o)) eqn:W; cbn [andb orb negb].
      * reflexivity.
      * assert (O1 : (if real_dir o && can_remove o then None else o) = None).
        { destruct o as [ot|]; [|destruct (real_dir None && can_remove None); reflexivity].
          cbn [exists_ andb] in W. apply negb_false_iff in W. rewrite W. reflexivity. }
        rewrite O1, (rename_ok_None t R). cbn. reflexivity.
    + cbn. reflexivity.
  - cbn. reflexivity.
Qed.

(* ---------- one run ---------- *)
Lemma run_foreign_dir w r : foreign (dir w) = true -> record_run true w r = (w, Error).
Proof.
  intro F. unfold record_run. rewrite create_spec.
  destruct (dir w) as [t|] eqn:D; [|discriminate].
  rewrite (foreign_not_removable _ F). reflexivity.
Qed.

(* a DIR.old that is in the way is never removed, replaced or changed *)
Lemma run_old_in_the_way w r : in_the_way (old w) = true -> old (fst (record_run true w r)) = old w.
Proof.
  intro F. unfold record_run. rewrite create_spec.
  destruct (dir w) as [t|]; [destruct (can_remove (Some t))|]; rewrite ?F; reflexivity.
Qed.
Lemma run_foreign_old w r : foreign (old w) = true -> old (fst (record_run true w r)) = old w.
Proof. intro F. apply run_old_in_the_way, foreign_in_the_way, F. Qed.

(* what rotation does *)
Lemma run_rotates w r t : dir w = Some t -> can_remove (Some t) = true -> in_the_way (old w) = false ->
  let '(w', res) := record_run true w r in
  res = OK /\ old w' = Some t /\ dir w' = populate (r_extra r) (fresh (r_opts r)).
Proof.
  intros D R F. unfold record_run. rewrite create_spec, D, R, F. cbn. auto.
Qed.
(* ... and when DIR.old is in the way, nothing at all changes and the run fails *)
Lemma run_refused w r t : dir w = Some t -> can_remove (Some t) = true -> in_the_way (old w) = true ->
  record_run true w r = (w, Error).
Proof. intros D R F. unfold record_run. rewrite create_spec, D, R, F. reflexivity. Qed.

Lemma run_dir_changes_only_if_removable w r :
  dir (fst (record_run true w r)) <> dir w ->
  (dir w = None \/ can_remove (dir w) = true).
Proof.
  unfold record_run. rewrite create_spec.
  destruct (dir w) as [t|] eqn:D; [|auto].
  destruct (can_remove (Some t)) eqn:R; [auto|]. cbn. rewrite D. congruence.
Qed.

(* the checker accepts every run of the model *)
Lemma list_eqb_refl l : list_eqb l l = true.
Proof. induction l; cbn; rewrite ?N.eqb_refl; auto. Qed.
Lemma name_eqb_refl l : name_eqb l l = true.
Proof. induction l; cbn; rewrite ?N.eqb_refl; auto. Qed.
Lemma tree_eqb_refl : forall t, tree_eqb t t = true.
Proof.
  fix IH 1. intros [c|es| |].
  - cbn. apply list_eqb_refl.
  - cbn. induction es as [|[n u] es IHes]; [reflexivity|].
    rewrite name_eqb_refl, (IH u), IHes. reflexivity.
  - reflexivity.
  - reflexivity.
Qed.
Lemma slot_eqb_refl s : slot_eqb s s = true.
Proof. destruct s as [t|]; [apply tree_eqb_refl|reflexivity]. Qed.

Lemma not_in_the_way_not_foreign s : in_the_way s = false -> foreign s = false.
Proof. intro H. destruct (foreign s) eqn:F; [|reflexivity]. rewrite (foreign_in_the_way _ F) in H. discriminate. Qed.

Lemma ok_run_model w r :
  let '(w', res) := record_run true w r in ok_run w w' res = true.
Proof.
  unfold record_run. rewrite create_spec. destruct w as [d o]. cbn [dir old].
  destruct d as [t|].
  - destruct (can_remove (Some t)) eqn:R.
    + destruct (in_the_way o) eqn:W.
      * (* refused: nothing changes *)
        unfold ok_run. cbn [dir old]. rewrite !slot_eqb_refl.
        unfold foreign at 1. rewrite R. cbn [negb andb orb result_eqb].
        destruct (foreign o); cbn [andb orb]; destruct (foreign (Some t)); reflexivity.
      * (* rotated *)
        unfold ok_run. cbn [dir old populate fresh].
        unfold foreign at 1. rewrite R. cbn [negb andb].
        rewrite (not_in_the_way_not_foreign _ W). rewrite ?R, ?slot_eqb_refl. cbn [andb].
        match goal with |- context [slot_eqb ?a (Some t)] => destruct (slot_eqb a (Some t)) end; reflexivity.
    + (* foreign DIR: refused *)
      unfold ok_run. cbn [dir old]. rewrite !slot_eqb_refl.
      unfold foreign at 1. rewrite R. cbn [negb andb orb result_eqb].
      destruct (foreign o); cbn [andb orb]; unfold foreign; rewrite ?R; reflexivity.
  - (* DIR absent: created *)
    unfold ok_run. cbn [dir old populate fresh foreign]. rewrite slot_eqb_refl. cbn [andb].
    destruct (foreign o); reflexivity.
Qed.

(* ---------- sequences of runs ---------- *)
Theorem foreign_dir_forever rs : forall w, foreign (dir w) = true -> record_runs true w rs = w.
Proof.
  induction rs as [|r rs IH]; intros w F; cbn; [reflexivity|].
  rewrite (run_foreign_dir w r F). cbn. apply IH, F.
Qed.

Theorem foreign_old_forever rs : forall w, foreign (old w) = true -> old (record_runs true w rs) = old w.
Proof.
  induction rs as [|r rs IH]; intros w F; cbn; [reflexivity|].
  unfold record_runs in IH. rewrite IH; rewrite (run_foreign_old w r F); [reflexivity|exact F].
Qed.

Theorem old_in_the_way_forever rs : forall w, in_the_way (old w) = true -> old (record_runs true w rs) = old w.
Proof.
  induction rs as [|r rs IH]; intros w F; cbn; [reflexivity|].
  unfold record_runs in IH. rewrite IH; rewrite (run_old_in_the_way w r F); [reflexivity|exact F].
Qed.

(* ---------- the defect as found: DIR is a symbolic link to uftrace data, DIR.old a foreign FILE (or link):
   rename() replaces it ---------- *)
Definition precious : tree := File [112; 114; 101].
Definition w_link : world := {| dir := Some ULink; old := Some precious |}.
Lemma legacy_link_replaces_file :
  foreign (old w_link) = true /\ in_the_way (old w_link) = true /\
  old (fst (record_run false w_link {| r_opts := []; r_extra := [] |})) = Some ULink /\
  record_run true w_link {| r_opts := []; r_extra := [] |} = (w_link, Error).
Proof. vm_compute. repeat split. Qed.
(* ... while a DIR that is a link rotates like a directory when DIR.old is absent or ours (the link itself moves) *)
Example link_rotation_example :
  record_run true {| dir := Some ULink; old := Some (Dir []) |} {| r_opts := []; r_extra := [] |}
  = ({| dir := fresh []; old := Some ULink |}, OK).
Proof. vm_compute. reflexivity. Qed.

(* ---------- the defect as found (unguarded create_default_opts) ---------- *)
Definition notes : tree := Dir [([110], File [1; 2; 3])].       (* a directory holding a file "n" *)
Definition w_foreign : world := {| dir := Some notes; old := None |}.
Definition r0 : run := {| r_opts := []; r_extra := [] |}.

Lemma legacy_destroys_foreign :
  foreign (dir w_foreign) = true /\
  let w3 := record_runs false w_foreign [r0; r0; r0] in
  dir w3 <> Some notes /\ old w3 <> Some notes.
Proof. vm_compute. repeat split; congruence. Qed.

(* non-vacuity: a rotation really happens on uftrace data *)
Definition udata : tree := Dir [(n_info, File (magic8 ++ [4; 0; 0; 0]))].
Example rotation_example :
  record_run true {| dir := Some udata; old := Some (Dir []) |} r0
  = ({| dir := fresh []; old := Some udata |}, OK).
Proof. vm_compute. reflexivity. Qed.

(* --host path *)
Lemma host_run_foreign_dir w r : foreign (dir w) = true -> record_run_host true w r = (w, Error).
Proof.
  intro F. unfold record_run_host. rewrite create_spec.
  destruct (dir w) as [t|] eqn:D; [|discriminate].
  rewrite (foreign_not_removable _ F). reflexivity.
Qed.
Lemma host_run_foreign_old w r : foreign (old w) = true -> old (fst (record_run_host true w r)) = old w.
Proof.
  intro F. apply foreign_in_the_way in F. unfold record_run_host. rewrite create_spec.
  destruct (dir w) as [t|]; [destruct (can_remove (Some t))|]; rewrite ?F; reflexivity.
Qed.

(* live mode: with a fresh name nothing but the temporary directory itself is ever touched, on success and on
   failure; what the recorder put there is uftrace data (default.opts, and an info file - if any - with the magic) *)
Lemma live_only_own_directory w r : dir w = None ->
  is_uftrace_directory ((n_default_opts, File (r_opts r)) :: r_extra r) = true ->
  old (live_run true w r) = old w /\ dir (live_run true w r) = None.
Proof.
  destruct w as [d o]. cbn [dir]. intros -> HU. unfold live_run, record_run, create_directory.
  cbn [dir old can_remove andb negb fst]. split; [reflexivity|].
  unfold write_default_opts, populate. cbn [lookup set_entry app]. cbn [can_remove]. rewrite HU. reflexivity.
Qed.
Lemma live_example : is_uftrace_directory ((n_default_opts, File []) :: [(n_info, File (magic8 ++ [1; 2; 3]))]) = true.
Proof. vm_compute. reflexivity. Qed.
(* ... and even if the name was taken by foreign data in the meantime, that data survives *)
Lemma live_never_removes_foreign w r : foreign (dir w) = true -> live_run true w r = w.
Proof.
  destruct w as [d o]. unfold foreign. cbn [dir]. destruct d as [t|]; [|discriminate]. intro H.
  apply negb_true_iff in H.
  unfold live_run, record_run, create_directory. cbn [dir old]. rewrite H. cbn [andb negb fst dir old].
  rewrite H. reflexivity.
Qed.
(* the code as found: a foreign directory that took the name is removed by the failed run's cleanup *)
Lemma live_legacy_removes_foreign : foreign (dir w_foreign) = true /\ live_run false w_foreign r0 <> w_foreign.
Proof. split; [reflexivity|]. unfold live_run. cbn. discriminate. Qed.

(* ---------- outside DIR and DIR.old ---------- *)
(* the repaired remove_directory (lstat) never touches what a symbolic link inside a removable directory points to *)
Theorem outside_untouched w ext : outside_after false w ext = ext.
Proof. unfold outside_after, remove_effect. cbn [andb]. destruct (can_remove (dir w) && can_remove (old w)); [destruct (old w)|]; reflexivity. Qed.

(* the code as found (stat): a previous data directory DIR.old that holds a link to a foreign directory is removed
   when DIR is rotated - and the foreign directory is emptied through the link *)
Definition link_world : world :=
  {| dir := Some (Dir [(n_info, File magic8)]);
     old := Some (Dir [(n_info, File magic8); ([108; 110], Link)]) |}.
Definition ext_example : slot := Some (Dir [([102], File [112])]).      (* a foreign directory holding one file *)
Theorem outside_legacy_refuted :
  outside_after true link_world ext_example = Some (Dir []) /\
  outside_after false link_world ext_example = ext_example.
Proof. vm_compute. split; reflexivity. Qed.

(* ---------- mixed histories: `record -d DIR`, `record --host H -d DIR` and live-mode runs in any order ---------- *)
Inductive cmd := CRecord (r : run) | CHost (r : run) | CLive (r : run).
Definition cmd_step (w : world) (c : cmd) : world :=
  match c with
  | CRecord r => fst (record_run true w r)
  | CHost r => fst (record_run_host true w r)
  | CLive r => live_run true w r
  end.
Definition history (w : world) (cs : list cmd) : world := fold_left cmd_step cs w.

Lemma live_foreign_old w r : foreign (old w) = true -> old (live_run true w r) = old w.
Proof. intro F. unfold live_run. cbn [old]. apply run_foreign_old, F. Qed.

Lemma cmd_step_foreign_dir w c : foreign (dir w) = true -> cmd_step w c = w.
Proof.
  intro F. destruct c as [r|r|r]; cbn [cmd_step].
  - rewrite (run_foreign_dir w r F). reflexivity.
  - rewrite (host_run_foreign_dir w r F). reflexivity.
  - apply live_never_removes_foreign, F.
Qed.
Lemma cmd_step_foreign_old w c : foreign (old w) = true -> old (cmd_step w c) = old w.
Proof.
  intro F. destruct c as [r|r|r]; cbn [cmd_step].
  - apply run_foreign_old, F.
  - apply host_run_foreign_old, F.
  - apply live_foreign_old, F.
Qed.

Theorem mixed_foreign_dir_forever cs : forall w, foreign (dir w) = true -> history w cs = w.
Proof.
  unfold history. induction cs as [|c cs IH]; intros w F; cbn [fold_left]; [reflexivity|].
  rewrite (cmd_step_foreign_dir w c F). apply IH, F.
Qed.
Theorem mixed_foreign_old_forever cs : forall w, foreign (old w) = true -> old (history w cs) = old w.
Proof.
  unfold history. induction cs as [|c cs IH]; intros w F; cbn [fold_left]; [reflexivity|].
  rewrite IH; rewrite (cmd_step_foreign_old w c F); [reflexivity|exact F].
Qed.
(* non-vacuity: histories in which the three kinds of run all do something, next to a foreign DIR.old *)
Definition w_mixed : world := {| dir := None; old := Some notes |}.
Lemma mixed_example :
  foreign (old w_mixed) = true /\
  history w_mixed [CLive r0; CRecord r0; CHost r0; CRecord r0] = {| dir := fresh []; old := Some notes |} /\
  history w_mixed [CLive r0; CHost r0] = w_mixed /\
  history {| dir := None; old := None |} [CRecord r0; CLive r0; CHost r0; CRecord r0] = {| dir := fresh []; old := fresh [] |}.
Proof. vm_compute. repeat split. Qed.
