(* Property C02 - The recorded trace is exactly each thread's call history.
   Only statements; every proof is [exact <lemma>].  Model: UV.Mcount.Model (libmcount's hook
   automaton, both instrumentation shapes), spec: UV.Mcount.Forest. *)
From Coq Require Import NArith ZArith List Bool.
Import ListNotations.
Require Import UV.Gen.Consts UV.Mcount.Model UV.Mcount.Forest UV.Mcount.PlainStep UV.Mcount.PlainProofs
  UV.Mcount.Codec UV.Mcount.PlainMore UV.Mcount.Overflow UV.Mcount.Embed UV.Mcount.EmbedOver UV.Mcount.EmbedMore UV.Mcount.Check UV.Mcount.Monotone UV.Mcount.Threads UV.Mcount.ForkChild UV.Mcount.Restore UV.Mcount.Method UV.Mcount.OverflowCyg UV.Mcount.ThreadExit UV.Mcount.DepthField UV.Mcount.OverflowOpen.
Local Open Scope N_scope.

(* Writer and readers agree on the record word: the hand-packed word of record_ret_stack decodes,
   through the bit-field layout of struct uftrace_record (regenerated from uftrace.h), to the fields
   that were packed - for every type, depth < 2^10 and address < 2^48. *)
Theorem C02_codec_roundtrip : forall ty more dep addr,
  ty < 4 -> more < 2 -> dep < 1024 -> addr < 281474976710656 ->
  let w := pack_word ty more dep addr in
  w_type w = ty /\ w_more w = more /\ w_magic w = RECORD_MAGIC /\ w_depth w = dep /\ w_addr w = addr.
Proof. exact pack_fields. Qed.
Print Assumptions C02_codec_roundtrip.

(* For every forest of calls (any shape, recursion, any number of calls) whose nesting stays within
   --max-stack and -D, no time threshold (a call may take no clock tick at all): the records the
   thread writes are exactly the complete history - every ENTRY and EXIT, in execution order, nothing
   missing, spurious, duplicated or reordered, depth = number of open calls - for both the
   -pg/fentry/PLT shape and the -finstrument-functions shape. *)
Theorem C02_trace_is_history : forall gd ms sh f,
  all_timed f -> heights f <= ms -> heights f <= gd ->
  out (fst (exec (plain 0 gd ms sh) (flat_forest f) (init, []))) = flat_map (history 0) f.
Proof. exact history_recorded. Qed.
Print Assumptions C02_trace_is_history.

(* the timestamps are the clock values read inside the hooks, in order (hence non-decreasing whenever
   the clock is, and between the program's own readings before the call and after the return) *)
Theorem C02_timestamps_are_hook_readings : forall f,
  map r_time (flat_map (history 0) f) = map ev_time (flat_forest f).
Proof. exact history_times_forest. Qed.
Print Assumptions C02_timestamps_are_hook_readings.

(* General form with a time threshold and a depth limit (-t, -D): the stream equals the specification
   [recs] - calls deeper than the limit are dropped whole, never corrupted - ... *)
Theorem C02_trace_is_spec : forall thr gd ms sh f, all_timed f -> heights f <= ms ->
  out (fst (exec (plain thr gd ms sh) (flat_forest f) (init, []))) = flat_map (recs thr gd 0) f.
Proof. exact run_forest. Qed.
Print Assumptions C02_trace_is_spec.

(* ... which is always properly nested with depth = number of open recorded calls ... *)
Theorem C02_nested_depths : forall thr gd ms sh f, all_timed f -> heights f <= ms ->
  scan 0 (out (fst (exec (plain thr gd ms sh) (flat_forest f) (init, [])))) = Some 0.
Proof. exact recorded_stream_nested. Qed.
Print Assumptions C02_nested_depths.

(* ... and whose EXITs carry the address of the matching ENTRY. *)
Theorem C02_matching_addresses : forall thr gd ms sh f, all_timed f -> heights f <= ms ->
  paired [] (out (fst (exec (plain thr gd ms sh) (flat_forest f) (init, [])))) = true.
Proof. exact recorded_stream_paired. Qed.
Print Assumptions C02_matching_addresses.

(* Stacks deeper than --max-stack (and/or -D): for ANY limits gd, ms and any forest (no bound on its
   height), with no threshold, the -pg/fentry/PLT shape records
   exactly the calls nested less deep than min(gd, ms) - deeper calls are dropped whole, and nothing else
   is changed, whatever the overflow flush of mcount_check_rstack does in between.
   (The cygprof shape: C02_deeper_dropped_not_corrupted_cyg below.) *)
Theorem C02_deeper_dropped_not_corrupted : forall gd ms f, all_timed f ->
  out (fst (exec (plain 0 gd ms PG) (flat_forest f) (init, []))) = flat_map (recs 0 (N.min gd ms) 0) f.
Proof. exact run_forest'. Qed.
Print Assumptions C02_deeper_dropped_not_corrupted.

(* A forked child continues the parent's open calls: its stream starts empty, contains no ENTRY for
   the inherited frames, and the calls it makes are recorded at the parent's depth d. *)
Theorem C02_fork_child_continues : forall thr gd ms sh f s hk d,
  fc s = fcd d -> enabled s = true -> ridx s = d -> all_timed f -> idx s + heights f <= ms ->
  out (fst (exec (plain thr gd ms sh) (ForkChild :: flat_forest f) (s, hk))) = flat_map (recs thr gd d) f.
Proof. exact fork_child_continues. Qed.
Print Assumptions C02_fork_child_continues.

(* what a reader decodes from a written record is the record itself (depth < 2^10) *)
Theorem C02_reader_sees_record : forall r, r_depth r < 1024 -> r_addr r < 281474976710656 ->
  seen r = (r_time r, type_code (r_type r), RECORD_MAGIC, r_depth r, r_addr r).
Proof. exact seen_exact. Qed.
Print Assumptions C02_reader_sees_record.

(* The depth field has 10 bits while --max-stack may be as large as 65535: packed as record_ret_stack packs it, a
   record at depth >= 1024 would wrap its depth and spill into the address.  This was a genuine defect of the pinned
   tree (such records were written); record_ret_stack now drops them (C02_beyond_depth_field_dropped below). *)
Theorem C02_depth_overflow_refuted :
  exists r, r_depth r < OPT_RSTACK_MAX /\ r_addr r < 281474976710656 /\
            seen r <> (r_time r, type_code (r_type r), RECORD_MAGIC, r_depth r, r_addr r).
Proof. exact depth_overflow_refuted. Qed.
Print Assumptions C02_depth_overflow_refuted.

(* Stacks deeper than the record format allows: for ANY -D gd and --max-stack ms (up to 65535 and beyond) and any
   forest, what reaches the buffer ([storable]: record_ret_stack drops a frame whose depth does not fit the field)
   is exactly the history of the calls nested less deep than min(gd, ms, 1024): a deeper call is dropped whole,
   ENTRY and EXIT, with everything below it; and the readers decode each remaining record unchanged ([disk] =
   the records as seen through the bit-field layout; addresses are 48-bit). *)
Theorem C02_beyond_depth_field_dropped : forall gd ms f, all_timed f ->
  filter storable (out (fst (exec (plain 0 gd ms PG) (flat_forest f) (init, [])))) =
  flat_map (recs 0 (N.min (N.min gd ms) 1024) 0) f.
Proof. exact deep_calls_dropped. Qed.
Print Assumptions C02_beyond_depth_field_dropped.

Theorem C02_beyond_depth_field_dropped_cyg : forall gd ms f, ms <= gd -> all_timed f ->
  filter storable (out (fst (exec (plain 0 gd ms CYG) (flat_forest f) (init, [])))) =
  flat_map (recs 0 (N.min ms 1024) 0) f.
Proof. exact deep_calls_dropped_cyg. Qed.
Print Assumptions C02_beyond_depth_field_dropped_cyg.

Theorem C02_beyond_depth_field_on_disk : forall gd ms f, all_timed f ->
  Forall (fun r => r_addr r < 281474976710656) (out (fst (exec (plain 0 gd ms PG) (flat_forest f) (init, [])))) ->
  disk (out (fst (exec (plain 0 gd ms PG) (flat_forest f) (init, [])))) =
  map ideal (flat_map (recs 0 (N.min (N.min gd ms) 1024) 0) f).
Proof. exact deep_calls_on_disk. Qed.
Print Assumptions C02_beyond_depth_field_on_disk.

(* whatever the records are: every storable one is read back unchanged, none below the limit is dropped *)
Theorem C02_disk_exact : forall l, Forall (fun r => r_addr r < 281474976710656) l ->
  disk l = map ideal (filter storable l).
Proof. exact disk_exact. Qed.
Print Assumptions C02_disk_exact.

Theorem C02_nothing_dropped_below_the_limit : forall l, Forall (fun r => r_depth r < 1024) l -> filter storable l = l.
Proof. exact disk_all. Qed.
Print Assumptions C02_nothing_dropped_below_the_limit.

(* non-vacuity: a chain 1026 deep under --max-stack=2000: 2052 records, 2048 stay *)
Theorem C02_beyond_depth_field_example :
  let f := chain 1026 1 5000 in
  length (flat_map (recs 0 (N.min 2000 2000) 0) f) = 2052%nat /\
  length (filter storable (flat_map (recs 0 (N.min 2000 2000) 0) f)) = 2048%nat /\
  length (flat_map (recs 0 (N.min (N.min 2000 2000) 1024) 0) f) = 2048%nat.
Proof. exact deep_example. Qed.
Print Assumptions C02_beyond_depth_field_example.

(* Filtered recordings: for EVERY option set without a trace_on/trace_off trigger (any -F/-N/-C/-D/-t/-Z and
   depth=/time=/size=/trace triggers, both instrumentation shapes) the stream written for a complete call
   forest is the flattening of a forest embedded in the thread's call history: each recorded ENTRY/EXIT is the
   one of a real call (address, entry and exit clock readings), in execution order, properly nested, with
   depth = number of open recorded calls; calls are only ever left out as a whole. *)
Theorem C02_filtered_trace_is_subhistory : forall c, no_switch c -> forall f,
  all_ended f -> heights f <= max_stack c ->
  exists g, emb g f /\ out (fst (exec c (flat_forest f) (init, []))) = flat_map (history 0) g.
Proof. exact run_forest_emb. Qed.
Print Assumptions C02_filtered_trace_is_subhistory.

(* [ok_emb], the checker the correspondence applies to the implementation's streams, decides exactly that *)
Theorem C02_subhistory_checker_exact : forall f l,
  ok_emb f l = true <-> exists g, emb g f /\ l = map ideal (flat_map (history 0) g).
Proof. exact ok_emb_exact. Qed.
Print Assumptions C02_subhistory_checker_exact.

(* Records are never rewritten: for EVERY configuration, shape, state and history (no hypothesis), the stream after
   a prefix of the events is a list prefix of the stream after more events. *)
Theorem C02_stream_append_only : forall c p q d, no_fork q ->
  exists l, out (fst (exec c (p ++ q) d)) = out (fst (exec c p d)) ++ l.
Proof. exact stream_append_only. Qed.
Print Assumptions C02_stream_append_only.

(* ... so at any instant of the run - wherever a crash or kill stops the thread - what has been written is a
   prefix of the flattening of a forest embedded in the call history (switch-free option sets). *)
Theorem C02_stream_at_any_instant : forall c, no_switch c -> forall f, all_ended f -> heights f <= max_stack c ->
  forall p q, flat_forest f = p ++ q ->
  exists g l, emb g f /\ out (fst (exec c p (init, []))) ++ l = flat_map (history 0) g.
Proof. exact stream_at_any_instant. Qed.
Print Assumptions C02_stream_at_any_instant.

(* Threads: the hook state is per thread except for the global trace switch.  For every option set without a
   trace_on/trace_off trigger and EVERY interleaving [l] of the threads' hook calls (pairs thread, event), each
   thread's stream is the stream of its own events run alone ... *)
Theorem C02_thread_stream_any_schedule : forall c, no_switch c -> forall l t,
  out (fst (snd (mrun c l all_init) t)) = out (fst (exec c (mine t l) (init, []))).
Proof. exact thread_stream_any_schedule. Qed.
Print Assumptions C02_thread_stream_any_schedule.

(* ... hence, in the plain configuration, exactly the specification of that thread's call forest *)
Theorem C02_each_thread_is_its_history : forall thr gd ms sh l t f,
  mine t l = flat_forest f -> all_timed f -> heights f <= ms ->
  out (fst (snd (mrun (plain thr gd ms sh) l all_init) t)) = flat_map (recs thr gd 0) f.
Proof. exact each_thread_is_its_history. Qed.
Print Assumptions C02_each_thread_is_its_history.

(* The same two statements for call forests of ANY depth - also nested deeper than --max-stack: calls beyond the limit
   are left out, the overflow flush of mcount_check_rstack only forces calls to be kept. *)
Theorem C02_filtered_trace_is_subhistory_any_depth : forall c, no_switch c -> forall f, all_ended f ->
  exists g, emb g f /\ out (fst (exec c (flat_forest f) (init, []))) = flat_map (history 0) g.
Proof. exact forest_over. Qed.
Print Assumptions C02_filtered_trace_is_subhistory_any_depth.

Theorem C02_stream_at_any_instant_any_depth : forall c, no_switch c -> forall f, all_ended f ->
  forall p q, flat_forest f = p ++ q ->
  exists g l, emb g f /\ out (fst (exec c p (init, []))) ++ l = flat_map (history 0) g.
Proof. exact stream_at_any_instant_any_depth. Qed.
Print Assumptions C02_stream_at_any_instant_any_depth.

(* Fork: for EVERY configuration (filters, triggers, switches), both shapes, any parent state and any continuation,
   a forked child never writes the ENTRY record of a call entered before the fork (atfork_child_handler marks all
   inherited frames WRITTEN): every ENTRY in the child's stream carries the time of a call entered after the fork
   (0 stands for the placeholder frames above --max-stack, which are never real calls). *)
Theorem C02_child_writes_no_inherited_entry : forall c es s hk,
  Forall (fun e => e <> ForkChild) es ->
  Forall (fun r => r_type r = ENTRY -> In (r_time r) (0 :: enter_times es))
         (out (fst (exec c es (do_fork_child s, hk)))).
Proof. exact child_writes_no_inherited_entry. Qed.
Print Assumptions C02_child_writes_no_inherited_entry.

(* "for all instrumentation methods": for EVERY configuration and every call forest that fits into --max-stack the
   -pg / fentry / patchable shape and the -finstrument-functions shape write the same stream (Mcount/Method.v: a
   simulation between the two runs). *)
Theorem C02_same_stream_for_every_method : forall c z f, heights f <= max_stack c ->
  out (fst (exec (pg_of c) (flat_forest f) (init_z z, []))) =
  out (fst (exec (cyg_of c) (flat_forest f) (init_z z, []))).
Proof. exact method_independent_all. Qed.
Print Assumptions C02_same_stream_for_every_method.

(* The same under -finstrument-functions / XRay, where a call beyond --max-stack only counts in mtdp->idx: for any
   --max-stack ms not above the depth limit (the default -D is far above it), any forest (no bound on its height),
   no threshold: exactly the calls nested less deep than ms are recorded, deeper
   ones are dropped whole, and the overflow flush of mcount_check_rstack (which happens once per descent below the
   limit, never with such a counted-only call on the stack) changes nothing else. *)
Theorem C02_deeper_dropped_not_corrupted_cyg : forall gd ms, ms <= gd -> forall f, all_timed f ->
  out (fst (exec (plain 0 gd ms CYG) (flat_forest f) (init, []))) = flat_map (recs 0 ms 0) f.
Proof. exact run_forest_cyg. Qed.
Print Assumptions C02_deeper_dropped_not_corrupted_cyg.

(* A thread that ends in pthread_exit() with calls still open: under the plain configuration, any instrumentation shape,
   inside the limits -D and --max-stack, after ANY well-bracketed sequence of entries and exits ([wfev]: every entry
   inside the limits at a clock reading in (0, 2^64), no exit earlier than its entry) the records the thread leaves -
   what it wrote plus what libmcount's pthread_exit wrapper flushes for the open calls - are exactly its history: an
   ENTRY for every call entered, an EXIT for every call left, in order, depth = number of open calls. *)
Theorem C02_pthread_exit_leaves_history : forall gd ms sh es, wfev gd ms es [] ->
  out (do_thread_exit (plain 0 gd ms sh) (fst (exec (plain 0 gd ms sh) es (init, [])))) = prefix_records es [].
Proof. exact thread_exit_history. Qed.
Print Assumptions C02_pthread_exit_leaves_history.

Theorem C02_pthread_exit_example :
  wfev 1024 1024 [Enter 0 100; Enter 256 110; Enter 512 120; Leave 130; Enter 768 140] [] /\
  prefix_records [Enter 0 100; Enter 256 110; Enter 512 120; Leave 130; Enter 768 140] [] =
    [{| r_time := 100; r_type := ENTRY; r_depth := 0; r_addr := 0 |};
     {| r_time := 110; r_type := ENTRY; r_depth := 1; r_addr := 256 |};
     {| r_time := 120; r_type := ENTRY; r_depth := 2; r_addr := 512 |};
     {| r_time := 130; r_type := EXIT; r_depth := 2; r_addr := 512 |};
     {| r_time := 140; r_type := ENTRY; r_depth := 2; r_addr := 768 |}].
Proof. exact thread_exit_example. Qed.
Print Assumptions C02_pthread_exit_example.

(* A history that ENDS beyond --max-stack (exit() called at the bottom of a deep chain): while the shadow stack is full
   nothing is written lazily any more, the overflow flush of mcount_check_rstack is what puts the ENTRY records of the
   open chain into the stream - and it runs at EVERY descent through the limit: from any quiescent state, also one in
   which an earlier overflow left the `warned' flag set, a chain of --max-stack calls followed by one more call has the
   ENTRY record of each of its calls in the stream, in order, depth = nesting, and every open frame is marked written. *)
Theorem C02_overflow_flushes_open_chain : forall gd ms l s hk b tb,
  fc s = fcd 0 -> enabled s = true -> ridx s = 0 -> stack s = [] ->
  N.of_nat (length l) = ms -> ms <= gd -> 0 < ms ->
  let s' := fst (exec (plain 0 gd ms PG) (enters l ++ [Enter b tb]) (s, hk)) in
  out s' = out s ++ entries l 0 /\ stack s' = frames true l 0 [].
Proof. exact overflow_flushes_open_chain. Qed.
Print Assumptions C02_overflow_flushes_open_chain.

Theorem C02_overflow_flushes_open_chain_example :
  let s := {| fc := fcd 0; enabled := true; cached := true; stack := []; ridx := 0; out := []; warned := true |} in
  out (fst (exec (plain 0 1024 3 PG) (enters [(16, 10); (32, 11); (48, 12)] ++ [Enter 64 13]) (s, []))) =
  [{| r_time := 10; r_type := ENTRY; r_depth := 0; r_addr := 16 |};
   {| r_time := 11; r_type := ENTRY; r_depth := 1; r_addr := 32 |};
   {| r_time := 12; r_type := ENTRY; r_depth := 2; r_addr := 48 |}].
Proof. exact overflow_open_example. Qed.
Print Assumptions C02_overflow_flushes_open_chain_example.
