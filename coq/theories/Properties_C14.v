(* Property C14 - only statements, each closed by [exact]. *)
From Coq Require Import NArith ZArith List Bool.
Import ListNotations.
Require Import UV.C14.Model UV.C14.Proofs.

Theorem C14_last_match_wins : forall O pl lib so name,
  match_pattern_list O pl lib so name = polarity (last_hit O pl lib so name).
Proof. exact last_match_wins. Qed.
Print Assumptions C14_last_match_wins.
