(* Property C14 - only statements, each closed by [exact]. *)
From Coq Require Import NArith ZArith List Bool.
Import ListNotations.
Require Import UV.C14.Model UV.C14.Proofs UV.C14.Patch UV.C14.Pages UV.C14.Layout UV.C14.SizeOpt UV.C14.Detect UV.C14.PreEntry UV.C14.Modules UV.C14.Exec UV.C14.Reloc.
Local Open Scope N_scope.

(* ---- which functions are selected ---- *)

(* match_pattern_list (a loop that overwrites its verdict) = polarity of the LAST element whose
   module prefix and pattern match, 0 if none; for every pattern list, matcher, module, symbol *)
Theorem C14_last_match_wins : forall O pl lib so name,
  match_pattern_list O pl lib so name = polarity (last_hit O pl lib so name).
Proof. exact last_match_wins. Qed.
Print Assumptions C14_last_match_wins.

(* the decisive element hits and nothing behind it in the list does *)
Theorem C14_decisive_element : forall O pl lib so name p,
  last_hit O pl lib so name = Some p ->
  exists l1 l2, pl = l1 ++ p :: l2 /\ item_hits O lib so name p = true
                /\ forall q, In q l2 -> item_hits O lib so name q = false.
Proof. exact last_hit_split. Qed.
Print Assumptions C14_decisive_element.

Theorem C14_no_match_zero : forall O pl lib so name,
  (forall p, In p pl -> item_hits O lib so name p = false) -> match_pattern_list O pl lib so name = 0%Z.
Proof. exact match_none. Qed.
Print Assumptions C14_no_match_zero.

(* dlopen(): match_pattern_module lets mcount_dynamic_dlopen skip a library only when no pattern of the
   list can apply to any of its symbols *)
Theorem C14_module_skip_sound : forall pl path so,
  match_pattern_module pl path so = false ->
  forall O name, match_pattern_list O pl path so name = 0%Z.
Proof. exact module_skip_sound. Qed.
Print Assumptions C14_module_skip_sound.

(* which modules are looked at: the main executable; libraries loaded at start-up only if some option
   carries an '@'; a dlopen()ed library only if match_pattern_module accepts it.  A module that is NOT
   looked at (and is not the main executable) contains no selected function, for any option string *)
Theorem C14_unvisited_module_unselected : forall O k funcs def t lib so,
  module_visited k funcs (parse_pattern_list O funcs def t) lib so = false ->
  bytes_eqb def (basename lib) = false ->
  (forall s, so = Some s -> bytes_eqb def s = false) ->
  forall name, match_pattern_list O (parse_pattern_list O funcs def t) lib so name = 0%Z.
Proof. exact unvisited_module_unselected. Qed.
Print Assumptions C14_unvisited_module_unselected.

(* whether libraries are looked at depends on the SET of options, not on their order ... *)
Theorem C14_visited_order_independent : forall l l',
  Permutation.Permutation l l' -> needs_modules (render_opts l) = needs_modules (render_opts l').
Proof. exact visited_order_independent. Qed.
Print Assumptions C14_visited_order_independent.

(* ... and a library the list selects a function of is looked at, for every list *)
Theorem C14_selected_module_is_visited : forall O k funcs def t lib so name,
  match_pattern_list O (parse_pattern_list O funcs def t) lib so name <> 0%Z ->
  bytes_eqb def (basename lib) = false ->
  (forall s, so = Some s -> bytes_eqb def s = false) ->
  module_visited k funcs (parse_pattern_list O funcs def t) lib so = true.
Proof. exact selected_module_is_visited. Qed.
Print Assumptions C14_selected_module_is_visited.

(* the code as found (default module compared as a prefix): `-P plug` with executable "prog" selects
   plug() of "prog_plugin.so", which is not looked at unless an unrelated option carries an '@' *)
Theorem C14_default_module_prefix_legacy_refuted :
  let pl := parse_pattern_list O1 n_plug n_prog PRegex in
  module_visited MLoadLib n_plug pl n_plugin None = false
  /\ bytes_eqb n_prog (basename n_plugin) = false
  /\ match_pattern_list_legacy O1 pl n_plugin None n_plug = 1%Z
  /\ match_pattern_list O1 pl n_plugin None n_plug = 0%Z.
Proof. exact default_module_prefix_legacy_refuted. Qed.
Print Assumptions C14_default_module_prefix_legacy_refuted.

(* the string uftrace builds from -P/-U options (';'-joined, '!' for -U) parses back into one list
   element per option, in order, with the option's polarity, pattern and @module *)
Theorem C14_cli_options_in_order : forall O def t o l,
  Forall wf_opt (o :: l) ->
  parse_pattern_list O (render_opts (o :: l)) def t = map (item_of_opt O def t) (o :: l).
Proof. exact parse_render. Qed.
Print Assumptions C14_cli_options_in_order.

Theorem C14_cli_last_option_wins : forall O def t o l lib so name,
  Forall wf_opt (o :: l) ->
  match_pattern_list O (parse_pattern_list O (render_opts (o :: l)) def t) lib so name
  = polarity (last_hit O (map (item_of_opt O def t) (o :: l)) lib so name).
Proof. exact cli_last_option_wins. Qed.
Print Assumptions C14_cli_last_option_wins.

(* ---- one function ---- *)

(* mcount_patch_func either succeeds - then the function is at least max(min_size,6) bytes, the module
   uses patchable entries / fentry NOPs, the five bytes at its (post-endbr64) entry were one of the
   four NOP forms, they now are `call trampoline` and no other byte of memory differs - or memory is
   identical *)
Theorem C14_patch_exact : forall ty tramp mn m s m' r,
  mcount_patch_func ty tramp mn m s = (m', r) ->
  let e := entry_of m (s_addr s) in
  (r = Success ->
     N.max mn 6 <= s_size s /\ (ty = DFentryNop \/ ty = DPatchable)
     /\ is_nop_sig (rd m e 5) = true /\ (e = s_addr s \/ e = s_addr s + 4)
     /\ rd m' e 5 = call_insn tramp e
     /\ forall a, in_span e 5 a = false -> m' a = m a)
  /\ (r <> Success -> m' = m).
Proof. exact patch_exact. Qed.
Print Assumptions C14_patch_exact.

(* the new bytes decode to a call whose target is the trampoline (rel32 in range) *)
Theorem C14_call_decodes : forall tramp e,
  (0 <= tramp < 18446744073709551616)%Z ->
  (-2147483648 <= tramp - (Z.of_N e + 5) < 2147483648)%Z ->
  call_target e (call_insn tramp e) = Some tramp.
Proof. exact call_decodes. Qed.
Print Assumptions C14_call_decodes.

Theorem C14_trampoline_decodes : forall target,
  (0 <= target < 18446744073709551616)%Z ->
  firstn 8 (trampoline_bytes target) = trampoline_head /\ le_val (skipn 8 (trampoline_bytes target)) = target.
Proof. exact trampoline_decodes. Qed.
Print Assumptions C14_trampoline_decodes.

(* -Z: a smaller function is never patched; neither is anything below 6 bytes *)
Theorem C14_size_filter : forall ty tramp mn m s,
  s_size s < mn -> mcount_patch_func ty tramp mn m s = (m, Skipped).
Proof. exact size_filter. Qed.
Print Assumptions C14_size_filter.
Theorem C14_size_floor : forall ty tramp mn m s,
  s_size s < 6 -> mcount_patch_func ty tramp mn m s = (m, Skipped).
Proof. exact size_floor. Qed.
Print Assumptions C14_size_floor.

(* ---- the whole per-module loop (patch_func_matched), any number of symbols ---- *)

(* frame, unconditional: a byte that is not among the first nine bytes of a visited symbol is never
   written, whatever patterns, prologues and layout *)
Theorem C14_update_frame : forall O c syms targets m k a,
  (forall s, In s (visited c syms targets) -> fp s a = false) ->
  fst (patch_func_matched O c syms targets (m, k)) a = m a.
Proof. exact update_untouched. Qed.
Print Assumptions C14_update_frame.

(* exactness: if the 9-byte heads of the visited symbols are pairwise disjoint, the memory after the
   loop is the memory before with exactly the changes the specification reads off the memory BEFORE
   the update: `call trampoline` at the entry of every function whose last matching pattern is a -P,
   that is big enough and starts with a NOP form; nop5/nop6 over a call at the start of a function
   whose last match is a -U (fentry/patchable modules); nothing else *)
Theorem C14_update_exact : forall O c syms targets m k,
  disjoint_fps (visited c syms targets) ->
  forall a, fst (patch_func_matched O c syms targets (m, k)) a = expect O c m (visited c syms targets) a.
Proof. exact update_exact. Qed.
Print Assumptions C14_update_exact.

(* ... so every function whose last matching pattern is a -P, that is big enough and starts with a NOP
   form has `call trampoline` at its entry afterwards (together with C14_unselected_untouched:
   exactly those) *)
Theorem C14_selected_gets_call : forall O c syms targets m k s,
  disjoint_fps (visited c syms targets) -> In s (visited c syms targets) ->
  spec_decision O c s = 1%Z -> patchable c m s = true ->
  rel32 (c_tramp c) (entry_of m (s_addr s)) <> 0%Z ->
  rd (fst (patch_func_matched O c syms targets (m, k))) (entry_of m (s_addr s)) 5
  = call_insn (c_tramp c) (entry_of m (s_addr s)).
Proof. exact selected_gets_call. Qed.
Print Assumptions C14_selected_gets_call.

(* functions that are not selected are byte-for-byte untouched *)
Theorem C14_unselected_untouched : forall O c syms targets m k,
  disjoint_fps (visited c syms targets) ->
  forall a, (forall s, In s (visited c syms targets) -> fp s a = true -> spec_change O c m s = None) ->
  fst (patch_func_matched O c syms targets (m, k)) a = m a.
Proof. exact unselected_untouched. Qed.
Print Assumptions C14_unselected_untouched.

Theorem C14_size_filter_update : forall O c syms targets m k s,
  disjoint_fps (visited c syms targets) -> In s (visited c syms targets) ->
  s_size s < N.max (c_min c) 6 -> (spec_decision O c s =? -1)%Z = false ->
  forall a, fp s a = true -> fst (patch_func_matched O c syms targets (m, k)) a = m a.
Proof. exact size_filter_update. Qed.
Print Assumptions C14_size_filter_update.

(* the run-time checker (applied to the implementation's bytes on every run) accepts the model *)
Theorem C14_checker_accepts_model : forall O c syms targets base before,
  disjoint_fps (visited c syms targets) ->
  ok_update O c syms targets base before
    (window (fst (patch_func_matched O c syms targets (mem_of base before, stats0))) base (length before)) = true.
Proof. exact checker_accepts_model. Qed.
Print Assumptions C14_checker_accepts_model.

(* ---- the same under the REALISTIC layout hypothesis: pairwise disjoint symbol ranges
   [addr, addr+size), every function that starts with endbr64 at least 9 bytes long, every function
   whose last match is a -U at least 6.  Adjacent 6-byte functions are inside (adj_layout_ok) although
   their 9-byte heads overlap (adj_not_heads). ---- *)
Theorem C14_update_exact_layout : forall O c syms targets m k,
  layout_ok O c m (visited c syms targets) ->
  forall a, fst (patch_func_matched O c syms targets (m, k)) a = expect O c m (visited c syms targets) a.
Proof. exact update_exact_layout. Qed.
Print Assumptions C14_update_exact_layout.

Theorem C14_selected_gets_call_layout : forall O c syms targets m k s,
  layout_ok O c m (visited c syms targets) -> In s (visited c syms targets) ->
  spec_decision O c s = 1%Z -> patchable c m s = true ->
  rel32 (c_tramp c) (entry_of m (s_addr s)) <> 0%Z ->
  rd (fst (patch_func_matched O c syms targets (m, k))) (entry_of m (s_addr s)) 5
  = call_insn (c_tramp c) (entry_of m (s_addr s)).
Proof. exact selected_gets_call_layout. Qed.
Print Assumptions C14_selected_gets_call_layout.

(* a function the specification does not select is untouched over its WHOLE range [addr, addr+size) *)
Theorem C14_unselected_function_untouched : forall O c syms targets m k s,
  layout_ok O c m (visited c syms targets) -> In s (visited c syms targets) ->
  spec_change O c m s = None ->
  forall a, in_sym s a = true -> fst (patch_func_matched O c syms targets (m, k)) a = m a.
Proof. exact unselected_function_untouched. Qed.
Print Assumptions C14_unselected_function_untouched.

Theorem C14_checker_accepts_model_layout : forall O c syms targets base before,
  layout_ok O c (mem_of base before) (visited c syms targets) ->
  ok_update O c syms targets base before
    (window (fst (patch_func_matched O c syms targets (mem_of base before, stats0))) base (length before)) = true.
Proof. exact checker_accepts_model_layout. Qed.
Print Assumptions C14_checker_accepts_model_layout.

(* the decision procedure the tie uses to count cases inside the theorem's domain is sound *)
Theorem C14_layout_decision_sound : forall O c m vis, layout_okb O c m vis = true -> layout_ok O c m vis.
Proof. exact layout_okb_sound. Qed.
Print Assumptions C14_layout_decision_sound.

(* ---- -Z SIZE from the command line (strtol -> int -> "%d" -> strtoul -> unsigned) ---- *)
(* ordinary values reach mcount_patch_func unchanged (code as found and repaired) *)
Theorem C14_cli_size_exact : forall fixed v, (0 < v <= INT_MAX)%Z -> cli_min_size fixed v = Z.to_N v.
Proof. exact cli_min_size_exact. Qed.
Print Assumptions C14_cli_size_exact.

(* repaired parser (/repo "fix: size filter: do not wrap around ..."): whatever positive SIZE the user
   writes, a function smaller than it is never patched *)
Theorem C14_cli_size_filter_sound : forall ty tramp m s v,
  (0 < v)%Z -> (Z.of_N (s_size s) < v)%Z -> (Z.of_N (s_size s) < INT_MAX)%Z ->
  mcount_patch_func ty tramp (cli_min_size true v) m s = (m, Skipped).
Proof. exact cli_size_filter_sound. Qed.
Print Assumptions C14_cli_size_filter_sound.

(* the code as found: -Z 4294967297 reached libmcount as 1 (a 16-byte function was patched),
   -Z 2147483648 as "no filter", -Z -4294967295 as 1 *)
Theorem C14_cli_size_filter_refuted :
  (Z.of_N (s_size z_sym) < 4294967297)%Z
  /\ cli_min_size false 4294967297 = 1
  /\ snd (mcount_patch_func DPatchable 4080 (cli_min_size false 4294967297) z_mem z_sym) = Success
  /\ cli_min_size false 2147483648 = 0
  /\ cli_min_size false (-4294967295) = 1.
Proof. exact cli_size_filter_refuted. Qed.
Print Assumptions C14_cli_size_filter_refuted.

(* ---- which patch method a module gets (mcount_arch_find_module) ---- *)
(* repaired probe (/repo "fix: dynamic: skip endbr64 when probing ..."): a module in which any ordinary
   function has a NOP form at its post-endbr64 entry gets a type that patches, so such a function is
   patchable exactly when it passes the size gate, whatever else the module contains *)
Theorem C14_detected_module_patches : forall sect chk m syms s pats lib so tramp mn,
  sect <> SectXray -> In s syms -> ordinary s = true ->
  is_nop_sig (rd m (entry_of m (s_addr s)) 5) = true ->
  patchable {| c_pats := pats; c_lib := lib; c_so := so; c_ty := find_module_type true sect chk m syms;
               c_tramp := tramp; c_min := mn |} m s
  = negb (s_size s <? eff_min_size mn).
Proof. exact detected_module_patches. Qed.
Print Assumptions C14_detected_module_patches.

Theorem C14_detect_falls_back : forall fixed chk m syms,
  (forall s, In s syms -> probe_sym fixed m s = false) -> find_module_type fixed SectNone chk m syms = chk.
Proof. exact detect_falls_back. Qed.
Print Assumptions C14_detect_falls_back.

(* the code as found: a -mfentry -mnop-mcount module built with -fcf-protection was classified "none":
   patch_fentry_code could patch the function, mcount_patch_func (type none) fails, nothing is traced *)
Theorem C14_detect_endbr_refuted :
  ordinary cet_sym = true
  /\ snd (patch_fentry_code 4080 cet_mem (s_addr cet_sym)) = Success
  /\ find_module_type false SectNone DNone cet_mem [cet_sym] = DNone
  /\ mcount_patch_func (find_module_type false SectNone DNone cet_mem [cet_sym]) 4080 0 cet_mem cet_sym = (cet_mem, Failed)
  /\ find_module_type true SectNone DNone cet_mem [cet_sym] = DFentryNop
  /\ snd (mcount_patch_func (find_module_type true SectNone DNone cet_mem [cet_sym]) 4080 0 cet_mem cet_sym) = Success.
Proof. exact detect_endbr_refuted. Qed.
Print Assumptions C14_detect_endbr_refuted.

(* ---- reading __patchable_function_entries: file addresses, load bias, first-segment p_vaddr ---- *)
(* repaired read_patchable_loc: for EVERY p_vaddr of the first PT_LOAD segment and every load bias
   (ET_EXEC: bias 0), if the loader put the relocated section at sh_addr + bias the result is the list of
   locations relative to the module's start - the coordinates of the symbol table *)
Theorem C14_read_patchable_loc_correct : forall ei locs rt,
  length locs = ei_n ei ->
  (ei_dyn ei = false -> ei_bias ei = 0%Z) ->
  loaded_section ei locs rt ->
  read_patchable_loc true ei rt = map (fun l => (l - ei_first_vaddr ei)%Z) locs.
Proof. exact read_patchable_loc_correct. Qed.
Print Assumptions C14_read_patchable_loc_correct.

(* the code as found coincides with it exactly where it cannot tell base address from load bias ... *)
Theorem C14_read_patchable_loc_legacy_same : forall ei rt,
  ei_dyn ei = false \/ ei_first_vaddr ei = 0%Z ->
  read_patchable_loc false ei rt = read_patchable_loc true ei rt.
Proof. exact read_patchable_loc_legacy_same. Qed.
Print Assumptions C14_read_patchable_loc_legacy_same.

(* ... and reads first_vaddr bytes behind the section for a PIE linked at a non-zero image base (lld
   --image-base=0x200000): garbage or SIGSEGV in the traced program *)
Theorem C14_read_patchable_loc_legacy_refuted :
  loaded_section lld_ei lld_locs lld_rt
  /\ read_patchable_loc true lld_ei lld_rt = [5872; 5888]%Z
  /\ read_patchable_loc false lld_ei lld_rt <> [5872; 5888]%Z
  /\ (section_read_addr false lld_ei - section_read_addr true lld_ei)%Z = ei_first_vaddr lld_ei.
Proof. exact read_patchable_loc_legacy_refuted. Qed.
Print Assumptions C14_read_patchable_loc_legacy_refuted.

(* ---- -fpatchable-function-entry=N,M: locations recorded in front of the function ---- *)
(* a location is patched as a symbol-less site only if no symbol begins 1..4 bytes behind it *)
Theorem C14_resolve_none_no_start : forall syms a,
  resolve_target syms a = None ->
  find_sym syms a = None
  /\ forall k, In k [1; 2; 3; 4] -> forall t, find_sym syms (a + k) = Some t -> s_addr t <> a + k.
Proof. exact resolve_none_no_start. Qed.
Print Assumptions C14_resolve_none_no_start.

(* otherwise it stands for the function that begins there (whose own entry bytes then decide) *)
Theorem C14_resolve_pre_entry : forall syms a s,
  find_sym syms a = None -> resolve_target syms a = Some s ->
  exists k, In k [1; 2; 3; 4] /\ s_addr s = a + k.
Proof. exact resolve_pre_entry. Qed.
Print Assumptions C14_resolve_pre_entry.

(* the code as found wrote the call over the location: with =5,2 the entry point ends up inside the call
   instruction (entry bytes changed, not a call) - the traced program dies with SIGILL/SIGSEGV *)
Theorem C14_pre_entry_legacy_refuted :
  let m' := fst (patch_patchable_func_matched_legacy O0 pe_cfg [pe_sym] [0] (pe_mem52, stats0)) in
  m' 2 <> pe_mem52 2 /\ rd m' 2 5 <> call_insn 4080 2 /\ rd m' 0 5 = call_insn 4080 0.
Proof. exact pre_entry_legacy_refuted. Qed.
Print Assumptions C14_pre_entry_legacy_refuted.

(* the size gate is 6 bytes but a function with endbr64 needs 9: the patch of a 6-byte symbol can
   land in the next symbol, which is itself below the gate (needs NOPs spanning two symbols) *)
Theorem C14_patch_inside_symbol_refuted :
  s_addr spill_A + s_size spill_A <= s_addr spill_B /\ s_size spill_B < 6
  /\ fst (patch_func_matched O0 spill_cfg [spill_A; spill_B] [] (spill_mem, stats0)) 6 <> spill_mem 6.
Proof. exact spill_refuted. Qed.
Print Assumptions C14_patch_inside_symbol_refuted.

(* ---- "the program still runs": executing a patched entry ---- *)
(* In a three-instruction machine (5-byte NOP forms, call rel32, the trampoline's jmp *1(%rip), and
   __fentry__ as an oracle step that returns to the address on top of the stack with everything else
   preserved - property C01's subject): the original entry is one NOP ... *)
Theorem C14_original_entry : forall m e fentry,
  is_nop_sig (rd m e 5) = true -> fentry <> Z.of_N e ->
  forall s0, st_rip s0 = Z.of_N e ->
  step m fentry s0 = Some {| st_rip := (Z.of_N e + 5)%Z; st_rsp := st_rsp s0; st_stk := st_stk s0 |}.
Proof. exact original_entry. Qed.
Print Assumptions C14_original_entry.

(* ... and the patched entry (memory after mcount_setup_trampoline + patch_fentry_code) reaches the same
   address with the same stack pointer after call, jmp and the hook's return; the only stack slot that
   differs is the one below the stack pointer (dead at a function entry) *)
Theorem C14_patched_entry_equivalent : forall m e tramp fentry,
  is_nop_sig (rd m e 5) = true ->
  (0 <= tramp < 18446744073709551616)%Z ->
  (-2147483648 <= tramp - (Z.of_N e + 5) < 2147483648)%Z ->
  (Z.of_N e + 5 <= tramp)%Z ->
  (0 <= fentry < 18446744073709551616)%Z ->
  fentry <> Z.of_N e -> fentry <> tramp ->
  forall s0, st_rip s0 = Z.of_N e ->
  exists s3, steps 3 (patched m e tramp fentry) fentry s0 = Some s3
             /\ st_rip s3 = (Z.of_N e + 5)%Z /\ st_rsp s3 = st_rsp s0
             /\ forall a, a <> (st_rsp s0 - 8)%Z -> st_stk s3 a = st_stk s0 a.
Proof. exact patched_entry. Qed.
Print Assumptions C14_patched_entry_equivalent.

(* ---- page permissions ---- *)
Local Open Scope Z_scope.

(* W^X: when mcount_dynamic_update's page operations go through, every page of every module's text
   range (incl. a trampoline page uftrace mapped) and every code page not frozen before is r-x
   afterwards, every other page has the permission it had, and all code pages are frozen *)
Theorem C14_wx : forall pm ds cps chunks pm' ds' cps',
  Forall (fun d => 0 <= d_text_size d) ds ->
  dynamic_update_pages pm ds cps chunks = Some (pm', ds', cps') ->
  (forall pg, pm' pg = if touched ds' (cps ++ map (fun pg0 => {| cp_page := pg0; cp_frozen := false; cp_pos := 0 |}) chunks) pg
                       then P_RX else pm pg)
  /\ (forall cp, In cp cps' -> cp_frozen cp = true).
Proof. exact wx_update. Qed.
Print Assumptions C14_wx.

Theorem C14_wx_no_new_writable : forall pm ds cps chunks pm' ds' cps',
  Forall (fun d => 0 <= d_text_size d) ds ->
  dynamic_update_pages pm ds cps chunks = Some (pm', ds', cps') ->
  forall pg, writable (pm' pg) = true -> writable (pm pg) = true /\ pm' pg = pm pg.
Proof. exact wx_no_new_writable. Qed.
Print Assumptions C14_wx_no_new_writable.

(* what one mcount_setup_trampoline does to the page table and to the range cleaned up later *)
Theorem C14_setup_pages : forall pm d pm1 d1,
  0 <= d_text_size d ->
  setup_trampoline pm d = Some (pm1, d1) ->
  d_text_addr d1 = d_text_addr d /\ d_text_size d <= d_text_size d1 /\ d_ty d1 = d_ty d
  /\ (forall pg, pm1 pg = if text_range d1 pg then P_RWX else pm pg)
  /\ (forall pg, text_range d pg = true -> text_range d1 pg = true)
  /\ (forall pg, text_range d1 pg = true -> text_range d pg = false -> d_text_size d = 0 \/ pg = page_of (d_tramp d1)).
Proof. exact setup_pages. Qed.
Print Assumptions C14_setup_pages.

(* with 16 free bytes behind the text the trampoline fits into the text's last page *)
Theorem C14_trampoline_fits : forall pm d,
  0 <= d_text_size d -> d_ty d <> DXray ->
  (d_text_addr d + d_text_size d) mod PAGE_SIZE <> 0 ->
  (d_text_addr d + d_text_size d) mod PAGE_SIZE <= PAGE_SIZE - 16 ->
  exists pm1 d1, setup_trampoline pm d = Some (pm1, d1)
                 /\ d_text_size d1 = d_text_size d
                 /\ d_text_addr d + d_text_size d <= d_tramp d1
                 /\ page_of (d_tramp d1 + 15) = page_of (d_text_addr d + d_text_size d - 1).
Proof. exact trampoline_fits. Qed.
Print Assumptions C14_trampoline_fits.

(* the code as it is: an ordinary ELF layout (text ends 8 bytes before a page boundary, read-only
   data mapped in the next page) makes mcount_setup_trampoline call pr_err - the traced program
   exits before main.  "The program still runs correctly" is false there. *)
Theorem C14_trampoline_page_refuted :
  pm_elf (page_of (d_text_addr d_elf)) = P_RX /\ pm_elf (page_of (d_text_addr d_elf + d_text_size d_elf - 1)) = P_RX
  /\ setup_trampoline pm_elf d_elf = None.
Proof. exact trampoline_page_refuted. Qed.
Print Assumptions C14_trampoline_page_refuted.

(* with proposed-fixes/C14-1.diff the failed trampoline mapping is no longer fatal (the module is
   left unpatched) and nothing else changes *)
Theorem C14_repaired_never_fatal : forall pm d, setup_trampoline_v true pm d <> SetupFatal.
Proof. exact repaired_never_fatal. Qed.
Print Assumptions C14_repaired_never_fatal.
Theorem C14_repaired_same_when_ok : forall pm d pm1 d1,
  setup_trampoline_v false pm d = SetupOk pm1 d1 <-> setup_trampoline_v true pm d = SetupOk pm1 d1.
Proof. exact repaired_same_when_ok. Qed.
Print Assumptions C14_repaired_same_when_ok.
