(* Property C11 - only statements, each closed by [exact]. *)
From Coq Require Import NArith List Bool.
Import ListNotations.
Require Import UV.C11.Model UV.C11.Proofs.

Theorem C11_placeholder : is_tramp MRET = true.
Proof. exact placeholder. Qed.
Print Assumptions C11_placeholder.
