(* Property C11 - only statements, each closed by [exact].  Model: UV.C11.Model (see its header for
   the functions of libmcount / utils/fstack.c it restates and for what is not modelled). *)
From Coq Require Import NArith List Bool.
Import ListNotations.
Require Import UV.C11.Model UV.C11.StepBase UV.C11.Proofs UV.C11.ProofsDepth UV.C11.ProofsReplay UV.C11.StreamMain UV.C11.StepVfork UV.C11.Empty.
Local Open Scope N_scope.

(* Every legal program - any mix, order and depth of traced / untraced / PLT calls, tail calls, setjmp,
   longjmp to any live jmp_buf, throw, unwinding through any number of frames with cleanup pads
   (traced destructors, _Unwind_Resume), catch, rethrow; [legal_prog] is the executable guard
   Model.rstep - runs without libmcount aborting, and every transfer of control that passes through
   libmcount's trampolines (function returns incl. tail-call chains, the second return of setjmp after
   longjmp, the unwinder's resume address) reaches the real address after exactly as many exit hooks
   as there are traced functions sharing the frame. *)
Theorem C11_returns_reach_real_callers : forall ops, legal_prog ops = true ->
  exists s obs, lrun init ops = Some (s, obs) /\ ok_run ops obs = true.
Proof. exact returns_reach_real_callers. Qed.
Print Assumptions C11_returns_reach_real_callers.

(* After any legal program (longjmp / throw-catch included), unless an exception is still propagating:
   the shadow stack is exactly the list of traced functions of the live frames of the real stack, the
   newest hooked frame's slot holds its trampoline and every other slot its trampoline or the real
   return address, record_idx is the number of live traced functions and every entry's recorded depth
   is its height. *)
Theorem C11_shadow_stack_is_live_hooked_frames : forall ops st', rrun rinit ops = Some st' ->
  exists s obs, lrun init ops = Some (s, obs) /\
    (exc st' = false ->
       map proj (rs s) = shadow (frames st') /\ mem_top (m s) (frames st') /\
       ridx s = N.of_nat (length (shadow (frames st'))) /\
       forall i e, nth_error (rev (rs s)) i = Some e -> e_depth e = N.of_nat i).
Proof. exact shadow_is_live_hooked_frames. Qed.
Print Assumptions C11_shadow_stack_is_live_hooked_frames.

(* For ALL operation sequences (legal or not): record_idx equals the number of shadow-stack entries and
   the depth stored in the i-th entry from the bottom is i - across longjmp restores and unwinding. *)
Theorem C11_recorded_depth_is_height : forall ops s obs, lrun init ops = Some (s, obs) ->
  ridx s = N.of_nat (length (rs s)) /\
  forall i e, nth_error (rev (rs s)) i = Some e -> e_depth e = N.of_nat i.
Proof. exact depth_is_height. Qed.
Print Assumptions C11_recorded_depth_is_height.

(* Replay (utils/fstack.c after fix a7444cc): for EVERY faithful record stream - any number of jmp_bufs,
   longjmp to any live one, nested to any depth; faithful = the EXIT that follows a longjmp is the
   matching setjmp's and EXIT records carry the true depth (C11_recorded_depth_is_height on the record
   side) - the depth replay shows for every record is the true depth. *)
Theorem C11_replay_depth_all_streams : forall es l, gt_run gt0 es = Some l -> rp_run rp0 es = l.
Proof. exact replay_depth_all_streams. Qed.
Print Assumptions C11_replay_depth_all_streams.

(* "...for every thread": setjmp_depth / setjmp_count are file-level statics of utils/fstack.c, shared by every task
   of the trace, so the `latest setjmp` guessed at a longjmp may be ANOTHER task's (shallower or deeper).  For
   every merged stream of any number of tasks whose own records are faithful, replay still shows every record at
   its true depth: the EXIT record of the setjmp that was the target corrects the guess in both directions. *)
Theorem C11_replay_depth_all_tasks : forall es l, gtm_run (fun _ => gt0) es = Some l -> rpm_run rpm0 es = l.
Proof. exact replay_depth_all_tasks. Qed.
Print Assumptions C11_replay_depth_all_tasks.

(* non-vacuity: task 1 setjmp at depth 4 < task 2 setjmp at depth 2 < task 1 longjmp; a resynchronisation that only
   ever shrinks the depth (`diff > 0`) shows the calls after the jump two levels too high *)
Theorem C11_replay_cross_task_right :
  gtm_run (fun _ => gt0) witness_cross_task = Some [0; 1; 2; 3; 4; 4; 0; 1; 2; 2; 1; 0; 4; 5; 6; 4; 4; 4; 3; 2; 1; 0] /\
  rpm_run rpm0 witness_cross_task = [0; 1; 2; 3; 4; 4; 0; 1; 2; 2; 1; 0; 4; 5; 6; 4; 4; 4; 3; 2; 1; 0] /\
  rpm_run_with rp_step_shrink_only rpm0 witness_cross_task
    = [0; 1; 2; 3; 4; 4; 0; 1; 2; 2; 1; 0; 4; 5; 6; 2; 2; 2; 1; 0; 0; 0].
Proof. exact replay_cross_task_right. Qed.
Print Assumptions C11_replay_cross_task_right.

(* "every later call of an abandoned library function is traced again": a library call left by longjmp never runs its
   exit hook, which is what points its GOT slot back to the hook (the dynamic linker resolves the slot during the first
   call).  After the longjmp every slot of an abandoned call - from the slot the popped setjmp entry had up to the
   longjmp itself - points to the hook again (Model Part 1d, restore_jmpbuf_rstack since fix 23390dc) ... *)
Theorem C11_longjmp_rearms_abandoned : forall s count i y, 0 < count -> count <= g_idx s ->
  count - 1 <= i < g_idx s -> g_arr s i = Some y -> g_got (g_longjmp first_fixed s count) y = true.
Proof. exact longjmp_rearms_abandoned. Qed.
Print Assumptions C11_longjmp_rearms_abandoned.

(* ... and the invariant "a slot that does not point to the hook belongs to a call still on the shadow stack" survives *)
Theorem C11_longjmp_keeps_got_invariant : forall s count, 0 < count -> count <= g_idx s -> ginv s ->
  ginv (g_longjmp first_fixed s count).
Proof. exact longjmp_keeps_got_invariant. Qed.
Print Assumptions C11_longjmp_keeps_got_invariant.

(* witness (qsort called for the first time and left by longjmp from its callback) and the walk as found (from count) *)
Theorem C11_first_libcall_left_by_longjmp :
  g_got witness_first_libcall 1 = false /\
  g_got (g_longjmp first_fixed witness_first_libcall 3) 1 = true /\
  g_got (g_longjmp first_legacy witness_first_libcall 3) 1 = false /\
  g_idx (g_longjmp first_fixed witness_first_libcall 3) = 2.
Proof. exact first_libcall_left_by_longjmp. Qed.
Print Assumptions C11_first_libcall_left_by_longjmp.

(* vfork (prepare_vfork / setup_vfork / restore_vfork): for every legal program in which, at any points, a
   vfork child runs on the parent's stack and shadow stack - calls, returns, tail calls, PLT calls, setjmp,
   exceptions caught inside the child, until it execs or exits from any depth, never returning from the
   function that called vfork - every transfer of control through the trampolines, in the child and in the
   parent, including BOTH returns of vfork, reaches the real address after the right number of exit hooks. *)
Theorem C11_vfork_in_step : forall ts, legal_progT ts = true ->
  exists s obs, lrunT init ts = Some (s, obs) /\ ok_runT ts obs = true.
Proof. exact vfork_in_step. Qed.
Print Assumptions C11_vfork_in_step.

(* ... and afterwards the parent's shadow stack is again exactly the list of its live traced functions. *)
Theorem C11_vfork_parent_shadow : forall ts st' es, rrunT rinit ts = Some (st', es) ->
  exists s obs, lrunT init ts = Some (s, obs) /\
    (exc st' = false -> map proj (rs s) = shadow (frames st') /\ mem_top (m s) (frames st')).
Proof. exact vfork_parent_shadow. Qed.
Print Assumptions C11_vfork_parent_shadow.

Theorem C11_vfork_sample_legal : legal_progT sample_vfork = true.
Proof. exact sample_vfork_legal. Qed.
Print Assumptions C11_vfork_sample_legal.

(* vfork under filters: idx (all shadow-stack entries) and record_idx (recorded ones) are separate numbers as
   soon as a filter leaves a library call - vfork itself or one below it - unrecorded.  For EVERY shadow stack of
   the calling thread (any mix of recorded / unrecorded entries), every vfork entry and everything the child
   does on the shared array, the first hook the calling thread runs in the parent gives it back exactly the
   state it had when it entered vfork: idx, record_idx and every entry (model of prepare_vfork /
   mcount_restore_vfork on the rstack array, Model Part 1c). *)
Theorem C11_vfork_restore_exact : forall pid cpid thr t e ops t' sv',
  0 < pid -> cpid <> pid ->
  vsection vrestore pid cpid thr t e ops = Some (t', sv') ->
  v_idx t' = v_idx (vpush t e) /\ v_ridx t' = v_ridx (vpush t e) /\
  (forall i, i < v_idx (vpush t e) -> v_arr t' i = v_arr (vpush t e) i) /\ sv' = vsaved0.
Proof. exact vfork_restore_exact. Qed.
Print Assumptions C11_vfork_restore_exact.

(* the restore happens only on the thread that called vfork (fix 7e6b323); the code as found let any thread of
   the parent process take the saved state *)
Theorem C11_vfork_other_thread_untouched : forall pid thr t sv, thr <> s_thr sv -> vrestore pid thr t sv = (t, sv).
Proof. exact vfork_other_thread_untouched. Qed.
Print Assumptions C11_vfork_other_thread_untouched.

(* nor does a hook the calling thread itself runs in the parent before the child has run (a signal handler between the
   entry hook of vfork and the system call): the saved state stays for the real return *)
Theorem C11_vfork_before_child_untouched : forall pid thr t sv, s_ran sv = false -> vrestore pid thr t sv = (t, sv).
Proof. exact vfork_before_child_untouched. Qed.
Print Assumptions C11_vfork_before_child_untouched.

Theorem C11_vfork_legacy_other_thread_refuted :
  let sv := {| s_pid := 7; s_thr := 1; s_idx := 3; s_ridx := 3; s_ent := {| v_id := 9; v_norec := false |}; s_ran := true |} in
  let t2 := vpush vth0 {| v_id := 5; v_norec := false |} in
  vshape (fst (vrestore_legacy 7 2 t2 sv)) = (3, 3, [false; false; false]) /\ vshape t2 = (1, 1, [false]) /\
  vshape (fst (vrestore 7 2 t2 sv)) = (1, 1, [false]).
Proof. exact vfork_legacy_other_thread_refuted. Qed.
Print Assumptions C11_vfork_legacy_other_thread_refuted.

(* non-vacuity (vfork rejected by -N vfork below two recorded callers) and the seeded slip `idx = saved record_idx` *)
Theorem C11_vfork_unrecorded_witness :
  let t := vpush (vpush vth0 {| v_id := 1; v_norec := false |}) {| v_id := 2; v_norec := false |} in
  let e := {| v_id := 3; v_norec := true |} in
  let ops := [VPush {| v_id := 4; v_norec := false |}; VPush {| v_id := 5; v_norec := true |}] in
  option_map (fun p => vshape (fst p)) (vsection vrestore 7 8 1 t e ops) = Some (3, 2, [false; false; true]) /\
  option_map (fun p => vshape (fst p)) (vsection vrestore_seeded 7 8 1 t e ops) = Some (2, 2, [false; true]).
Proof. exact vfork_unrecorded_witness. Qed.
Print Assumptions C11_vfork_unrecorded_witness.

(* End to end on the model ("the trace closes the abandoned calls or marks the jump so that replay shows
   all later calls at their true depth"): for every legal program the stream of records libmcount has
   written - lazily flushed ENTRY records, EXIT records of the frames dropped by exception unwinding, the
   longjmp ENTRY followed by the second EXIT of its setjmp - is accepted by the ground truth with the depth
   field of every record as its true depth, and replay shows every record at exactly that depth.  (The
   depth field is the height of the shadow-stack entry, C11_recorded_depth_is_height, which is the number
   of live traced functions, C11_shadow_stack_is_live_hooked_frames.) *)
Theorem C11_replay_shows_recorded_depths : forall ops, legal_prog ops = true ->
  exists s obs, lrun init ops = Some (s, obs) /\
    gt_run gt0 (stream_of (out s)) = Some (map r_depth (out s)) /\
    rp_run rp0 (stream_of (out s)) = map r_depth (out s).
Proof. exact replay_shows_recorded_depths. Qed.
Print Assumptions C11_replay_shows_recorded_depths.

Theorem C11_replay_shows_recorded_depths_sample :
  match lrun init sample_prog with
  | Some (s, _) => (map r_depth (out s), rp_run rp0 (stream_of (out s)))
  | None => ([], [])
  end = ([0; 1; 2; 3; 3; 3; 4; 4; 4; 3; 3; 4; 4; 4; 4; 3; 2; 1; 0],
         [0; 1; 2; 3; 3; 3; 4; 4; 4; 3; 3; 4; 4; 4; 4; 3; 2; 1; 0]).
Proof. exact replay_shows_recorded_depths_sample. Qed.
Print Assumptions C11_replay_shows_recorded_depths_sample.

(* non-vacuity + regression witness of the repaired defect (longjmp to an older jmp_buf) *)
Theorem C11_replay_older_jmpbuf_now_right :
  gt_run gt0 witness_old_jmpbuf = Some [0; 1; 2; 2; 2; 3; 3; 3; 4; 2; 2; 2; 1; 0] /\
  rp_run rp0 witness_old_jmpbuf = [0; 1; 2; 2; 2; 3; 3; 3; 4; 2; 2; 2; 1; 0] /\
  ok_replay witness_old_jmpbuf (rp_run rp0 witness_old_jmpbuf) = true.
Proof. exact replay_older_jmpbuf_now_right. Qed.
Print Assumptions C11_replay_older_jmpbuf_now_right.

(* regression witness of the defect repaired by 0bd540c: _Unwind_Resume called from a cleanup pad at the
   slot of the frame just unwound is now a legal move (covered by the first theorem); the dropped frame's
   EXIT record is written and the resume address is intact. *)
Theorem C11_resume_alias_now_in_step :
  legal_prog witness_resume_alias = true /\
  exists s obs, lrun init witness_resume_alias = Some (s, obs) /\
    map o_target obs = [0; 0; 0; 0; 0; 14; 0; 0; 11] /\ ok_run witness_resume_alias obs = true /\
    map rec_code (out s) = [(0, 0, 0); (0, 1, 1); (0, 2, 2); (1, 2, 2); (1, 1, 1); (1, 0, 0)].
Proof. exact resume_alias_now_in_step. Qed.
Print Assumptions C11_resume_alias_now_in_step.

(* regression witness of /repo fix C01-9 (mcount_rstack_rehook oldest-first): a tail-call chain mixing a PLT
   entry and an mcount entry, re-hooked after a catch, returns through both exit hooks - tail-call chains
   of mixed kinds are legal moves of the theorems above *)
Theorem C11_mixed_chain_now_in_step :
  legal_prog witness_mixed_chain = true /\
  exists s obs, lrun init witness_mixed_chain = Some (s, obs) /\
    map (fun o => (o_target o, o_pops o)) obs = [(0,0); (0,0); (0,0); (0,0); (0,0); (12, 2); (11, 1)] /\
    ok_run witness_mixed_chain obs = true.
Proof. exact mixed_chain_now_in_step. Qed.
Print Assumptions C11_mixed_chain_now_in_step.

(* Outside the guard of the first theorem: *)
(* with an -mfentry style frame address a destructor called from a cleanup pad is recorded as a child
   of the frame that was just unwound (two exit hooks, depth 3 instead of 2); control is unaffected. *)
Theorem C11_fentry_cleanup_refuted :
  exists s obs, lrun init witness_fentry_cleanup = Some (s, obs) /\
    map (fun o => (o_target o, o_pops o)) obs = [(0,0); (0,0); (0,0); (0,0); (0,0); (0,0); (19, 2)] /\
    map rec_code (out s) = [(0, 0, 0); (0, 1, 1); (0, 2, 2); (0, 3, 6); (1, 3, 6); (1, 2, 2)] /\
    legal_prog witness_fentry_cleanup = false.
Proof. exact fentry_cleanup_refuted. Qed.
Print Assumptions C11_fentry_cleanup_refuted.

(* Whatever way the frames were left - returns, tail-call chains, longjmp across any number of frames, unwinding
   through cleanup pads, catch, rethrow - once the program has left every frame (and no exception is in flight) the
   shadow stack is empty and record_idx is zero: no entry of an abandoned frame stays behind. *)
Theorem C11_all_frames_left_shadow_empty : forall ops st', rrun rinit ops = Some st' ->
  exc st' = false -> frames st' = [] ->
  exists s obs, lrun init ops = Some (s, obs) /\ rs s = [] /\ ridx s = 0.
Proof. exact all_frames_left_shadow_empty. Qed.
Print Assumptions C11_all_frames_left_shadow_empty.
Theorem C11_all_frames_left_sample :
  match rrun rinit sample_prog with Some st => (exc st, frames st) | None => (true, []) end = (false, []) /\
  (10 < length sample_prog)%nat.
Proof. exact sample_leaves_every_frame. Qed.
Print Assumptions C11_all_frames_left_sample.
