(* C09 - proofs about the model of argument capture and display (UV.C09.Model). *)
From Coq Require Import NArith ZArith List Bool Lia.
From Coq Require Import ZifyBool ZifyN ZifyNat.
Import ListNotations.
Require Import UV.Gen.Consts UV.C09.Model.
Local Open Scope N_scope.
Ltac Zify.zify_post_hook ::= Z.div_mod_to_equations.

(* ------------------------------------------------------------------ lists and bytes *)
Lemma lenN_app : forall {A} (a b : list A), lenN (a ++ b) = lenN a + lenN b.
Proof. intros. unfold lenN. rewrite app_length. lia. Qed.

Lemma lenN_nil : forall {A}, lenN (@nil A) = 0.
Proof. reflexivity. Qed.

Lemma takeN_app_exact : forall {A} (a b : list A) n, n = lenN a -> takeN n (a ++ b) = a.
Proof.
  intros A a b n ->. unfold takeN, lenN. rewrite Nat2N.id.
  rewrite firstn_app, Nat.sub_diag, firstn_all. simpl. apply app_nil_r.
Qed.

Lemma dropN_app_exact : forall {A} (a b : list A) n, n = lenN a -> dropN n (a ++ b) = b.
Proof.
  intros A a b n ->. unfold dropN, lenN. rewrite Nat2N.id.
  rewrite skipn_app, Nat.sub_diag, skipn_all. reflexivity.
Qed.

Lemma length_le_bytes : forall n v, length (le_bytes n v) = n.
Proof. induction n; intros; simpl; auto. Qed.

Lemma of_le_le_bytes : forall n v, of_le (le_bytes n v) = v mod 256 ^ N.of_nat n.
Proof.
  induction n; intros v.
  - simpl. rewrite N.mod_1_r. reflexivity.
  - cbn [le_bytes of_le]. rewrite IHn.
    rewrite Nat2N.inj_succ.
    rewrite N.pow_succ_r'.
    assert (H256 : 256 <> 0) by lia.
    assert (Hp : 256 ^ N.of_nat n <> 0) by (apply N.pow_nonzero; lia).
    rewrite N.mod_mul_r by assumption. reflexivity.
Qed.

Lemma ALIGN4_mod : forall x, ALIGN x 4 mod 4 = 0.
Proof. intros. unfold ALIGN. apply N.mod_mul. lia. Qed.

Lemma ALIGN4_ge : forall x, x <= ALIGN x 4 < x + 4.
Proof. intros. unfold ALIGN. lia. Qed.

Lemma ALIGN4_id : forall x, x mod 4 = 0 -> ALIGN x 4 = x.
Proof. intros. unfold ALIGN. lia. Qed.

Lemma ALIGN8_ge : forall x, x <= ALIGN x 8 < x + 8.
Proof. intros. unfold ALIGN. lia. Qed.

Lemma length_fit : forall n bg l, lenN (fit n bg l) = n.
Proof.
  intros. unfold fit, takeN, repN, lenN.
  rewrite firstn_length, app_length, repeat_length. lia.
Qed.

Lemma fit_prefix : forall n bg l, lenN l <= n -> exists t, fit n bg l = l ++ t.
Proof.
  intros n bg l H. unfold fit, takeN, lenN in *.
  rewrite firstn_app.
  rewrite firstn_all2 by lia. eexists. reflexivity.
Qed.

(* ------------------------------------------------------------------ the string copy loop *)
Definition nz (s : list N) : Prop := Forall (fun b => b <> 0) s.

Lemma nthN_app_last : forall dst c, nthN (dst ++ [c]) (lenN dst) = c.
Proof.
  intros. unfold nthN, lenN. rewrite Nat2N.id.
  rewrite app_nth2 by lia. rewrite Nat.sub_diag. reflexivity.
Qed.

Lemma copy_loop_prefix : forall s1 rest i bound dst len,
  nz s1 -> lenN dst = i -> i + lenN s1 <= ARG_STR_MAX -> i + lenN s1 <= bound ->
  copy_loop (s1 ++ rest) i bound dst len = copy_loop rest (i + lenN s1) bound (dst ++ s1) (len + lenN s1).
Proof.
  induction s1 as [|c s1 IH]; intros rest i bound dst len Hnz Hlen H98 Hb.
  - simpl. rewrite lenN_nil, !N.add_0_r, app_nil_r. reflexivity.
  - inversion Hnz as [|? ? Hc Hnz']; subst.
    assert (Hl : lenN (c :: s1) = 1 + lenN s1) by (unfold lenN; simpl length; lia).
    rewrite Hl in *.
    cbn [app copy_loop].
    destruct (bound <=? lenN dst) eqn:E1; [lia|].
    destruct (lenN dst =? ARG_STR_MAX) eqn:E2; [lia|]. cbn [andb].
    rewrite nthN_app_last.
    destruct (c =? 0) eqn:E3; [lia|].
    rewrite (IH rest (lenN dst + 1) bound (dst ++ [c]) (len + 1)); try assumption.
    + rewrite <- app_assoc. cbn [app]. rewrite !N.add_assoc. reflexivity.
    + rewrite lenN_app. unfold lenN at 2. simpl. lia.
    + lia.
    + lia.
Qed.

(* a string of at most ARG_STR_MAX characters that fits is copied whole, with its NUL *)
Lemma copy_loop_short : forall s junk bound,
  nz s -> lenN s <= ARG_STR_MAX -> lenN s < bound ->
  copy_loop (s ++ 0 :: junk) 0 bound [] 0 = (s ++ [0], lenN s).
Proof.
  intros s junk bound Hnz H98 Hb.
  rewrite copy_loop_prefix; try assumption; try reflexivity; try lia.
  cbn [copy_loop app]. rewrite !N.add_0_l.
  destruct (bound <=? lenN s) eqn:E1; [lia|].
  change (0 =? 0) with true. cbn [negb]. rewrite andb_false_r.
  rewrite nthN_app_last. reflexivity.
Qed.

(* a string of more than ARG_STR_MAX characters becomes its first ARG_STR_MAX-3 characters and "..." *)
Lemma copy_loop_long : forall s1 c junk bound,
  nz s1 -> lenN s1 = ARG_STR_MAX -> c <> 0 -> ARG_STR_MAX < bound ->
  copy_loop (s1 ++ c :: junk) 0 bound [] 0 = (takeN (ARG_STR_MAX - 3) s1 ++ [46; 46; 46; 0], ARG_STR_MAX).
Proof.
  intros s1 c junk bound Hnz H98 Hc Hb.
  rewrite copy_loop_prefix; try assumption; try reflexivity; try lia.
  cbn [copy_loop app]. rewrite !N.add_0_l, H98.
  destruct (bound <=? ARG_STR_MAX) eqn:E1; [lia|].
  rewrite N.eqb_refl.
  destruct (c =? 0) eqn:E0; [lia|]. cbn [negb andb].
  assert (Hd : dots ARG_STR_MAX (s1 ++ [c]) = takeN (ARG_STR_MAX - 3) s1 ++ [46; 46; 46; 0]).
  { unfold dots, takeN. rewrite firstn_app.
    replace (N.to_nat (ARG_STR_MAX - 3) - length s1)%nat with 0%nat
      by (unfold lenN in H98; unfold ARG_STR_MAX in *; lia).
    simpl firstn at 2. rewrite app_nil_r. reflexivity. }
  rewrite Hd.
  assert (Hn : nthN (takeN (ARG_STR_MAX - 3) s1 ++ [46; 46; 46; 0]) ARG_STR_MAX = 0).
  { unfold nthN. rewrite app_nth2.
    - unfold takeN. rewrite firstn_length.
      unfold lenN in H98. unfold ARG_STR_MAX in *.
      replace (N.to_nat 98 - Nat.min (N.to_nat (98 - 3)) (length s1))%nat with 3%nat by lia.
      reflexivity.
    - unfold takeN. rewrite firstn_length. unfold ARG_STR_MAX. lia. }
  rewrite Hn. reflexivity.
Qed.

(* when the room left in the buffer ends first, the loop stops there without a NUL *)
Lemma copy_loop_cut : forall s rest bound,
  nz s -> lenN s = bound -> bound <= ARG_STR_MAX ->
  copy_loop (s ++ rest) 0 bound [] 0 = (s, bound).
Proof.
  intros s rest bound Hnz Hl Hb.
  rewrite copy_loop_prefix; try assumption; try reflexivity; try lia.
  rewrite !N.add_0_l, Hl. simpl app.
  destruct rest; cbn [copy_loop]; rewrite N.leb_refl; reflexivity.
Qed.

Lemma nth_dots : forall i dst c, lenN dst = i -> 3 <= i -> nthN (dots i (dst ++ [c])) i = 0.
Proof.
  intros i dst c Hd H3. unfold dots, nthN, takeN. rewrite app_nth2.
  - rewrite firstn_length, app_length. simpl length. unfold lenN in Hd.
    replace (N.to_nat i - Nat.min (N.to_nat (i - 3)) (length dst + 1))%nat with 3%nat by lia.
    reflexivity.
  - rewrite firstn_length, app_length. simpl length. unfold lenN in Hd. lia.
Qed.

(* the length the loop reports never exceeds ARG_STR_MAX *)
Lemma copy_loop_len : forall src i bound dst len,
  lenN dst = i -> i <= ARG_STR_MAX -> len <= i -> snd (copy_loop src i bound dst len) <= ARG_STR_MAX.
Proof.
  induction src as [|c rest IH]; intros i bound dst len Hd Hi Hl.
  - cbn [copy_loop]. destruct (bound <=? i); simpl; lia.
  - cbn [copy_loop]. destruct (bound <=? i) eqn:E1; [simpl; lia|].
    destruct (i =? ARG_STR_MAX) eqn:E2.
    + destruct (c =? 0) eqn:E0; cbn [negb andb].
      * rewrite <- Hd, nthN_app_last, E0. simpl. lia.
      * rewrite nth_dots by (try assumption; unfold ARG_STR_MAX in *; lia). simpl. lia.
    + cbn [andb]. destruct (nthN (dst ++ [c]) i =? 0) eqn:E3; [simpl; lia|].
      apply IH.
      * rewrite lenN_app. unfold lenN at 2. simpl. lia.
      * lia.
      * lia.
Qed.

(* ------------------------------------------------------------------ one step of save_to_argbuf *)
Definition relevant (is_ret : bool) (s : spec) : bool := Bool.eqb is_ret (s_idx s =? 0).

(* what a step that stores something stores: for strings a 2-byte length, then ALIGN(len+2,4) bytes in all *)
Definition chunk_ok (s : spec) (w : list N) (adv : N) : Prop :=
  if is_strfmt (s_fmt s)
  then exists len tl, w = le_bytes 2 len ++ tl /\ len < 65536 /\ adv = ALIGN (len + 2) 4
  else adv = ALIGN (s_size s) 4.

Lemma step_cases : forall fill inp is_ret st s,
  let st' := step fill inp is_ret st s in
  (st' = st /\ (m_stop st = true \/ relevant is_ret s = false)) \/ m_stop st' = true \/
  (relevant is_ret s = true /\ exists val w adv, st' = emit fill st val w adv /\ chunk_ok s w adv).
Proof.
  intros fill inp is_ret st s. cbv zeta. unfold step.
  destruct (m_stop st) eqn:Es; [left; split; [reflexivity|left; reflexivity]|].
  fold (relevant is_ret s).
  destruct (relevant is_ret s) eqn:Er; cbn [negb]; [|left; split; [reflexivity|right; reflexivity]].
  destruct (fmt_eqb (s_fmt s) FStruct && (MAX_SIZE <? m_total st + s_size s)) eqn:Ep;
    [right; left; reflexivity|].
  match goal with |- context [match ?f with Some _ => _ | None => _ end] => destruct f as [[sw val]|] eqn:Ef end;
    [|right; left; reflexivity].
  destruct (is_strfmt (s_fmt s)) eqn:Estr.
  - destruct (MAX_SIZE <? m_total st + 4); [right; left; reflexivity|].
    match goal with |- context [if ?p =? 0 then _ else _] => destruct (p =? 0) eqn:Ep0 end.
    + destruct (MAX_SIZE <? m_total st + ALIGN (4 + 2) 4); [right; left; reflexivity|].
      right; right. split; [reflexivity|].
      do 3 eexists. split; [reflexivity|].
      unfold chunk_ok. rewrite Estr. exists 4, null_str. split; [reflexivity|]. split; [lia|reflexivity].
    + match goal with |- context [copy_loop ?a ?b ?c ?d ?e] => destruct (copy_loop a b c d e) as [dst len] eqn:Ec end.
      right; right. split; [reflexivity|].
      do 3 eexists. split; [reflexivity|].
      unfold chunk_ok. rewrite Estr. eexists len, _. split; [reflexivity|].
      split; [|reflexivity].
      match type of Ec with copy_loop ?a ?b ?c ?d ?e = _ =>
        pose proof (copy_loop_len a b c d e eq_refl) as Hl end.
      rewrite Ec in Hl. simpl in Hl. unfold ARG_STR_MAX in Hl. lia.
  - destruct (fmt_eqb (s_fmt s) FStruct) eqn:Est.
    + right; right. split; [reflexivity|].
      do 3 eexists. split; [reflexivity|]. unfold chunk_ok. rewrite Estr. reflexivity.
    + destruct (MAX_SIZE <? m_total st + ALIGN (s_size s) 4); [right; left; reflexivity|].
      right; right. split; [reflexivity|].
      do 3 eexists. split; [reflexivity|]. unfold chunk_ok. rewrite Estr. reflexivity.
Qed.

(* ------------------------------------------------------------------ reader framing = writer framing *)
Definition wf_spec (s : spec) : Prop := is_strfmt (s_fmt s) = true -> s_size s <> 0.

Lemma emit_done : forall fill st val w adv,
  m_done (emit fill st val w adv) = m_done st ++ fit adv fill (over w (m_ahead st)).
Proof. reflexivity. Qed.

Lemma emit_total : forall fill st val w adv, m_total (emit fill st val w adv) = m_total st + adv.
Proof. reflexivity. Qed.

Lemma fit_over_le2 : forall adv fill len tl ahead,
  2 <= adv -> exists c', fit adv fill (over (le_bytes 2 len ++ tl) ahead) = le_bytes 2 len ++ c' /\ lenN c' = adv - 2.
Proof.
  intros adv fill len tl ahead H2.
  pose proof (length_fit adv fill (over (le_bytes 2 len ++ tl) ahead)) as HL.
  unfold over in *. rewrite <- !app_assoc in *.
  remember (tl ++ skipn (length (le_bytes 2 len ++ tl)) ahead) as rest.
  cbn [le_bytes app] in *.
  unfold fit, takeN in *.
  destruct (N.to_nat adv) as [|[|n]] eqn:En; try lia.
  cbn [firstn app] in *. eexists. split; [reflexivity|].
  unfold lenN in *. simpl length in HL. lia.
Qed.

(* the reader, given the bytes one storing step appended (and anything behind them), takes exactly them *)
Lemma read_arg_chunk : forall s fill (ahead : list N) w adv acc rest,
  wf_spec s -> chunk_ok s w adv -> lenN acc mod 4 = 0 ->
  read_arg s acc (fit adv fill (over w ahead) ++ rest) = Some (acc ++ fit adv fill (over w ahead), rest).
Proof.
  intros s fill ahead w adv acc rest Hwf Hc Hacc.
  unfold read_arg, chunk_ok in *.
  destruct (is_strfmt (s_fmt s)) eqn:Estr.
  - destruct Hc as (len & tl & -> & Hlen & ->).
    destruct (s_size s =? 0) eqn:E0; [exfalso; apply Hwf; [exact Estr|lia]|].
    pose proof (ALIGN4_ge (len + 2)) as HA.
    destruct (fit_over_le2 (ALIGN (len + 2) 4) fill len tl ahead ltac:(lia)) as (c' & -> & Hc').
    rewrite <- !app_assoc.
    assert (H2 : lenN (le_bytes 2 len) = 2) by reflexivity.
    assert (Hlt : (lenN (le_bytes 2 len ++ c' ++ rest) <? 2) = false).
    { rewrite lenN_app, H2. lia. }
    rewrite Hlt.
    rewrite (takeN_app_exact (le_bytes 2 len) (c' ++ rest) 2) by (symmetry; exact H2).
    rewrite (dropN_app_exact (le_bytes 2 len) (c' ++ rest) 2) by (symmetry; exact H2).
    rewrite of_le_le_bytes. change (256 ^ N.of_nat 2) with 65536. rewrite (N.mod_small len 65536) by exact Hlen.
    rewrite (lenN_app acc (le_bytes 2 len)), H2.
    set (rem := (lenN acc + 2 + len) mod 4).
    set (size' := if rem =? 0 then len else len + (4 - rem)).
    assert (Hs : size' = lenN c').
    { rewrite Hc'. unfold size', rem. unfold ALIGN in *. destruct ((lenN acc + 2 + len) mod 4 =? 0) eqn:Er; lia. }
    rewrite Hs.
    assert (Hlt2 : (lenN (c' ++ rest) <? lenN c') = false) by (rewrite lenN_app; lia).
    rewrite Hlt2.
    rewrite takeN_app_exact by reflexivity. rewrite dropN_app_exact by reflexivity.
    reflexivity.
  - subst adv.
    destruct (s_size s =? 0) eqn:E0.
    + apply N.eqb_eq in E0. rewrite E0. change (ALIGN 0 4) with 0.
      unfold fit, takeN. simpl. rewrite app_nil_r. reflexivity.
    + change (lenN rest <? 0) with false.
      cbn [takeN dropN N.to_nat firstn skipn]. rewrite app_nil_r.
      assert (lenN (fit (ALIGN (s_size s) 4) fill (over w ahead) ++ rest) <? 0 = false) as -> by lia.
      set (c := fit (ALIGN (s_size s) 4) fill (over w ahead)).
      assert (Hc : lenN c = ALIGN (s_size s) 4) by apply length_fit.
      set (rem := (lenN acc + s_size s) mod 4).
      set (size' := if rem =? 0 then s_size s else s_size s + (4 - rem)).
      assert (Hs : size' = lenN c).
      { rewrite Hc. unfold size', rem, ALIGN. destruct ((lenN acc + s_size s) mod 4 =? 0) eqn:Er; lia. }
      rewrite Hs.
      assert (Hlt2 : (lenN (c ++ rest) <? lenN c) = false) by (rewrite lenN_app; lia).
      rewrite Hlt2.
      rewrite takeN_app_exact by reflexivity. rewrite dropN_app_exact by reflexivity. reflexivity.
Qed.

Lemma step_stopped : forall fill inp is_ret st s, m_stop st = true -> step fill inp is_ret st s = st.
Proof. intros. unfold step. rewrite H. reflexivity. Qed.

Lemma fold_stopped : forall fill inp is_ret specs st,
  m_stop st = true -> fold_left (step fill inp is_ret) specs st = st.
Proof.
  induction specs as [|s r IH]; intros st H; simpl; [reflexivity|].
  rewrite step_stopped by exact H. apply IH. exact H.
Qed.

Lemma read_args_loop_frames : forall fill inp is_ret specs st acc rest,
  Forall wf_spec specs ->
  m_stop (fold_left (step fill inp is_ret) specs st) = false ->
  lenN acc mod 4 = 0 ->
  exists tail,
    m_done (fold_left (step fill inp is_ret) specs st) = m_done st ++ tail /\
    m_total (fold_left (step fill inp is_ret) specs st) = m_total st + lenN tail /\
    lenN tail mod 4 = 0 /\
    read_args_loop is_ret specs acc (tail ++ rest) = Some (acc ++ tail, rest).
Proof.
  induction specs as [|s r IH]; intros st acc rest Hwf Hstop Hacc.
  - exists []. simpl. rewrite !app_nil_r, lenN_nil, N.add_0_r. auto.
  - inversion Hwf as [|? ? Hs Hr]; subst.
    cbn [fold_left] in *.
    pose proof (step_cases fill inp is_ret st s) as Hc. cbv zeta in Hc.
    destruct Hc as [(Heq & [Es | Hrel]) | [Hst | (Hrel & val & w & adv & Heq & Hck)]].
    + rewrite Heq in Hstop. rewrite fold_stopped in Hstop by exact Es. congruence.
    + rewrite Heq in *.
      destruct (IH st acc rest Hr Hstop Hacc) as (tail & Hd & Ht & Hm & Hread).
      exists tail. repeat split; try assumption.
      cbn [read_args_loop]. unfold relevant in Hrel. rewrite Hrel. exact Hread.
    + rewrite fold_stopped in Hstop by exact Hst. congruence.
    + rewrite Heq in *.
      assert (Hadv4 : adv mod 4 = 0).
      { unfold chunk_ok in Hck. destruct (is_strfmt (s_fmt s)).
        - destruct Hck as (? & ? & _ & _ & ->). apply ALIGN4_mod.
        - subst adv. apply ALIGN4_mod. }
      set (c := fit adv fill (over w (m_ahead st))) in *.
      assert (Hlc : lenN c = adv) by apply length_fit.
      destruct (IH (emit fill st val w adv) (acc ++ c) rest Hr Hstop) as (tail & Hd & Ht & Hm & Hread).
      { rewrite lenN_app, Hlc. lia. }
      exists (c ++ tail). rewrite emit_done in Hd. rewrite emit_total in Ht. fold c in Hd.
      repeat split.
      * rewrite Hd, app_assoc. reflexivity.
      * rewrite Ht, lenN_app, Hlc. lia.
      * rewrite lenN_app, Hlc. lia.
      * cbn [read_args_loop]. unfold relevant in Hrel. rewrite Hrel. cbn [negb].
        rewrite <- app_assoc.
        unfold c. rewrite read_arg_chunk by assumption. fold c.
        rewrite Hread, app_assoc. reflexivity.
Qed.

(* the loop is left by `break` only when the data is already too big (or the step is not modelled) *)
Definition stop_inv (st : mst) : Prop := m_stop st = true -> m_unmodelled st = true \/ MAX_SIZE < m_total st.

Lemma refuse_stop_inv : forall st n, MAX_SIZE < m_total st + n -> stop_inv (refuse st n).
Proof. intros st n H _. right. exact H. Qed.

Lemma step_stop_inv : forall fill inp is_ret st s, stop_inv st -> stop_inv (step fill inp is_ret st s).
Proof.
  intros fill inp is_ret st s H. unfold step.
  destruct (m_stop st) eqn:Es; [exact H|].
  destruct (negb (Bool.eqb is_ret (s_idx s =? 0))); [exact H|].
  destruct (fmt_eqb (s_fmt s) FStruct && (MAX_SIZE <? m_total st + s_size s)) eqn:Ep.
  - apply refuse_stop_inv. apply andb_prop in Ep. lia.
  - match goal with |- context [match ?f with Some _ => _ | None => _ end] => destruct f as [[sw val]|] end.
    + destruct (is_strfmt (s_fmt s)).
      * destruct (MAX_SIZE <? m_total st + 4) eqn:E4; [apply refuse_stop_inv; lia|].
        match goal with |- context [if ?p =? 0 then _ else _] => destruct (p =? 0) end.
        { destruct (MAX_SIZE <? m_total st + ALIGN (4 + 2) 4) eqn:E8; [apply refuse_stop_inv; lia|].
          intro Hc. discriminate Hc. }
        { match goal with |- context [copy_loop ?a ?b ?c ?d ?e] => destruct (copy_loop a b c d e) end.
          intro Hc. discriminate Hc. }
      * destruct (fmt_eqb (s_fmt s) FStruct); [intro Hc; discriminate Hc|].
        destruct (MAX_SIZE <? m_total st + ALIGN (s_size s) 4) eqn:E8; [apply refuse_stop_inv; lia|].
        intro Hc. discriminate Hc.
    + intros _. left. reflexivity.
Qed.

Lemma run_stop_inv : forall fill inp is_ret specs, stop_inv (run fill inp is_ret specs).
Proof.
  intros. unfold run.
  assert (H0 : stop_inv mst0) by (intro Hc; discriminate Hc).
  revert H0. generalize mst0.
  induction specs as [|s r IH]; intros st H; simpl; [exact H|].
  apply IH. apply step_stop_inv. exact H.
Qed.

(* C09 framing: whenever save_to_argbuf accepts the data, read_task_args - which recomputes every
   length from the stream and the spec sizes - consumes exactly the payload and its 8-byte padding,
   for every spec list (any formats, sizes, addressing) and every input. *)
Theorem framing : forall fill inp is_ret specs bg p rest,
  Forall wf_spec specs ->
  m_unmodelled (run fill inp is_ret specs) = false ->
  payload (run fill inp is_ret specs) = Some p ->
  read_args is_ret specs (fit (ALIGN (lenN p) 8) bg p ++ rest) = Some (p, rest).
Proof.
  intros fill inp is_ret specs bg p rest Hwf Hum Hp.
  unfold payload in Hp. destruct (result (run fill inp is_ret specs)) as [n|] eqn:Er; [|discriminate].
  injection Hp as Hp.
  unfold result in Er. destruct (MAX_SIZE <? m_total (run fill inp is_ret specs)) eqn:Em; [discriminate|].
  injection Er as Er.
  assert (Hstop : m_stop (run fill inp is_ret specs) = false).
  { destruct (m_stop (run fill inp is_ret specs)) eqn:Es; [|reflexivity].
    destruct (run_stop_inv fill inp is_ret specs Es) as [H|H]; [congruence|lia]. }
  unfold run in *.
  destruct (fit_prefix (ALIGN (lenN p) 8) bg p) as (pad & Hpad).
  { pose proof (ALIGN8_ge (lenN p)). lia. }
  destruct (read_args_loop_frames fill inp is_ret specs mst0 [] (pad ++ rest) Hwf Hstop eq_refl)
    as (tail & Hd & Ht & Hm & Hread).
  cbn [m_done m_total mst0 app] in Hd, Ht.
  assert (Hpt : p = tail).
  { rewrite <- Hp, Hd. rewrite <- (app_nil_r tail) at 1.
    apply takeN_app_exact. lia. }
  rewrite <- Hpt in Hread. clear Hd Ht Hm Hpt tail.
  unfold read_args. rewrite Hpad, <- app_assoc, Hread. cbn [app].
  f_equal. f_equal.
  pose proof (length_fit (ALIGN (lenN p) 8) bg p) as HL. rewrite Hpad, lenN_app in HL.
  destruct (lenN p mod 8 =? 0) eqn:E8.
  - assert (lenN pad = 0) by (unfold ALIGN in HL; lia).
    destruct pad; [reflexivity|unfold lenN in *; simpl in *; lia].
  - apply dropN_app_exact. unfold ALIGN in HL. lia.
Qed.

(* ------------------------------------------------------------------ the record stream *)
Lemma rec_word_fields : forall ty more depth addr,
  ty < 4 -> more < 2 -> depth < 1024 -> addr < 2 ^ 48 ->
  let w := rec_word ty more depth addr in
  w < 2 ^ 64 /\ w mod 4 = ty /\ (w / 4) mod 2 = more /\ (w / 8) mod 8 = RECORD_MAGIC /\
  (w / 64) mod 1024 = depth /\ w / 65536 = addr.
Proof.
  intros ty more depth addr Ht Hm Hd Ha. cbv zeta. unfold rec_word, RECORD_MAGIC.
  change (2 ^ 48) with 281474976710656 in Ha. change (2 ^ 64) with 18446744073709551616.
  assert (Hmore : (if more =? 0 then 0 else 4) = 4 * more) by (destruct (more =? 0) eqn:E; lia).
  rewrite Hmore.
  rewrite N.mod_small by lia.
  repeat split; lia.
Qed.

Lemma decode_header : forall k specs_of t ty more depth addr body,
  t < 2 ^ 64 -> ty < 4 -> more < 2 -> depth < 1024 -> addr < 2 ^ 48 ->
  decode_stream (S k) specs_of (le_bytes 8 t ++ le_bytes 8 (rec_word ty more depth addr) ++ body) =
  if more =? 0 then
    {| d_time := t; d_type := ty; d_depth := depth; d_addr := addr; d_args := None |} :: decode_stream k specs_of body
  else match read_args (ty =? UFTRACE_EXIT) (specs_of addr) body with
       | Some (data, rest') =>
           {| d_time := t; d_type := ty; d_depth := depth; d_addr := addr; d_args := Some data |}
             :: decode_stream k specs_of rest'
       | None => []
       end.
Proof.
  intros k specs_of t ty more depth addr body Ht Hty Hm Hd Ha.
  destruct (rec_word_fields ty more depth addr Hty Hm Hd Ha) as (Hw & F1 & F2 & F3 & F4 & F5).
  cbn [decode_stream].
  assert (L8 : forall v, lenN (le_bytes 8 v) = 8) by reflexivity.
  assert (Hlen : (lenN (le_bytes 8 t ++ le_bytes 8 (rec_word ty more depth addr) ++ body) <? 16) = false).
  { rewrite !lenN_app, !L8. lia. }
  rewrite Hlen.
  rewrite (takeN_app_exact (le_bytes 8 t)) by reflexivity.
  rewrite (dropN_app_exact (le_bytes 8 t)) by reflexivity.
  rewrite (takeN_app_exact (le_bytes 8 (rec_word ty more depth addr))) by reflexivity.
  rewrite !of_le_le_bytes. change (256 ^ N.of_nat 8) with (2 ^ 64).
  rewrite (N.mod_small t) by exact Ht.
  rewrite (N.mod_small (rec_word ty more depth addr)) by exact Hw.
  rewrite F1, F2, F3, F4, F5, N.eqb_refl. cbn [negb].
  assert (Hdrop : dropN 16 (le_bytes 8 t ++ le_bytes 8 (rec_word ty more depth addr) ++ body) = body).
  { rewrite app_assoc. apply dropN_app_exact. rewrite lenN_app, !L8. reflexivity. }
  rewrite Hdrop. reflexivity.
Qed.

(* C09 resync: a record with a payload of any size, as record_ret_stack lays it out (payload padded to
   8 bytes), is decoded to that record and payload, and decoding continues exactly at the next record *)
Theorem stream_resync : forall k specs_of bg fill inp t ty depth addr pl rest,
  t < 2 ^ 64 -> ty < 4 -> depth < 1024 -> addr < 2 ^ 48 ->
  Forall wf_spec (specs_of addr) ->
  m_unmodelled (run fill inp (ty =? UFTRACE_EXIT) (specs_of addr)) = false ->
  (pl = None \/ pl = payload (run fill inp (ty =? UFTRACE_EXIT) (specs_of addr))) ->
  decode_stream (S k) specs_of (enc_rec bg t ty depth addr pl ++ rest) =
  {| d_time := t; d_type := ty; d_depth := depth; d_addr := addr; d_args := pl |} :: decode_stream k specs_of rest.
Proof.
  intros k specs_of bg fill inp t ty depth addr pl rest Ht Hty Hd Ha Hwf Hum Hpl.
  unfold enc_rec. rewrite <- !app_assoc.
  destruct pl as [p|].
  - rewrite decode_header by (try assumption; lia). cbn [N.eqb].
    destruct Hpl as [Hpl|Hpl]; [discriminate|].
    rewrite (framing fill inp (ty =? UFTRACE_EXIT) (specs_of addr) bg p rest Hwf Hum (eq_sym Hpl)).
    reflexivity.
  - rewrite decode_header by (try assumption; lia). reflexivity.
Qed.

(* ------------------------------------------------------------------ witnesses (the code as it is) *)
Definition spec_str (n : N) : spec := Sp n FStr 8 TIndex 0.
Definition inp1 (rdi : N) (ss : list (N * list N)) : inputs :=
  {| regs := [rdi; 0; 0; 0; 0; 0]; xmm := []; stk := []; rets := [0; 0]; strs := ss; wrds := [] |}.
Definition s98 : list N := repeat 65 98.

(* repaired: a string of exactly ARG_STR_MAX characters is recorded and shown whole *)
Lemma len98_intact :
  let st := run 0 (inp1 4096 [(4096, s98)]) false [spec_str 1] in
  payload st = Some (le_bytes 2 98 ++ s98) /\
  ok_args [(spec_str 1, AStr s98)] (show_args [] [spec_str 1] (payload st)) = true.
Proof. vm_compute. split; reflexivity. Qed.

(* ... and 99 characters become 95 + "..." *)
Lemma len99_truncated :
  let st := run 0 (inp1 4096 [(4096, repeat 65 99)]) false [spec_str 1] in
  payload st = Some (le_bytes 2 98 ++ repeat 65 95 ++ [46; 46; 46]) /\
  ok_args [(spec_str 1, AStr (repeat 65 99))] (show_args [] [spec_str 1] (payload st)) = true.
Proof. vm_compute. split; reflexivity. Qed.

(* repaired: `arg1/c64,arg2/i32` *)
Lemma c64_ok :
  let specs := [Sp 1 FChar 8 TIndex 0; Sp 2 FSint 4 TIndex 0] in
  let inp := {| regs := [0x1122334455667741; 7; 0; 0; 0; 0]; xmm := []; stk := []; rets := []; strs := []; wrds := [] |} in
  ok_args [(Sp 1 FChar 8 TIndex 0, AInt 0x1122334455667741); (Sp 2 FSint 4 TIndex 0, AInt 7)]
          (show_args [] specs (payload (run 0 inp false specs))) = true.
Proof. vm_compute. reflexivity. Qed.

(* the string "\xff\xff\xff\xff" is shown as NULL (the readers' NULL marker; the writer stores "NULL" for NULL) *)
Lemma ffff_refuted :
  let st := run 0 (inp1 4096 [(4096, [255; 255; 255; 255])]) false [spec_str 1] in
  show_args [] [spec_str 1] (payload st) = [40] ++ null_str ++ [41].
Proof. vm_compute. reflexivity. Qed.

(* repaired: a string that ends exactly at the limit is accepted and its NUL is not stored *)
Lemma limit_string_inside :
  let specs := [ {| s_idx := 30; s_fmt := FStruct; s_size := 1016; s_type := TStack; s_u := 1%Z; s_regs := []; s_name := [] |};
                 spec_str 1 ] in
  let st := run 0 (inp1 4096 [(4096, [97; 98])]) false specs in
  result st = Some 1020 /\ m_hi st = ARGBUF_SIZE.
Proof. vm_compute. split; reflexivity. Qed.

Definition many_specs (n : nat) : list spec := map (fun i => Sp (N.of_nat i) FAuto 8 TIndex 0) (seq 1 n).

(* argument numbers 101..108 alias the xmm register numbers in mcount_get_register_arg *)
Lemma arg101_reads_xmm0_refuted :
  let inp := {| regs := [0; 0; 0; 0; 0; 0]; xmm := [0xdeadbeef]; stk := repeat 7 120; rets := []; strs := []; wrds := [] |} in
  takeN 8 (get_arg inp (Sp 101 FAuto 8 TIndex 0) val0) = le_bytes 8 0xdeadbeef /\
  takeN 8 (get_arg inp (Sp 100 FAuto 8 TIndex 0) val0) = le_bytes 8 7.
Proof. vm_compute. split; reflexivity. Qed.

(* a struct passed on the stack whose size is not a multiple of 4 loses its last bytes (mcount_memcpy4) *)
Lemma struct18_tail_lost_refuted :
  let sp := {| s_idx := 1; s_fmt := FStruct; s_size := 18; s_type := TStack; s_u := 1%Z; s_regs := []; s_name := [] |} in
  let inp := {| regs := []; xmm := []; stk := [0x0807060504030201; 0x100f0e0d0c0b0a09; 0x1817161514131211]; rets := []; strs := []; wrds := [] |} in
  payload (run 0xA5 inp false [sp]) =
  Some [1; 2; 3; 4; 5; 6; 7; 8; 9; 10; 11; 12; 13; 14; 15; 16; 0xA5; 0xA5; 0xA5; 0xA5].
Proof. vm_compute. reflexivity. Qed.

(* a struct given with registers is copied 8 bytes per register (plus spec->size bytes from the stack,
   reg_idx and stack_ofs share a union): near the limit this still leaves the buffer *)
Lemma struct_regs_overflow_refuted :
  let specs := [ {| s_idx := 30; s_fmt := FStruct; s_size := 1016; s_type := TStack; s_u := 1%Z; s_regs := []; s_name := [] |};
                 {| s_idx := 1; s_fmt := FStruct; s_size := 4; s_type := TReg; s_u := 2%Z; s_regs := [1%Z; 2%Z]; s_name := [] |} ] in
  let st := run 0 (inp1 7 []) false specs in
  result st = Some 1020 /\ m_hi st = ARGBUF_SIZE + 16.
Proof. vm_compute. split; reflexivity. Qed.

(* ------------------------------------------------------------------ how far the stores go *)
Definition no_struct (s : spec) : Prop := fmt_eqb (s_fmt s) FStruct = false.
Definition val_ok (st : mst) : Prop := lenN (m_val st) = VAL_SIZE.
Definition hi_inv (st : mst) : Prop := m_hi st <= ARGBUF_SIZE.

Lemma length_over : forall l old, (length l <= length old)%nat -> length (over l old) = length old.
Proof. intros. unfold over. rewrite app_length, skipn_length. lia. Qed.

Lemma lenN_set_lo : forall b v, lenN b <= lenN v -> lenN (set_lo b v) = lenN v.
Proof. intros b v H. unfold set_lo, lenN in *. rewrite length_over; lia. Qed.

Lemma lenN_le_bytes : forall n v, lenN (le_bytes n v) = N.of_nat n.
Proof. intros. unfold lenN. rewrite length_le_bytes. reflexivity. Qed.

Lemma get_register_arg_len : forall inp ty idx u size val,
  lenN val = VAL_SIZE -> lenN (snd (get_register_arg inp ty idx u size val)) = VAL_SIZE.
Proof.
  intros inp ty idx u size val H. unfold get_register_arg.
  assert (G : forall r, lenN (snd (let val1 := set_lo (le_bytes 8 0) val in
     if ((1 <=? r) && (r <=? 6))%Z then (true, set_lo (le_bytes 8 (nthN (regs inp) (Z.to_N (r - 1)))) val1)
     else if ((101 <=? r) && (r <=? 108))%Z then
       (true, if size =? 8 then set_lo (le_bytes 8 (nthN (xmm inp) (Z.to_N (r - 101)))) val1
              else set_lo (le_bytes 4 (nthN (xmm inp) (Z.to_N (r - 101)))) val1)
     else (false, val1))) = VAL_SIZE).
  { intro r. cbv zeta.
    assert (H1 : lenN (set_lo (le_bytes 8 0) val) = VAL_SIZE).
    { rewrite lenN_set_lo; [exact H|]. rewrite lenN_le_bytes, H. unfold VAL_SIZE. lia. }
    destruct ((1 <=? r) && (r <=? 6))%Z; cbn [snd].
    - rewrite lenN_set_lo; [exact H1|]. rewrite lenN_le_bytes, H1. unfold VAL_SIZE. lia.
    - destruct ((101 <=? r) && (r <=? 108))%Z; cbn [snd]; [|exact H1].
      destruct (size =? 8); (rewrite lenN_set_lo; [exact H1|]); rewrite lenN_le_bytes, H1; unfold VAL_SIZE; lia. }
  destruct ty; try apply G. exact H.
Qed.

Lemma get_arg_len : forall inp s val,
  lenN val = VAL_SIZE -> s_size s <= 12 -> lenN (get_arg inp s val) = VAL_SIZE.
Proof.
  intros inp s val H Hs. unfold get_arg.
  pose proof (get_register_arg_len inp (s_type s) (s_idx s) (s_u s) (s_size s) val H) as H1.
  destruct (get_register_arg inp (s_type s) (s_idx s) (s_u s) (s_size s) val) as [ok val1].
  cbn [snd] in H1. destruct ok; [exact H1|].
  unfold get_stack_arg.
  match goal with |- context [if ?c then _ else _] => destruct c end; [reflexivity|].
  rewrite lenN_set_lo; [exact H1|].
  unfold stack_bytes. rewrite length_fit, H1. unfold VAL_SIZE, ALIGN. lia.
Qed.

Lemma emit_hi : forall fill st val w adv,
  hi_inv st -> 4 + m_total st + lenN w <= ARGBUF_SIZE -> hi_inv (emit fill st val w adv).
Proof.
  intros fill st val w adv H Hw. unfold hi_inv in *. unfold emit. cbn [m_hi].
  destruct w; lia.
Qed.

Lemma step_hi : forall fill inp is_ret st s, no_struct s -> hi_inv st -> hi_inv (step fill inp is_ret st s).
Proof.
  intros fill inp is_ret st s Hns H. unfold step. unfold no_struct in Hns. rewrite Hns. cbn [andb].
  destruct (m_stop st); [exact H|].
  destruct (negb (Bool.eqb is_ret (s_idx s =? 0))); [exact H|].
  match goal with |- context [match ?f with Some _ => _ | None => _ end] => destruct f as [[sw val]|] end;
    [|exact H].
  destruct (is_strfmt (s_fmt s)).
  - destruct (MAX_SIZE <? m_total st + 4) eqn:E4; [exact H|].
    match goal with |- context [if ?p =? 0 then _ else _] => destruct (p =? 0) end.
    + destruct (MAX_SIZE <? m_total st + ALIGN (4 + 2) 4) eqn:E8; [exact H|].
      apply emit_hi; [exact H|].
      change (lenN ([4; 0] ++ null_str)) with 6. change (ALIGN (4 + 2) 4) with 8 in E8.
      unfold MAX_SIZE, ARGBUF_SIZE in *. lia.
    + match goal with |- context [copy_loop ?a ?b ?c ?d ?e] => destruct (copy_loop a b c d e) as [dst len] end.
      apply emit_hi; [exact H|].
      rewrite lenN_app, lenN_le_bytes.
      assert (Hb : (MAX_SIZE + U32 - m_total st mod U32) mod U32 = MAX_SIZE - m_total st).
      { unfold MAX_SIZE, ARGBUF_SIZE, U32 in *. rewrite (N.mod_small (m_total st)) by lia.
        replace (1024 - 4 + 4294967296 - m_total st) with ((1024 - 4 - m_total st) + 1 * 4294967296) by lia.
        rewrite N.mod_add by lia. apply N.mod_small. lia. }
      rewrite Hb.
      assert (Ht : lenN (takeN (MAX_SIZE - m_total st - 2) dst) <= MAX_SIZE - m_total st - 2).
      { unfold takeN, lenN. rewrite firstn_length. lia. }
      unfold MAX_SIZE, ARGBUF_SIZE in *. lia.
  - destruct (MAX_SIZE <? m_total st + ALIGN (s_size s) 4) eqn:E8; [exact H|].
    apply emit_hi; [exact H|].
    assert (Ht : lenN (takeN (ALIGN (s_size s) 4) val) <= ALIGN (s_size s) 4).
    { unfold takeN, lenN. rewrite firstn_length. lia. }
    unfold MAX_SIZE, ARGBUF_SIZE in *. lia.
Qed.

(* C09 within the buffer: without struct specs NO store of save_to_argbuf goes past the frame's 1024-byte
   argument buffer - for every spec list and every input, accepted or refused. *)
Theorem within_argbuf : forall fill inp is_ret specs,
  Forall no_struct specs -> m_hi (run fill inp is_ret specs) <= ARGBUF_SIZE.
Proof.
  intros fill inp is_ret specs Hns. unfold run.
  assert (H0 : hi_inv mst0) by (unfold hi_inv; simpl; unfold ARGBUF_SIZE; lia).
  revert H0. generalize mst0.
  induction Hns as [|s r Hs Hr IH]; intros st H; simpl; [exact H|].
  apply IH. apply step_hi; assumption.
Qed.

(* ------------------------------------------------------------------ fetch: which word is captured *)
(* the SysV x86_64 location of the 64-bit word a spec names: integer argument n is in
   rdi, rsi, rdx, rcx, r8, r9 for n = 1..6 and in the n-6th stack word behind the return address
   for n >= 7; %reg and %stack+k name the word directly *)
Definition arg_word (inp : inputs) (s : spec) : option N :=
  match s_type s with
  | TIndex => if (1 <=? s_idx s) && (s_idx s <=? 6) then Some (nthN (regs inp) (s_idx s - 1))
              else if (7 <=? s_idx s) && (s_idx s <=? 100) then Some (nthN (stk inp) (s_idx s - 7))
              else None
  | TReg => if ((1 <=? s_u s) && (s_u s <=? 6))%Z then Some (nthN (regs inp) (Z.to_N (s_u s - 1))) else None
  | TStack => if ((1 <=? s_u s) && (s_u s <=? 100))%Z then Some (nthN (stk inp) (Z.to_N (s_u s - 1))) else None
  | TFloat => None
  end.

Lemma takeN_over_exact : forall l old, takeN (lenN l) (over l old) = l.
Proof. intros. unfold over. apply takeN_app_exact. reflexivity. Qed.

Lemma takeN_takeN : forall {A} n m (l : list A), n <= m -> takeN n (takeN m l) = takeN n l.
Proof.
  intros A n m l H. unfold takeN. rewrite firstn_firstn. f_equal. lia.
Qed.

Lemma takeN_app_le : forall {A} n (a b : list A), n <= lenN a -> takeN n (a ++ b) = takeN n a.
Proof.
  intros A n a b H. unfold takeN, lenN in *. rewrite firstn_app.
  replace (N.to_nat n - length a)%nat with 0%nat by lia. simpl. apply app_nil_r.
Qed.

Lemma takeN_set_lo : forall n b v, n <= lenN b -> takeN n (set_lo b v) = takeN n b.
Proof. intros. unfold set_lo, over. apply takeN_app_le. assumption. Qed.

(* the first n <= 8 bytes at stack word k+1 *)
Lemma stack_bytes_word : forall inp k n, n <= 8 ->
  stack_bytes inp (k + 1) n = takeN n (le_bytes 8 (nthN (stk inp) k)).
Proof.
  intros inp k n Hn. unfold stack_bytes. replace (k + 1 - 1) with k by lia.
  unfold nthN, dropN.
  remember (N.to_nat k) as j. clear Heqj k.
  generalize (stk inp). intro l. revert j.
  induction l as [|x l IH]; intros j.
  - rewrite skipn_nil. simpl flat_map. destruct j; simpl nth.
    + unfold fit. simpl app. unfold repN, takeN.
      assert (Hc : (N.to_nat n <= 8)%nat) by lia.
      destruct (N.to_nat n) as [|[|[|[|[|[|[|[|[|?]]]]]]]]]; try lia; reflexivity.
    + unfold fit. simpl app. unfold repN, takeN.
      assert (Hc : (N.to_nat n <= 8)%nat) by lia.
      destruct (N.to_nat n) as [|[|[|[|[|[|[|[|[|?]]]]]]]]]; try lia; reflexivity.
  - destruct j.
    + simpl skipn. simpl nth. cbn [flat_map]. unfold fit.
      rewrite <- app_assoc. apply takeN_app_le. rewrite lenN_le_bytes. lia.
    + simpl skipn. simpl nth. apply IH.
Qed.

(* C09 fetch: for integer-class specs (size 1, 2, 4 or 8) the bytes save_to_argbuf stores are the low bytes
   of the word the ABI assigns (arg_word); whatever ctx->val held before does not matter *)
Theorem fetch_word : forall inp s val w,
  arg_word inp s = Some w -> lenN val = VAL_SIZE ->
  s_size s = 1 \/ s_size s = 2 \/ s_size s = 4 \/ s_size s = 8 ->
  takeN (ALIGN (s_size s) 4) (get_arg inp s val) = takeN (ALIGN (s_size s) 4) (le_bytes 8 w).
Proof.
  intros inp s val w Hw Hval Hsz.
  assert (HA : ALIGN (s_size s) 4 <= 8) by (unfold ALIGN; lia).
  assert (HA1 : 1 <= ALIGN (s_size s) 4) by (unfold ALIGN; lia).
  unfold arg_word in Hw. unfold get_arg, get_register_arg, get_stack_arg.
  destruct (s_type s) eqn:Et.
  - (* TIndex *)
    destruct ((1 <=? s_idx s) && (s_idx s <=? 6)) eqn:E1.
    + injection Hw as <-.
      assert (Hz : ((1 <=? Z.of_N (s_idx s)) && (Z.of_N (s_idx s) <=? 6))%Z = true) by lia.
      rewrite Hz. replace (Z.to_N (Z.of_N (s_idx s) - 1)) with (s_idx s - 1) by lia.
      apply takeN_set_lo. rewrite lenN_le_bytes. lia.
    + destruct ((7 <=? s_idx s) && (s_idx s <=? 100)) eqn:E2; [|discriminate].
      injection Hw as <-.
      assert (Hz : ((1 <=? Z.of_N (s_idx s)) && (Z.of_N (s_idx s) <=? 6))%Z = false) by lia.
      assert (Hz2 : ((101 <=? Z.of_N (s_idx s)) && (Z.of_N (s_idx s) <=? 108))%Z = false) by lia.
      rewrite Hz, Hz2.
      assert (Ho : ((Z.of_N (s_idx s) - MAX_REG_ARGS <? 1) || (100 <? Z.of_N (s_idx s) - MAX_REG_ARGS))%Z = false)
        by (unfold MAX_REG_ARGS; lia).
      rewrite Ho.
      replace (Z.to_N (Z.of_N (s_idx s) - MAX_REG_ARGS)) with (s_idx s - 7 + 1) by (unfold MAX_REG_ARGS; lia).
      rewrite stack_bytes_word by exact HA.
      rewrite takeN_set_lo.
      * apply takeN_takeN. lia.
      * unfold takeN, lenN. rewrite firstn_length, length_le_bytes. lia.
  - discriminate.
  - (* TReg *)
    destruct ((1 <=? s_u s) && (s_u s <=? 6))%Z eqn:E1; [|discriminate].
    injection Hw as <-.
    apply takeN_set_lo. rewrite lenN_le_bytes. lia.
  - (* TStack *)
    destruct ((1 <=? s_u s) && (s_u s <=? 100))%Z eqn:E1; [|discriminate].
    injection Hw as <-.
    assert (Ho : ((s_u s <? 1) || (100 <? s_u s))%Z = false) by lia.
    rewrite Ho.
    replace (Z.to_N (s_u s)) with (Z.to_N (s_u s - 1) + 1) by lia.
    rewrite stack_bytes_word by exact HA.
    rewrite takeN_set_lo.
    + apply takeN_takeN. lia.
    + unfold takeN, lenN. rewrite firstn_length, length_le_bytes. lia.
Qed.

(* `arg1` (no format: 'long int' by the manual) holding 4294967295 is shown as -1 *)
Lemma auto_neg32_refuted :
  let sp := Sp 1 FAuto 8 TIndex 0 in
  let inp := {| regs := [0xffffffff; 0; 0; 0; 0; 0]; xmm := []; stk := []; rets := []; strs := []; wrds := [] |} in
  show_args [] [sp] (payload (run 0 inp false [sp])) = [40; 45; 49; 41] /\
  ok_args [(sp, AInt 0xffffffff)] (show_args [] [sp] (payload (run 0 inp false [sp]))) = false.
Proof. vm_compute. split; reflexivity. Qed.

(* ------------------------------------------------------------------ what replay shows for one value *)
Lemma firstn_le_bytes : forall k n v, (k <= n)%nat -> firstn k (le_bytes n v) = le_bytes k v.
Proof.
  induction k; intros n v H; [reflexivity|].
  destruct n; [lia|]. cbn [le_bytes firstn]. f_equal. apply IHk. lia.
Qed.

(* the value get_argspec_string reads back from the bytes stored for an integer-class spec *)
Lemma read_back_int : forall size w later,
  size = 1 \/ size = 2 \/ size = 4 \/ size = 8 ->
  of_le (takeN size (takeN (ALIGN size 4) (le_bytes 8 w) ++ later)) = w mod 2 ^ (8 * size).
Proof.
  intros size w later Hs.
  assert (E : takeN size (takeN (ALIGN size 4) (le_bytes 8 w) ++ later) = le_bytes (N.to_nat size) w).
  { rewrite takeN_app_le.
    - rewrite takeN_takeN by (unfold ALIGN; lia). unfold takeN. apply firstn_le_bytes. lia.
    - unfold takeN, lenN. rewrite firstn_length, length_le_bytes. unfold ALIGN. lia. }
  rewrite E, of_le_le_bytes. rewrite N2Nat.id.
  destruct Hs as [-> | [-> | [-> | ->]]]; reflexivity.
Qed.

Definition int_fmt (f : fmt) : Prop := f = FAuto \/ f = FSint \/ f = FUint \/ f = FHex \/ f = FOct.
(* the class in which the automatic format misfires (auto_neg32_refuted) *)
Definition neg32_class (s : spec) (w : N) : Prop :=
  s_fmt s = FAuto /\ s_size s = 8 /\ 0xffff0000 < w mod 2 ^ 64 <= 0xffffffff.

(* C09 integers: what replay prints for an integer spec is one of the accepted renderings of the low
   bytes of the word that was passed - signed or unsigned decimal, hex or octal of exactly that value *)
Theorem int_shown : forall syms s w later,
  int_fmt (s_fmt s) ->
  s_size s = 1 \/ s_size s = 2 \/ s_size s = 4 \/ s_size s = 8 ->
  ~ neg32_class s w ->
  let data := takeN (ALIGN (s_size s) 4) (le_bytes 8 w) ++ later in
  In (fst (show_one syms s data)) (accept s (AInt w)) /\ snd (show_one syms s data) = ALIGN (s_size s) 4.
Proof.
  intros syms s w later Hf Hs Hn. cbv zeta.
  destruct s as [idx f size ty u rs nm]. cbn [s_fmt s_size] in *.
  unfold neg32_class in Hn. cbn [s_fmt s_size] in Hn.
  unfold show_one, accept. cbn [s_fmt s_size].
  rewrite (read_back_int size w later Hs).
  set (v := w mod 2 ^ (8 * size)).
  assert (Hv : v < 2 ^ (8 * size)) by (apply N.mod_lt; apply N.pow_nonzero; lia).
  assert (Hv64 : v mod 2 ^ 64 = v).
  { apply N.mod_small. eapply N.lt_le_trans; [exact Hv|].
    apply N.pow_le_mono_r; lia. }
  rewrite Hv64.
  assert (HB : (if size =? 8 then 64 else lm_bits (ffs_idx size)) = 8 * size)
    by (destruct Hs as [-> | [-> | [-> | ->]]]; reflexivity).
  rewrite HB.
  assert (Hvm : v mod 2 ^ (8 * size) = v) by (apply N.mod_small; exact Hv).
  destruct Hf as [->|[-> | [-> | [-> | ->]]]].
  - (* FAuto *)
    destruct (if v <? 2 ^ 63 then 100000 <? v else v <? 2 ^ 64 - 100000) eqn:Ebig.
    + destruct ((4294901760 <? v) && (v <=? 4294967295)) eqn:Er.
      * (* shown as a 32-bit signed number: only sizes 4 and 8 can get here, 8 is the refuted class *)
        destruct Hs as [-> | [-> | [-> | ->]]].
        { exfalso. change (2 ^ (8 * 1)) with 256 in Hv. lia. }
        { exfalso. change (2 ^ (8 * 2)) with 65536 in Hv. lia. }
        { split; [|reflexivity]. left. unfold printf_int. cbn [fst]. change (8 * 4) with 32 in *. rewrite Hvm. reflexivity. }
        { exfalso. apply Hn. split; [reflexivity|]. split; [reflexivity|].
          fold v. change (8 * 8) with 64 in *. lia. }
      * split; [|reflexivity]. right. right. left.
        unfold printf_int. rewrite Hvm.
        destruct (v =? 0) eqn:E0; [|reflexivity].
        exfalso. apply N.eqb_eq in E0. rewrite E0 in Ebig. vm_compute in Ebig. discriminate.
    + split; [|reflexivity]. left. unfold printf_int. rewrite Hvm. reflexivity.
  - (* FSint *) split; [|reflexivity]. left. unfold printf_int. rewrite Hvm. reflexivity.
  - (* FUint *)
    split; [|reflexivity].
    destruct (100000 <? v) eqn:E1.
    + right. right. left. unfold printf_int. rewrite Hvm.
      destruct (v =? 0) eqn:E0; [lia|reflexivity].
    + right. left. unfold printf_int. rewrite Hvm. reflexivity.
  - (* FHex *) split; [|reflexivity]. right. right. left. unfold printf_int. rewrite Hvm. reflexivity.
  - (* FOct *) split; [|reflexivity]. right. right. right. left. unfold printf_int. rewrite Hvm. reflexivity.
Qed.

(* C09 characters: `/c`, every size *)
Theorem char_shown : forall syms s w later,
  s_fmt s = FChar -> s_size s = 1 \/ s_size s = 2 \/ s_size s = 4 \/ s_size s = 8 ->
  let data := takeN (ALIGN (s_size s) 4) (le_bytes 8 w) ++ later in
  In (fst (show_one syms s data)) (accept s (AInt w)) /\ snd (show_one syms s data) = ALIGN (s_size s) 4.
Proof.
  intros syms s w later Hf Hs. cbv zeta.
  destruct s as [idx f size ty u rs nm]. cbn [s_fmt s_size] in *. subst f.
  unfold show_one, accept. cbn [s_fmt s_size fst snd].
  split; [|reflexivity]. left.
  assert (Hn : nthN (takeN (ALIGN size 4) (le_bytes 8 w) ++ later) 0 = w mod 256)
    by (destruct Hs as [-> | [-> | [-> | ->]]]; reflexivity).
  rewrite Hn. reflexivity.
Qed.

(* a NUL-free byte string *)
Lemma cstr_nz : forall b, nz b -> cstr b = b.
Proof.
  induction b as [|c r IH]; intro H; [reflexivity|].
  inversion H; subst. cbn [cstr]. destruct (c =? 0) eqn:E; [lia|]. f_equal. apply IH. assumption.
Qed.

Lemma show_str_cases : forall b, nz b -> show_str b = b \/ show_str b = flat_map escaped_char b.
Proof.
  intros b H. unfold show_str. rewrite cstr_nz by exact H.
  destruct (after_high b); [right|left]; reflexivity.
Qed.

(* the bytes one string occupies: 2-byte length, the characters, (NUL), padding *)
Lemma string_chunk : forall fill body tl ahead,
  exists rest, fit (ALIGN (lenN body + 2) 4) fill (over (le_bytes 2 (lenN body) ++ body ++ tl) ahead)
               = le_bytes 2 (lenN body) ++ body ++ rest.
Proof.
  intros fill body tl ahead.
  unfold over. rewrite <- !app_assoc.
  set (junk := tl ++ skipn (length (le_bytes 2 (lenN body) ++ body ++ tl)) ahead).
  unfold fit. rewrite <- !app_assoc.
  set (A := ALIGN (lenN body + 2) 4).
  assert (HA : lenN body + 2 <= A) by (unfold A; pose proof (ALIGN4_ge (lenN body + 2)); lia).
  rewrite app_assoc.
  assert (HL : lenN (le_bytes 2 (lenN body) ++ body) = lenN body + 2) by (rewrite lenN_app, lenN_le_bytes; lia).
  unfold takeN. rewrite firstn_app.
  rewrite firstn_all2 by (unfold lenN in *; lia).
  rewrite <- app_assoc. eexists. reflexivity.
Qed.

(* C09 strings: what replay prints for the bytes of a stored string *)
Theorem str_shown : forall syms s fill body tl ahead later,
  s_fmt s = FStr -> nz body -> lenN body < 65536 ->
  ~ (body = [255; 255; 255; 255]) ->
  let data := fit (ALIGN (lenN body + 2) 4) fill (over (le_bytes 2 (lenN body) ++ body ++ tl) ahead) ++ later in
  (fst (show_one syms s data) = quote ++ body ++ quote \/
   fst (show_one syms s data) = quote ++ flat_map escaped_char body ++ quote) /\
  snd (show_one syms s data) = ALIGN (lenN body + 2) 4.
Proof.
  intros syms s fill body tl ahead later Hf Hnz Hlen Hff. cbv zeta.
  destruct (string_chunk fill body tl ahead) as (rest & ->).
  unfold show_one. rewrite Hf.
  rewrite <- !app_assoc.
  assert (H2 : takeN 2 (le_bytes 2 (lenN body) ++ body ++ rest ++ later) = le_bytes 2 (lenN body))
    by (apply takeN_app_exact; reflexivity).
  rewrite H2, of_le_le_bytes. change (256 ^ N.of_nat 2) with 65536. rewrite N.mod_small by exact Hlen.
  assert (H3 : dropN 2 (le_bytes 2 (lenN body) ++ body ++ rest ++ later) = body ++ rest ++ later)
    by (apply dropN_app_exact; reflexivity).
  rewrite H3. rewrite takeN_app_exact by reflexivity.
  cbn [fst snd]. split; [|reflexivity].
  assert (Hne : ((lenN body =? 4) && list_eqb body [255; 255; 255; 255]) = false).
  { destruct (lenN body =? 4) eqn:E4; [|reflexivity]. cbn [andb].
    destruct body as [|a [|b [|c [|d [|e r]]]]];
      try (exfalso; unfold lenN in E4; simpl length in E4; lia).
    cbn [list_eqb].
    destruct (a =? 255) eqn:Ea; [|reflexivity].
    destruct (b =? 255) eqn:Eb; [|reflexivity].
    destruct (c =? 255) eqn:Ec; [|reflexivity].
    destruct (d =? 255) eqn:Ed; [|reflexivity].
    exfalso. apply Hff. f_equal; [lia|]. f_equal; [lia|]. f_equal; [lia|]. f_equal; lia. }
  rewrite Hne, !app_nil_r.
  destruct (show_str_cases body Hnz) as [-> | ->]; [left|right]; reflexivity.
Qed.

(* ------------------------------------------------------------------ one argument, from the registers to the text *)
Definition is_arg (s : spec) : Prop := (s_idx s =? 0) = false.

Lemma step_int : forall fill inp st s,
  m_stop st = false -> is_arg s -> is_strfmt (s_fmt s) = false -> no_struct s ->
  m_total st + ALIGN (s_size s) 4 <= MAX_SIZE ->
  step fill inp false st s =
  emit fill st (get_arg inp s (m_val st)) (takeN (ALIGN (s_size s) 4) (get_arg inp s (m_val st))) (ALIGN (s_size s) 4).
Proof.
  intros fill inp st s Hst Ha Hstr Hns Hroom. unfold step. rewrite Hst. unfold is_arg in Ha. rewrite Ha.
  unfold no_struct in Hns. rewrite Hns, Hstr. cbn [Bool.eqb negb andb].
  destruct (MAX_SIZE <? m_total st + ALIGN (s_size s) 4) eqn:E; [lia|]. reflexivity.
Qed.

(* an integer or character argument, anywhere in a call: the bytes appended are the low bytes of the
   word the ABI assigns, and replay shows them as that value *)
Theorem int_arg_roundtrip : forall syms fill inp st s w,
  m_stop st = false -> is_arg s -> lenN (m_val st) = VAL_SIZE ->
  arg_word inp s = Some w ->
  m_total st + ALIGN (s_size s) 4 <= MAX_SIZE ->
  (int_fmt (s_fmt s) /\ (s_size s = 1 \/ s_size s = 2 \/ s_size s = 4 \/ s_size s = 8) /\ ~ neg32_class s w) \/
  (s_fmt s = FChar /\ (s_size s = 1 \/ s_size s = 2 \/ s_size s = 4 \/ s_size s = 8)) ->
  exists chunk,
    m_done (step fill inp false st s) = m_done st ++ chunk /\
    lenN chunk = ALIGN (s_size s) 4 /\
    m_total (step fill inp false st s) = m_total st + lenN chunk /\
    forall later, In (fst (show_one syms s (chunk ++ later))) (accept s (AInt w)) /\
                  snd (show_one syms s (chunk ++ later)) = lenN chunk.
Proof.
  intros syms fill inp st s w Hst Ha Hval Hw Hroom Hk.
  assert (Hsz : s_size s = 1 \/ s_size s = 2 \/ s_size s = 4 \/ s_size s = 8) by tauto.
  assert (Hstr : is_strfmt (s_fmt s) = false).
  { destruct Hk as [([-> | [-> | [-> | [-> | ->]]]] & _) | (-> & _)]; reflexivity. }
  assert (Hns : no_struct s).
  { unfold no_struct. destruct Hk as [([-> | [-> | [-> | [-> | ->]]]] & _) | (-> & _)]; reflexivity. }
  rewrite step_int by assumption.
  rewrite emit_done, emit_total.
  rewrite (fetch_word inp s (m_val st) w Hw Hval Hsz).
  set (A := ALIGN (s_size s) 4).
  set (c := takeN A (le_bytes 8 w)).
  assert (Hc : lenN c = A).
  { unfold c, takeN, lenN. rewrite firstn_length, length_le_bytes. unfold A, ALIGN. lia. }
  assert (Hfit : fit A fill (over c (m_ahead st)) = c).
  { unfold fit, over. rewrite <- app_assoc. apply takeN_app_exact. symmetry. exact Hc. }
  rewrite Hfit. exists c. repeat split; try assumption; try (rewrite Hc; reflexivity).
  - destruct Hk as [(Hf & Hs & Hn) | (Hf & Hs)].
    + apply (int_shown syms s w later Hf Hs Hn).
    + apply (char_shown syms s w later Hf Hs).
  - rewrite Hc. destruct Hk as [(Hf & Hs & Hn) | (Hf & Hs)].
    + apply (int_shown syms s w later Hf Hs Hn).
    + apply (char_shown syms s w later Hf Hs).
Qed.

(* ------------------------------------------------------------------ a string argument, from the pointer to the text *)
Lemma bound_eq : forall total, total <= MAX_SIZE -> (MAX_SIZE + U32 - total mod U32) mod U32 = MAX_SIZE - total.
Proof.
  intros total H. unfold MAX_SIZE, ARGBUF_SIZE, U32 in *. rewrite (N.mod_small total) by lia.
  replace (1024 - 4 + 4294967296 - total) with ((1024 - 4 - total) + 1 * 4294967296) by lia.
  rewrite N.mod_add by lia. apply N.mod_small. lia.
Qed.

Lemma takeN_all : forall {A} n (l : list A), lenN l <= n -> takeN n l = l.
Proof. intros. unfold takeN, lenN in *. apply firstn_all2. lia. Qed.

Lemma fetch_ptr : forall inp s val p,
  arg_word inp s = Some p -> lenN val = VAL_SIZE -> s_size s = 8 -> p < 2 ^ 64 ->
  of_le (takeN 8 (get_arg inp s val)) = p.
Proof.
  intros inp s val p Hw Hval Hs Hp.
  pose proof (fetch_word inp s val p Hw Hval ltac:(right; right; right; exact Hs)) as H.
  rewrite Hs in H. change (ALIGN 8 4) with 8 in H. rewrite H.
  rewrite takeN_all by (rewrite lenN_le_bytes; lia).
  rewrite of_le_le_bytes. change (256 ^ N.of_nat 8) with (2 ^ 64). apply N.mod_small. exact Hp.
Qed.

Lemma step_str : forall fill inp st s p c,
  m_stop st = false -> is_arg s -> s_fmt s = FStr -> s_size s = 8 -> lenN (m_val st) = VAL_SIZE ->
  arg_word inp s = Some p -> p < 2 ^ 64 -> p <> 0 -> lookup_str (strs inp) p = Some c ->
  m_total st + 4 <= MAX_SIZE ->
  step fill inp false st s =
  let '(dst, len) := copy_loop (c ++ [0]) 0 (MAX_SIZE - m_total st) [] 0 in
  emit fill st (get_arg inp s (m_val st)) (le_bytes 2 len ++ takeN (MAX_SIZE - m_total st - 2) dst) (ALIGN (len + 2) 4).
Proof.
  intros fill inp st s p c Hst Ha Hf Hs Hval Hw Hp Hp0 Hc Hroom.
  unfold step. rewrite Hst. unfold is_arg in Ha. rewrite Ha, Hf.
  cbn [Bool.eqb negb andb fmt_eqb is_strfmt].
  destruct (MAX_SIZE <? m_total st + 4) eqn:E4; [lia|].
  rewrite (fetch_ptr inp s (m_val st) p Hw Hval Hs Hp).
  destruct (p =? 0) eqn:E0; [lia|].
  assert (Hr : readable inp p = true) by (unfold readable; rewrite Hc; reflexivity).
  rewrite Hr, Hc, bound_eq by lia. reflexivity.
Qed.

Lemma nz_app : forall a b, nz a -> nz b -> nz (a ++ b).
Proof. intros. apply Forall_app. split; assumption. Qed.

Lemma nz_firstn : forall k a, nz a -> nz (firstn k a).
Proof.
  induction k; intros a H; [constructor|].
  destruct a; [constructor|]. inversion H; subst. simpl. constructor; [assumption|]. apply IHk. assumption.
Qed.

Lemma nz_takeN : forall n a, nz a -> nz (takeN n a).
Proof. intros. unfold takeN. apply nz_firstn. assumption. Qed.

Lemma split_at : forall {A} (l : list A) n, n <= lenN l -> l = takeN n l ++ dropN n l /\ lenN (takeN n l) = n.
Proof.
  intros A l n H. unfold takeN, dropN, lenN in *. split.
  - symmetry. apply firstn_skipn.
  - rewrite firstn_length. lia.
Qed.

(* the common part: a NUL-terminated source c (the traced program's string, or the "<0x...>" text of an
   unreadable pointer) is stored and later shown as trunc_str c *)
Lemma string_core : forall syms fill st s val c,
  s_fmt s = FStr -> nz c -> c <> [255; 255; 255; 255] ->
  m_total st + ALIGN (N.min (lenN c) ARG_STR_MAX + 2) 4 <= MAX_SIZE ->
  let st' := (let '(dst, len) := copy_loop (c ++ [0]) 0 (MAX_SIZE - m_total st) [] 0 in
              emit fill st val (le_bytes 2 len ++ takeN (MAX_SIZE - m_total st - 2) dst) (ALIGN (len + 2) 4)) in
  exists chunk,
    m_done st' = m_done st ++ chunk /\
    lenN chunk = ALIGN (N.min (lenN c) ARG_STR_MAX + 2) 4 /\
    m_total st' = m_total st + lenN chunk /\
    forall later,
      (fst (show_one syms s (chunk ++ later)) = quote ++ trunc_str c ++ quote \/
       fst (show_one syms s (chunk ++ later)) = quote ++ flat_map escaped_char (trunc_str c) ++ quote) /\
      snd (show_one syms s (chunk ++ later)) = lenN chunk.
Proof.
  intros syms fill st s val c Hf Hnz Hff Hroom. cbv zeta.
  assert (HA : forall x, x + 2 <= ALIGN (x + 2) 4) by (intro x; pose proof (ALIGN4_ge (x + 2)); lia).
  set (bound := MAX_SIZE - m_total st) in *.
  set (body := trunc_str c).
  assert (Hbody : exists tl,
            copy_loop (c ++ [0]) 0 bound [] 0 = (body ++ tl, N.min (lenN c) ARG_STR_MAX) /\
            lenN body = N.min (lenN c) ARG_STR_MAX /\ nz body /\ body <> [255; 255; 255; 255]).
  { unfold body, trunc_str.
    destruct (lenN c <=? ARG_STR_MAX) eqn:E98.
    - exists [0]. rewrite N.min_l by lia.
      split; [|split; [reflexivity|split; assumption]].
      apply copy_loop_short; [assumption|lia|].
      rewrite N.min_l in Hroom by lia. pose proof (HA (lenN c)). unfold bound. lia.
    - rewrite N.min_r in * by lia.
      destruct (split_at c ARG_STR_MAX ltac:(lia)) as (Hsplit & Hl1).
      set (s1 := takeN ARG_STR_MAX c) in *.
      destruct (dropN ARG_STR_MAX c) as [|ch junk] eqn:Ed.
      { exfalso. rewrite Hsplit, app_nil_r in E98. lia. }
      assert (Hnz1 : nz s1) by (apply nz_takeN; exact Hnz).
      assert (Hch : ch <> 0).
      { unfold nz in Hnz. rewrite Hsplit in Hnz. apply Forall_app in Hnz. destruct Hnz as [_ Hn2].
        inversion Hn2; assumption. }
      exists [0].
      assert (Ht : takeN (ARG_STR_MAX - 3) c = takeN (ARG_STR_MAX - 3) s1).
      { unfold s1. symmetry. apply takeN_takeN. unfold ARG_STR_MAX. lia. }
      rewrite Ht.
      split.
      + rewrite Hsplit at 1. rewrite <- app_assoc. cbn [app].
        rewrite (copy_loop_long s1 ch (junk ++ [0]) bound Hnz1 Hl1 Hch).
        * rewrite <- app_assoc. reflexivity.
        * change (ALIGN (ARG_STR_MAX + 2) 4) with 100 in Hroom. unfold bound, ARG_STR_MAX. lia.
      + split.
        * rewrite lenN_app. unfold takeN, lenN. rewrite firstn_length.
          unfold lenN in Hl1. simpl length. unfold ARG_STR_MAX in *. lia.
        * split.
          { apply nz_app; [apply nz_takeN; exact Hnz1|].
            repeat constructor; lia. }
          { intro Hx. apply (f_equal (@length N)) in Hx. rewrite app_length in Hx.
            unfold takeN in Hx. rewrite firstn_length in Hx. unfold lenN in Hl1.
            simpl length in Hx. unfold ARG_STR_MAX in *. lia. } }
  destruct Hbody as (tl & Hcopy & Hlb & Hnzb & Hffb).
  rewrite Hcopy. cbv beta iota.
  rewrite <- Hlb in *.
  assert (Hfit2 : lenN body + 2 <= bound) by (pose proof (HA (lenN body)); unfold bound; lia).
  assert (Htk : exists tl', takeN (bound - 2) (body ++ tl) = body ++ tl').
  { unfold takeN. rewrite firstn_app. rewrite firstn_all2 by (unfold lenN in *; lia). eexists. reflexivity. }
  destruct Htk as (tl' & ->).
  rewrite emit_done, emit_total.
  set (chunk := fit (ALIGN (lenN body + 2) 4) fill (over (le_bytes 2 (lenN body) ++ body ++ tl') (m_ahead st))).
  exists chunk. split; [reflexivity|].
  assert (Hlc : lenN chunk = ALIGN (lenN body + 2) 4) by apply length_fit.
  split; [exact Hlc|]. split; [rewrite Hlc; reflexivity|].
  intro later.
  assert (Hlt : lenN body < 65536).
  { rewrite Hlb. unfold ARG_STR_MAX. lia. }
  destruct (str_shown syms s fill body tl' (m_ahead st) later Hf Hnzb Hlt Hffb) as (Hshow & Hadv).
  fold chunk in Hshow, Hadv.
  split; [exact Hshow|rewrite Hadv, Hlc; reflexivity].
Qed.

(* C09 strings, end to end for one argument at any position of any call: a readable, NUL-terminated string
   whose encoding has room is shown as itself (up to ARG_STR_MAX characters) or as its first ARG_STR_MAX-3
   characters and "..." (longer ones), quoted, raw or with the escapes of print_escaped_char *)
Theorem str_arg_roundtrip : forall syms fill inp st s p c,
  m_stop st = false -> is_arg s -> s_fmt s = FStr -> s_size s = 8 -> lenN (m_val st) = VAL_SIZE ->
  arg_word inp s = Some p -> p < 2 ^ 64 -> p <> 0 -> lookup_str (strs inp) p = Some c ->
  nz c -> c <> [255; 255; 255; 255] ->
  m_total st + need s (AStr c) <= MAX_SIZE ->
  exists chunk,
    m_done (step fill inp false st s) = m_done st ++ chunk /\
    lenN chunk = need s (AStr c) /\
    m_total (step fill inp false st s) = m_total st + lenN chunk /\
    forall later, In (fst (show_one syms s (chunk ++ later))) (accept s (AStr c)) /\
                  snd (show_one syms s (chunk ++ later)) = lenN chunk.
Proof.
  intros syms fill inp st s p c Hst Ha Hf Hs Hval Hw Hp Hp0 Hc Hnz Hff Hroom.
  unfold need in *.
  assert (H4 : 4 <= ALIGN (N.min (lenN c) ARG_STR_MAX + 2) 4) by (unfold ALIGN; lia).
  rewrite (step_str fill inp st s p c) by (try assumption; lia).
  destruct (string_core syms fill st s (get_arg inp s (m_val st)) c Hf Hnz Hff Hroom)
    as (chunk & Hd & Hl & Ht & Hshow).
  exists chunk. repeat split; try assumption.
  - destruct (Hshow later) as ([H | H] & _); unfold accept; rewrite Hf, !app_nil_r, H; [left|right; left]; reflexivity.
  - apply Hshow.
Qed.

(* ------------------------------------------------------------------ unreadable and NULL string pointers *)
Definition plain (c : N) : Prop := c <> 0 /\ c <> 8 /\ c <> 10 /\ c < 128.

Lemma plain_digit : forall d, d < 16 -> plain (digit d).
Proof. intros d H. unfold plain, digit. destruct (d <? 10) eqn:E; lia. Qed.

Lemma digits_plain : forall fuel n, Forall plain (digits fuel 16 n) /\ (length (digits fuel 16 n) <= fuel)%nat.
Proof.
  induction fuel; intro n; [split; [constructor|simpl; lia]|].
  cbn [digits]. destruct (n <? 16) eqn:E.
  - split; [constructor; [apply plain_digit; lia|constructor]|simpl; lia].
  - destruct (IHfuel (n / 16)) as (H1 & H2). split.
    + apply Forall_app. split; [exact H1|].
      constructor; [apply plain_digit; apply N.mod_lt; lia|constructor].
    + rewrite app_length. simpl. lia.
Qed.

Lemma bad_ptr_text_plain : forall p, Forall plain (bad_ptr_text p) /\ lenN (bad_ptr_text p) <= 20.
Proof.
  intro p. unfold bad_ptr_text, hexp, hex, s_lt, s_gt.
  destruct (digits_plain 16 p) as (H1 & H2).
  remember (digits 16 16 p) as ds. clear Heqds.
  split.
  - apply Forall_app. split; [constructor; [unfold plain; lia|constructor]|].
    apply Forall_app. split; [|constructor; [unfold plain; lia|constructor]].
    apply Forall_app. split; [|exact H1].
    constructor; [unfold plain; lia|]. constructor; [unfold plain; lia|constructor].
  - unfold lenN. rewrite !app_length. simpl length. lia.
Qed.

Lemma plain_nz : forall t, Forall plain t -> nz t.
Proof. intros t H. unfold nz. eapply Forall_impl; [|exact H]. intros a (Ha & _). exact Ha. Qed.

Lemma plain_escape : forall t, Forall plain t -> flat_map escaped_char t = t.
Proof.
  induction 1 as [|c r (H0 & H8 & H10 & _) Hr IH]; [reflexivity|].
  cbn [flat_map]. rewrite IH. unfold escaped_char.
  destruct (c =? 0) eqn:E0; [lia|]. destruct (c =? 8) eqn:E8; [lia|]. destruct (c =? 10) eqn:E10; [lia|].
  reflexivity.
Qed.

(* C09 unreadable pointer: when the region oracle says the pointer of a string argument is not readable,
   the stored bytes depend on the pointer VALUE only (nothing is loaded through it) and replay shows
   "<0x...>" with that value *)
Theorem bad_ptr_arg_roundtrip : forall syms fill inp st s p,
  m_stop st = false -> is_arg s -> s_fmt s = FStr -> s_size s = 8 -> lenN (m_val st) = VAL_SIZE ->
  arg_word inp s = Some p -> p < 2 ^ 64 -> p <> 0 -> readable inp p = false ->
  m_total st + need s (ABad p) <= MAX_SIZE ->
  exists chunk,
    m_done (step fill inp false st s) = m_done st ++ chunk /\
    lenN chunk = need s (ABad p) /\
    m_total (step fill inp false st s) = m_total st + lenN chunk /\
    forall later, In (fst (show_one syms s (chunk ++ later))) (accept s (ABad p)) /\
                  snd (show_one syms s (chunk ++ later)) = lenN chunk.
Proof.
  intros syms fill inp st s p Hst Ha Hf Hs Hval Hw Hp Hp0 Hr Hroom.
  unfold need in Hroom |- *.
  destruct (bad_ptr_text_plain p) as (Hpl & Hlen).
  assert (Hnz : nz (bad_ptr_text p)) by (apply plain_nz; exact Hpl).
  assert (Hff : bad_ptr_text p <> [255; 255; 255; 255]).
  { intro Hx. rewrite Hx in Hpl. inversion Hpl as [|? ? (_ & _ & _ & H) _]. lia. }
  assert (Hmin : N.min (lenN (bad_ptr_text p)) ARG_STR_MAX = lenN (bad_ptr_text p)) by (unfold ARG_STR_MAX; lia).
  assert (H4 : 4 <= ALIGN (lenN (bad_ptr_text p) + 2) 4) by (unfold ALIGN; lia).
  (* the step *)
  assert (Hstep : step fill inp false st s =
    let '(dst, len) := copy_loop (bad_ptr_text p ++ [0]) 0 (MAX_SIZE - m_total st) [] 0 in
    emit fill st (get_arg inp s (m_val st)) (le_bytes 2 len ++ takeN (MAX_SIZE - m_total st - 2) dst) (ALIGN (len + 2) 4)).
  { unfold step. rewrite Hst. unfold is_arg in Ha. rewrite Ha, Hf.
    cbn [Bool.eqb negb andb fmt_eqb is_strfmt].
    destruct (MAX_SIZE <? m_total st + 4) eqn:E4; [lia|].
    rewrite (fetch_ptr inp s (m_val st) p Hw Hval Hs Hp).
    destruct (p =? 0) eqn:E0; [lia|].
    rewrite Hr, bound_eq by lia. reflexivity. }
  rewrite Hstep.
  rewrite <- Hmin in Hroom.
  destruct (string_core syms fill st s (get_arg inp s (m_val st)) (bad_ptr_text p) Hf Hnz Hff Hroom)
    as (chunk & Hd & Hl & Ht & Hshow).
  rewrite Hmin in Hl.
  exists chunk. repeat split; try assumption.
  - unfold accept. rewrite Hf, !app_nil_r. left.
    assert (Htr : trunc_str (bad_ptr_text p) = bad_ptr_text p).
    { unfold trunc_str. destruct (lenN (bad_ptr_text p) <=? ARG_STR_MAX) eqn:E; [reflexivity|unfold ARG_STR_MAX in *; lia]. }
    destruct (Hshow later) as ([H | H] & _); rewrite H, Htr; [reflexivity|].
    rewrite plain_escape by exact Hpl. reflexivity.
  - apply Hshow.
Qed.

(* C09 NULL: a NULL string pointer is stored as the 4 characters NULL and shown as "NULL" *)
Theorem null_arg_roundtrip : forall syms fill inp st s,
  m_stop st = false -> is_arg s -> s_fmt s = FStr -> s_size s = 8 -> lenN (m_val st) = VAL_SIZE ->
  arg_word inp s = Some 0 ->
  m_total st + need s ANull <= MAX_SIZE ->
  exists chunk,
    m_done (step fill inp false st s) = m_done st ++ chunk /\
    lenN chunk = need s ANull /\
    m_total (step fill inp false st s) = m_total st + lenN chunk /\
    forall later, In (fst (show_one syms s (chunk ++ later))) (accept s ANull) /\
                  snd (show_one syms s (chunk ++ later)) = lenN chunk.
Proof.
  intros syms fill inp st s Hst Ha Hf Hs Hval Hw Hroom.
  unfold need in Hroom |- *.
  assert (Hstep : step fill inp false st s =
                  emit fill st (get_arg inp s (m_val st)) ([4; 0] ++ null_str) (ALIGN (4 + 2) 4)).
  { unfold step. rewrite Hst. unfold is_arg in Ha. rewrite Ha, Hf.
    cbn [Bool.eqb negb andb fmt_eqb is_strfmt].
    destruct (MAX_SIZE <? m_total st + 4) eqn:E4; [lia|].
    rewrite (fetch_ptr inp s (m_val st) 0 Hw Hval Hs ltac:(lia)).
    change (0 =? 0) with true. cbv iota.
    destruct (MAX_SIZE <? m_total st + ALIGN (4 + 2) 4) eqn:E8; [change (ALIGN (4 + 2) 4) with 8 in E8; lia|].
    reflexivity. }
  rewrite Hstep, emit_done, emit_total.
  change (ALIGN (4 + 2) 4) with 8.
  set (chunk := fit 8 fill (over ([4; 0] ++ null_str) (m_ahead st))).
  assert (Hc : exists a b, chunk = [4; 0; 78; 85; 76; 76; a; b]).
  { unfold chunk, fit, over, takeN, repN, null_str.
    destruct (m_ahead st) as [|x0 [|x1 [|x2 [|x3 [|x4 [|x5 [|x6 [|x7 r]]]]]]]]; cbn; do 2 eexists; reflexivity. }
  destruct Hc as (a & b & Hc).
  assert (Hlc : lenN chunk = 8) by apply length_fit.
  exists chunk. split; [reflexivity|]. split; [exact Hlc|]. split; [rewrite Hlc; reflexivity|].
  intro later. rewrite Hc. unfold show_one, accept. rewrite Hf. cbn. split; [left; reflexivity|reflexivity].
Qed.

(* ------------------------------------------------------------------ a whole call *)
(* the arguments the per-argument theorems cover *)
Inductive covered (inp : inputs) : spec -> aval -> Prop :=
| cov_int : forall s w, arg_word inp s = Some w ->
    (int_fmt (s_fmt s) /\ (s_size s = 1 \/ s_size s = 2 \/ s_size s = 4 \/ s_size s = 8) /\ ~ neg32_class s w) \/
    (s_fmt s = FChar /\ (s_size s = 1 \/ s_size s = 2 \/ s_size s = 4 \/ s_size s = 8)) ->
    covered inp s (AInt w)
| cov_str : forall s p c, s_fmt s = FStr -> s_size s = 8 -> arg_word inp s = Some p -> p < 2 ^ 64 -> p <> 0 ->
    lookup_str (strs inp) p = Some c -> nz c -> c <> [255; 255; 255; 255] -> covered inp s (AStr c)
| cov_bad : forall s p, s_fmt s = FStr -> s_size s = 8 -> arg_word inp s = Some p -> p < 2 ^ 64 -> p <> 0 ->
    readable inp p = false -> covered inp s (ABad p)
| cov_null : forall s, s_fmt s = FStr -> s_size s = 8 -> arg_word inp s = Some 0 -> covered inp s ANull.

Lemma covered_shape : forall inp s a, covered inp s a -> no_struct s /\ s_size s <= 12.
Proof.
  intros inp s a H. unfold no_struct. destruct H as [s w _ Hk | s p c Hf Hs | s p Hf Hs | s Hf Hs].
  - destruct Hk as [([-> | [-> | [-> | [-> | ->]]]] & Hs & _) | (-> & Hs)]; split; try reflexivity; lia.
  - rewrite Hf, Hs. split; [reflexivity|lia].
  - rewrite Hf, Hs. split; [reflexivity|lia].
  - rewrite Hf, Hs. split; [reflexivity|lia].
Qed.

Lemma step_keeps : forall fill inp st s,
  is_arg s -> m_stop st = false -> lenN (m_val st) = VAL_SIZE -> no_struct s -> s_size s <= 12 ->
  m_total (step fill inp false st s) <= MAX_SIZE ->
  m_stop (step fill inp false st s) = false /\ lenN (m_val (step fill inp false st s)) = VAL_SIZE.
Proof.
  intros fill inp st s Ha Hst Hval Hns Hsz. unfold step. rewrite Hst. unfold is_arg in Ha. rewrite Ha.
  unfold no_struct in Hns. rewrite Hns. cbn [Bool.eqb negb andb].
  pose proof (get_arg_len inp s (m_val st) Hval Hsz) as Hg.
  destruct (is_strfmt (s_fmt s)).
  - destruct (MAX_SIZE <? m_total st + 4) eqn:E4; [cbn [refuse m_total]; lia|].
    match goal with |- context [if ?p =? 0 then _ else _] => destruct (p =? 0) end.
    + destruct (MAX_SIZE <? m_total st + ALIGN (4 + 2) 4) eqn:E8; [cbn [refuse m_total]; lia|].
      intros _. split; [reflexivity|exact Hg].
    + match goal with |- context [copy_loop ?a ?b ?c ?d ?e] => destruct (copy_loop a b c d e) as [dst len] end.
      intros _. split; [reflexivity|exact Hg].
  - destruct (MAX_SIZE <? m_total st + ALIGN (s_size s) 4) eqn:E8; [cbn [refuse m_total]; lia|].
    intros _. split; [reflexivity|exact Hg].
Qed.

(* the per-argument theorems in one statement *)
Lemma arg_roundtrip : forall syms fill inp st s a,
  covered inp s a -> is_arg s -> m_stop st = false -> lenN (m_val st) = VAL_SIZE ->
  m_total st + need s a <= MAX_SIZE ->
  exists chunk,
    m_done (step fill inp false st s) = m_done st ++ chunk /\
    lenN chunk = need s a /\
    m_total (step fill inp false st s) = m_total st + lenN chunk /\
    forall later, In (fst (show_one syms s (chunk ++ later))) (accept s a) /\
                  snd (show_one syms s (chunk ++ later)) = lenN chunk.
Proof.
  intros syms fill inp st s a Hc Ha Hst Hval Hroom.
  destruct Hc as [s w Hw Hk | s p c Hf Hs Hw Hp Hp0 Has Hnz Hff | s p Hf Hs Hw Hp Hp0 Hr | s Hf Hs Hw].
  - apply int_arg_roundtrip; assumption.
  - eapply str_arg_roundtrip; eassumption.
  - eapply bad_ptr_arg_roundtrip; eassumption.
  - eapply null_arg_roundtrip; eassumption.
Qed.

Lemma anyb_In : forall {A} (f : A -> bool) l x, In x l -> f x = true -> anyb f l = true.
Proof.
  induction l as [|a r IH]; intros x Hin Hf; [destruct Hin|].
  cbn [anyb]. destruct (f a) eqn:E; [reflexivity|].
  destruct Hin as [-> | Hin]; [congruence|]. eapply IH; eassumption.
Qed.

Lemma prefixb_app : forall p l, prefixb p (p ++ l) = true.
Proof. induction p; intro l; [reflexivity|]. cbn. rewrite N.eqb_refl, IHp. reflexivity. Qed.

Definition need_sum (l : list (spec * aval)) : N := fold_right (fun p acc => need (fst p) (snd p) + acc) 0 l.

Lemma fits_need_sum : forall l, fits l = (need_sum l <=? MAX_SIZE).
Proof.
  intro l. unfold fits. f_equal.
  assert (G : forall acc, fold_left (fun acc p => acc + need (fst p) (snd p)) l acc = acc + need_sum l).
  { induction l as [|p r IH]; intro acc; cbn [fold_left need_sum fold_right]; [lia|]. rewrite IH. unfold need_sum. lia. }
  rewrite G. lia.
Qed.

Lemma call_roundtrip_gen : forall syms fill inp l st first later,
  Forall (fun p => is_arg (fst p) /\ covered inp (fst p) (snd p)) l ->
  m_stop st = false -> lenN (m_val st) = VAL_SIZE ->
  m_total st + need_sum l <= MAX_SIZE ->
  let st' := fold_left (step fill inp false) (map fst l) st in
  exists tail,
    m_done st' = m_done st ++ tail /\
    m_total st' = m_total st + lenN tail /\
    lenN tail = need_sum l /\
    match_vals l (show_loop syms false (map fst l) (tail ++ later) first) first = true.
Proof.
  induction l as [|[s a] r IH]; intros st first later Hall Hst Hval Hroom; cbv zeta.
  - exists []. cbn. rewrite app_nil_r. repeat split; lia.
  - inversion Hall as [|? ? (Ha & Hc) Hr]; subst.
    cbn [map fold_left need_sum fold_right] in *. cbn [fst snd] in *. fold (need_sum r) in *.
    destruct (arg_roundtrip syms fill inp st s a Hc Ha Hst Hval ltac:(lia)) as (chunk & Hd & Hl & Ht & Hshow).
    destruct (covered_shape inp s a Hc) as (Hns & Hsz).
    destruct (step_keeps fill inp st s Ha Hst Hval Hns Hsz ltac:(lia)) as (Hst' & Hval').
    destruct (IH (step fill inp false st s) false later Hr Hst' Hval' ltac:(lia)) as (tail & Hd2 & Ht2 & Hl2 & Hm).
    exists (chunk ++ tail).
    split; [rewrite Hd2, Hd, app_assoc; reflexivity|].
    split; [rewrite Ht2, Ht, lenN_app; lia|].
    split; [rewrite lenN_app; lia|].
    cbn [show_loop]. unfold is_arg in Ha. rewrite Ha. cbn [Bool.eqb negb].
    rewrite <- app_assoc.
    destruct (Hshow (tail ++ later)) as (Hin & Hadv).
    destruct (show_one syms s (chunk ++ tail ++ later)) as [txt adv] eqn:Eso. cbn [fst snd] in *. subst adv.
    rewrite dropN_app_exact by reflexivity.
    cbn [match_vals].
    set (rest := show_loop syms false (map fst r) (tail ++ later) false) in *.
    assert (Hcore : anyb (fun c => if prefixb c (txt ++ rest) then match_vals r (skipn (length c) (txt ++ rest)) false else false)
                         (accept s a) = true).
    { apply anyb_In with (x := txt); [exact Hin|].
      rewrite prefixb_app. rewrite skipn_app, skipn_all, Nat.sub_diag. cbn [skipn app]. exact Hm. }
    destruct first.
    + cbn [app]. exact Hcore.
    + assert (Hp : prefixb comma (comma ++ txt ++ rest) = true) by apply prefixb_app.
      rewrite Hp. cbn [comma app skipn]. exact Hcore.
Qed.

Lemma strip_paren_wrap : forall t, strip_paren ([40] ++ t ++ [41]) = Some t.
Proof. intro t. cbn [app strip_paren]. rewrite rev_app_distr. cbn [rev app]. rewrite rev_involutive. reflexivity. Qed.

(* C09 roundtrip: for every call whose arguments are integers / characters of any size and format, readable
   strings of any length and content, unreadable or NULL string pointers - in registers or on the stack, by
   index, %reg or %stack, in any number and order - if the values fit the buffer then the text `uftrace replay`
   prints for the bytes libmcount recorded is accepted by the property checker against the values passed. *)
Theorem call_roundtrip : forall syms fill inp l,
  l <> [] ->
  Forall (fun p => is_arg (fst p) /\ covered inp (fst p) (snd p)) l ->
  fits l = true ->
  ok_args l (show_args syms (map fst l) (payload (run fill inp false (map fst l)))) = true.
Proof.
  intros syms fill inp l Hne Hall Hfits.
  rewrite fits_need_sum in Hfits.
  destruct (call_roundtrip_gen syms fill inp l mst0 true [] Hall eq_refl eq_refl ltac:(cbn [m_total mst0]; lia))
    as (tail & Hd & Ht & Hl & Hm).
  cbn [m_done m_total mst0 app] in Hd, Ht. rewrite N.add_0_l in Ht.
  unfold run, payload, result. rewrite Ht.
  destruct (MAX_SIZE <? lenN tail) eqn:E; [lia|].
  rewrite Hd. rewrite <- (app_nil_r tail) at 2. rewrite takeN_app_exact by reflexivity.
  unfold show_args, ok_args.
  destruct l as [|x l']; [congruence|].
  destruct (has_float (x :: l')); [reflexivity|].
  rewrite fits_need_sum. assert (need_sum (x :: l') <=? MAX_SIZE = true) as -> by lia.
  rewrite strip_paren_wrap. rewrite app_nil_r in Hm. rewrite Hm. reflexivity.
Qed.

(* non-vacuity of call_roundtrip's hypotheses: f(-5, "hi", <unreadable>, NULL) *)
Definition ex_inp : inputs :=
  {| regs := [0x12345678fffffffb; 4096; 8192; 0; 0; 0]; xmm := []; stk := []; rets := [];
     strs := [(4096, [104; 105])]; wrds := [] |}.
Definition ex_call : list (spec * aval) :=
  [(Sp 1 FSint 4 TIndex 0, AInt 0x12345678fffffffb); (Sp 2 FStr 8 TIndex 0, AStr [104; 105]);
   (Sp 3 FStr 8 TIndex 0, ABad 8192); (Sp 4 FStr 8 TIndex 0, ANull)].
Lemma ex_call_covered :
  ex_call <> [] /\ Forall (fun p => is_arg (fst p) /\ covered ex_inp (fst p) (snd p)) ex_call /\ fits ex_call = true.
Proof.
  split; [discriminate|]. split; [|reflexivity].
  unfold ex_call.
  constructor; [split; [reflexivity|]|constructor; [split; [reflexivity|]|constructor; [split; [reflexivity|]|
    constructor; [split; [reflexivity|]|constructor]]]]; cbn [fst snd].
  - apply cov_int; [reflexivity|]. left. split; [right; left; reflexivity|]. split; [tauto|].
    intros (H & _). discriminate H.
  - eapply cov_str with (p := 4096); try reflexivity; try lia.
    + constructor; [lia|]. constructor; [lia|constructor].
    + discriminate.
  - apply cov_bad; try reflexivity; lia.
  - apply cov_null; reflexivity.
Qed.
Lemma ex_call_shown :
  show_args [] (map fst ex_call) (payload (run 0 ex_inp false (map fst ex_call))) =
  [40; 45; 53; 44; 32; 34; 104; 105; 34; 44; 32; 34; 60; 48; 120; 50; 48; 48; 48; 62; 34; 44; 32; 34; 78; 85; 76; 76; 34; 41].
  (* (-5, "hi", "<0x2000>", "NULL") *)
Proof. vm_compute. reflexivity. Qed.

(* ------------------------------------------------------------------ several specs on one direction (several -R options) *)
(* the only step that is not modelled: an x87 long double return value *)
Definition not_x87_ret (s : spec) : Prop := ~ (s_idx s = 0 /\ s_fmt s = FFloat /\ s_size s = 10).

Lemma get_retval_some : forall inp s val, not_x87_ret s -> s_idx s = 0 -> exists v, get_retval inp s val = Some v.
Proof.
  intros inp s val H H0. unfold get_retval. destruct (s_fmt s) eqn:Ef; try (eexists; reflexivity).
  destruct (s_size s =? 10) eqn:E; [|eexists; reflexivity].
  exfalso. apply H. repeat split; try assumption. lia.
Qed.

Lemma step_modelled : forall fill inp is_ret st s,
  not_x87_ret s -> m_unmodelled st = false -> m_unmodelled (step fill inp is_ret st s) = false.
Proof.
  intros fill inp is_ret st s Hx H. unfold step.
  destruct (m_stop st); [exact H|].
  destruct (Bool.eqb is_ret (s_idx s =? 0)) eqn:Er; cbn [negb]; [|exact H].
  destruct (fmt_eqb (s_fmt s) FStruct && (MAX_SIZE <? m_total st + s_size s)); [exact H|].
  assert (Hf : exists sw val,
    (if is_ret then match get_retval inp s (m_val st) with Some v => Some ([], v) | None => None end
     else if fmt_eqb (s_fmt s) FStruct then Some (get_struct_arg inp s (m_val st))
     else Some ([], get_arg inp s (m_val st))) = Some (sw, val)).
  { destruct is_ret.
    - destruct (s_idx s =? 0) eqn:E0; [|discriminate].
      destruct (get_retval_some inp s (m_val st) Hx ltac:(lia)) as (v & ->). eauto.
    - destruct (fmt_eqb (s_fmt s) FStruct); [destruct (get_struct_arg inp s (m_val st))|]; eauto. }
  destruct Hf as (sw & val & ->).
  destruct (is_strfmt (s_fmt s)).
  - destruct (MAX_SIZE <? m_total st + 4); [exact H|].
    match goal with |- context [if ?p =? 0 then _ else _] => destruct (p =? 0) end.
    + destruct (MAX_SIZE <? m_total st + ALIGN (4 + 2) 4); exact H.
    + match goal with |- context [copy_loop ?a ?b ?c ?d ?e] => destruct (copy_loop a b c d e) end. exact H.
  - destruct (fmt_eqb (s_fmt s) FStruct); [exact H|].
    destruct (MAX_SIZE <? m_total st + ALIGN (s_size s) 4); exact H.
Qed.

Lemma run_modelled : forall fill inp is_ret specs,
  Forall not_x87_ret specs -> m_unmodelled (run fill inp is_ret specs) = false.
Proof.
  intros fill inp is_ret specs H. unfold run.
  assert (H0 : m_unmodelled mst0 = false) by reflexivity.
  revert H0. generalize mst0.
  induction H as [|s r Hs Hr IH]; intros st H0; simpl; [exact H0|].
  apply IH. apply step_modelled; assumption.
Qed.

(* C09 framing, closed form: ANY spec list - any number of argument specs and any number of return value specs
   of any class side by side (as several -A / -R options matching one function produce: add_arg_spec merges only
   specs of the same class) - except an x87 long double return value *)
Theorem framing_all : forall fill inp is_ret specs bg p rest,
  Forall wf_spec specs -> Forall not_x87_ret specs ->
  payload (run fill inp is_ret specs) = Some p ->
  read_args is_ret specs (fit (ALIGN (lenN p) 8) bg p ++ rest) = Some (p, rest).
Proof.
  intros. apply framing with (fill := fill) (inp := inp); try assumption. apply run_modelled. assumption.
Qed.

Theorem stream_resync_all : forall k specs_of bg fill inp t ty depth addr pl rest,
  t < 2 ^ 64 -> ty < 4 -> depth < 1024 -> addr < 2 ^ 48 ->
  Forall wf_spec (specs_of addr) -> Forall not_x87_ret (specs_of addr) ->
  (pl = None \/ pl = payload (run fill inp (ty =? UFTRACE_EXIT) (specs_of addr))) ->
  decode_stream (S k) specs_of (enc_rec bg t ty depth addr pl ++ rest) =
  {| d_time := t; d_type := ty; d_depth := depth; d_addr := addr; d_args := pl |} :: decode_stream k specs_of rest.
Proof.
  intros. eapply stream_resync; try eassumption. apply run_modelled. assumption.
Qed.

(* two return value specs of different class on one function: `-R f@retval/f -R '^f$@retval'` *)
Definition two_rets : list spec := [Sp 0 FFloat 8 TFloat 0; Sp 0 FAuto 8 TIndex 0].
Definition two_rets_inp : inputs :=
  {| regs := []; xmm := [0x4004000000000000]; stk := []; rets := [42; 0]; strs := []; wrds := [] |}.
Definition next_rec : list N := enc_rec 0 2000 UFTRACE_ENTRY 1 0x401000 None.

(* the writer records both values (16 bytes), the reader consumes both, replay shows the first *)
Lemma two_rets_recorded :
  payload (run 0 two_rets_inp true two_rets) = Some (le_bytes 8 0x4004000000000000 ++ le_bytes 8 42) /\
  read_args true two_rets (le_bytes 8 0x4004000000000000 ++ le_bytes 8 42 ++ next_rec) =
    Some (le_bytes 8 0x4004000000000000 ++ le_bytes 8 42, next_rec) /\
  decode_stream 2 (fun _ => two_rets)
    (enc_rec 0 1000 UFTRACE_EXIT 1 0x401000 (payload (run 0 two_rets_inp true two_rets)) ++ next_rec) =
  [ {| d_time := 1000; d_type := UFTRACE_EXIT; d_depth := 1; d_addr := 0x401000;
       d_args := Some (le_bytes 8 0x4004000000000000 ++ le_bytes 8 42) |};
    {| d_time := 2000; d_type := UFTRACE_ENTRY; d_depth := 1; d_addr := 0x401000; d_args := None |} ].
Proof. vm_compute. repeat split; reflexivity. Qed.

(* a reader that stops after the first return value spec (as the formatter may) leaves the second value in the
   stream: the record behind the payload is then read 8 bytes early and is lost *)
Fixpoint read_args_loop_first (specs : list spec) (acc stream : list N) : option (list N * list N) :=
  match specs with
  | [] => Some (acc, stream)
  | s :: r => if s_idx s =? 0 then read_arg s acc stream else read_args_loop_first r acc stream
  end.
Lemma first_retval_reader_refuted :
  let p := le_bytes 8 0x4004000000000000 ++ le_bytes 8 42 in
  read_args_loop_first two_rets [] (p ++ next_rec) = Some (le_bytes 8 0x4004000000000000, le_bytes 8 42 ++ next_rec) /\
  (* what the next header read would take for the record word does not carry the record magic *)
  (of_le (takeN 8 (dropN 8 (le_bytes 8 42 ++ next_rec))) / 8) mod 8 <> RECORD_MAGIC.
Proof. vm_compute. split; [reflexivity|discriminate]. Qed.

(* ------------------------------------------------------------------ the script readers: a second decoder of the same bytes *)
(* script-python.c / script-luajit.c step over every argument exactly like get_argspec_string (after the fixes for the
   octal and the char format): per spec ... *)
Theorem script_same_step : forall syms s data, snd (script_one s data) = snd (show_one syms s data).
Proof.
  intros syms s data. unfold script_one, show_one.
  destruct (s_fmt s); try reflexivity.
  all: repeat match goal with |- context [if ?b then _ else _] => destruct b end; reflexivity.
Qed.

(* ... and therefore over the whole payload: both decoders look at the same suffix of the data for every spec *)
Fixpoint positions (adv : spec -> list N -> N) (is_ret : bool) (specs : list spec) (data : list N) : list (list N) :=
  match specs with
  | [] => []
  | s :: r =>
      if negb (Bool.eqb is_ret (s_idx s =? 0)) then positions adv is_ret r data
      else data :: positions adv is_ret r (dropN (adv s data) data)
  end.

Theorem script_same_positions : forall syms is_ret specs data,
  positions (fun s d => snd (script_one s d)) is_ret specs data =
  positions (fun s d => snd (show_one syms s d)) is_ret specs data.
Proof.
  intros syms is_ret specs. induction specs as [|s r IH]; intro data; [reflexivity|].
  cbn [positions]. destruct (negb (Bool.eqb is_ret (s_idx s =? 0))); [apply IH|].
  rewrite script_same_step with (syms := syms). f_equal. apply IH.
Qed.

Lemma script_loop_positions : forall is_ret specs data,
  length (script_loop is_ret specs data) = length (positions (fun s d => snd (script_one s d)) is_ret specs data).
Proof.
  intros is_ret specs. induction specs as [|s r IH]; intro data; [reflexivity|].
  cbn [script_loop positions]. destruct (negb (Bool.eqb is_ret (s_idx s =? 0))); [apply IH|].
  destruct (script_one s data) as [v adv] eqn:E. cbn [length snd]. f_equal. apply IH.
Qed.

Lemma signed_mod : forall bits raw, 0 < bits -> raw < 2 ^ bits ->
  (signed bits raw mod Z.of_N (2 ^ bits) = Z.of_N raw)%Z.
Proof.
  intros bits raw Hb Hr. unfold signed.
  assert (Hp : 0 < 2 ^ bits) by (apply N.neq_0_lt_0; apply N.pow_nonzero; lia).
  destruct (raw <? 2 ^ (bits - 1)) eqn:E.
  - apply Z.mod_small. lia.
  - replace (Z.of_N raw - Z.of_N (2 ^ bits))%Z with (Z.of_N raw + (-1) * Z.of_N (2 ^ bits))%Z by lia.
    rewrite Z.mod_add by lia. apply Z.mod_small. lia.
Qed.

Definition script_int_fmt (f : fmt) : Prop :=
  f = FAuto \/ f = FSint \/ f = FUint \/ f = FHex \/ f = FOct \/ f = FPtr \/ f = FEnum.

(* C09 scripts, integers: from the bytes stored for an integer-class spec a Python script receives an int congruent to
   the word that was passed modulo 2^(8*size) (sizes 1, 2, 4 sign-extended, 8 unsigned) *)
Theorem script_int_py : forall s w later,
  script_int_fmt (s_fmt s) -> s_size s = 1 \/ s_size s = 2 \/ s_size s = 4 \/ s_size s = 8 ->
  ok_sitem Py s (AInt w) (conv Py (fst (script_one s (takeN (ALIGN (s_size s) 4) (le_bytes 8 w) ++ later)))) = true.
Proof.
  intros s w later Hf Hs.
  destruct s as [idx f size ty u rs nm]. cbn [s_fmt s_size] in *.
  assert (Hone : fst (script_one {| s_idx := idx; s_fmt := f; s_size := size; s_type := ty; s_u := u; s_regs := rs; s_name := nm |}
                         (takeN (ALIGN size 4) (le_bytes 8 w) ++ later)) = VInt size (w mod 2 ^ (8 * size))).
  { unfold script_one. cbn [s_fmt s_size]. rewrite (read_back_int size w later Hs).
    assert (Hsz : (size =? 1) || (size =? 2) || (size =? 4) || (size =? 8) = true)
      by (destruct Hs as [-> | [-> | [-> | ->]]]; reflexivity).
    destruct Hf as [-> | [-> | [-> | [-> | [-> | [-> | ->]]]]]]; cbn [fst]; rewrite Hsz; reflexivity. }
  rewrite Hone. cbn [conv].
  set (v := w mod 2 ^ (8 * size)).
  assert (Hv : v < 2 ^ (8 * size)) by (apply N.mod_lt; apply N.pow_nonzero; lia).
  assert (Hok : forall z, (z mod Z.of_N (2 ^ (8 * size)) = Z.of_N v)%Z ->
                ok_sitem Py {| s_idx := idx; s_fmt := f; s_size := size; s_type := ty; s_u := u; s_regs := rs; s_name := nm |}
                         (AInt w) (OInt z) = true).
  { intros z Hz. unfold ok_sitem. cbn [s_fmt s_size]. fold v.
    destruct Hf as [-> | [-> | [-> | [-> | [-> | [-> | ->]]]]]]; rewrite Hz; apply Z.eqb_refl. }
  apply Hok.
  destruct (size =? 8) eqn:E8.
  - apply Z.mod_small. lia.
  - apply signed_mod; [lia|exact Hv].
Qed.

(* C09 scripts, strings: from the bytes of a stored string both readers hand over exactly these bytes (Lua), or these
   bytes if they are valid UTF-8 and "<invalid value>" otherwise (Python) *)
Theorem script_str : forall l s fill body tl ahead later,
  s_fmt s = FStr -> nz body -> lenN body < 65536 -> body <> [255; 255; 255; 255] ->
  conv l (fst (script_one s (fit (ALIGN (lenN body + 2) 4) fill (over (le_bytes 2 (lenN body) ++ body ++ tl) ahead) ++ later)))
  = match l with Py => if utf8_valid body then OStr body else OInvalid | Lua => OStr body end.
Proof.
  intros l s fill body tl ahead later Hf Hnz Hlen Hff.
  destruct (string_chunk fill body tl ahead) as (rest & ->).
  unfold script_one. rewrite Hf. rewrite <- !app_assoc.
  assert (H2 : takeN 2 (le_bytes 2 (lenN body) ++ body ++ rest ++ later) = le_bytes 2 (lenN body))
    by (apply takeN_app_exact; reflexivity).
  rewrite H2, of_le_le_bytes. change (256 ^ N.of_nat 2) with 65536. rewrite N.mod_small by exact Hlen.
  assert (H3 : dropN 2 (le_bytes 2 (lenN body) ++ body ++ rest ++ later) = body ++ rest ++ later)
    by (apply dropN_app_exact; reflexivity).
  rewrite H3. rewrite takeN_app_exact by reflexivity.
  assert (Hne : ((lenN body =? 4) && list_eqb body [255; 255; 255; 255]) = false).
  { destruct (lenN body =? 4) eqn:E4; [|reflexivity]. cbn [andb].
    destruct body as [|a [|b [|c [|d [|e r]]]]];
      try (exfalso; unfold lenN in E4; simpl length in E4; lia).
    cbn [list_eqb].
    destruct (a =? 255) eqn:Ea; [|reflexivity].
    destruct (b =? 255) eqn:Eb; [|reflexivity].
    destruct (c =? 255) eqn:Ec; [|reflexivity].
    destruct (d =? 255) eqn:Ed; [|reflexivity].
    exfalso. apply Hff. f_equal; [lia|]. f_equal; [lia|]. f_equal; [lia|]. f_equal; lia. }
  rewrite Hne. cbn [fst conv]. rewrite cstr_nz by exact Hnz. reflexivity.
Qed.

(* ------------------------------------------------------------------ the text inside replay's 1 KiB buffer *)
Lemma flat_map_concat : forall {A B} (f : A -> list B) l, flat_map f l = concat (map f l).
Proof. induction l; simpl; [reflexivity|]. rewrite IHl. reflexivity. Qed.

(* the pieces are the text of show_one, cut where print_args / print_char are called *)
Lemma show_pieces_concat : forall syms s data,
  concat (fst (show_pieces syms s data)) = fst (show_one syms s data) /\
  snd (show_pieces syms s data) = snd (show_one syms s data).
Proof.
  intros syms s data. unfold show_pieces, show_one.
  destruct (s_fmt s) eqn:Ef; cbn [fst snd concat app]; rewrite ?app_nil_r; try (split; reflexivity).
  - (* FStr *)
    split; [|reflexivity].
    destruct ((of_le (takeN 2 data) =? 4) && list_eqb (takeN (of_le (takeN 2 data)) (dropN 2 data)) [255; 255; 255; 255]).
    + cbn. rewrite ?app_nil_r. reflexivity.
    + unfold show_str.
      destruct (after_high (cstr (takeN (of_le (takeN 2 data)) (dropN 2 data)))).
      * rewrite flat_map_concat. cbn [app concat]. rewrite concat_app. cbn [concat]. rewrite app_nil_r. reflexivity.
      * cbn. rewrite ?app_nil_r. reflexivity.
  - (* FStdStr *)
    split; [|reflexivity].
    destruct ((of_le (takeN 2 data) =? 4) && list_eqb (takeN (of_le (takeN 2 data)) (dropN 2 data)) [255; 255; 255; 255]).
    + cbn. reflexivity.
    + unfold show_str.
      destruct (after_high (cstr (takeN (of_le (takeN 2 data)) (dropN 2 data)))).
      * rewrite flat_map_concat. cbn [app concat]. rewrite !concat_app. cbn [concat]. rewrite ?app_nil_r. rewrite <- ?app_assoc. reflexivity.
      * cbn. rewrite ?app_nil_r. rewrite <- ?app_assoc. reflexivity.
Qed.

(* put never lets the text outgrow what the buffer can hold *)
Definition text_inv (cap : N) (st : N * list N) : Prop := fst st + lenN (snd st) <= cap.

Lemma put_inv : forall cap st p, text_inv cap st -> text_inv cap (put st p).
Proof.
  intros cap [room out] p H. unfold text_inv, put in *. cbn [fst snd] in *.
  destruct (lenN p <=? room) eqn:E; cbn [fst snd]; [rewrite lenN_app; lia|lia].
Qed.

Lemma fold_put_inv : forall cap ps st, text_inv cap st -> text_inv cap (fold_left put ps st).
Proof. induction ps; intros st H; simpl; [exact H|]. apply IHps. apply put_inv. exact H. Qed.

Lemma show_loop_b_inv : forall cap syms is_ret specs data first st,
  text_inv cap st -> text_inv cap (show_loop_b syms is_ret specs data first st).
Proof.
  intros cap syms is_ret specs. induction specs as [|s r IH]; intros data first st H; [exact H|].
  cbn [show_loop_b]. destruct (negb (Bool.eqb is_ret (s_idx s =? 0))); [apply IH; exact H|].
  destruct (show_pieces syms s data) as [ps adv].
  set (st1 := if first then st else put st comma).
  assert (H1 : text_inv cap st1) by (unfold st1; destruct first; [exact H|apply put_inv; exact H]).
  pose proof (fold_put_inv cap ps st1 H1) as H2.
  destruct ((fst (fold_left put ps st1) <=? 1) || is_ret); [exact H2|]. apply IH. exact H2.
Qed.

(* C09 text buffer: whatever the arguments, the text get_argspec_string builds stays inside char args[1024]
   (1023 characters and the NUL) - the guarantee of the fix: commits 618ee80 / 0cdad2d *)
Theorem text_within_buffer : forall syms specs data,
  lenN (show_args_b syms specs data) <= TEXT_SIZE - 1 /\ lenN (show_ret_b syms specs data) <= TEXT_SIZE - 1.
Proof.
  intros syms specs data. unfold show_args_b, show_ret_b. destruct data as [d|]; [|split; vm_compute; discriminate].
  assert (H0 : forall p, text_inv (TEXT_SIZE - 1) (put (TEXT_SIZE - 1, []) p)).
  { intro p. apply put_inv. unfold text_inv. simpl. lia. }
  split.
  - pose proof (put_inv _ _ [41] (show_loop_b_inv _ syms false specs d true _ (H0 [40]))) as H.
    unfold text_inv in H. lia.
  - pose proof (show_loop_b_inv _ syms true specs d true _ (H0 [32; 61; 32])) as H.
    unfold text_inv in H. rewrite lenN_app.
    destruct (1 <=? fst (show_loop_b syms true specs d true (put (TEXT_SIZE - 1, []) [32; 61; 32]))) eqn:E;
      [change (lenN [59]) with 1|change (lenN []) with 0]; lia.
Qed.

(* when everything fits, put just appends *)
Lemma put_fits : forall room out p, lenN p <= room -> put (room, out) p = (room - lenN p, out ++ p).
Proof. intros. unfold put. destruct (lenN p <=? room) eqn:E; [reflexivity|lia]. Qed.

Lemma lenN_concat_cons : forall (a : list N) l, lenN (concat (a :: l)) = lenN a + lenN (concat l).
Proof. intros. cbn [concat]. apply lenN_app. Qed.

Lemma fold_put_fits : forall ps room out,
  lenN (concat ps) <= room -> fold_left put ps (room, out) = (room - lenN (concat ps), out ++ concat ps).
Proof.
  induction ps as [|p r IH]; intros room out H.
  - simpl. rewrite app_nil_r. f_equal. unfold lenN. simpl. lia.
  - rewrite lenN_concat_cons in H. cbn [fold_left]. rewrite put_fits by lia.
    rewrite IH by lia. rewrite lenN_concat_cons. cbn [concat]. rewrite <- app_assoc. f_equal. lia.
Qed.

Lemma show_loop_b_norel : forall syms is_ret specs data first st,
  show_loop syms is_ret specs data first = [] -> first = false ->
  show_loop_b syms is_ret specs data first st = st.
Proof.
  intros syms is_ret specs. induction specs as [|s r IH]; intros data first st H Hf; [reflexivity|].
  cbn [show_loop show_loop_b] in *. destruct (negb (Bool.eqb is_ret (s_idx s =? 0))); [apply IH; assumption|].
  subst first. destruct (show_one syms s data) as [txt adv]. cbn [comma app] in H. discriminate H.
Qed.

(* the bounded loop equals the unbounded one while the remaining text (and one more character) fits *)
Lemma show_loop_b_fits : forall syms is_ret specs data first room out,
  lenN (show_loop syms is_ret specs data first) + 1 <= room ->
  show_loop_b syms is_ret specs data first (room, out) =
  (room - lenN (show_loop syms is_ret specs data first), out ++ show_loop syms is_ret specs data first).
Proof.
  intros syms is_ret specs. induction specs as [|s r IH]; intros data first room out H.
  - cbn. rewrite app_nil_r. f_equal. unfold lenN. simpl. lia.
  - cbn [show_loop show_loop_b] in *.
    destruct (negb (Bool.eqb is_ret (s_idx s =? 0))); [apply IH; exact H|].
    destruct (show_pieces_concat syms s data) as (Hc & Ha).
    destruct (show_pieces syms s data) as [ps adv'] eqn:Ep. destruct (show_one syms s data) as [txt adv] eqn:Eo.
    cbn [fst snd] in Hc, Ha. subst adv'.
    set (sep := if first then [] else comma) in *.
    rewrite !lenN_app in H.
    assert (Hs2 : lenN sep = if first then 0 else 2) by (unfold sep; destruct first; reflexivity).
    assert (Hst1 : (if first then (room, out) else put (room, out) comma) = (room - lenN sep, out ++ sep)).
    { rewrite Hs2. unfold sep. destruct first; cbv iota in *.
      - rewrite app_nil_r. f_equal. lia.
      - apply put_fits. change (lenN comma) with 2. lia. }
    rewrite Hst1. rewrite fold_put_fits by (rewrite Hc; lia). rewrite Hc. cbn [fst].
    destruct is_ret.
    + rewrite orb_true_r. rewrite app_nil_r. rewrite <- app_assoc. f_equal.
      rewrite !lenN_app. change (lenN []) with 0. lia.
    + rewrite orb_false_r.
      set (rest := show_loop syms false r (dropN adv data) false) in *.
      destruct (room - lenN sep - lenN txt <=? 1) eqn:E1.
      * (* nothing more may follow *)
        assert (Hr : rest = []) by (destruct rest; [reflexivity|unfold lenN in *; simpl length in *; lia]).
        rewrite Hr, app_nil_r. rewrite <- app_assoc. f_equal. rewrite !lenN_app. change (lenN []) with 0. lia.
      * rewrite IH by (fold rest; lia). fold rest. rewrite <- !app_assoc. f_equal. rewrite !lenN_app. lia.
Qed.

(* C09 text buffer, fits: when the whole text fits the 1023 characters, replay prints exactly the unbounded text -
   so the round-trip theorem (stated for show_args) holds for what replay really prints *)
Theorem show_args_b_fits : forall syms specs data,
  lenN (show_args syms specs data) <= TEXT_SIZE - 1 -> show_args_b syms specs data = show_args syms specs data.
Proof.
  intros syms specs data H. unfold show_args_b, show_args in *. destruct data as [d|]; [|reflexivity].
  rewrite !lenN_app in H. change (lenN [40]) with 1 in H. change (lenN [41]) with 1 in H.
  rewrite put_fits by (change (lenN [40]) with 1; unfold TEXT_SIZE; lia).
  change (lenN [40]) with 1. cbn [app].
  rewrite show_loop_b_fits by (unfold TEXT_SIZE in *; lia).
  rewrite put_fits by (change (lenN [41]) with 1; unfold TEXT_SIZE in *; lia).
  cbn [snd]. rewrite <- app_assoc. reflexivity.
Qed.

Corollary call_roundtrip_bounded : forall syms fill inp l,
  l <> [] ->
  Forall (fun p => is_arg (fst p) /\ covered inp (fst p) (snd p)) l ->
  fits l = true ->
  lenN (show_args syms (map fst l) (payload (run fill inp false (map fst l)))) <= TEXT_SIZE - 1 ->
  ok_args l (show_args_b syms (map fst l) (payload (run fill inp false (map fst l)))) = true.
Proof.
  intros syms fill inp l Hne Hall Hfits Hlen. rewrite show_args_b_fits by exact Hlen.
  apply call_roundtrip; assumption.
Qed.

(* the hypothesis of show_args_b_fits is needed: 10 strings of 97 newline characters (1980 characters with their
   escapes) do not fit: replay stops inside the sixth string, at a whole "\\n" escape *)
Definition long_specs : list spec := map (fun i => Sp (N.of_nat i) FStr 8 TStack (N.of_nat i)) (seq 1 10).
Definition long_inp : inputs :=
  {| regs := []; xmm := []; stk := repeat 4096 10; rets := []; strs := [(4096, repeat 10 97)]; wrds := [] |}.
Lemma long_text_cut :
  let p := payload (run 0 long_inp false long_specs) in
  lenN (show_args [] long_specs p) = 1980 /\
  lenN (show_args_b [] long_specs p) = 1022 /\
  ok_args (map (fun s => (s, AStr (repeat 10 97))) long_specs) (show_args_b [] long_specs p) = true.
Proof. vm_compute. repeat split; reflexivity. Qed.

(* a struct { double a, b; } passed in xmm0/xmm1 is recorded whole (after fix df3e32a) *)
Lemma struct_sse_whole :
  let sp := {| s_idx := 1; s_fmt := FStruct; s_size := 16; s_type := TReg; s_u := 102%Z; s_regs := [101%Z; 102%Z]; s_name := [] |} in
  let inp := {| regs := []; xmm := [0x3ff8000000000001; 0x4002000000000002]; stk := []; rets := []; strs := []; wrds := [] |} in
  payload (run 0 inp false [sp]) = Some (le_bytes 8 0x3ff8000000000001 ++ le_bytes 8 0x4002000000000002).
Proof. vm_compute. reflexivity. Qed.

(* ------------------------------------------------------------------ only vetted pointers are dereferenced *)
Lemma step_derefs_readable : forall inp is_ret st s,
  Forall (fun a => readable inp a = true) (step_derefs inp is_ret st s).
Proof.
  intros inp is_ret st s. unfold step_derefs.
  destruct (m_stop st); [constructor|].
  destruct (negb (Bool.eqb is_ret (s_idx s =? 0))); [constructor|].
  destruct (fmt_eqb (s_fmt s) FStruct && (MAX_SIZE <? m_total st + s_size s)); [constructor|].
  match goal with |- context [match ?f with Some _ => _ | None => _ end] => destruct f as [val|] end; [|constructor].
  destruct (is_strfmt (s_fmt s)); [|constructor].
  destruct (MAX_SIZE <? m_total st + 4); [constructor|].
  apply Forall_app. split.
  - destruct (s_fmt s); try constructor.
    destruct (assoc (of_le (takeN 8 val)) (wrds inp)) eqn:E; [|constructor].
    constructor; [|constructor]. unfold readable. rewrite E.
    destruct (lookup_str (strs inp) (of_le (takeN 8 val))); reflexivity.
  - match goal with |- context [if ?p =? 0 then _ else _] => destruct (p =? 0); [constructor|];
      destruct (readable inp p) eqn:E; [constructor; [exact E|constructor]|constructor] end.
Qed.

(* C09 vetting: whatever the specs and the register / stack contents, every pointer save_to_argbuf dereferences
   lies inside a readable range [start, end) - the end address itself (one past the last byte) is not inside *)
Theorem derefs_readable : forall fill inp is_ret specs,
  Forall (fun a => readable inp a = true) (run_derefs fill inp is_ret specs).
Proof.
  intros fill inp is_ret specs. unfold run_derefs. generalize mst0.
  induction specs as [|s r IH]; intro st; cbn [derefs_from]; [constructor|].
  apply Forall_app. split; [apply step_derefs_readable|apply IH].
Qed.

(* the ranges are half-open: first byte and last byte (the NUL) are readable, one past the end is not *)
Lemma lookup_half_open : forall a c,
  lookup_str [(a, c)] a = Some c /\
  lookup_str [(a, c)] (a + lenN c) = Some [] /\
  lookup_str [(a, c)] (a + lenN c + 1) = None /\
  (0 < a -> lookup_str [(a, c)] (a - 1) = None).
Proof.
  intros a c. cbn [lookup_str]. repeat split.
  - assert ((a <=? a) && (a <? a + lenN c + 1) = true) as -> by lia.
    replace (a - a) with 0 by lia. reflexivity.
  - assert ((a <=? a + lenN c) && (a + lenN c <? a + lenN c + 1) = true) as -> by lia.
    replace (a + lenN c - a) with (lenN c) by lia. unfold dropN, lenN. rewrite Nat2N.id, skipn_all. reflexivity.
  - assert ((a <=? a + lenN c + 1) && (a + lenN c + 1 <? a + lenN c + 1) = false) as -> by lia. reflexivity.
  - intro H. assert ((a <=? a - 1) && (a - 1 <? a + lenN c + 1) = false) as -> by lia. reflexivity.
Qed.

(* a string pointer that equals the END of a readable range is not dereferenced: it is shown as an address *)
Lemma end_of_range_not_dereferenced :
  let inp := {| regs := [4096 + 4; 0; 0; 0; 0; 0]; xmm := []; stk := []; rets := []; strs := [(4096, [69; 69; 69])]; wrds := [] |} in
  run_derefs 0 inp false [spec_str 1] = [] /\
  show_args_b [] [spec_str 1] (payload (run 0 inp false [spec_str 1])) = [40; 34] ++ bad_ptr_text 4100 ++ [34; 41] /\
  (* one byte earlier it is the NUL of the string: dereferenced, shown as "" *)
  let inp' := {| regs := [4096 + 3; 0; 0; 0; 0; 0]; xmm := []; stk := []; rets := []; strs := [(4096, [69; 69; 69])]; wrds := [] |} in
  run_derefs 0 inp' false [spec_str 1] = [4099] /\
  show_args_b [] [spec_str 1] (payload (run 0 inp' false [spec_str 1])) = [40; 34; 34; 41].
Proof. vm_compute. repeat split; reflexivity. Qed.

(* ------------------------------------------------------------------ writer's spec list = readers' spec list *)
(* for every combination of explicit and automatic options the readers rebuild exactly the list libmcount used *)
Theorem reader_entry_eq_writer : forall o, reader_entry o = writer_entry o.
Proof. reflexivity. Qed.

(* an explicit spec of one direction hides the automatic specs of that direction as a whole *)
Lemma explicit_hides_auto : forall o,
  o_ea o <> [] -> o_er o <> [] ->
  e_specs (writer_entry o) = fold_left add_arg_spec (o_er o) (fold_left add_arg_spec (o_ea o) []).
Proof.
  intros [ea er aa ar] Ha Hr. unfold writer_entry. cbn [o_ea o_er o_aa o_ar] in *.
  destruct ea as [|a ea']; [congruence|]. destruct er as [|r er']; [congruence|].
  cbn [opt_apply entry0 e_args e_ret e_specs andb orb negb].
  destruct aa; destruct ar; reflexivity.
Qed.

(* `uftrace record -a -A 'strtol@arg3/i32'`: auto-args knows strtol@arg1/s,arg2/p,arg3/d32.  Writer (and reader): the
   explicit arg3/i32 only.  A reader that applies the automatic specs first merges the explicit one into them and
   expects three values where one was written: it reads 20 bytes behind a 4-byte payload. *)
Definition strtol_opts : fopts :=
  {| o_ea := [Sp 3 FSint 4 TIndex 0]; o_er := [];
     o_aa := [Sp 1 FStr 8 TIndex 0; Sp 2 FPtr 8 TIndex 0; Sp 3 FAuto 4 TIndex 0]; o_ar := [Sp 0 FAuto 8 TIndex 0] |}.
Lemma auto_first_reader_refuted :
  e_specs (writer_entry strtol_opts) = [Sp 3 FSint 4 TIndex 0; Sp 0 FAuto 8 TIndex 0] /\
  e_specs (reader_entry strtol_opts) = e_specs (writer_entry strtol_opts) /\
  e_specs (reader_entry_auto_first strtol_opts) =
    [Sp 1 FStr 8 TIndex 0; Sp 2 FPtr 8 TIndex 0; Sp 3 FSint 4 TIndex 0; Sp 0 FAuto 8 TIndex 0] /\
  (* the payload libmcount writes for strtol("12", 0, 10) is the 4 bytes of arg3; that reader cannot frame it *)
  let inp := {| regs := [4096; 0; 10; 0; 0; 0]; xmm := []; stk := []; rets := []; strs := [(4096, [49; 50])]; wrds := [] |} in
  payload (run 0 inp false (e_specs (writer_entry strtol_opts))) = Some [10; 0; 0; 0] /\
  read_args false (e_specs (writer_entry strtol_opts)) ([10; 0; 0; 0; 0; 0; 0; 0] ++ next_rec) = Some ([10; 0; 0; 0], next_rec) /\
  read_args false (e_specs (reader_entry_auto_first strtol_opts)) ([10; 0; 0; 0; 0; 0; 0; 0] ++ next_rec) <>
    Some ([10; 0; 0; 0], next_rec).
Proof. vm_compute. repeat split; try reflexivity. discriminate. Qed.

(* ------------------------------------------------------------------ a call that is closed without a return value *)
(* exception unwinding, pthread_exit and --estimate-return close a frame through mcount_exit_filter_record(.., NULL):
   there are no return registers to read.  record_trace_data then drops MCOUNT_FL_RETVAL before it writes the EXIT
   record.  In the model: the `more` bit of the EXIT record is set iff a return value was captured - the function
   has a return value spec, the exit hook was handed the return registers, and save_retval produced a payload *)
Theorem exit_more_iff_captured : forall bg fill inp specs has_ret captured t depth addr,
  depth < 1024 -> addr < 2 ^ 48 ->
  let w := of_le (takeN 8 (dropN 8 (exit_rec bg fill inp specs has_ret captured t depth addr))) in
  (w / 4) mod 2 = 1 <-> (has_ret = true /\ captured = true /\ payload (run fill inp true specs) <> None).
Proof.
  intros bg fill inp specs has_ret captured t depth addr Hd Ha. cbv zeta.
  unfold exit_rec, enc_rec.
  rewrite (dropN_app_exact (le_bytes 8 t)) by reflexivity.
  rewrite (takeN_app_exact (le_bytes 8 _)) by reflexivity.
  rewrite of_le_le_bytes. change (256 ^ N.of_nat 8) with (2 ^ 64).
  set (more := match exit_payload has_ret captured (run fill inp true specs) with Some _ => 1 | None => 0 end).
  assert (Hm : more < 2) by (unfold more; destruct (exit_payload _ _ _); lia).
  assert (Hty : UFTRACE_EXIT < 4) by (unfold UFTRACE_EXIT; lia).
  destruct (rec_word_fields UFTRACE_EXIT more depth addr Hty Hm Hd Ha) as (Hw & _ & F2 & _).
  rewrite (N.mod_small _ _ Hw), F2.
  unfold more, exit_payload.
  destruct has_ret, captured; cbn [andb];
    try (split; [intro H; discriminate H | intros (H1 & H2 & _); discriminate]).
  destruct (payload (run fill inp true specs)).
  - split; [intros _; repeat split; discriminate | reflexivity].
  - split; [intro H; discriminate H | intros (_ & _ & H); congruence].
Qed.

(* ... and the reader, which goes by that bit alone, takes nothing from the stream for such a record: the call is
   shown without a return value and the next record is found where it starts (whatever specs the function has) *)
Theorem abandoned_exit_decodes : forall k specs_of bg fill inp has_ret t depth addr rest,
  t < 2 ^ 64 -> depth < 1024 -> addr < 2 ^ 48 ->
  decode_stream (S k) specs_of (exit_rec bg fill inp (specs_of addr) has_ret false t depth addr ++ rest) =
  {| d_time := t; d_type := UFTRACE_EXIT; d_depth := depth; d_addr := addr; d_args := None |}
    :: decode_stream k specs_of rest.
Proof.
  intros k specs_of bg fill inp has_ret t depth addr rest Ht Hd Ha.
  unfold exit_rec, exit_payload. rewrite andb_false_r. unfold enc_rec. rewrite <- !app_assoc.
  rewrite decode_header by (try assumption; unfold UFTRACE_EXIT; lia). reflexivity.
Qed.

(* `check(3, 100)` throws (-A check@arg1/i64,arg2/i64 -R check@retval/i64).  Its argument buffer still holds the
   two arguments when the unwinder closes the frame.  A writer that keeps MCOUNT_FL_RETVAL there sends that stale
   buffer with the `more` bit set: the reader takes 8 bytes of it for the return value - the call is shown as
   `check(3, 100) = 3` - and looks for the next record 8 bytes early, where there is no record *)
Definition chk_specs : list spec := [Sp 1 FSint 8 TIndex 0; Sp 2 FSint 8 TIndex 0; Sp 0 FSint 8 TIndex 0].
Definition chk_inp : inputs :=
  {| regs := [3; 100; 0; 0; 0; 0]; xmm := []; stk := []; rets := [0; 0]; strs := []; wrds := [] |}.
Lemma stale_retval_refuted :
  let stale := payload (run 0 chk_inp false chk_specs) in
  stale = Some (le_bytes 8 3 ++ le_bytes 8 100) /\
  decode_stream 2 (fun _ => chk_specs) (exit_rec 0 0 chk_inp chk_specs true false 1000 1 0x401000 ++ next_rec) =
    [ {| d_time := 1000; d_type := UFTRACE_EXIT; d_depth := 1; d_addr := 0x401000; d_args := None |};
      {| d_time := 2000; d_type := UFTRACE_ENTRY; d_depth := 1; d_addr := 0x401000; d_args := None |} ] /\
  decode_stream 2 (fun _ => chk_specs) (enc_rec 0 1000 UFTRACE_EXIT 1 0x401000 stale ++ next_rec) =
    [ {| d_time := 1000; d_type := UFTRACE_EXIT; d_depth := 1; d_addr := 0x401000; d_args := Some (le_bytes 8 3) |} ] /\
  show_ret [] chk_specs (Some (le_bytes 8 3)) = [32; 61; 32; 51; 59].
Proof. vm_compute. repeat split; reflexivity. Qed.

(* ------------------------------------------------------------------ -T specs and -A / -R specs on one function *)
(* The writer applies the -T actions (each may mix argument and return value specs), then -A, then -R; the readers
   apply the argument specs of the -T actions, -A, then the return value specs of the -T actions, -R.  The payload of
   one direction is laid out by the specs of that direction in list order: that sub-list is the same on both sides,
   for every way of splitting the specs of a function between -T and -A / -R. *)
Definition xl := list (spec * bool).
Definition add_opt (l : xl) (o : bool * list spec) : xl := fold_left (fun l' a => add_arg_spec_x l' a (fst o)) (snd o) l.
Definition fold_opts (o : opts) (l : xl) : xl := fold_left add_opt o l.
Lemma merge_opts_fold : forall o, merge_opts o = map fst (fold_opts o []).
Proof. reflexivity. Qed.
Definition filterd (d : bool) (l : xl) : xl := filter (fun p => dirb d (fst p)) l.
Definition pool (o : opts) : list spec := flat_map snd o.
(* no argument spec and return value spec of the function name the same register / stack slot (add_arg_spec looks
   for an earlier spec of the same class and register / offset whatever its direction) *)
Definition separated (P : list spec) : Prop :=
  forall a b, In a P -> In b P -> same_key a b = true -> is_ret a = is_ret b.
Definition inv (P : list spec) (l : xl) : Prop :=
  forall o ex, In (o, ex) l ->
  exists p, In p P /\ is_ret p = is_ret o /\ (forall z, same_key z o = same_key z p).
Definition repl (o a : spec) : spec :=
  {| s_idx := s_idx o; s_fmt := s_fmt a; s_size := s_size a; s_type := s_type a; s_u := s_u a;
     s_regs := s_regs a; s_name := s_name a |}.

Lemma same_key_repl : forall a o z, same_key a o = true -> same_key z (repl o a) = same_key z o.
Proof.
  intros a o z K. unfold same_key, repl in *. cbn.
  destruct (s_type a), (s_type o), (s_type z); try discriminate; try reflexivity;
    apply Z.eqb_eq in K; rewrite K; reflexivity.
Qed.

Lemma add_x_unfold : forall o oex r a ex,
  add_arg_spec_x ((o, oex) :: r) a ex =
  if same_key a o then (if ex || negb oex then (repl o a, ex) else (o, oex)) :: r
  else (o, oex) :: add_arg_spec_x r a ex.
Proof. reflexivity. Qed.

Lemma add_x_inv : forall P a ex l, In a P -> inv P l -> inv P (add_arg_spec_x l a ex).
Proof.
  intros P a ex l Ha. induction l as [|[o oex] r IH]; intro Hinv.
  - intros o' ex' [E|[]]. inversion E; subst. exists o'. repeat split; auto.
  - assert (Hr : inv P r) by (intros o' ex' Hin; apply (Hinv o' ex'); right; exact Hin).
    rewrite add_x_unfold. destruct (same_key a o) eqn:K.
    + intros o' ex' [E|Hin]; [|apply (Hinv o' ex'); right; exact Hin].
      destruct (Hinv o oex (or_introl eq_refl)) as (p & Hp & Hd & Hk).
      destruct (ex || negb oex); inversion E; subst.
      * exists p. repeat split; auto. intro z. rewrite (same_key_repl a o z K). apply Hk.
      * exists p. repeat split; auto.
    + intros o' ex' [E|Hin].
      * apply (Hinv o' ex'). left. exact E.
      * apply (IH Hr o' ex' Hin).
Qed.

Lemma add_x_filter : forall P d a ex l, separated P -> In a P -> inv P l ->
  filterd d (add_arg_spec_x l a ex) = if dirb d a then add_arg_spec_x (filterd d l) a ex else filterd d l.
Proof.
  intros P d a ex l Hsep Ha. induction l as [|[o oex] r IH]; intro Hinv.
  - cbn. destruct (dirb d a); reflexivity.
  - assert (Hr : inv P r) by (intros o' ex' Hin; apply (Hinv o' ex'); right; exact Hin).
    specialize (IH Hr). rewrite add_x_unfold. destruct (same_key a o) eqn:K.
    + destruct (Hinv o oex (or_introl eq_refl)) as (p & Hp & Hd & Hk).
      assert (Hdir : is_ret a = is_ret o).
      { rewrite <- Hd. apply Hsep; try assumption. rewrite <- Hk. exact K. }
      assert (Hda : dirb d a = dirb d o) by (unfold dirb; rewrite Hdir; reflexivity).
      set (hd := if ex || negb oex then (repl o a, ex) else (o, oex)).
      assert (Hhd : dirb d (fst hd) = dirb d o) by (unfold hd; destruct (ex || negb oex); reflexivity).
      unfold filterd. cbn [filter]. fold (filterd d r). rewrite Hhd. cbn [fst]. rewrite Hda.
      destruct (dirb d o); [|reflexivity].
      rewrite add_x_unfold, K. reflexivity.
    + unfold filterd. cbn [filter fst]. fold (filterd d r). fold (filterd d (add_arg_spec_x r a ex)). rewrite IH.
      destruct (dirb d o), (dirb d a); try reflexivity.
      rewrite add_x_unfold, K. reflexivity.
Qed.

Lemma add_opt_filter : forall P d ex specs l, separated P -> incl specs P -> inv P l ->
  filterd d (add_opt l (ex, specs)) = add_opt (filterd d l) (ex, filter (dirb d) specs) /\ inv P (add_opt l (ex, specs)).
Proof.
  intros P d ex specs. unfold add_opt. cbn [fst snd].
  induction specs as [|a r IH]; intros l Hsep Hin Hinv.
  - split; [reflexivity|exact Hinv].
  - assert (Ha : In a P) by (apply Hin; left; reflexivity).
    assert (Hr : incl r P) by (intros z Hz; apply Hin; right; exact Hz).
    cbn [fold_left filter].
    destruct (IH (add_arg_spec_x l a ex) Hsep Hr (add_x_inv P a ex l Ha Hinv)) as (E & I).
    split; [|exact I]. rewrite E, (add_x_filter P d a ex l Hsep Ha Hinv).
    destruct (dirb d a); reflexivity.
Qed.

Lemma fold_opts_filter : forall P d o l, separated P -> incl (pool o) P -> inv P l ->
  filterd d (fold_opts o l) = fold_opts (restrict d o) (filterd d l).
Proof.
  intros P d o. unfold fold_opts. induction o as [|[ex specs] r IH]; intros l Hsep Hin Hinv.
  - reflexivity.
  - assert (Hs : incl specs P) by (intros z Hz; apply Hin; unfold pool; cbn; apply in_or_app; left; exact Hz).
    assert (Hr : incl (pool r) P) by (intros z Hz; apply Hin; unfold pool; cbn; apply in_or_app; right; exact Hz).
    destruct (add_opt_filter P d ex specs l Hsep Hs Hinv) as (E & I).
    cbn [fold_left restrict map fst snd]. rewrite (IH _ Hsep Hr I), E. reflexivity.
Qed.

Lemma filter_map_fst : forall d (l : xl), filter (dirb d) (map fst l) = map fst (filterd d l).
Proof.
  intros d l. induction l as [|[o ex] r IH]; [reflexivity|].
  unfold filterd. cbn [map filter fst]. fold (filterd d r). destruct (dirb d o); cbn [map fst]; rewrite IH; reflexivity.
Qed.

Lemma dir_specs_fold : forall d o, separated (pool o) ->
  dir_specs d o = map fst (fold_opts (restrict d o) []).
Proof.
  intros d o Hsep. unfold dir_specs. rewrite merge_opts_fold, filter_map_fst.
  rewrite (fold_opts_filter (pool o) d o [] Hsep (incl_refl _)); [reflexivity|].
  intros z ex [].
Qed.

Definition all_empty (o : opts) : Prop := Forall (fun x => snd x = []) o.
Lemma fold_opts_empty : forall o l, all_empty o -> fold_opts o l = l.
Proof.
  intros o l H. revert l. induction H as [|[ex specs] r E _ IH]; intro l; [reflexivity|].
  cbn in E. subst specs. unfold fold_opts. cbn [fold_left]. unfold add_opt at 2. cbn. apply IH.
Qed.
Lemma fold_opts_app : forall a b l, fold_opts (a ++ b) l = fold_opts b (fold_opts a l).
Proof. intros. apply fold_left_app. Qed.
Lemma restrict_app : forall d a b, restrict d (a ++ b) = restrict d a ++ restrict d b.
Proof. intros. apply map_app. Qed.
Lemma filter_idem : forall {A} (f : A -> bool) l, filter f (filter f l) = filter f l.
Proof.
  intros A f l. induction l as [|x r IH]; [reflexivity|]. cbn. destruct (f x) eqn:E; cbn; [rewrite E, IH|]; auto.
Qed.
Lemma restrict_idem : forall d o, restrict d (restrict d o) = restrict d o.
Proof.
  intros d o. unfold restrict. rewrite map_map. apply map_ext. intros [ex specs]. cbn. rewrite filter_idem. reflexivity.
Qed.
Lemma filter_none : forall {A} (f : A -> bool) l, Forall (fun x => f x = false) l -> filter f l = [].
Proof. intros A f l H. induction H as [|x r E _ IH]; [reflexivity|]. cbn. rewrite E. exact IH. Qed.
Lemma restrict_other_empty : forall d o,
  Forall (fun x => Forall (fun s => is_ret s = negb d) (snd x)) o -> all_empty (restrict d o).
Proof.
  intros d o H. unfold all_empty, restrict. rewrite Forall_map.
  eapply Forall_impl; [|exact H]. intros [ex specs] Hs. cbn in *. apply filter_none.
  eapply Forall_impl; [|exact Hs]. intros s E. unfold dirb. rewrite E. destruct d; reflexivity.
Qed.
Lemma restrict_opposite_empty : forall d o, all_empty (restrict d (restrict (negb d) o)).
Proof.
  intros d o. apply restrict_other_empty. unfold restrict. rewrite Forall_map.
  apply Forall_forall. intros [ex specs] _. cbn. apply Forall_forall. intros s Hs.
  apply filter_In in Hs. destruct Hs as (_ & Hs). unfold dirb in Hs. apply Bool.eqb_prop in Hs. exact Hs.
Qed.

Lemma pool_app : forall a b, pool (a ++ b) = pool a ++ pool b.
Proof. intros. apply flat_map_app. Qed.
Lemma pool_restrict_incl : forall d o, incl (pool (restrict d o)) (pool o).
Proof.
  intros d o z Hz. unfold pool, restrict in *. apply in_flat_map in Hz. destruct Hz as (x & Hx & Hz).
  apply in_map_iff in Hx. destruct Hx as ([ex specs] & E & Hin). subst x. cbn in Hz.
  apply filter_In in Hz. apply in_flat_map. exists (ex, specs). split; [exact Hin|apply Hz].
Qed.

Theorem trigger_split_order : forall x d,
  separated (pool (writer_opts x)) ->
  Forall (fun o => Forall (fun s => is_ret s = false) (snd o)) (x_a x) ->
  Forall (fun o => Forall (fun s => is_ret s = true) (snd o)) (x_r x) ->
  dir_specs d (reader_opts x) = dir_specs d (writer_opts x).
Proof.
  intros x d Hsep Ha Hr.
  assert (Hsep' : separated (pool (reader_opts x))).
  { intros a b Hina Hinb. apply Hsep.
    - unfold reader_opts, writer_opts in *. rewrite !pool_app in *.
      repeat (apply in_app_or in Hina; destruct Hina as [Hina|Hina]);
        try (apply pool_restrict_incl in Hina); repeat (apply in_or_app; (left; assumption) || right); try assumption.
    - unfold reader_opts, writer_opts in *. rewrite !pool_app in *.
      repeat (apply in_app_or in Hinb; destruct Hinb as [Hinb|Hinb]);
        try (apply pool_restrict_incl in Hinb); repeat (apply in_or_app; (left; assumption) || right); try assumption. }
  rewrite (dir_specs_fold d _ Hsep), (dir_specs_fold d _ Hsep'). f_equal.
  unfold reader_opts, writer_opts. rewrite !restrict_app, !fold_opts_app.
  destruct d.
  - rewrite (fold_opts_empty (restrict true (restrict false (x_t x)))) by apply (restrict_opposite_empty true).
    rewrite !(fold_opts_empty (restrict true (x_a x))) by (apply restrict_other_empty; exact Ha).
    rewrite restrict_idem. reflexivity.
  - rewrite (fold_opts_empty (restrict false (restrict true (x_t x)))) by apply (restrict_opposite_empty false).
    rewrite !(fold_opts_empty (restrict false (x_r x))) by (apply restrict_other_empty; exact Hr).
    rewrite restrict_idem. reflexivity.
Qed.

(* `-T 'lookup@arg1/i32' -A 'lookup@arg2/s,arg3/i64'`, lookup(7, "seven", -3).  Writer and readers: arg1, arg2, arg3.
   Readers whose info lines carry the options first (seed C09-8) lay the payload out as arg2, arg3, arg1: they
   cannot frame it. *)
Definition lookup_x : xopts :=
  {| x_t := [(true, [Sp 1 FSint 4 TIndex 0])]; x_a := [(true, [Sp 2 FStr 8 TIndex 0; Sp 3 FSint 8 TIndex 0])]; x_r := [] |}.
Definition lookup_inp : inputs :=
  {| regs := [7; 4096; 0xfffffffffffffffd; 0; 0; 0]; xmm := []; stk := []; rets := [0; 0];
     strs := [(4096, [115; 101; 118; 101; 110])]; wrds := [] |}.
Definition lookup_payload : list N :=
  [7; 0; 0; 0; 5; 0; 115; 101; 118; 101; 110; 0; 253; 255; 255; 255; 255; 255; 255; 255].
Lemma options_first_reader_refuted :
  let w := merge_opts (writer_opts lookup_x) in
  w = [Sp 1 FSint 4 TIndex 0; Sp 2 FStr 8 TIndex 0; Sp 3 FSint 8 TIndex 0] /\
  merge_opts (reader_opts lookup_x) = w /\
  merge_opts (reader_opts_options_first lookup_x) = [Sp 2 FStr 8 TIndex 0; Sp 3 FSint 8 TIndex 0; Sp 1 FSint 4 TIndex 0] /\
  payload (run 0 lookup_inp false w) = Some lookup_payload /\
  read_args false w (fit 24 0 lookup_payload ++ next_rec) = Some (lookup_payload, next_rec) /\
  show_args [] w (Some lookup_payload) = [40; 55; 44; 32; 34; 115; 101; 118; 101; 110; 34; 44; 32; 45; 51; 41] /\
  read_args false (merge_opts (reader_opts_options_first lookup_x)) (fit 24 0 lookup_payload ++ next_rec) <>
    Some (lookup_payload, next_rec).
Proof. vm_compute. repeat split; try reflexivity. discriminate. Qed.

(* `-T 'name@retval/s'`, name() returns "seven".  extract_trigger_args as found wrote `name@retval` into the info
   file: the readers took the 8 payload bytes (length, characters) for a number *)
Definition name_x : xopts := {| x_t := [(true, [Sp 0 FStr 8 TIndex 0])]; x_a := []; x_r := [] |}.
Definition name_inp (s : list N) : inputs :=
  {| regs := []; xmm := []; stk := []; rets := [4096; 0]; strs := [(4096, s)]; wrds := [] |}.
Definition seven_payload : list N := [5; 0; 115; 101; 118; 101; 110; 0].
Definition a20_payload : list N := [20; 0] ++ repeat 65 20 ++ [0; 0].
Lemma trigger_retval_format_legacy_refuted :
  let w := merge_opts (writer_opts name_x) in
  w = [Sp 0 FStr 8 TIndex 0] /\ merge_opts (reader_opts name_x) = w /\
  merge_opts (reader_opts_legacy name_x) = [Sp 0 FAuto 8 TIndex 0] /\
  payload (run 0 (name_inp [115; 101; 118; 101; 110]) true w) = Some seven_payload /\
  show_ret [] w (Some seven_payload) = [32; 61; 32; 34; 115; 101; 118; 101; 110; 34; 59] /\
  (* " = 0x6e657665730005;" *)
  show_ret [] (merge_opts (reader_opts_legacy name_x)) (Some seven_payload) =
    [32; 61; 32; 48; 120; 54; 101; 54; 53; 55; 54; 54; 53; 55; 51; 48; 48; 48; 53; 59] /\
  (* a longer string: the record behind the payload is lost *)
  payload (run 0 (name_inp (repeat 65 20)) true w) = Some a20_payload /\
  read_args true w (a20_payload ++ next_rec) = Some (a20_payload, next_rec) /\
  read_args true (merge_opts (reader_opts_legacy name_x)) (a20_payload ++ next_rec) <> Some (a20_payload, next_rec).
Proof. vm_compute. repeat split; try reflexivity. discriminate. Qed.

(* ------------------------------------------------------------------ format e:<enum> *)
Lemma find_exact_val : forall t v e, find_exact t v = Some e -> In e t /\ snd e = v.
Proof.
  intros t v e H. unfold find_exact in H. apply find_some in H. destruct H as (Hin & E).
  apply Z.eqb_eq in E. split; assumption.
Qed.

Definition zsum (es : list (list N * Z)) : Z := fold_right Z.add 0%Z (map snd es).
Lemma zsum_app : forall a b, zsum (a ++ b) = (zsum a + zsum b)%Z.
Proof. intros a b. unfold zsum. induction a as [|x r IH]; cbn; [reflexivity|]. rewrite map_app in *. cbn in *. lia. Qed.

Lemma wrap_long_ex : forall z, exists k, wrap_long z = (z + k * 18446744073709551616)%Z.
Proof.
  intro z. unfold wrap_long. change (2 ^ 64)%Z with 18446744073709551616%Z. change (2 ^ 63)%Z with 9223372036854775808%Z.
  cbv zeta. pose proof (Z.div_mod z 18446744073709551616 ltac:(lia)) as D.
  destruct (z mod 18446744073709551616 <? 9223372036854775808)%Z.
  - exists (- (z / 18446744073709551616))%Z. lia.
  - exists (- (z / 18446744073709551616) - 1)%Z. lia.
Qed.

Lemma or_loop_sum : forall t v acc es r,
  or_loop t v acc = (es, r) ->
  (exists k, zsum es + r = zsum acc + v + k * 18446744073709551616)%Z /\ (forall e, In e es -> In e acc \/ In e t).
Proof.
  induction t as [|e t IH]; intros v acc es r H.
  - cbn in H. inversion H; subst. split; [exists 0%Z; lia|]. intros x Hx. left. exact Hx.
  - cbn [or_loop] in H.
    destruct (snd e <=? v)%Z eqn:Le.
    + destruct (wrap_long_ex (v - snd e)) as (k0 & W).
      assert (Hs : zsum (acc ++ [e]) = (zsum acc + snd e)%Z) by (rewrite zsum_app; unfold zsum at 2; cbn; lia).
      destruct (wrap_long (v - snd e) =? 0)%Z eqn:Z0.
      * inversion H; subst. split.
        -- exists k0. rewrite Hs. lia.
        -- intros x Hx. apply in_app_or in Hx. destruct Hx as [Hx|[Hx|[]]]; [left; exact Hx|right; left; exact Hx].
      * apply IH in H. destruct H as ((k & S) & I). split.
        -- exists (k + k0)%Z. rewrite S, Hs. lia.
        -- intros x Hx. destruct (I x Hx) as [Hy|Hy]; [|right; right; exact Hy].
           apply in_app_or in Hy. destruct Hy as [Hy|[Hy|[]]]; [left; exact Hy|right; left; exact Hy].
    + destruct (v =? 0)%Z eqn:Z0.
      * inversion H; subst. split; [exists 0%Z; lia|]. intros x Hx. left. exact Hx.
      * apply IH in H. destruct H as (S & I). split; [exact S|].
        intros x Hx. destruct (I x Hx) as [Hy|Hy]; [left; exact Hy|right; right; exact Hy].
Qed.

Definition names_of (d : edisp) : list (list N * Z) :=
  match d with EName e => [e] | EOr es _ => es | ENum _ => [] end.
Definition eqm64 (a b : Z) : Prop := exists k, (a = b + k * 18446744073709551616)%Z.

(* for every table and every recorded value: the names shown are enumerators of the table, and the display stands
   for the value - as the 64-bit number recorded (modulo 2^64: the arithmetic of a C long), or, for a value
   2^31 .. 2^32-1, as the int in its low half *)
Theorem enum_display_denotes : forall t v,
  let d := conv_enum t v in
  (forall e, In e (names_of d) -> In e t) /\
  (eqm64 (denote d) v \/ (int_range v = true /\ denote d = v - 2 ^ 32)%Z).
Proof.
  intros t v. cbv zeta. unfold conv_enum.
  destruct (find_exact t v) as [e|] eqn:F1.
  - apply find_exact_val in F1. destruct F1 as (Hin & E). split.
    + intros x [Hx|[]]. subst x. exact Hin.
    + left. exists 0%Z. cbn. lia.
  - assert (Hloop : forall es r, or_loop t v [] = (es, r) ->
      (forall e, In e (names_of (match es with [] => ENum r | _ => EOr es r end)) -> In e t) /\
      eqm64 (denote (match es with [] => ENum r | _ => EOr es r end)) v).
    { intros es r L. apply or_loop_sum in L. destruct L as ((k & S) & I). unfold zsum in S. cbn in S.
      destruct es as [|e0 es'].
      - split; [intros x []|]. exists k. cbn in *. lia.
      - split.
        + intros x Hx. destruct (I x Hx) as [[]|Hy]. exact Hy.
        + exists k. cbn [denote]. lia. }
    destruct (int_range v) eqn:R.
    + destruct (find_exact t (v - 2 ^ 32)) as [e|] eqn:F2.
      * apply find_exact_val in F2. destruct F2 as (Hin & E). split.
        -- intros x [Hx|[]]. subst x. exact Hin.
        -- right. split; [reflexivity|exact E].
      * destruct (or_loop t v []) as [es r] eqn:L. destruct (Hloop es r eq_refl) as (A & B).
        destruct es; (split; [exact A|left; exact B]).
    + destruct (or_loop t v []) as [es r] eqn:L. destruct (Hloop es r eq_refl) as (A & B).
      destruct es; (split; [exact A|left; exact B]).
Qed.

(* enum mode { M_WRITE = 2, M_SYNC = 0x80000000 }, enum span { SPAN_NONE = 0, SPAN_4G = 2^32 }, enum sgn { NEG = -3, POS = 5 } *)
Definition mode_t : etable := [([77; 95; 83; 89; 78; 67], 0x80000000%Z); ([77; 95; 87; 82; 73; 84; 69], 2%Z)].
Definition span_t : etable := [([83; 80; 65; 78; 95; 52; 71], 0x100000000%Z); ([83; 80; 65; 78; 95; 78; 79; 78; 69], 0%Z)].
Definition sgn_t : etable := [([80; 79; 83], 5%Z); ([78; 69; 71], (-3)%Z)].
(* a display that cuts the recorded value to an int first (seed C09-9): M_SYNC is shown as 0xffffffff80000000,
   M_SYNC|M_WRITE as 0xffffffff80000002, SPAN_4G as SPAN_NONE: none of them stands for the value passed *)
Lemma enum_int_cast_refuted :
  enum_text (conv_enum mode_t 0x80000000) = [77; 95; 83; 89; 78; 67] /\
  enum_text (conv_enum mode_t 0x80000002) = [77; 95; 83; 89; 78; 67; 124; 77; 95; 87; 82; 73; 84; 69] /\
  enum_text (conv_enum span_t 0x100000000) = [83; 80; 65; 78; 95; 52; 71] /\
  enum_text (conv_enum_int mode_t 0x80000000) = [48; 120; 102; 102; 102; 102; 102; 102; 102; 102; 56; 48; 48; 48; 48; 48; 48; 48] /\
  denote (conv_enum_int mode_t 0x80000002) <> 0x80000002%Z /\
  enum_text (conv_enum_int span_t 0x100000000) = [83; 80; 65; 78; 95; 78; 79; 78; 69] /\
  denote (conv_enum_int span_t 0x100000000) <> 0x100000000%Z.
Proof. vm_compute. repeat split; try reflexivity; discriminate. Qed.
(* repaired in /repo: f(NEG), the int -3 passed in edi (recorded as 0xfffffffd), was shown as POS|NEG+0xfffffffb *)
Lemma enum_negative_legacy_refuted :
  enum_text (conv_enum sgn_t 0xfffffffd) = [78; 69; 71] /\ denote (conv_enum sgn_t 0xfffffffd) = (-3)%Z /\
  enum_text (conv_enum_legacy sgn_t 0xfffffffd) =
    [80; 79; 83; 124; 78; 69; 71; 43; 48; 120; 102; 102; 102; 102; 102; 102; 102; 98] /\
  names_of (conv_enum_legacy sgn_t 0xfffffffd) = sgn_t.
Proof. vm_compute. repeat split; reflexivity. Qed.
