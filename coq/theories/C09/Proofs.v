From Coq Require Import NArith ZArith List Bool Lia.
Import ListNotations.
Require Import UV.Gen.Consts UV.C09.Model.
Local Open Scope N_scope.

Lemma ALIGN_0 : forall a, ALIGN 0 a = ((a - 1) / a) * a.
Proof. reflexivity. Qed.
