(* C09 - proofs about the model of argument capture and display (UV.C09.Model). *)
From Coq Require Import NArith ZArith List Bool Lia.
From Coq Require Import ZifyBool ZifyN ZifyNat.
Import ListNotations.
Require Import UV.Gen.Consts UV.C09.Model.
Local Open Scope N_scope.
Ltac Zify.zify_post_hook ::= Z.div_mod_to_equations.

(* ------------------------------------------------------------------ lists and bytes *)
Lemma lenN_app : forall {A} (a b : list A), lenN (a ++ b) = lenN a + lenN b.
Proof. intros. unfold lenN. rewrite app_length. lia. Qed.

Lemma lenN_nil : forall {A}, lenN (@nil A) = 0.
Proof. reflexivity. Qed.

Lemma takeN_app_exact : forall {A} (a b : list A) n, n = lenN a -> takeN n (a ++ b) = a.
Proof.
  intros A a b n ->. unfold takeN, lenN. rewrite Nat2N.id.
  rewrite firstn_app, Nat.sub_diag, firstn_all. simpl. apply app_nil_r.
Qed.

Lemma dropN_app_exact : forall {A} (a b : list A) n, n = lenN a -> dropN n (a ++ b) = b.
Proof.
  intros A a b n ->. unfold dropN, lenN. rewrite Nat2N.id.
  rewrite skipn_app, Nat.sub_diag, skipn_all. reflexivity.
Qed.

Lemma length_le_bytes : forall n v, length (le_bytes n v) = n.
Proof. induction n; intros; simpl; auto. Qed.

Lemma of_le_le_bytes : forall n v, of_le (le_bytes n v) = v mod 256 ^ N.of_nat n.
Proof.
  induction n; intros v.
  - simpl. rewrite N.mod_1_r. reflexivity.
  - cbn [le_bytes of_le]. rewrite IHn.
    rewrite Nat2N.inj_succ.
    rewrite N.pow_succ_r'.
    assert (H256 : 256 <> 0) by lia.
    assert (Hp : 256 ^ N.of_nat n <> 0) by (apply N.pow_nonzero; lia).
    rewrite N.mod_mul_r by assumption. reflexivity.
Qed.

Lemma ALIGN4_mod : forall x, ALIGN x 4 mod 4 = 0.
Proof. intros. unfold ALIGN. apply N.mod_mul. lia. Qed.

Lemma ALIGN4_ge : forall x, x <= ALIGN x 4 < x + 4.
Proof. intros. unfold ALIGN. lia. Qed.

Lemma ALIGN4_id : forall x, x mod 4 = 0 -> ALIGN x 4 = x.
Proof. intros. unfold ALIGN. lia. Qed.

Lemma ALIGN8_ge : forall x, x <= ALIGN x 8 < x + 8.
Proof. intros. unfold ALIGN. lia. Qed.

Lemma length_fit : forall n bg l, lenN (fit n bg l) = n.
Proof.
  intros. unfold fit, takeN, repN, lenN.
  rewrite firstn_length, app_length, repeat_length. lia.
Qed.

Lemma fit_prefix : forall n bg l, lenN l <= n -> exists t, fit n bg l = l ++ t.
Proof.
  intros n bg l H. unfold fit, takeN, lenN in *.
  rewrite firstn_app.
  rewrite firstn_all2 by lia. eexists. reflexivity.
Qed.

(* ------------------------------------------------------------------ the string copy loop *)
Definition nz (s : list N) : Prop := Forall (fun b => b <> 0) s.

Lemma nthN_app_last : forall dst c, nthN (dst ++ [c]) (lenN dst) = c.
Proof.
  intros. unfold nthN, lenN. rewrite Nat2N.id.
  rewrite app_nth2 by lia. rewrite Nat.sub_diag. reflexivity.
Qed.

Lemma copy_loop_prefix : forall s1 rest i bound dst len,
  nz s1 -> lenN dst = i -> i + lenN s1 <= ARG_STR_MAX -> i + lenN s1 <= bound ->
  copy_loop (s1 ++ rest) i bound dst len = copy_loop rest (i + lenN s1) bound (dst ++ s1) (len + lenN s1).
Proof.
  induction s1 as [|c s1 IH]; intros rest i bound dst len Hnz Hlen H98 Hb.
  - simpl. rewrite lenN_nil, !N.add_0_r, app_nil_r. reflexivity.
  - inversion Hnz as [|? ? Hc Hnz']; subst.
    assert (Hl : lenN (c :: s1) = 1 + lenN s1) by (unfold lenN; simpl length; lia).
    rewrite Hl in *.
    cbn [app copy_loop].
    destruct (bound <=? lenN dst) eqn:E1; [lia|].
    destruct (lenN dst =? ARG_STR_MAX) eqn:E2; [lia|].
    rewrite nthN_app_last.
    destruct (c =? 0) eqn:E3; [lia|].
    rewrite (IH rest (lenN dst + 1) bound (dst ++ [c]) (len + 1)); try assumption.
    + rewrite <- app_assoc. cbn [app]. rewrite !N.add_assoc. reflexivity.
    + rewrite lenN_app. unfold lenN at 2. simpl. lia.
    + lia.
    + lia.
Qed.

(* a string shorter than ARG_STR_MAX that fits is copied whole, with its NUL *)
Lemma copy_loop_short : forall s junk bound,
  nz s -> lenN s < ARG_STR_MAX -> lenN s < bound ->
  copy_loop (s ++ 0 :: junk) 0 bound [] 0 = (s ++ [0], lenN s).
Proof.
  intros s junk bound Hnz H98 Hb.
  rewrite copy_loop_prefix; try assumption; try reflexivity; try lia.
  cbn [copy_loop app]. rewrite !N.add_0_l.
  destruct (bound <=? lenN s) eqn:E1; [lia|].
  destruct (lenN s =? ARG_STR_MAX) eqn:E2; [lia|].
  rewrite nthN_app_last. reflexivity.
Qed.

(* the loop stops at i = ARG_STR_MAX whatever it finds there: a string of ARG_STR_MAX or more
   characters becomes its first ARG_STR_MAX-3 characters and "..." *)
Lemma copy_loop_long : forall s1 c junk bound,
  nz s1 -> lenN s1 = ARG_STR_MAX -> ARG_STR_MAX < bound ->
  copy_loop (s1 ++ c :: junk) 0 bound [] 0 = (takeN (ARG_STR_MAX - 3) s1 ++ [46; 46; 46; 0], ARG_STR_MAX).
Proof.
  intros s1 c junk bound Hnz H98 Hb.
  rewrite copy_loop_prefix; try assumption; try reflexivity; try lia.
  cbn [copy_loop app]. rewrite !N.add_0_l, H98.
  destruct (bound <=? ARG_STR_MAX) eqn:E1; [lia|].
  rewrite N.eqb_refl.
  assert (Hd : dots ARG_STR_MAX (s1 ++ [c]) = takeN (ARG_STR_MAX - 3) s1 ++ [46; 46; 46; 0]).
  { unfold dots, takeN. rewrite firstn_app.
    replace (N.to_nat (ARG_STR_MAX - 3) - length s1)%nat with 0%nat
      by (unfold lenN in H98; unfold ARG_STR_MAX in *; lia).
    simpl firstn at 2. rewrite app_nil_r. reflexivity. }
  rewrite Hd.
  assert (Hn : nthN (takeN (ARG_STR_MAX - 3) s1 ++ [46; 46; 46; 0]) ARG_STR_MAX = 0).
  { unfold nthN. rewrite app_nth2.
    - unfold takeN. rewrite firstn_length.
      unfold lenN in H98. unfold ARG_STR_MAX in *.
      replace (N.to_nat 98 - Nat.min (N.to_nat (98 - 3)) (length s1))%nat with 3%nat by lia.
      reflexivity.
    - unfold takeN. rewrite firstn_length. unfold ARG_STR_MAX. lia. }
  rewrite Hn. reflexivity.
Qed.

(* when the room left in the buffer ends first, the loop stops there without a NUL *)
Lemma copy_loop_cut : forall s rest bound,
  nz s -> lenN s = bound -> bound <= ARG_STR_MAX ->
  copy_loop (s ++ rest) 0 bound [] 0 = (s, bound).
Proof.
  intros s rest bound Hnz Hl Hb.
  rewrite copy_loop_prefix; try assumption; try reflexivity; try lia.
  rewrite !N.add_0_l, Hl. simpl app.
  destruct rest; cbn [copy_loop]; rewrite N.leb_refl; reflexivity.
Qed.

(* the length the loop reports never exceeds ARG_STR_MAX *)
Lemma copy_loop_len : forall src i bound dst len,
  lenN dst = i -> i <= ARG_STR_MAX -> len <= i -> snd (copy_loop src i bound dst len) <= ARG_STR_MAX.
Proof.
  induction src as [|c rest IH]; intros i bound dst len Hd Hi Hl.
  - cbn [copy_loop]. destruct (bound <=? i); simpl; lia.
  - cbn [copy_loop]. destruct (bound <=? i) eqn:E1; [simpl; lia|].
    destruct (i =? ARG_STR_MAX) eqn:E2.
    + apply N.eqb_eq in E2.
      assert (Hn : nthN (dots i (dst ++ [c])) i = 0).
      { unfold dots, nthN, takeN. rewrite app_nth2.
        - rewrite firstn_length, app_length. simpl length.
          unfold lenN in Hd. unfold ARG_STR_MAX in *.
          replace (N.to_nat i - Nat.min (N.to_nat (i - 3)) (length dst + 1))%nat with 3%nat by lia.
          reflexivity.
        - rewrite firstn_length, app_length. simpl length.
          unfold lenN in Hd. unfold ARG_STR_MAX in *. lia. }
      rewrite Hn. simpl. lia.
    + destruct (nthN (dst ++ [c]) i =? 0) eqn:E3; [simpl; lia|].
      apply IH.
      * rewrite lenN_app. unfold lenN at 2. simpl. lia.
      * lia.
      * lia.
Qed.

(* ------------------------------------------------------------------ one step of save_to_argbuf *)
Definition relevant (is_ret : bool) (s : spec) : bool := Bool.eqb is_ret (s_idx s =? 0).

(* what a step that stores something stores: for strings a 2-byte length, then ALIGN(len+2,4) bytes in all *)
Definition chunk_ok (s : spec) (w : list N) (adv : N) : Prop :=
  if is_strfmt (s_fmt s)
  then exists len tl, w = le_bytes 2 len ++ tl /\ len < 65536 /\ adv = ALIGN (len + 2) 4
  else adv = ALIGN (s_size s) 4.

Lemma step_cases : forall fill inp is_ret st s,
  let st' := step fill inp is_ret st s in
  (st' = st /\ (m_stop st = true \/ relevant is_ret s = false)) \/ m_stop st' = true \/
  (relevant is_ret s = true /\ exists val w adv, st' = emit fill st val w adv /\ chunk_ok s w adv).
Proof.
  intros fill inp is_ret st s. cbv zeta. unfold step.
  destruct (m_stop st) eqn:Es; [left; split; [reflexivity|left; reflexivity]|].
  fold (relevant is_ret s).
  destruct (relevant is_ret s) eqn:Er; cbn [negb]; [|left; split; [reflexivity|right; reflexivity]].
  destruct (fmt_eqb (s_fmt s) FStruct && (MAX_SIZE <? m_total st + s_size s)) eqn:Ep;
    [right; left; reflexivity|].
  match goal with |- context [match ?f with Some _ => _ | None => _ end] => destruct f as [[sw val]|] eqn:Ef end;
    [|right; left; reflexivity].
  right; right. split; [reflexivity|].
  destruct (is_strfmt (s_fmt s)) eqn:Estr.
  - match goal with |- context [if ?p =? 0 then _ else _] => destruct (p =? 0) eqn:Ep0 end.
    + do 3 eexists. split; [reflexivity|].
      unfold chunk_ok. rewrite Estr. exists 4, null_str. split; [reflexivity|]. split; [lia|reflexivity].
    + match goal with |- context [copy_loop ?a ?b ?c ?d ?e] => destruct (copy_loop a b c d e) as [dst len] eqn:Ec end.
      do 3 eexists. split; [reflexivity|].
      unfold chunk_ok. rewrite Estr. exists len, dst. split; [reflexivity|].
      split; [|reflexivity].
      match type of Ec with copy_loop ?a ?b ?c ?d ?e = _ =>
        pose proof (copy_loop_len a b c d e eq_refl) as Hl end.
      rewrite Ec in Hl. simpl in Hl. unfold ARG_STR_MAX in Hl. lia.
  - destruct (fmt_eqb (s_fmt s) FStruct) eqn:Est.
    + do 3 eexists. split; [reflexivity|]. unfold chunk_ok. rewrite Estr. reflexivity.
    + do 3 eexists. split; [reflexivity|]. unfold chunk_ok. rewrite Estr. reflexivity.
Qed.

(* ------------------------------------------------------------------ reader framing = writer framing *)
Definition wf_spec (s : spec) : Prop := is_strfmt (s_fmt s) = true -> s_size s <> 0.

Lemma emit_done : forall fill st val w adv,
  m_done (emit fill st val w adv) = m_done st ++ fit adv fill (over w (m_ahead st)).
Proof. reflexivity. Qed.

Lemma emit_total : forall fill st val w adv, m_total (emit fill st val w adv) = m_total st + adv.
Proof. reflexivity. Qed.

Lemma fit_over_le2 : forall adv fill len tl ahead,
  2 <= adv -> exists c', fit adv fill (over (le_bytes 2 len ++ tl) ahead) = le_bytes 2 len ++ c' /\ lenN c' = adv - 2.
Proof.
  intros adv fill len tl ahead H2.
  pose proof (length_fit adv fill (over (le_bytes 2 len ++ tl) ahead)) as HL.
  unfold over in *. rewrite <- !app_assoc in *.
  remember (tl ++ skipn (length (le_bytes 2 len ++ tl)) ahead) as rest.
  cbn [le_bytes app] in *.
  unfold fit, takeN in *.
  destruct (N.to_nat adv) as [|[|n]] eqn:En; try lia.
  cbn [firstn app] in *. eexists. split; [reflexivity|].
  unfold lenN in *. simpl length in HL. lia.
Qed.

(* the reader, given the bytes one storing step appended (and anything behind them), takes exactly them *)
Lemma read_arg_chunk : forall s fill (ahead : list N) w adv acc rest,
  wf_spec s -> chunk_ok s w adv -> lenN acc mod 4 = 0 ->
  read_arg s acc (fit adv fill (over w ahead) ++ rest) = Some (acc ++ fit adv fill (over w ahead), rest).
Proof.
  intros s fill ahead w adv acc rest Hwf Hc Hacc.
  unfold read_arg, chunk_ok in *.
  destruct (is_strfmt (s_fmt s)) eqn:Estr.
  - destruct Hc as (len & tl & -> & Hlen & ->).
    destruct (s_size s =? 0) eqn:E0; [exfalso; apply Hwf; [exact Estr|lia]|].
    pose proof (ALIGN4_ge (len + 2)) as HA.
    destruct (fit_over_le2 (ALIGN (len + 2) 4) fill len tl ahead ltac:(lia)) as (c' & -> & Hc').
    rewrite <- !app_assoc.
    assert (H2 : lenN (le_bytes 2 len) = 2) by reflexivity.
    assert (Hlt : (lenN (le_bytes 2 len ++ c' ++ rest) <? 2) = false).
    { rewrite lenN_app, H2. lia. }
    rewrite Hlt.
    rewrite (takeN_app_exact (le_bytes 2 len) (c' ++ rest) 2) by (symmetry; exact H2).
    rewrite (dropN_app_exact (le_bytes 2 len) (c' ++ rest) 2) by (symmetry; exact H2).
    rewrite of_le_le_bytes. change (256 ^ N.of_nat 2) with 65536. rewrite (N.mod_small len 65536) by exact Hlen.
    rewrite (lenN_app acc (le_bytes 2 len)), H2.
    set (rem := (lenN acc + 2 + len) mod 4).
    set (size' := if rem =? 0 then len else len + (4 - rem)).
    assert (Hs : size' = lenN c').
    { rewrite Hc'. unfold size', rem. unfold ALIGN in *. destruct ((lenN acc + 2 + len) mod 4 =? 0) eqn:Er; lia. }
    rewrite Hs.
    assert (Hlt2 : (lenN (c' ++ rest) <? lenN c') = false) by (rewrite lenN_app; lia).
    rewrite Hlt2.
    rewrite takeN_app_exact by reflexivity. rewrite dropN_app_exact by reflexivity.
    reflexivity.
  - subst adv.
    destruct (s_size s =? 0) eqn:E0.
    + apply N.eqb_eq in E0. rewrite E0. change (ALIGN 0 4) with 0.
      unfold fit, takeN. simpl. rewrite app_nil_r. reflexivity.
    + change (lenN rest <? 0) with false.
      cbn [takeN dropN N.to_nat firstn skipn]. rewrite app_nil_r.
      assert (lenN (fit (ALIGN (s_size s) 4) fill (over w ahead) ++ rest) <? 0 = false) as -> by lia.
      set (c := fit (ALIGN (s_size s) 4) fill (over w ahead)).
      assert (Hc : lenN c = ALIGN (s_size s) 4) by apply length_fit.
      set (rem := (lenN acc + s_size s) mod 4).
      set (size' := if rem =? 0 then s_size s else s_size s + (4 - rem)).
      assert (Hs : size' = lenN c).
      { rewrite Hc. unfold size', rem, ALIGN. destruct ((lenN acc + s_size s) mod 4 =? 0) eqn:Er; lia. }
      rewrite Hs.
      assert (Hlt2 : (lenN (c ++ rest) <? lenN c) = false) by (rewrite lenN_app; lia).
      rewrite Hlt2.
      rewrite takeN_app_exact by reflexivity. rewrite dropN_app_exact by reflexivity. reflexivity.
Qed.

Lemma step_stopped : forall fill inp is_ret st s, m_stop st = true -> step fill inp is_ret st s = st.
Proof. intros. unfold step. rewrite H. reflexivity. Qed.

Lemma fold_stopped : forall fill inp is_ret specs st,
  m_stop st = true -> fold_left (step fill inp is_ret) specs st = st.
Proof.
  induction specs as [|s r IH]; intros st H; simpl; [reflexivity|].
  rewrite step_stopped by exact H. apply IH. exact H.
Qed.

Lemma read_args_loop_frames : forall fill inp is_ret specs st acc rest,
  Forall wf_spec specs ->
  m_stop (fold_left (step fill inp is_ret) specs st) = false ->
  lenN acc mod 4 = 0 ->
  exists tail,
    m_done (fold_left (step fill inp is_ret) specs st) = m_done st ++ tail /\
    m_total (fold_left (step fill inp is_ret) specs st) = m_total st + lenN tail /\
    lenN tail mod 4 = 0 /\
    read_args_loop is_ret specs acc (tail ++ rest) = Some (acc ++ tail, rest).
Proof.
  induction specs as [|s r IH]; intros st acc rest Hwf Hstop Hacc.
  - exists []. simpl. rewrite !app_nil_r, lenN_nil, N.add_0_r. auto.
  - inversion Hwf as [|? ? Hs Hr]; subst.
    cbn [fold_left] in *.
    pose proof (step_cases fill inp is_ret st s) as Hc. cbv zeta in Hc.
    destruct Hc as [(Heq & [Es | Hrel]) | [Hst | (Hrel & val & w & adv & Heq & Hck)]].
    + rewrite Heq in Hstop. rewrite fold_stopped in Hstop by exact Es. congruence.
    + rewrite Heq in *.
      destruct (IH st acc rest Hr Hstop Hacc) as (tail & Hd & Ht & Hm & Hread).
      exists tail. repeat split; try assumption.
      cbn [read_args_loop]. unfold relevant in Hrel. rewrite Hrel. exact Hread.
    + rewrite fold_stopped in Hstop by exact Hst. congruence.
    + rewrite Heq in *.
      assert (Hadv4 : adv mod 4 = 0).
      { unfold chunk_ok in Hck. destruct (is_strfmt (s_fmt s)).
        - destruct Hck as (? & ? & _ & _ & ->). apply ALIGN4_mod.
        - subst adv. apply ALIGN4_mod. }
      set (c := fit adv fill (over w (m_ahead st))) in *.
      assert (Hlc : lenN c = adv) by apply length_fit.
      destruct (IH (emit fill st val w adv) (acc ++ c) rest Hr Hstop) as (tail & Hd & Ht & Hm & Hread).
      { rewrite lenN_app, Hlc. lia. }
      exists (c ++ tail). rewrite emit_done in Hd. rewrite emit_total in Ht. fold c in Hd.
      repeat split.
      * rewrite Hd, app_assoc. reflexivity.
      * rewrite Ht, lenN_app, Hlc. lia.
      * rewrite lenN_app, Hlc. lia.
      * cbn [read_args_loop]. unfold relevant in Hrel. rewrite Hrel. cbn [negb].
        rewrite <- app_assoc.
        unfold c. rewrite read_arg_chunk by assumption. fold c.
        rewrite Hread, app_assoc. reflexivity.
Qed.

(* the loop is left by `break` only when the data is already too big (or the step is not modelled) *)
Definition stop_inv (st : mst) : Prop := m_stop st = true -> m_unmodelled st = true \/ MAX_SIZE < m_total st.

Lemma step_stop_inv : forall fill inp is_ret st s, stop_inv st -> stop_inv (step fill inp is_ret st s).
Proof.
  intros fill inp is_ret st s H. unfold step.
  destruct (m_stop st) eqn:Es; [exact H|].
  destruct (negb (Bool.eqb is_ret (s_idx s =? 0))); [exact H|].
  destruct (fmt_eqb (s_fmt s) FStruct && (MAX_SIZE <? m_total st + s_size s)) eqn:Ep.
  - intros _. right. cbn [m_total]. apply andb_prop in Ep. lia.
  - match goal with |- context [match ?f with Some _ => _ | None => _ end] => destruct f as [[sw val]|] end.
    + destruct (is_strfmt (s_fmt s)).
      * match goal with |- context [if ?p =? 0 then _ else _] => destruct (p =? 0) end.
        { intro Hc. discriminate Hc. }
        { match goal with |- context [copy_loop ?a ?b ?c ?d ?e] => destruct (copy_loop a b c d e) end.
          intro Hc. discriminate Hc. }
      * destruct (fmt_eqb (s_fmt s) FStruct); intro Hc; discriminate Hc.
    + intros _. left. reflexivity.
Qed.

Lemma run_stop_inv : forall fill inp is_ret specs, stop_inv (run fill inp is_ret specs).
Proof.
  intros. unfold run.
  assert (H0 : stop_inv mst0) by (intro Hc; discriminate Hc).
  revert H0. generalize mst0.
  induction specs as [|s r IH]; intros st H; simpl; [exact H|].
  apply IH. apply step_stop_inv. exact H.
Qed.

(* C09 framing: whenever save_to_argbuf accepts the data, read_task_args - which recomputes every
   length from the stream and the spec sizes - consumes exactly the payload and its 8-byte padding,
   for every spec list (any formats, sizes, addressing) and every input. *)
Theorem framing : forall fill inp is_ret specs bg p rest,
  Forall wf_spec specs ->
  m_unmodelled (run fill inp is_ret specs) = false ->
  payload (run fill inp is_ret specs) = Some p ->
  read_args is_ret specs (fit (ALIGN (lenN p) 8) bg p ++ rest) = Some (p, rest).
Proof.
  intros fill inp is_ret specs bg p rest Hwf Hum Hp.
  unfold payload in Hp. destruct (result (run fill inp is_ret specs)) as [n|] eqn:Er; [|discriminate].
  injection Hp as Hp.
  unfold result in Er. destruct (MAX_SIZE <? m_total (run fill inp is_ret specs)) eqn:Em; [discriminate|].
  injection Er as Er.
  assert (Hstop : m_stop (run fill inp is_ret specs) = false).
  { destruct (m_stop (run fill inp is_ret specs)) eqn:Es; [|reflexivity].
    destruct (run_stop_inv fill inp is_ret specs Es) as [H|H]; [congruence|lia]. }
  unfold run in *.
  destruct (fit_prefix (ALIGN (lenN p) 8) bg p) as (pad & Hpad).
  { pose proof (ALIGN8_ge (lenN p)). lia. }
  destruct (read_args_loop_frames fill inp is_ret specs mst0 [] (pad ++ rest) Hwf Hstop eq_refl)
    as (tail & Hd & Ht & Hm & Hread).
  cbn [m_done m_total mst0 app] in Hd, Ht.
  assert (Hpt : p = tail).
  { rewrite <- Hp, Hd. rewrite <- (app_nil_r tail) at 1.
    apply takeN_app_exact. lia. }
  rewrite <- Hpt in Hread. clear Hd Ht Hm Hpt tail.
  unfold read_args. rewrite Hpad, <- app_assoc, Hread. cbn [app].
  f_equal. f_equal.
  pose proof (length_fit (ALIGN (lenN p) 8) bg p) as HL. rewrite Hpad, lenN_app in HL.
  destruct (lenN p mod 8 =? 0) eqn:E8.
  - assert (lenN pad = 0) by (unfold ALIGN in HL; lia).
    destruct pad; [reflexivity|unfold lenN in *; simpl in *; lia].
  - apply dropN_app_exact. unfold ALIGN in HL. lia.
Qed.

(* ------------------------------------------------------------------ the record stream *)
Lemma rec_word_fields : forall ty more depth addr,
  ty < 4 -> more < 2 -> depth < 1024 -> addr < 2 ^ 48 ->
  let w := rec_word ty more depth addr in
  w < 2 ^ 64 /\ w mod 4 = ty /\ (w / 4) mod 2 = more /\ (w / 8) mod 8 = RECORD_MAGIC /\
  (w / 64) mod 1024 = depth /\ w / 65536 = addr.
Proof.
  intros ty more depth addr Ht Hm Hd Ha. cbv zeta. unfold rec_word, RECORD_MAGIC.
  change (2 ^ 48) with 281474976710656 in Ha. change (2 ^ 64) with 18446744073709551616.
  assert (Hmore : (if more =? 0 then 0 else 4) = 4 * more) by (destruct (more =? 0) eqn:E; lia).
  rewrite Hmore.
  rewrite N.mod_small by lia.
  repeat split; lia.
Qed.

Lemma decode_header : forall k specs_of t ty more depth addr body,
  t < 2 ^ 64 -> ty < 4 -> more < 2 -> depth < 1024 -> addr < 2 ^ 48 ->
  decode_stream (S k) specs_of (le_bytes 8 t ++ le_bytes 8 (rec_word ty more depth addr) ++ body) =
  if more =? 0 then
    {| d_time := t; d_type := ty; d_depth := depth; d_addr := addr; d_args := None |} :: decode_stream k specs_of body
  else match read_args (ty =? UFTRACE_EXIT) (specs_of addr) body with
       | Some (data, rest') =>
           {| d_time := t; d_type := ty; d_depth := depth; d_addr := addr; d_args := Some data |}
             :: decode_stream k specs_of rest'
       | None => []
       end.
Proof.
  intros k specs_of t ty more depth addr body Ht Hty Hm Hd Ha.
  destruct (rec_word_fields ty more depth addr Hty Hm Hd Ha) as (Hw & F1 & F2 & F3 & F4 & F5).
  cbn [decode_stream].
  assert (L8 : forall v, lenN (le_bytes 8 v) = 8) by reflexivity.
  assert (Hlen : (lenN (le_bytes 8 t ++ le_bytes 8 (rec_word ty more depth addr) ++ body) <? 16) = false).
  { rewrite !lenN_app, !L8. lia. }
  rewrite Hlen.
  rewrite (takeN_app_exact (le_bytes 8 t)) by reflexivity.
  rewrite (dropN_app_exact (le_bytes 8 t)) by reflexivity.
  rewrite (takeN_app_exact (le_bytes 8 (rec_word ty more depth addr))) by reflexivity.
  rewrite !of_le_le_bytes. change (256 ^ N.of_nat 8) with (2 ^ 64).
  rewrite (N.mod_small t) by exact Ht.
  rewrite (N.mod_small (rec_word ty more depth addr)) by exact Hw.
  rewrite F1, F2, F3, F4, F5, N.eqb_refl. cbn [negb].
  assert (Hdrop : dropN 16 (le_bytes 8 t ++ le_bytes 8 (rec_word ty more depth addr) ++ body) = body).
  { rewrite app_assoc. apply dropN_app_exact. rewrite lenN_app, !L8. reflexivity. }
  rewrite Hdrop. reflexivity.
Qed.

(* C09 resync: a record with a payload of any size, as record_ret_stack lays it out (payload padded to
   8 bytes), is decoded to that record and payload, and decoding continues exactly at the next record *)
Theorem stream_resync : forall k specs_of bg fill inp t ty depth addr pl rest,
  t < 2 ^ 64 -> ty < 4 -> depth < 1024 -> addr < 2 ^ 48 ->
  Forall wf_spec (specs_of addr) ->
  m_unmodelled (run fill inp (ty =? UFTRACE_EXIT) (specs_of addr)) = false ->
  (pl = None \/ pl = payload (run fill inp (ty =? UFTRACE_EXIT) (specs_of addr))) ->
  decode_stream (S k) specs_of (enc_rec bg t ty depth addr pl ++ rest) =
  {| d_time := t; d_type := ty; d_depth := depth; d_addr := addr; d_args := pl |} :: decode_stream k specs_of rest.
Proof.
  intros k specs_of bg fill inp t ty depth addr pl rest Ht Hty Hd Ha Hwf Hum Hpl.
  unfold enc_rec. rewrite <- !app_assoc.
  destruct pl as [p|].
  - rewrite decode_header by (try assumption; lia). cbn [N.eqb].
    destruct Hpl as [Hpl|Hpl]; [discriminate|].
    rewrite (framing fill inp (ty =? UFTRACE_EXIT) (specs_of addr) bg p rest Hwf Hum (eq_sym Hpl)).
    reflexivity.
  - rewrite decode_header by (try assumption; lia). reflexivity.
Qed.
