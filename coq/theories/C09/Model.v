(* C09 - model of argument / return-value capture and display.

   Writer  (libmcount/record.c, arch/x86_64/mcount-support.c):
     mcount_get_register_arg, mcount_get_stack_arg, mcount_get_struct_arg, mcount_arch_get_arg,
     mcount_arch_get_retval, save_to_argbuf, save_argument, save_retval, and the part of
     record_ret_stack that appends the payload to the record (8-byte aligned).
   Reader  (utils/fstack.c, cmds/replay.c):
     read_task_arg, read_task_args (framing recomputed from the stream), get_argspec_string
     (what `uftrace replay` prints), and the framing of a whole task stream.

   The model describes the code AS IT IS (after the fix: commits for len98 / overflow / c64; the
   code before them is UV.C09.Legacy).  Memory is not a heap: the argument
   buffer of one frame is the sequence of bytes stored so far ([done] up to the write pointer and
   [ahead] beyond it) over a background of [fill] bytes; [hi] is one past the highest argbuf
   offset stored to.  The memory-region cache is a set of half-open ranges (lookup_str): an address is readable iff it lies in the
   range of one of the C strings / 8-byte words listed in the inputs.

   Not modelled: the decimal rendering of floating point values (floats are carried as bits),
   x87 return values (retval/f80), enum names, the 1024-byte limit of replay's text buffer. *)
From Coq Require Import NArith ZArith List Bool.
Import ListNotations.
Require Import UV.Gen.Consts.
Local Open Scope N_scope.

(* ------------------------------------------------------------------ bytes *)
Fixpoint le_bytes (n : nat) (v : N) : list N :=
  match n with O => [] | S k => (v mod 256) :: le_bytes k (v / 256) end.
Fixpoint of_le (l : list N) : N :=
  match l with [] => 0 | b :: r => b + 256 * of_le r end.
Definition ALIGN (x a : N) : N := ((x + a - 1) / a) * a.
Definition lenN {A} (l : list A) : N := N.of_nat (length l).
Definition takeN {A} (n : N) (l : list A) : list A := firstn (N.to_nat n) l.
Definition dropN {A} (n : N) (l : list A) : list A := skipn (N.to_nat n) l.
Definition repN (n : N) (b : N) : list N := repeat b (N.to_nat n).
(* exactly n bytes: l, continued with background bytes *)
Definition fit (n : N) (bg : N) (l : list N) : list N := takeN n (l ++ repN n bg).
(* l stored over old (both start at the same address) *)
Definition over (l old : list N) : list N := l ++ skipn (length l) old.

Fixpoint list_eqb (a b : list N) : bool :=
  match a, b with
  | [], [] => true
  | x :: a', y :: b' => (x =? y) && list_eqb a' b'
  | _, _ => false
  end.
Fixpoint prefixb (p l : list N) : bool :=
  match p, l with
  | [], _ => true
  | x :: p', y :: l' => (x =? y) && prefixb p' l'
  | _, [] => false
  end.

(* ------------------------------------------------------------------ argument specifications *)
(* enum uftrace_arg_format, in ARG_SPEC_CHARS order "diuxoscfSpet" *)
Inductive fmt := FAuto | FSint | FUint | FHex | FOct | FStr | FChar | FFloat | FStdStr | FPtr | FEnum | FStruct.
Inductive atype := TIndex | TFloat | TReg | TStack.

Record spec := {
  s_idx : N;            (* 0 = RETVAL_IDX *)
  s_fmt : fmt;
  s_size : N;
  s_type : atype;
  s_u : Z;              (* union { short reg_idx; short stack_ofs; } *)
  s_regs : list Z;      (* struct_regs[0 .. struct_reg_cnt) *)
  s_name : list N       (* type_name ("" = NULL) *)
}.

Definition fmt_eqb (a b : fmt) : bool :=
  match a, b with
  | FAuto, FAuto | FSint, FSint | FUint, FUint | FHex, FHex | FOct, FOct | FStr, FStr | FChar, FChar
  | FFloat, FFloat | FStdStr, FStdStr | FPtr, FPtr | FEnum, FEnum | FStruct, FStruct => true
  | _, _ => false
  end.
Definition is_strfmt (f : fmt) : bool := match f with FStr | FStdStr => true | _ => false end.

(* ------------------------------------------------------------------ what the traced program passed *)
Record inputs := {
  regs : list N;               (* rdi rsi rdx rcx r8 r9 (struct mcount_regs) *)
  xmm : list N;                (* low 64 bits of xmm0 .. xmm7 *)
  stk : list N;                (* 8-byte words at parent_loc[1], parent_loc[2], ... (stack arguments) *)
  rets : list N;               (* retval[0] = rax, retval[1] = rdx *)
  strs : list (N * list N);    (* readable C strings: address -> bytes before the NUL *)
  wrds : list (N * N)          (* readable 8-byte words: address -> value (std::string objects) *)
}.

Fixpoint assoc {B} (a : N) (l : list (N * B)) : option B :=
  match l with [] => None | (k, v) :: r => if k =? a then Some v else assoc a r end.
(* check_mem_region: the region cache, as an oracle on the addresses the inputs name *)
(* check_mem_region / find_mem_region: the readable mappings are half-open ranges [start, end).  The ranges the model
   knows are the declared objects themselves: a C string at a with n bytes before its NUL is the readable range
   [a, a + n + 1) (for the harness's page that ends in front of a PROT_NONE page this is the whole mapping), a word at a
   the range [a, a + 8).  A pointer is dereferenced only if it lies INSIDE such a range; a pointer equal to the end of
   a range (one past the NUL) is not readable. *)
Fixpoint lookup_str (l : list (N * list N)) (a : N) : option (list N) :=
  match l with
  | [] => None
  | (k, v) :: r => if (k <=? a) && (a <? k + lenN v + 1) then Some (dropN (a - k) v) else lookup_str r a
  end.
Definition readable (inp : inputs) (a : N) : bool :=
  match lookup_str (strs inp) a with Some _ => true | None =>
  match assoc a (wrds inp) with Some _ => true | None => false end end.

Definition nthN (l : list N) (i : N) : N := nth (N.to_nat i) l 0.
Definition stack_bytes (inp : inputs) (ofs : N) (n : N) : list N :=      (* ofs >= 1, in words *)
  fit n 0 (flat_map (le_bytes 8) (dropN (ofs - 1) (stk inp))).

(* ------------------------------------------------------------------ mcount_arch_get_arg / get_retval *)
Definition VAL_SIZE : N := 16.                                   (* sizeof(ctx->val) *)
Definition val0 : list N := repN VAL_SIZE 0.
Definition set_lo (bytes val : list N) : list N := over bytes val.

Definition REG_FLOAT_BASE : Z := 100.                            (* UFT_X86_64_REG_FLOAT_BASE *)
Definition MAX_REG_ARGS : Z := 6.                                (* ARCH_MAX_REG_ARGS *)
Definition MAX_FLOAT_ARGS : Z := 8.                              (* ARCH_MAX_FLOAT_ARGS *)

(* mcount_get_register_arg: (false, _) = returned -1 *)
Definition get_register_arg (inp : inputs) (ty : atype) (idx : N) (u : Z) (size : N) (val : list N)
  : bool * list N :=
  let go (r : Z) :=
    let val1 := set_lo (le_bytes 8 0) val in                      (* ctx->val.i = 0 *)
    if ((1 <=? r) && (r <=? 6))%Z then (true, set_lo (le_bytes 8 (nthN (regs inp) (Z.to_N (r - 1)))) val1)
    else if ((101 <=? r) && (r <=? 108))%Z then
      let x := nthN (xmm inp) (Z.to_N (r - 101)) in
      (true, if size =? 8 then set_lo (le_bytes 8 x) val1 else set_lo (le_bytes 4 x) val1)  (* movsd / movss *)
    else (false, val1) in
  match ty with
  | TReg => go u
  | TIndex => go (Z.of_N idx)
  | TFloat => go (Z.of_N idx + REG_FLOAT_BASE)%Z
  | TStack => (false, val)
  end.

(* mcount_get_stack_arg (the stack itself is readable) *)
Definition get_stack_arg (inp : inputs) (ty : atype) (idx : N) (u : Z) (size : N) (val : list N) : list N :=
  let offset : Z :=
    match ty with
    | TStack => u
    | TIndex => (Z.of_N idx - MAX_REG_ARGS)%Z
    | TFloat => ((Z.of_N idx - MAX_FLOAT_ARGS) * 2 - 1)%Z
    | TReg => 0%Z                                                  (* pr_err_ns: not reached *)
    end in
  if ((offset <? 1) || (100 <? offset))%Z then val0
  else set_lo (stack_bytes inp (Z.to_N offset) (ALIGN size 4)) val.

Definition get_arg (inp : inputs) (s : spec) (val : list N) : list N :=
  let '(ok, val1) := get_register_arg inp (s_type s) (s_idx s) (s_u s) (s_size s) val in
  if ok then val1 else get_stack_arg inp (s_type s) (s_idx s) (s_u s) (s_size s) val1.

(* mcount_get_struct_arg: bytes stored at ptr, and the new ctx->val *)
Fixpoint struct_regs (inp : inputs) (rs : list Z) (val : list N) : list N * list N :=
  match rs with
  | [] => ([], val)
  | r :: rest =>
      let val1 := snd (get_register_arg inp TReg 0 r 8 val) in      (* reg_spec.size = sizeof(long): movsd for xmm *)
      let '(w, val2) := struct_regs inp rest val1 in
      (takeN 8 val1 ++ w, val2)
  end.
Definition get_struct_arg (inp : inputs) (s : spec) (val : list N) : list N * list N :=
  let '(w, val1) := struct_regs inp (s_regs s) val in
  if (0 <? s_u s)%Z then (w ++ stack_bytes inp (Z.to_N (s_u s)) (4 * (s_size s / 4)), val1)   (* mcount_memcpy4: len / 4 words *)
  else match s_regs s with
       | [] => let val2 := snd (get_register_arg inp (s_type s) (s_idx s) (s_u s) (s_size s) val1) in
               (w ++ takeN 8 val2, val2)
       | _ => (w, val1)
       end.

(* mcount_arch_get_retval; None = not modelled (x87 long double) *)
Definition get_retval (inp : inputs) (s : spec) (val : list N) : option (list N) :=
  let rb := flat_map (le_bytes 8) (rets inp) in
  match s_fmt s with
  | FStruct => Some (set_lo (fit 8 0 rb) val)
  | FFloat => if s_size s =? 10 then None else Some (set_lo (le_bytes 8 (nthN (xmm inp) 0)) val)
  | _ => Some (set_lo (fit (s_size s) 0 rb) val)
  end.

(* ------------------------------------------------------------------ number -> text *)
Definition digit (d : N) : N := if d <? 10 then 48 + d else 87 + d.      (* '0'.. / 'a'.. *)
Fixpoint digits (fuel : nat) (base n : N) : list N :=
  match fuel with
  | O => []
  | S k => if n <? base then [digit n] else digits k base (n / base) ++ [digit (n mod base)]
  end.
Definition dec (n : N) : list N := digits 20 10 n.
Definition hex (n : N) : list N := digits 16 16 n.
Definition oct (n : N) : list N := digits 22 8 n.
Definition sdec (bits : N) (v : N) : list N :=          (* v < 2^bits read as two's complement *)
  if v <? 2 ^ (bits - 1) then dec v else 45 :: dec (2 ^ bits - v).
Definition hexp (n : N) : list N := [48; 120] ++ hex n.                  (* "0x.." *)
Definition s_lt : list N := [60].   Definition s_gt : list N := [62].

(* ------------------------------------------------------------------ the string copy loop of save_to_argbuf *)
Definition dots (i : N) (dst : list N) : list N := takeN (i - 3) dst ++ [46; 46; 46; 0].
(* src: the bytes at str[0], str[1], ... (a C string: ends with 0); dst: the characters so far (dst[0..i)) *)
Fixpoint copy_loop (src : list N) (i bound : N) (dst : list N) (len : N) : list N * N :=
  if bound <=? i then (dst, len) else
  match src with
  | [] => (dst, len)
  | c :: rest =>
      let dst1 := dst ++ [c] in
      let dst2 := if (i =? ARG_STR_MAX) && negb (c =? 0) then dots i dst1 else dst1 in    (* truncate long string *)
      if nthN dst2 i =? 0 then (dst2, len) else copy_loop rest (i + 1) bound dst2 (len + 1)
  end.
(* dst is what the loop computes for dst[0], dst[1], ...; only dst[i] with i + 2 < bound is stored *)

(* ------------------------------------------------------------------ save_to_argbuf *)
Definition MAX_SIZE : N := ARGBUF_SIZE - 4.
Definition U32 : N := 4294967296.

Record mst := {
  m_val : list N;        (* ctx->val *)
  m_total : N;           (* total_size; ptr = argbuf + 4 + total_size *)
  m_hi : N;              (* one past the highest argbuf offset written so far *)
  m_done : list N;       (* bytes at argbuf+4 .. ptr *)
  m_ahead : list N;      (* bytes already stored at ptr, ptr+1, ... *)
  m_stop : bool;         (* left the loop by `break` *)
  m_unmodelled : bool
}.

(* store w at ptr, then ptr += adv *)
Definition emit (fill : N) (st : mst) (val : list N) (w : list N) (adv : N) : mst :=
  let region := over w (m_ahead st) in
  {| m_val := val;
     m_total := m_total st + adv;
     m_hi := match w with [] => m_hi st | _ => N.max (m_hi st) (4 + m_total st + lenN w) end;
     m_done := m_done st ++ fit adv fill region;
     m_ahead := dropN adv region;
     m_stop := false; m_unmodelled := m_unmodelled st |}.

Definition bad_ptr_text (a : N) : list N := s_lt ++ hexp a ++ s_gt.        (* snprintf "<%p>" *)
Definition null_str : list N := [78; 85; 76; 76].

(* `total_size += n; break;`  ("just to make it fail") *)
Definition refuse (st : mst) (n : N) : mst :=
  {| m_val := m_val st; m_total := m_total st + n; m_hi := m_hi st; m_done := m_done st;
     m_ahead := m_ahead st; m_stop := true; m_unmodelled := m_unmodelled st |}.

Definition step (fill : N) (inp : inputs) (is_ret : bool) (st : mst) (s : spec) : mst :=
  if m_stop st then st else
  if negb (Bool.eqb is_ret (s_idx s =? 0)) then st else
  let structp := fmt_eqb (s_fmt s) FStruct in
  if structp && (MAX_SIZE <? m_total st + s_size s) then refuse st (s_size s)
  else
  (* ctx->val.p = ptr for structs: the pointer value itself is never stored, val keeps its bytes
     in the model (a struct is never followed by a use of the stale val.p: get_arg overwrites val.i) *)
  let fetched : option (list N * list N) :=      (* (bytes stored by the fetch at ptr, val) *)
    if is_ret then match get_retval inp s (m_val st) with Some v => Some ([], v) | None => None end
    else if structp then Some (get_struct_arg inp s (m_val st))
    else Some ([], get_arg inp s (m_val st)) in
  match fetched with
  | None => {| m_val := m_val st; m_total := m_total st; m_hi := m_hi st; m_done := m_done st;
               m_ahead := m_ahead st; m_stop := true; m_unmodelled := true |}
  | Some (sw, val) =>
      if is_strfmt (s_fmt s) then
        if MAX_SIZE <? m_total st + 4 then refuse st 4 else       (* even an empty string takes 4 bytes *)
        let p0 := of_le (takeN 8 val) in
        let p := match s_fmt s with
                 | FStdStr => match assoc p0 (wrds inp) with Some w => w | None => p0 end
                 | _ => p0 end in
        if p =? 0 then
          if MAX_SIZE <? m_total st + ALIGN (4 + 2) 4 then refuse st (ALIGN (4 + 2) 4)
          else emit fill st val ([4; 0] ++ null_str) (ALIGN (4 + 2) 4)
        else
          let src := if readable inp p
                     then match lookup_str (strs inp) p with Some c => c ++ [0] | None => [0] end
                     else bad_ptr_text p ++ [0] in
          let bound := (MAX_SIZE + U32 - m_total st mod U32) mod U32 in
          let '(dst, len) := copy_loop src 0 bound [] 0 in
          emit fill st val (le_bytes 2 len ++ takeN (bound - 2) dst) (ALIGN (len + 2) 4)
      else if structp then emit fill st val sw (ALIGN (s_size s) 4)
      else if MAX_SIZE <? m_total st + ALIGN (s_size s) 4 then refuse st (ALIGN (s_size s) 4)   (* before the copy *)
      else emit fill st val (takeN (ALIGN (s_size s) 4) val) (ALIGN (s_size s) 4)
  end.

(* the pointers one step dereferences (str[0] and what follows; the std::string object): the same guards as [step] *)
Definition step_derefs (inp : inputs) (is_ret : bool) (st : mst) (s : spec) : list N :=
  if m_stop st then [] else
  if negb (Bool.eqb is_ret (s_idx s =? 0)) then [] else
  let structp := fmt_eqb (s_fmt s) FStruct in
  if structp && (MAX_SIZE <? m_total st + s_size s) then [] else
  let fetched : option (list N) :=
    if is_ret then get_retval inp s (m_val st)
    else if structp then Some (snd (get_struct_arg inp s (m_val st)))
    else Some (get_arg inp s (m_val st)) in
  match fetched with
  | None => []
  | Some val =>
      if is_strfmt (s_fmt s) then
        if MAX_SIZE <? m_total st + 4 then [] else
        let p0 := of_le (takeN 8 val) in
        let obj := match s_fmt s with
                   | FStdStr => match assoc p0 (wrds inp) with Some _ => [p0] | None => [] end
                   | _ => [] end in
        let p := match s_fmt s with
                 | FStdStr => match assoc p0 (wrds inp) with Some w => w | None => p0 end
                 | _ => p0 end in
        obj ++ (if p =? 0 then [] else if readable inp p then [p] else [])
      else []
  end.

Definition mst0 : mst :=
  {| m_val := val0; m_total := 0; m_hi := 0; m_done := []; m_ahead := []; m_stop := false; m_unmodelled := false |}.

Definition run (fill : N) (inp : inputs) (is_ret : bool) (specs : list spec) : mst :=
  fold_left (step fill inp is_ret) specs mst0.

Fixpoint derefs_from (fill : N) (inp : inputs) (is_ret : bool) (specs : list spec) (st : mst) : list N :=
  match specs with
  | [] => []
  | s :: r => step_derefs inp is_ret st s ++ derefs_from fill inp is_ret r (step fill inp is_ret st s)
  end.
(* every pointer save_to_argbuf dereferences while capturing the arguments / the return value of one call *)
Definition run_derefs (fill : N) (inp : inputs) (is_ret : bool) (specs : list spec) : list N :=
  derefs_from fill inp is_ret specs mst0.

(* save_to_argbuf's return value: None = -1U *)
Definition result (st : mst) : option N := if MAX_SIZE <? m_total st then None else Some (m_total st).

(* the argument buffer after save_argument / save_retval, as bytes from argbuf+0 on, over a
   background of [fill]; the size word is stored only on success *)
Definition image (fill : N) (st : mst) : list N :=
  (match result st with Some n => le_bytes 4 n | None => repN 4 fill end) ++ m_done st ++ m_ahead st.
(* one past the highest offset written, counting the size word *)
Definition high (st : mst) : N := match result st with Some _ => N.max 4 (m_hi st) | None => m_hi st end.

(* the payload record_ret_stack copies behind the record: argbuf[4 .. 4+size) *)
Definition payload (st : mst) : option (list N) :=
  match result st with Some n => Some (takeN n (m_done st)) | None => None end.

Fixpoint rstrip (fill : N) (l : list N) : list N :=
  match l with
  | [] => []
  | b :: r => match rstrip fill r with [] => if b =? fill then [] else [b] | r' => b :: r' end
  end.

(* ------------------------------------------------------------------ the record stream (record_ret_stack) *)
Definition rec_word (ty more depth addr : N) : N :=
  (ty + RECORD_MAGIC * 8 + (if more =? 0 then 0 else 4) + depth * 64 + addr * 65536) mod 2 ^ 64.
(* one record with an optional payload; the bytes between size and ALIGN(size,8) are not written *)
Definition enc_rec (bg : N) (time ty depth addr : N) (pl : option (list N)) : list N :=
  le_bytes 8 time ++
  le_bytes 8 (rec_word ty (match pl with Some _ => 1 | None => 0 end) depth addr) ++
  match pl with Some p => fit (ALIGN (lenN p) 8) bg p | None => [] end.

(* ------------------------------------------------------------------ reader: read_task_arg(s) *)
(* returns the argument data (task->args.data[0 .. len)) and the rest of the stream *)
Definition read_arg (s : spec) (acc : list N) (stream : list N) : option (list N * list N) :=
  if s_size s =? 0 then Some (acc, stream) else
  let hdr := if is_strfmt (s_fmt s) then 2 else 0 in
  if lenN stream <? hdr then None else
  let acc1 := acc ++ takeN hdr stream in
  let stream1 := dropN hdr stream in
  let size := if is_strfmt (s_fmt s) then of_le (takeN 2 stream) else s_size s in
  let rem := (lenN acc1 + size) mod 4 in
  let size' := if rem =? 0 then size else size + (4 - rem) in
  if lenN stream1 <? size' then None else
  Some (acc1 ++ takeN size' stream1, dropN size' stream1).

Fixpoint read_args_loop (is_ret : bool) (specs : list spec) (acc stream : list N) : option (list N * list N) :=
  match specs with
  | [] => Some (acc, stream)
  | s :: r =>
      if negb (Bool.eqb is_ret (s_idx s =? 0)) then read_args_loop is_ret r acc stream
      else match read_arg s acc stream with
           | Some (acc', stream') => read_args_loop is_ret r acc' stream'
           | None => None
           end
  end.
Definition read_args (is_ret : bool) (specs : list spec) (stream : list N) : option (list N * list N) :=
  match read_args_loop is_ret specs [] stream with
  | Some (data, rest) =>
      let rem := lenN data mod 8 in
      Some (data, if rem =? 0 then rest else dropN (8 - rem) rest)         (* fseek(8 - rem) *)
  | None => None
  end.

(* a decoded record of a task stream *)
Record drec := { d_time : N; d_type : N; d_depth : N; d_addr : N; d_args : option (list N) }.
(* specs_of addr: the argument specification list attached to the function at addr (or []) *)
Fixpoint decode_stream (fuel : nat) (specs_of : N -> list spec) (stream : list N) : list drec :=
  match fuel with
  | O => []
  | S k =>
      if lenN stream <? 16 then [] else
      let t := of_le (takeN 8 stream) in
      let w := of_le (takeN 8 (dropN 8 stream)) in
      let ty := w mod 4 in
      let more := (w / 4) mod 2 in
      let magic := (w / 8) mod 8 in
      let depth := (w / 64) mod 1024 in
      let addr := w / 65536 in
      let rest := dropN 16 stream in
      if negb (magic =? RECORD_MAGIC) then [] else
      if more =? 0 then
        {| d_time := t; d_type := ty; d_depth := depth; d_addr := addr; d_args := None |}
          :: decode_stream k specs_of rest
      else match read_args (ty =? UFTRACE_EXIT) (specs_of addr) rest with
           | Some (data, rest') =>
               {| d_time := t; d_type := ty; d_depth := depth; d_addr := addr; d_args := Some data |}
                 :: decode_stream k specs_of rest'
           | None => []
           end
  end.

(* ------------------------------------------------------------------ reader: get_argspec_string *)
Definition comma : list N := [44; 32].
Definition quote : list N := [34].
Definition squote : list N := [39].

Definition escaped_char (c : N) : list N :=            (* print_escaped_char *)
  if c =? 0 then [92; 48] else if c =? 8 then [92; 98] else if c =? 10 then [92; 110] else [c].

(* the C string at the start of l (up to the first 0) *)
Fixpoint cstr (l : list N) : list N :=
  match l with [] => [] | c :: r => if c =? 0 then [] else c :: cstr r end.
(* scan p to just behind the first byte with bit 7 set (or to the NUL); raw "%.*s" if p[0] != 0, else escaped *)
Fixpoint after_high (l : list N) : list N :=
  match l with [] => [] | c :: r => if 128 <=? c then r else after_high r end.
Definition show_str (body : list N) : list N :=
  let s := cstr body in                                  (* str[slen] = 0; printing stops at a NUL *)
  match after_high s with
  | _ :: _ => s                                          (* "%.*s" *)
  | [] => flat_map escaped_char s
  end.

Definition symtab := list (N * N * list N).              (* start, size, name *)
Fixpoint find_sym (t : symtab) (a : N) : option (list N) :=
  match t with
  | [] => None
  | (st, sz, nm) :: r => if (st <=? a) && (a <? st + sz) then Some nm else find_sym r a
  end.

Definition ffs_idx (size : N) : N :=                     (* ffs(size) - 1 for the sizes the parser produces *)
  if size mod 2 =? 1 then 0 else if size mod 4 =? 2 then 1 else if size mod 8 =? 4 then 2 else 3.
Definition lm_bits (idx : N) : N := match idx with 0 => 8 | 1 => 16 | 2 => 32 | _ => 64 end.

(* printf("%#<lm><fmt>", v): v is the 64-bit value handed to printf *)
Definition printf_int (fc : fmt) (bits : N) (v : N) : list N :=
  let u := v mod 2 ^ bits in
  match fc with
  | FHex => if u =? 0 then [48] else hexp u
  | FOct => if u =? 0 then [48] else 48 :: oct u
  | FUint => dec u
  | _ => sdec bits u
  end.

Definition lambda_name : list N := [60; 108; 97; 109; 98; 100; 97].       (* "<lambda" *)

(* one argument: text and the number of data bytes the formatter steps over *)
Definition show_one (syms : symtab) (s : spec) (data : list N) : list N * N :=
  let size := s_size s in
  let v := of_le (takeN size data) in                    (* memcpy(val.v, data, spec->size) into zeroed val *)
  let v64 := v mod 2 ^ 64 in
  match s_fmt s with
  | FStr | FStdStr =>
      let slen := of_le (takeN 2 data) in
      let body := takeN slen (dropN 2 data) in
      ((if (slen =? 4) && list_eqb body [255; 255; 255; 255] then null_str
        else quote ++ show_str body ++ quote) ++ (match s_fmt s with FStdStr => [115] | _ => [] end),
       ALIGN (slen + 2) 4)
  | FChar => (squote ++ escaped_char (nthN data 0) ++ squote, ALIGN size 4)
  | FFloat => ([63], ALIGN size 4)                       (* "%#f" rendering is not modelled *)
  | FPtr =>
      (match find_sym syms v64 with
       | Some nm => 38 :: nm
       | None => if v64 =? 0 then [48] else hexp v64
       end, ALIGN size 4)
  | FEnum => ([63], ALIGN size 4)                        (* not modelled *)
  | FStruct =>
      ((if list_eqb (s_name s) [] || list_eqb (s_name s) lambda_name then [] else s_name s)
       ++ (if size =? 0 then [123; 125] else [123; 46; 46; 46; 125]), ALIGN size 4)
  | FAuto =>
      (* val.i > 100000 || val.i < -100000, as a signed long *)
      let big := if v64 <? 2 ^ 63 then 100000 <? v64 else v64 <? 2 ^ 64 - 100000 in
      if big then
        if (4294901760 <? v64) && (v64 <=? 4294967295) then (printf_int FAuto 32 v64, ALIGN size 4)
        else (printf_int FHex (if size =? 8 then 64 else lm_bits (ffs_idx size)) v64, ALIGN size 4)
      else (printf_int FAuto (if size =? 8 then 64 else lm_bits (ffs_idx size)) v64, ALIGN size 4)
  | FUint =>
      (printf_int (if 100000 <? v64 then FHex else FUint) (if size =? 8 then 64 else lm_bits (ffs_idx size)) v64,
       ALIGN size 4)
  | f => (printf_int f (if size =? 8 then 64 else lm_bits (ffs_idx size)) v64, ALIGN size 4)
  end.

Fixpoint show_loop (syms : symtab) (is_ret : bool) (specs : list spec) (data : list N) (first : bool) : list N :=
  match specs with
  | [] => []
  | s :: r =>
      if negb (Bool.eqb is_ret (s_idx s =? 0)) then show_loop syms is_ret r data first
      else
        let '(txt, adv) := show_one syms s data in
        (if first then [] else comma) ++ txt ++
        (if is_ret then [] else show_loop syms is_ret r (dropN adv data) false)
  end.

(* the text replay prints behind the function name (entry) / behind "}" (exit) *)
Definition show_args (syms : symtab) (specs : list spec) (data : option (list N)) : list N :=
  match data with
  | None => [40; 41]
  | Some d => [40] ++ show_loop syms false specs d true ++ [41]
  end.
Definition show_ret (syms : symtab) (specs : list spec) (data : option (list N)) : list N :=
  match data with
  | None => []
  | Some d => [32; 61; 32] ++ show_loop syms true specs d true ++ [59]
  end.

(* --- the same text inside replay's buffer: char args[1024] (print_graph_rstack), written piece by piece by
   print_args / print_char (cmds/replay.c, after the fix: commits 618ee80 / 0cdad2d): a piece that does not fit is
   dropped as a whole and nothing more is taken; the loop over the arguments stops when fewer than 2 characters are left *)
Definition TEXT_SIZE : N := 1024.
Definition put (st : N * list N) (p : list N) : N * list N :=          (* st = (characters that still fit, text) *)
  let '(room, out) := st in if lenN p <=? room then (room - lenN p, out ++ p) else (0, out).

(* the pieces of one argument, in the order they are printed *)
Definition show_pieces (syms : symtab) (s : spec) (data : list N) : list (list N) * N :=
  match s_fmt s with
  | FStr | FStdStr =>
      let slen := of_le (takeN 2 data) in
      let body := takeN slen (dropN 2 data) in
      ((if (slen =? 4) && list_eqb body [255; 255; 255; 255] then [null_str]
        else let str := cstr body in
             [quote] ++ (match after_high str with _ :: _ => [str] | [] => map escaped_char str end) ++ [quote])
       ++ (match s_fmt s with FStdStr => [[115]] | _ => [] end),
       ALIGN (slen + 2) 4)
  | FChar => ([squote; escaped_char (nthN data 0); squote], ALIGN (s_size s) 4)
  | FStruct =>
      ([if list_eqb (s_name s) [] || list_eqb (s_name s) lambda_name then [] else s_name s;
        if s_size s =? 0 then [123; 125] else [123; 46; 46; 46; 125]], ALIGN (s_size s) 4)
  | _ => ([fst (show_one syms s data)], snd (show_one syms s data))
  end.

Fixpoint show_loop_b (syms : symtab) (is_ret : bool) (specs : list spec) (data : list N) (first : bool)
                     (st : N * list N) : N * list N :=
  match specs with
  | [] => st
  | s :: r =>
      if negb (Bool.eqb is_ret (s_idx s =? 0)) then show_loop_b syms is_ret r data first st
      else
        let st1 := if first then st else put st comma in
        let '(ps, adv) := show_pieces syms s data in
        let st2 := fold_left put ps st1 in
        if (fst st2 <=? 1) || is_ret then st2                          (* `if (len <= 2) break;` / first retval only *)
        else show_loop_b syms is_ret r (dropN adv data) false st2
  end.

Definition show_args_b (syms : symtab) (specs : list spec) (data : option (list N)) : list N :=
  match data with
  | None => [40; 41]
  | Some d => snd (put (show_loop_b syms false specs d true (put (TEXT_SIZE - 1, []) [40])) [41])
  end.
Definition show_ret_b (syms : symtab) (specs : list spec) (data : option (list N)) : list N :=
  match data with
  | None => []
  | Some d => let st := show_loop_b syms true specs d true (put (TEXT_SIZE - 1, []) [32; 61; 32]) in
              snd st ++ (if 1 <=? fst st then [59] else [])               (* `if (needs_semi_colon && len > 1)` *)
  end.

(* does any spec of this direction use a format whose text is not modelled? *)
Definition text_modelled (is_ret : bool) (specs : list spec) : bool :=
  forallb (fun s => negb (Bool.eqb is_ret (s_idx s =? 0)) ||
                    match s_fmt s with FFloat | FEnum => false | _ => true end) specs.

(* ------------------------------------------------------------------ one traced call, end to end *)
Record call := {
  c_specs : list spec;
  c_inp : inputs;
  c_fill : N;                     (* background byte of the argument buffer *)
  c_addr : N;                     (* child_ip *)
  c_t0 : N; c_t1 : N; c_t2 : N; c_t3 : N;   (* entry, child entry, child exit, exit *)
  c_child : N;                    (* address of the nested sentinel call *)
  c_has_args : bool;              (* TRIGGER_FL_ARGUMENT *)
  c_has_ret : bool;               (* TRIGGER_FL_RETVAL *)
  c_captured : bool               (* the exit hook was handed the return registers (retval != NULL);
                                     false: the frame was closed without a return value - exception unwinding,
                                     pthread_exit, --estimate-return (mcount_exit_filter_record(.., NULL)).
                                     Then the sentinel call follows the exit as a sibling:
                                     c_t1 = exit, c_t2 / c_t3 = entry / exit of the sentinel at depth 0 *)
}.

(* what record_trace_data hands to record_ret_stack for the EXIT record: there is a return value in the argument
   buffer only if the frame carries MCOUNT_FL_RETVAL *and* the exit hook got the return registers; otherwise the
   flag is dropped, the record has no payload and its `more` bit is clear (the buffer still holds the arguments
   of the entry: they are not a return value) *)
Definition exit_payload (has_ret captured : bool) (sx : mst) : option (list N) :=
  if has_ret && captured then payload sx else None.
Definition exit_rec (bg fill : N) (inp : inputs) (specs : list spec) (has_ret captured : bool)
    (t depth addr : N) : list N :=
  enc_rec bg t UFTRACE_EXIT depth addr (exit_payload has_ret captured (run fill inp true specs)).

Record observation := {
  o_img_entry : list N;           (* argbuf (and what follows it) after the entry hook, trailing fill stripped *)
  o_img_exit : list N;            (* same after the exit hook (buffer refilled in between) *)
  o_cut_entry : option N;         (* Some n: the driver found argbuf[4 .. 4+n) equal to the payload in o_stream *)
  o_cut_exit : option N;          (*         and left these n bytes out of o_img_entry / o_img_exit *)
  o_hi_entry : N;                 (* one past the last byte of the 2 KiB window that differs from the fill *)
  o_hi_exit : N;
  o_stream : list N;              (* the four records of the call as written to the shm buffer *)
  o_args_text : list N;           (* replay: text behind the name *)
  o_ret_text : list N             (* replay: text behind "}" *)
}.

Definition model_call (syms : symtab) (c : call) : observation :=
  let se := run (c_fill c) (c_inp c) false (c_specs c) in
  let sx := run (c_fill c) (c_inp c) true (c_specs c) in
  let pe := if c_has_args c then payload se else None in
  let saved := c_has_ret c && c_captured c in
  let px := exit_payload (c_has_ret c) (c_captured c) sx in
  {| o_img_entry := if c_has_args c then rstrip (c_fill c) (image (c_fill c) se) else [];
     o_img_exit := if saved then rstrip (c_fill c) (image (c_fill c) sx) else [];
     o_cut_entry := None; o_cut_exit := None;
     o_hi_entry := if c_has_args c then lenN (rstrip (c_fill c) (image (c_fill c) se)) else 0;
     o_hi_exit := if saved then lenN (rstrip (c_fill c) (image (c_fill c) sx)) else 0;
     o_stream := if c_captured c then
                   enc_rec 0 (c_t0 c) UFTRACE_ENTRY 0 (c_addr c) pe ++
                   enc_rec 0 (c_t1 c) UFTRACE_ENTRY 1 (c_child c) None ++
                   enc_rec 0 (c_t2 c) UFTRACE_EXIT 1 (c_child c) None ++
                   enc_rec 0 (c_t3 c) UFTRACE_EXIT 0 (c_addr c) px
                 else
                   enc_rec 0 (c_t0 c) UFTRACE_ENTRY 0 (c_addr c) pe ++
                   enc_rec 0 (c_t1 c) UFTRACE_EXIT 0 (c_addr c) px ++
                   enc_rec 0 (c_t2 c) UFTRACE_ENTRY 0 (c_child c) None ++
                   enc_rec 0 (c_t3 c) UFTRACE_EXIT 0 (c_child c) None;
     o_args_text := show_args_b syms (c_specs c) pe;
     o_ret_text := show_ret_b syms (c_specs c) px |}.

Definition unmodelled (c : call) : bool :=
  (existsb (fun s => (s_idx s =? 0) && fmt_eqb (s_fmt s) FFloat && (s_size s =? 10)) (c_specs c)).

(* the image with the n payload bytes behind the size word left out *)
Definition cut (n : option N) (img : list N) : list N :=
  match n with Some k => takeN 4 img ++ dropN (4 + k) img | None => img end.
(* the payload of the first record of a stream (as many bytes as there are) *)
Definition first_payload (n : N) (stream : list N) : list N := takeN n (dropN 16 stream).
Definition last_payload (n : N) (stream : list N) : list N := takeN n (dropN (lenN stream - ALIGN n 8) stream).

(* model = implementation?  (text only where the rendering is modelled) *)
Definition agrees (syms : symtab) (p : call * observation) : bool :=
  let '(c, o) := p in
  let m := model_call syms c in
  unmodelled c ||
  (list_eqb (cut (o_cut_entry o) (o_img_entry m)) (o_img_entry o) &&
   list_eqb (cut (o_cut_exit o) (o_img_exit m)) (o_img_exit o) &&
   list_eqb (o_stream m) (o_stream o) &&
   (negb (text_modelled false (c_specs c)) || list_eqb (o_args_text m) (o_args_text o)) &&
   (negb (text_modelled true (c_specs c)) || list_eqb (o_ret_text m) (o_ret_text o))).

(* ------------------------------------------------------------------ the property, executable *)
(* What the program really passed for one spec, stated by the generator of the call (the caller's
   view), not derived from the model of the fetch. *)
Inductive aval :=
| AInt (v : N)                    (* integer / pointer / char: the full 64-bit register or stack word *)
| AStr (s : list N)               (* readable C string with these bytes *)
| ANull                           (* NULL string pointer *)
| ABad (a : N)                    (* unreadable string pointer *)
| ASym (addr : N) (nm : list N)   (* pointer to the start of this function *)
| AFlt (bits : N)
| AStruct
| ATxt (cands : list (list N))    (* end-to-end runs: the renderings of the C-level value, stated by the driver *)
| AScr (ints : list Z) (strs : list (list N)) (flts : list (N * N))
                                  (* end-to-end runs, scripts: the integers / strings / floats (size, bits) that denote the value *)
| AAnyInt.                        (* end-to-end runs, scripts: an address the driver cannot know *)

Definition trunc_str (s : list N) : list N :=
  if lenN s <=? ARG_STR_MAX then s else takeN (ARG_STR_MAX - 3) s ++ [46; 46; 46].

(* acceptable renderings of one value *)
Definition accept (s : spec) (a : aval) : list (list N) :=
  let bits := 8 * s_size s in
  match a with
  | AInt v =>
      let u := v mod 2 ^ bits in
      match s_fmt s with
      | FChar => let c := v mod 256 in [squote ++ escaped_char c ++ squote; squote ++ [c] ++ squote]
      | FStruct => []
      | FStr | FStdStr | FFloat => []
      | _ =>
          [sdec bits u; dec u; (if u =? 0 then [48] else hexp u); (if u =? 0 then [48] else 48 :: oct u)]
      end
  | AStr str =>
      let t := trunc_str str in
      let sfx := match s_fmt s with FStdStr => [115] | _ => [] end in
      [quote ++ t ++ quote ++ sfx; quote ++ flat_map escaped_char t ++ quote ++ sfx]
  | ANull => [quote ++ null_str ++ quote ++ (match s_fmt s with FStdStr => [115] | _ => [] end); null_str]
  | ABad p => [quote ++ bad_ptr_text p ++ quote ++ (match s_fmt s with FStdStr => [115] | _ => [] end)]
  | ASym _ nm => [38 :: nm]
  | AFlt _ => []                  (* judged through `dump` (bits), not through the text *)
  | AStruct => [s_name s ++ [123; 46; 46; 46; 125]; s_name s ++ [123; 125]; [123; 46; 46; 46; 125]; [123; 125]]
  | ATxt cands => cands
  | AScr _ _ _ => []
  | AAnyInt => []
  end.

(* bytes the value needs in the payload (independent restatement of the format) *)
Definition need (s : spec) (a : aval) : N :=
  match a with
  | AStr str => ALIGN (N.min (lenN str) ARG_STR_MAX + 2) 4
  | ANull => 8
  | ABad p => ALIGN (lenN (bad_ptr_text p) + 2) 4
  | _ => ALIGN (s_size s) 4
  end.
Definition fits (l : list (spec * aval)) : bool :=
  fold_left (fun acc p => acc + need (fst p) (snd p)) l 0 <=? MAX_SIZE.

(* existsb, but lazy under vm_compute (orb evaluates both arguments) *)
Fixpoint anyb {A} (f : A -> bool) (l : list A) : bool :=
  match l with [] => false | a :: r => if f a then true else anyb f r end.

(* txt = c1 ", " c2 ", " ... with ci an acceptable rendering of the i-th value *)
Fixpoint match_vals (l : list (spec * aval)) (txt : list N) (first : bool) : bool :=
  match l with
  | [] => match txt with [] => true | _ => false end
  | (s, a) :: r =>
      let txt1 := if first then Some txt else if prefixb comma txt then Some (skipn 2 txt) else None in
      match txt1 with
      | None => false
      | Some t => anyb (fun c => if prefixb c t then match_vals r (skipn (length c) t) false else false) (accept s a)
      end
  end.

Definition strip_paren (txt : list N) : option (list N) :=
  match txt with
  | 40 :: r => match rev r with 41 :: m => Some (rev m) | _ => None end
  | _ => None
  end.
Definition strip_assign (txt : list N) : option (list N) :=
  match txt with
  | 32 :: 61 :: 32 :: r => match rev r with 59 :: m => Some (rev m) | _ => None end
  | _ => None
  end.

Definition has_float (l : list (spec * aval)) : bool :=
  existsb (fun p => match snd p with AFlt _ => true | _ => false end) l.

(* the argument text of replay shows the values passed (or nothing at all when they cannot fit) *)
(* a text that (nearly) fills replay's 1 KiB buffer may stop early: every value shown completely must be right, the
   last one may be cut *)
Definition TEXT_CUT : N := 900.      (* a piece is at most ARG_STR_MAX + 2 characters: a cut text is longer than 1023 - 100 *)
Fixpoint match_cut (l : list (spec * aval)) (txt : list N) (first : bool) : bool :=
  match l with
  | [] => match txt with [] => true | [41] => true | _ => false end
  | (s, a) :: r =>
      match txt with
      | [] => true                                  (* the buffer was full *)
      | [41] => true                                (* the loop stopped (fewer than 2 characters left), ")" still fitted *)
      | _ =>
        let txt1 := if first then Some txt
                    else if prefixb comma txt then Some (skipn 2 txt) else if prefixb txt comma then Some [] else None in
        match txt1 with
        | None => false
        | Some [] => true
        | Some t => anyb (fun c => if prefixb c t then match_cut r (skipn (length c) t) false else prefixb t c) (accept s a)
        end
      end
  end.
Definition ok_args (actual : list (spec * aval)) (txt : list N) : bool :=
  match actual with
  | [] => list_eqb txt [40; 41]
  | _ =>
      if has_float actual then true else
      if fits actual then
        (match strip_paren txt with Some t => match_vals actual t true | None => false end) ||
        ((TEXT_CUT <=? lenN txt) && (lenN txt <? TEXT_SIZE) &&
         match txt with 40 :: t => match_cut actual t true | _ => false end)
      else list_eqb txt [40; 41]
  end.
(* replay shows the first return-value spec only *)
Definition ok_ret (actual : list (spec * aval)) (txt : list N) : bool :=
  match actual with
  | [] => list_eqb txt []
  | first :: _ =>
      if has_float actual then true else
      if fits actual then match strip_assign txt with Some t => match_vals [first] t true | None => false end
      else list_eqb txt []
  end.

Record judged := { j_args : list (spec * aval); j_ret : list (spec * aval); j_obs : observation }.
Definition ok_call (j : judged) : bool :=
  ok_args (j_args j) (o_args_text (j_obs j)) && ok_ret (j_ret j) (o_ret_text (j_obs j)).

(* ------------------------------------------------------------------ the script readers *)
(* utils/script-python.c and utils/script-luajit.c setup_argument_context: a second decoder of the same bytes
   (of task->args.data at analysis time, of the frame's argument buffer at record time).  What it hands to the
   interpreter, before the language's own conversion: *)
Inductive sitem :=
| VInt (size raw : N)              (* integer-class formats d i u x o p e: the low `size` bytes *)
| VFlt (size raw : N)              (* float formats: the raw bytes (analysis time only) *)
| VStr (b : list N)                (* a C string: string, char, "struct: name{}" *)
| VNone.                           (* nothing is inserted (integer size not 1, 2, 4, 8) *)

Definition struct_text (nm : list N) : list N := [115; 116; 114; 117; 99; 116; 58; 32] ++ nm ++ [123; 125].  (* "struct: %s{}" *)

Definition script_one (s : spec) (data : list N) : sitem * N :=
  let size := s_size s in
  match s_fmt s with
  | FStr | FStdStr =>
      let slen := of_le (takeN 2 data) in
      let body := takeN slen (dropN 2 data) in
      (VStr (if (slen =? 4) && list_eqb body [255; 255; 255; 255] then null_str else cstr body), ALIGN (slen + 2) 4)
  | FChar => (VStr (cstr [nthN data 0]), ALIGN size 4)
  | FFloat => (VFlt size (of_le (takeN size data)), ALIGN size 4)
  | FStruct => (VStr (struct_text (s_name s)), ALIGN size 4)
  | _ => ((if (size =? 1) || (size =? 2) || (size =? 4) || (size =? 8) then VInt size (of_le (takeN size data)) else VNone),
          ALIGN size 4)
  end.

Fixpoint script_loop (is_ret : bool) (specs : list spec) (data : list N) : list sitem :=
  match specs with
  | [] => []
  | s :: r =>
      if negb (Bool.eqb is_ret (s_idx s =? 0)) then script_loop is_ret r data
      else let '(v, adv) := script_one s data in v :: script_loop is_ret r (dropN adv data)
  end.

(* what the script sees, after the interpreter's conversion *)
Inductive oitem :=
| OInt (z : Z)                     (* Python int / integral Lua number *)
| OFlt (size bits : N)             (* Python float / Lua number, as the raw bytes of a float of that size *)
| OStr (b : list N)                (* Python str (its UTF-8 bytes) / Lua string *)
| OInvalid                         (* Python: "<invalid value>" (PyUnicode_FromString refused the bytes) *)
| ONone.
Inductive lang := Py | Lua.

Definition signed (bits raw : N) : Z :=
  if raw <? 2 ^ (bits - 1) then Z.of_N raw else (Z.of_N raw - Z.of_N (2 ^ bits))%Z.

(* strict UTF-8 (RFC 3629), as PyUnicode_FromString decodes *)
Definition cont (b : N) : bool := (128 <=? b) && (b <=? 191).
Fixpoint utf8_valid (l : list N) : bool :=
  match l with
  | [] => true
  | a :: r =>
      if a <? 128 then utf8_valid r
      else if (194 <=? a) && (a <=? 223) then
        match r with b :: r' => cont b && utf8_valid r' | _ => false end
      else if (224 <=? a) && (a <=? 239) then
        match r with
        | b :: c :: r' =>
            (if a =? 224 then (160 <=? b) && (b <=? 191) else if a =? 237 then (128 <=? b) && (b <=? 159) else cont b)
            && cont c && utf8_valid r'
        | _ => false
        end
      else if (240 <=? a) && (a <=? 244) then
        match r with
        | b :: c :: d :: r' =>
            (if a =? 240 then (144 <=? b) && (b <=? 191) else if a =? 244 then (128 <=? b) && (b <=? 143) else cont b)
            && cont c && cont d && utf8_valid r'
        | _ => false
        end
      else false
  end.

Definition conv (l : lang) (v : sitem) : oitem :=
  match v with
  | VInt size raw =>
      match l with
      | Py => OInt (if size =? 8 then Z.of_N raw else signed (8 * size) raw)   (* val.c / val.s / val.i; 8 bytes: unsigned *)
      | Lua => OInt (signed (8 * size) raw)                                      (* lua_pushinteger, then a double *)
      end
  | VFlt size raw => if size =? 10 then OFlt 10 0 else OFlt size raw     (* (double)long double: not compared bit by bit *)
  | VStr b => match l with Py => if utf8_valid b then OStr b else OInvalid | Lua => OStr b end
  | VNone => ONone
  end.

(* the "args" list (all argument specs) / the "retval" value (the first return value spec) *)
Definition script_args (l : lang) (specs : list spec) (data : option (list N)) : option (list oitem) :=
  match data with
  | None => None
  | Some d => if lenN d =? 0 then None else            (* `if (sc_ctx->arglen)`: an empty payload is no payload *)
              match script_loop false specs d with [] => None | vs => Some (map (conv l) vs) end
  end.
Definition script_ret (l : lang) (specs : list spec) (data : option (list N)) : option (list oitem) :=
  match data with
  | None => None
  | Some d => if lenN d =? 0 then None else
              match script_loop true specs d with [] => None | v :: _ => Some [conv l v] end
  end.

Definition oitem_eqb (l : lang) (m o : oitem) : bool :=
  match m, o with
  | OInt a, OInt b =>
      match l with
      | Py => (a =? b)%Z
      | Lua => (* a Lua number is a double: exact below 2^53, the nearest double above *)
               if (Z.abs a <? 2 ^ 53)%Z then (a =? b)%Z else (Z.abs (a - b) * 2 ^ 53 <=? Z.abs a)%Z
      end
  | OFlt s1 b1, OFlt s2 b2 => (s1 =? s2) && (b1 =? b2)
  | OStr a, OStr b => list_eqb a b
  | OInvalid, OInvalid => true
  | ONone, ONone => true
  | _, _ => false
  end.
Fixpoint olist_eqb (l : lang) (a b : list oitem) : bool :=
  match a, b with
  | [], [] => true
  | x :: a', y :: b' => oitem_eqb l x y && olist_eqb l a' b'
  | _, _ => false
  end.
Definition oopt_eqb (l : lang) (a b : option (list oitem)) : bool :=
  match a, b with
  | None, None => true
  | Some x, Some y => olist_eqb l x y
  | _, _ => false
  end.

(* one script run over the call: ctx["args"] at entry, ctx["retval"] at exit (None: the key is absent) *)
Record sobs := { so_args : option (list oitem); so_ret : option (list oitem) }.

(* does the script see the value that was passed?  "matching", per format:
   integer-class (d i u x o p e): an integer congruent to the value modulo 2^(8*size)  (the readers sign-extend sizes
     1, 2, 4 and hand 8 bytes over as unsigned (Python) / signed (Lua); a Lua number above 2^53 is the nearest double);
   float: a float with exactly the same bits at the spec's size;
   string: the same bytes (cut to ARG_STR_MAX-3 + "..." like everywhere); NULL -> "NULL"; unreadable -> "<0x...>";
     Python only: bytes that are not valid UTF-8 arrive as "<invalid value>";
   char: a string of that one byte (empty for NUL; Python: "<invalid value>" for a byte >= 0x80);
   struct: the string "struct: NAME{}" (the contents are not available to scripts). *)
Definition ok_sitem (l : lang) (s : spec) (a : aval) (o : oitem) : bool :=
  let bits := 8 * s_size s in
  let str_ok (b : list N) :=
    match l, o with
    | Py, OStr x => utf8_valid b && list_eqb x b
    | Py, OInvalid => negb (utf8_valid b)
    | Lua, OStr x => list_eqb x b
    | _, _ => false
    end in
  match a with
  | AInt w =>
      match s_fmt s with
      | FChar => str_ok (cstr [w mod 256])
      | FStr | FStdStr | FFloat | FStruct => false
      | _ => match o with
             | OInt z => match l with
                         | Lua => if s_size s =? 8 then oitem_eqb Lua (OInt (signed 64 (w mod 2 ^ 64))) o
                                  else (z mod Z.of_N (2 ^ bits) =? Z.of_N (w mod 2 ^ bits))%Z
                         | Py => (z mod Z.of_N (2 ^ bits) =? Z.of_N (w mod 2 ^ bits))%Z
                         end
             | _ => false
             end
      end
  | ASym addr _ => match o with OInt z => (z mod 2 ^ 64 =? Z.of_N addr)%Z | _ => false end
  | AStr str => str_ok (trunc_str str)
  | ANull => str_ok null_str
  | ABad p => str_ok (bad_ptr_text p)
  | AFlt bits' => match o with
                  | OFlt sz b => (sz =? s_size s) && ((sz =? 10) || (b =? bits' mod 2 ^ bits))
                  | _ => false
                  end
  | AStruct => str_ok (struct_text (s_name s))
  | AScr ints strs flts =>
      match o with
      | OInt z => existsb (fun c => oitem_eqb l (OInt c) o || ((z - c) mod 2 ^ 64 =? 0)%Z) ints   (* the same 64 bits *)
      | OStr x => existsb (list_eqb x) strs
      | OFlt sz b => existsb (fun p => (fst p =? sz) && (snd p =? b)) flts
      | _ => false
      end
  | AAnyInt => match o with OInt _ => true | _ => false end
  | _ => false
  end.
Fixpoint ok_sitems (l : lang) (vals : list (spec * aval)) (os : list oitem) : bool :=
  match vals, os with
  | [], [] => true
  | (s, a) :: r, o :: os' => ok_sitem l s a o && ok_sitems l r os'
  | _, _ => false
  end.
(* nothing to hand over: no spec, or only zero-sized structs (the readers treat an empty payload as none) *)
Definition no_bytes (actual : list (spec * aval)) : bool :=
  fold_left (fun acc p => acc + need (fst p) (snd p)) actual 0 =? 0.
Definition ok_script_args (l : lang) (actual : list (spec * aval)) (obs : option (list oitem)) : bool :=
  if no_bytes actual then match obs with None => true | Some _ => false end else
  match actual with
  | [] => match obs with None => true | Some _ => false end
  | _ => if fits actual then match obs with Some os => ok_sitems l actual os | None => false end
         else match obs with None => true | Some _ => false end
  end.
Definition ok_script_ret (l : lang) (actual : list (spec * aval)) (obs : option (list oitem)) : bool :=
  if no_bytes actual then match obs with None => true | Some _ => false end else
  match actual with
  | [] => match obs with None => true | Some _ => false end
  | first :: _ => if fits actual then match obs with Some [o] => ok_sitem l (fst first) (snd first) o | _ => false end
                  else match obs with None => true | Some _ => false end
  end.

(* ------------------------------------------------------------------ the spec list of one function: writer = readers *)
(* utils/filter.c: add_arg_spec (a spec of the same class and key replaces the fields of the old one and keeps its
   place, otherwise it is appended), update_trigger (all specs of one option), update_filter ("ignore auto-args if it
   already has argspec": an automatic argument / return value spec is dropped as a whole once the function has an
   explicit one of that direction).  libmcount (mcount_trigger_init) and every reader (open_data_file ->
   setup_fstack_args) apply: explicit -A, explicit -R, then - with --auto-args - the automatic argument specs and the
   automatic return value specs. *)
Definition same_key (a b : spec) : bool :=
  match s_type a, s_type b with
  | TIndex, TIndex | TFloat, TFloat => s_idx a =? s_idx b
  | TReg, TReg | TStack, TStack => (s_u a =? s_u b)%Z
  | _, _ => false
  end.
Fixpoint add_arg_spec (l : list spec) (a : spec) : list spec :=
  match l with
  | [] => [a]
  | o :: r =>
      if same_key a o
      then {| s_idx := s_idx o; s_fmt := s_fmt a; s_size := s_size a; s_type := s_type a; s_u := s_u a;
              s_regs := s_regs a; s_name := s_name a |} :: r
      else o :: add_arg_spec r a
  end.
(* the same with the exact-match mark of each list element: a spec that came from a regex pattern does not replace one
   that came from the function's exact name ("do not overwrite exact match by regex match") *)
Fixpoint add_arg_spec_x (l : list (spec * bool)) (a : spec) (exact : bool) : list (spec * bool) :=
  match l with
  | [] => [(a, exact)]
  | (o, oex) :: r =>
      if same_key a o
      then (if exact || negb oex
            then ({| s_idx := s_idx o; s_fmt := s_fmt a; s_size := s_size a; s_type := s_type a; s_u := s_u a;
                     s_regs := s_regs a; s_name := s_name a |}, exact)
            else (o, oex)) :: r
      else (o, oex) :: add_arg_spec_x r a exact
  end.
(* all options that match one function, in the order given: (exact name?, specs) *)
Definition merge_opts (opts : list (bool * list spec)) : list spec :=
  map fst (fold_left (fun l o => fold_left (fun l' a => add_arg_spec_x l' a (fst o)) (snd o) l) opts []).
Definition zlist_eqb (a b : list Z) : bool :=
  (length a =? length b)%nat && forallb (fun p => (fst p =? snd p)%Z) (combine a b).
Definition type_eqb (a b : atype) : bool :=
  match a, b with TIndex, TIndex | TFloat, TFloat | TReg, TReg | TStack, TStack => true | _, _ => false end.
Definition spec_eqb (a b : spec) : bool :=
  (s_idx a =? s_idx b) && fmt_eqb (s_fmt a) (s_fmt b) && (s_size a =? s_size b) && type_eqb (s_type a) (s_type b) &&
  (match s_type a with TReg | TStack => (s_u a =? s_u b)%Z | _ => true end) &&
  (match s_fmt a with FStruct => zlist_eqb (s_regs a) (s_regs b) | _ => true end) && list_eqb (s_name a) (s_name b).
Fixpoint specs_eqb (a b : list spec) : bool :=
  match a, b with [] , [] => true | x :: a', y :: b' => spec_eqb x y && specs_eqb a' b' | _, _ => false end.
Record entry := { e_args : bool; e_ret : bool; e_specs : list spec }.     (* TRIGGER_FL_ARGUMENT / _RETVAL, the list *)
Definition entry0 : entry := {| e_args := false; e_ret := false; e_specs := [] |}.
(* one option (the specs of one direction for this function); auto: it comes from --auto-args *)
Definition opt_apply (auto is_ret : bool) (specs : list spec) (e : entry) : entry :=
  match specs with
  | [] => e
  | _ => if auto && (if is_ret then e_ret e else e_args e) then e
         else {| e_args := e_args e || negb is_ret; e_ret := e_ret e || is_ret;
                 e_specs := fold_left add_arg_spec specs (e_specs e) |}
  end.
(* explicit -A specs, explicit -R specs, automatic argument specs, automatic return value specs of one function *)
Record fopts := { o_ea : list spec; o_er : list spec; o_aa : list spec; o_ar : list spec }.
(* libmcount/mcount.c mcount_trigger_init *)
Definition writer_entry (o : fopts) : entry :=
  opt_apply true true (o_ar o) (opt_apply true false (o_aa o) (opt_apply false true (o_er o) (opt_apply false false (o_ea o) entry0))).
(* utils/data-file.c open_data_file: setup_fstack_args(argspec, retspec), then - if recorded with --auto-args -
   setup_fstack_args(autoarg, autoret) with setting.auto_args = true *)
Definition reader_entry (o : fopts) : entry :=
  let explicit := opt_apply false true (o_er o) (opt_apply false false (o_ea o) entry0) in
  opt_apply true true (o_ar o) (opt_apply true false (o_aa o) explicit).
(* the reader with the two steps exchanged (automatic specs first, as in seed C09-6) *)
Definition reader_entry_auto_first (o : fopts) : entry :=
  let automatic := opt_apply true true (o_ar o) (opt_apply true false (o_aa o) entry0) in
  opt_apply false true (o_er o) (opt_apply false false (o_ea o) automatic).

(* ---- specs that reach one function through -T (trigger actions) as well as through -A / -R
   libmcount (mcount_trigger_init): uftrace_setup_trigger, then _argument, then _retval: the actions of -T in the order
   given - one action may carry argument and return value specs, in any order -, then the -A options, then the -R options.
   The readers get two lines from the info file (cmds/info.c fill_arg_spec -> utils/auto-args.c extract_trigger_args):
   argspec = the argument specs of every -T action, then the -A options; retspec = the return value specs of every -T
   action (with their format, after the fix), then the -R options; they apply argspec, then retspec. *)
Definition is_ret (s : spec) : bool := s_idx s =? 0.
Definition dirb (d : bool) (s : spec) : bool := Bool.eqb (is_ret s) d.
Definition opts := list (bool * list spec).                 (* (exact name?, specs) per option / action *)
Definition restrict (d : bool) (o : opts) : opts := map (fun x => (fst x, filter (dirb d) (snd x))) o.
Record xopts := { x_t : opts; x_a : opts; x_r : opts }.     (* -T actions, -A options, -R options for this function *)
Definition writer_opts (x : xopts) : opts := x_t x ++ x_a x ++ x_r x.
Definition reader_opts (x : xopts) : opts := restrict false (x_t x) ++ x_a x ++ restrict true (x_t x) ++ x_r x.
(* the info lines put together the other way round (seed C09-8): options first, trigger specs behind them *)
Definition reader_opts_options_first (x : xopts) : opts :=
  x_a x ++ restrict false (x_t x) ++ x_r x ++ restrict true (x_t x).
(* extract_trigger_args as found: the return value spec of a trigger action was reduced to a plain `retval` *)
Definition plain_retval (s : spec) : spec :=
  {| s_idx := 0; s_fmt := FAuto; s_size := 8; s_type := TIndex; s_u := 0%Z; s_regs := []; s_name := [] |}.
Definition reader_opts_legacy (x : xopts) : opts :=
  restrict false (x_t x) ++ x_a x ++ map (fun o => (fst o, map plain_retval (snd o))) (restrict true (x_t x)) ++ x_r x.
(* what the payload of one direction is laid out by: the specs of that direction, in list order *)
Definition dir_specs (d : bool) (o : opts) : list spec := filter (dirb d) (merge_opts o).

(* ---- format e:<enum>: utils/auto-args.c convert_enum_val (replay get_argspec_string, dump pr_args and the scripts'
   string all go through get_enum_string with the recorded 8 bytes as a long).  The table is the list of enumerators
   parse_enum_string keeps, sorted by value, largest first.  The value is looked up as it is; a value 2^31 .. 2^32-1
   (a negative enumerator of an int-sized enum, passed in the low half of a register) also as that 32-bit int (after
   the fix); otherwise the enumerators that fit are subtracted in list order ("OR-ing bit flags") and what is left is
   shown in hex; without any name the number itself.  `val -= e_val->val` wraps like the machine's 64-bit long. *)
Definition etable := list (list N * Z).
Inductive edisp := EName (e : list N * Z) | EOr (es : list (list N * Z)) (rem : Z) | ENum (v : Z).
Definition to_long (v : N) : Z := let z := Z.of_N (v mod 2 ^ 64) in (if z <? 2 ^ 63 then z else z - 2 ^ 64)%Z.
Definition wrap_long (z : Z) : Z := let m := (z mod 2 ^ 64)%Z in (if m <? 2 ^ 63 then m else m - 2 ^ 64)%Z.
Definition find_exact (t : etable) (v : Z) : option (list N * Z) := find (fun e => (snd e =? v)%Z) t.
Fixpoint or_loop (t : etable) (v : Z) (acc : list (list N * Z)) : list (list N * Z) * Z :=
  match t with
  | [] => (acc, v)
  | e :: r =>
      let acc' := if (snd e <=? v)%Z then acc ++ [e] else acc in
      let v' := if (snd e <=? v)%Z then wrap_long (v - snd e)%Z else v in
      if (v' =? 0)%Z then (acc', v') else or_loop r v' acc'
  end.
Definition int_range (v : Z) : bool := ((2 ^ 31 <=? v) && (v <? 2 ^ 32))%Z.
Definition conv_enum (t : etable) (v : Z) : edisp :=
  match find_exact t v with
  | Some e => EName e
  | None =>
      match (if int_range v then find_exact t (v - 2 ^ 32)%Z else None) with
      | Some e => EName e
      | None => match or_loop t v [] with
                | ([], r) => ENum r
                | (es, r) => EOr es r
                end
      end
  end.
(* the code as found: no second look-up *)
Definition conv_enum_legacy (t : etable) (v : Z) : edisp :=
  match find_exact t v with
  | Some e => EName e
  | None => match or_loop t v [] with ([], r) => ENum r | (es, r) => EOr es r end
  end.
(* the display with the value cut to an int first (seed C09-9) *)
Definition conv_enum_int (t : etable) (v : Z) : edisp :=
  conv_enum_legacy t (let w := (v mod 2 ^ 32)%Z in if (w <? 2 ^ 31)%Z then w else w - 2 ^ 32)%Z.
(* what a display stands for *)
Definition denote (d : edisp) : Z :=
  match d with
  | EName e => snd e
  | EOr es r => (fold_right Z.add 0 (map snd es) + r)%Z
  | ENum v => v
  end.
Definition ulong (v : Z) : N := Z.to_N (v mod 2 ^ 64).
Fixpoint join_names (es : list (list N * Z)) : list N :=
  match es with [] => [] | [e] => fst e | e :: r => fst e ++ [124] ++ join_names r end.
Definition num_text (v : Z) : list N :=
  if (100000 <? Z.abs v)%Z then [48; 120] ++ hex (ulong v)
  else if (v <? 0)%Z then [45] ++ dec (Z.to_N (- v)) else dec (Z.to_N v).
Definition enum_text (d : edisp) : list N :=
  match d with
  | EName e => fst e
  | EOr es r => join_names es ++ (if (r =? 0)%Z then [] else [43; 48; 120] ++ hex (ulong r))
  | ENum v => num_text v
  end.
(* a case of the driver: table, recorded value, the text replay / dump / the scripts showed for it *)
Definition enum_agrees (c : etable * N * list N) : bool :=
  let '(t, v, txt) := c in list_eqb (enum_text (conv_enum t (to_long v))) txt.
(* ... and the property itself: the text stands for the value passed (as a long, or as the int in its low half) *)
Definition enum_ok (c : etable * N * list N) : bool :=
  let '(t, v, txt) := c in
  let d := conv_enum t (to_long v) in
  list_eqb (enum_text d) txt &&
  (((denote d - to_long v) mod 2 ^ 64 =? 0)%Z ||
   (int_range (to_long v) && ((denote d - (to_long v - 2 ^ 32)) mod 2 ^ 64 =? 0)%Z)).

(* test cases as the driver writes them: the specs are taken from the call *)
Definition judge_of (c : call) (o : observation) (aargs aret : list aval) : judged :=
  {| j_args := combine (filter (fun s => negb (s_idx s =? 0)) (c_specs c)) aargs;
     (* a call that was closed without a return value must be shown without one *)
     j_ret := if c_captured c then combine (filter (fun s => s_idx s =? 0) (c_specs c)) aret else [];
     j_obs := o |}.
Definition Sp (idx : N) (f : fmt) (size : N) (t : atype) (u : N) : spec :=
  {| s_idx := idx; s_fmt := f; s_size := size; s_type := t; s_u := Z.of_N u; s_regs := []; s_name := [] |}.
Definition AStrAt (inp : inputs) (a : N) : aval :=       (* the string the inputs hold at address a *)
  match lookup_str (strs inp) a with Some s => AStr s | None => ABad a end.
(* the word the caller placed in register k (0 = rdi) / stack slot k (1 = first) / retval[k] *)
Definition ARegAt (inp : inputs) (k : N) : aval := AInt (nthN (regs inp) k).
Definition AStkAt (inp : inputs) (k : N) : aval := AInt (nthN (stk inp) (k - 1)).
Definition ARetAt (inp : inputs) (k : N) : aval := AInt (nthN (rets inp) k).
Record tcase := { t_call : call; t_obs : observation; t_aargs : list aval; t_aret : list aval;
                  t_py : option sobs; t_lua : option sobs }.       (* `uftrace script` on the same stream *)
Definition script_model (l : lang) (c : call) : sobs :=
  let se := run (c_fill c) (c_inp c) false (c_specs c) in
  let sx := run (c_fill c) (c_inp c) true (c_specs c) in
  {| so_args := script_args l (c_specs c) (if c_has_args c then payload se else None);
     so_ret := script_ret l (c_specs c) (exit_payload (c_has_ret c) (c_captured c) sx) |}.
Definition script_agrees (l : lang) (c : call) (o : option sobs) : bool :=
  match o with
  | None => true
  | Some so => let m := script_model l c in
               oopt_eqb l (so_args m) (so_args so) && oopt_eqb l (so_ret m) (so_ret so)
  end.
Definition t_agrees (syms : symtab) (t : tcase) : bool :=
  agrees syms (t_call t, t_obs t) &&
  (unmodelled (t_call t) || (script_agrees Py (t_call t) (t_py t) && script_agrees Lua (t_call t) (t_lua t))).
Definition script_ok (l : lang) (j : judged) (o : option sobs) : bool :=
  match o with
  | None => true
  | Some so => ok_script_args l (j_args j) (so_args so) && ok_script_ret l (j_ret j) (so_ret so)
  end.
(* the values are shown, and nothing was stored outside the frame's argument buffer *)
Definition t_ok (t : tcase) : bool :=
  ok_call (judge_of (t_call t) (t_obs t) (t_aargs t) (t_aret t)) &&
  (o_hi_entry (t_obs t) <=? ARGBUF_SIZE) && (o_hi_exit (t_obs t) <=? ARGBUF_SIZE) &&
  script_ok Py (judge_of (t_call t) (t_obs t) (t_aargs t) (t_aret t)) (t_py t) &&
  script_ok Lua (judge_of (t_call t) (t_obs t) (t_aargs t) (t_aret t)) (t_lua t).

Definition t_ok_script (t : tcase) : bool :=
  script_ok Py (judge_of (t_call t) (t_obs t) (t_aargs t) (t_aret t)) (t_py t) &&
  script_ok Lua (judge_of (t_call t) (t_obs t) (t_aargs t) (t_aret t)) (t_lua t).

(* run-length coded byte strings in case files: v < 256 is a byte, otherwise (v / 256) copies of v mod 256 *)
Definition unrle (l : list N) : list N :=
  flat_map (fun v => if v <? 256 then [v] else repeat (v mod 256) (N.to_nat (v / 256))) l.

(* a task stream decodes to the expected sequence of (type, depth, addr): nothing after a payload
   is lost or misread *)
Definition skeleton (l : list drec) : list (N * N * N) := map (fun d => (d_type d, d_depth d, d_addr d)) l.

Fixpoint bad_indices {A} (f : A -> bool) (l : list A) (i : nat) : list nat :=
  match l with
  | [] => []
  | x :: r => if f x then bad_indices f r (S i) else i :: bad_indices f r (S i)
  end.
