(* C09 - what was wrong before the fix: commits (len98, overflow, c64), proved about the LEGACY model. *)
From Coq Require Import NArith ZArith List Bool.
Import ListNotations.
Require Import UV.Gen.Consts UV.C09.Legacy.
Local Open Scope N_scope.

(* ------------------------------------------------------------------ refutations (the code as it is) *)
Definition spec_str (n : N) : spec := Sp n FStr 8 TIndex 0.
Definition inp1 (rdi : N) (ss : list (N * list N)) : inputs :=
  {| regs := [rdi; 0; 0; 0; 0; 0]; xmm := []; stk := []; rets := [0; 0]; strs := ss; wrds := [] |}.
Definition s98 : list N := repeat 65 98.

(* a string of exactly ARG_STR_MAX characters fits, yet it is recorded (and shown) as 95 characters + "..." *)
Lemma len98_refuted :
  let st := run 0 (inp1 4096 [(4096, s98)]) false [spec_str 1] in
  payload st = Some (le_bytes 2 98 ++ repeat 65 95 ++ [46; 46; 46]) /\
  ok_args [(spec_str 1, AStr s98)] (show_args [] [spec_str 1] (payload st)) = false.
Proof. vm_compute. split; reflexivity. Qed.

(* one character less and it is intact *)
Lemma len97_ok :
  let st := run 0 (inp1 4096 [(4096, repeat 65 97)]) false [spec_str 1] in
  ok_args [(spec_str 1, AStr (repeat 65 97))] (show_args [] [spec_str 1] (payload st)) = true.
Proof. vm_compute. reflexivity. Qed.

(* `arg1/c64,arg2/i32`: the writer advances 8 bytes for the char, get_argspec_string 4: arg2 is shown
   from the upper half of arg1 *)
Lemma c64_refuted :
  let specs := [Sp 1 FChar 8 TIndex 0; Sp 2 FSint 4 TIndex 0] in
  let inp := {| regs := [0x1122334455667741; 7; 0; 0; 0; 0]; xmm := []; stk := []; rets := []; strs := []; wrds := [] |} in
  let st := run 0 inp false specs in
  show_args [] specs (payload st) = [40; 39; 65; 39; 44; 32] ++ dec 0x11223344 ++ [41] /\
  ok_args [(Sp 1 FChar 8 TIndex 0, AInt 0x1122334455667741); (Sp 2 FSint 4 TIndex 0, AInt 7)]
          (show_args [] specs (payload st)) = false.
Proof. vm_compute. split; reflexivity. Qed.

(* the string "\xff\xff\xff\xff" is shown as NULL (the readers' NULL marker; the writer stores "NULL" for NULL) *)
Lemma ffff_refuted :
  let st := run 0 (inp1 4096 [(4096, [255; 255; 255; 255])]) false [spec_str 1] in
  show_args [] [spec_str 1] (payload st) = [40] ++ null_str ++ [41].
Proof. vm_compute. reflexivity. Qed.

(* stores past the frame's argument buffer *)
(* (a) on the success path: 1016 bytes of struct, then "ab": total 1020 is accepted, the NUL goes to argbuf[1024] *)
Lemma overflow_success_refuted :
  let specs := [ {| s_idx := 30; s_fmt := FStruct; s_size := 1016; s_type := TStack; s_u := 1%Z; s_regs := []; s_name := [] |};
                 spec_str 1 ] in
  let st := run 0 (inp1 4096 [(4096, [97; 98])]) false specs in
  result st = Some 1020 /\ m_hi st = ARGBUF_SIZE + 1.
Proof. vm_compute. split; reflexivity. Qed.

(* (b) on the failure path a string writes two bytes past the end *)
Lemma overflow_fail_refuted :
  let specs := [ {| s_idx := 30; s_fmt := FStruct; s_size := 1016; s_type := TStack; s_u := 1%Z; s_regs := []; s_name := [] |};
                 spec_str 1 ] in
  let st := run 0 (inp1 4096 [(4096, [97; 98; 99; 100; 101])]) false specs in
  result st = None /\ m_hi st = ARGBUF_SIZE + 2.
Proof. vm_compute. split; reflexivity. Qed.

(* (c) scalars are copied before the limit is looked at: n eight-byte arguments store 8n bytes *)
Definition many_specs (n : nat) : list spec := map (fun i => Sp (N.of_nat i) FAuto 8 TIndex 0) (seq 1 n).
Lemma overflow_scalars_refuted :
  let st := run 0 (inp1 0 []) false (many_specs 100 ++ map (fun i => Sp 1 FHex 8 TStack (N.of_nat i)) (seq 1 40)) in
  result st = None /\ m_hi st = ARGBUF_SIZE + 100.
Proof. vm_compute. split; reflexivity. Qed.

(* argument numbers 101..108 alias the xmm register numbers in mcount_get_register_arg *)
Lemma arg101_reads_xmm0_refuted :
  let inp := {| regs := [0; 0; 0; 0; 0; 0]; xmm := [0xdeadbeef]; stk := repeat 7 120; rets := []; strs := []; wrds := [] |} in
  takeN 8 (get_arg inp (Sp 101 FAuto 8 TIndex 0) val0) = le_bytes 8 0xdeadbeef /\
  takeN 8 (get_arg inp (Sp 100 FAuto 8 TIndex 0) val0) = le_bytes 8 7.
Proof. vm_compute. split; reflexivity. Qed.

(* a struct passed on the stack whose size is not a multiple of 4 loses its last bytes (mcount_memcpy4) *)
Lemma struct18_tail_lost_refuted :
  let sp := {| s_idx := 1; s_fmt := FStruct; s_size := 18; s_type := TStack; s_u := 1%Z; s_regs := []; s_name := [] |} in
  let inp := {| regs := []; xmm := []; stk := [0x0807060504030201; 0x100f0e0d0c0b0a09; 0x1817161514131211]; rets := []; strs := []; wrds := [] |} in
  payload (run 0xA5 inp false [sp]) =
  Some [1; 2; 3; 4; 5; 6; 7; 8; 9; 10; 11; 12; 13; 14; 15; 16; 0xA5; 0xA5; 0xA5; 0xA5].
Proof. vm_compute. reflexivity. Qed.


(* before fix df3e32a: a struct passed in SSE registers kept only the low 4 bytes of each xmm register *)
Lemma struct_sse_refuted :
  let sp := {| s_idx := 1; s_fmt := FStruct; s_size := 16; s_type := TReg; s_u := 102%Z; s_regs := [101%Z; 102%Z]; s_name := [] |} in
  let inp := {| regs := []; xmm := [0x3ff8000000000001; 0x4002000000000002]; stk := []; rets := []; strs := []; wrds := [] |} in
  payload (run 0 inp false [sp]) = Some [1; 0; 0; 0; 0; 0; 0; 0; 2; 0; 0; 0; 0; 0; 0; 0].
Proof. vm_compute. reflexivity. Qed.
