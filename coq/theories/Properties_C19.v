(* Property C19 - only statements, each closed by [exact].
   Model: UV.C19.Model (python/trace-python.c as it is: [c_fixed c = true], which [mkcfg _ _ true]
   builds; [c_fixed c = false] is the code before fix 5445264, used by the legacy witnesses only).
   A [forest] is a well-formed profile-event stream (CPython's event discipline); [events] flattens it. *)
From Coq Require Import ZArith NArith List Bool.
Import ListNotations.
Require Import UV.C19.Model UV.C19.Proofs UV.C19.SymFile UV.C19.SymFileProofs UV.C19.Lazy UV.C19.LazyProofs UV.C19.Loader UV.C19.LoaderProofs.
Local Open Scope Z_scope.

(* Refinement: for every configuration of the current code (filters, libcall mode), every call
   forest and every non-negative counter state, the callback emits exactly the enter/exit calls of
   the selected forest [select] (a structural specification) and leaves the three counters as they
   were.  No guard on the filter set. *)
Theorem C19_refines_spec : forall c f ci co l, c_fixed c = true ->
  0 <= ci -> 0 <= co -> 0 <= l ->
  run c {| cin := ci; cout := co; lc := l |} (events f) =
  ({| cin := ci; cout := co; lc := l |}, hooks_of (select c ci co l f)).
Proof. exact run_forest_current. Qed.
Print Assumptions C19_refines_spec.

(* balanced calls for all configurations and all forests *)
Theorem C19_balanced : forall c f, c_fixed c = true -> balanced (snd (run c st0 (events f))) = true.
Proof. exact balanced_current. Qed.
Print Assumptions C19_balanced.

(* from the initial state: the trace is the selected forest *)
Theorem C19_balanced_fixed : forall c f, c_fixed c = true ->
  run c st0 (events f) = (st0, hooks_of (select c 0 0 0 f)).
Proof. exact run_forest_fixed. Qed.
Print Assumptions C19_balanced_fixed.

(* the three counters return to their value after every complete call *)
Theorem C19_counter_restored : forall c f s, c_fixed c = true ->
  0 <= cin s -> 0 <= cout s -> 0 <= lc s -> fst (run c s (events f)) = s.
Proof. exact counters_current. Qed.
Print Assumptions C19_counter_restored.

(* libmcount's shadow stack pairs every exit with the entry of the same call: the records are the
   pre/post-order traversal of the selected forest, the stack is empty again, nothing unpaired *)
Theorem C19_exit_closes_own_entry : forall c f, c_fixed c = true ->
  mc_run [] (snd (run c st0 (events f))) = ([], records_of O (select c 0 0 0 f), O).
Proof. exact mc_run_current. Qed.
Print Assumptions C19_exit_closes_own_entry.

(* a program that stops anywhere (os._exit, kill): on every prefix of a well-formed stream no exit
   is emitted without its entry *)
Theorem C19_prefix_no_unpaired_exit : forall c f p q, c_fixed c = true ->
  events f = p ++ q -> no_underflow (snd (run c st0 p)) = true.
Proof. exact prefix_current. Qed.
Print Assumptions C19_prefix_no_unpaired_exit.

(* a script ended by sys.exit() / an uncaught exception: the interpreter then unwinds frames that
   were entered before tracing started (runpy); the call-depth test of the callback drops every
   such `return`, so the callback sees exactly the well-formed stream of the script ... *)
Theorem C19_exit_by_exception : forall fns f rets,
  forallb (fun e => match fe_kind e with Return => true | _ => false end) rets = true ->
  depth_guard O (ievents fns f ++ rets) = ievents fns f.
Proof. exact exit_by_exception_current. Qed.
Print Assumptions C19_exit_by_exception.

(* ... and the test never touches a well-formed stream *)
Theorem C19_depth_guard_transparent : forall fns f d rest,
  depth_guard d (ievents fns f ++ rest) = ievents fns f ++ depth_guard d rest.
Proof. exact depth_guard_ievents. Qed.
Print Assumptions C19_depth_guard_transparent.

(* ---- the code before the repairs (fix 5445264, fix d27b480) ---- *)
(* tests/s-abc.py with -F a -N .getpid (8 events): 3 entries and 4 exits, libmcount reports one
   unpaired exit and closes c, b, a at the times of getpid, c, b; the current code gives a{b{c}} *)
Theorem C19_unbalanced_legacy_refuted :
  length (events abc) = 8%nat /\
  balanced (snd (run (cfg_FN false) st0 (events abc))) = false /\
  mc_run [] (snd (run (cfg_FN false) st0 (events abc))) =
    ([], [REntry 0 (l_sym (py nm_a)); REntry 1 (l_sym (py nm_b)); REntry 2 (l_sym (py nm_c));
          RExit 2 (l_sym (py nm_c)); RExit 1 (l_sym (py nm_b)); RExit 0 (l_sym (py nm_a))], 1%nat) /\
  snd (run (cfg_FN false) st0 (events abc)) =
    [HEnter (l_sym (py nm_a)); HEnter (l_sym (py nm_b)); HEnter (l_sym (py nm_c)); HExit; HExit; HExit; HExit] /\
  nobad (cfg_FN false) 0 0 abc = false /\
  run (cfg_FN true) st0 (events abc) =
    (st0, hooks_of (FNode (py nm_a) (FNode (py nm_b) (FNode (py nm_c) FNil FNil) FNil) FNil)).
Proof. exact unbalanced_witness. Qed.
Print Assumptions C19_unbalanced_legacy_refuted.

(* same defect, second symptom: the stray exit decremented libcall_count inside a library call *)
Theorem C19_libcount_drift_legacy_refuted :
  existsb (hook_eqb (HEnter (l_sym (cf nm_len)))) (snd (run (cfg_FN false) st0 (events drift))) = true /\
  existsb (hook_eqb (HEnter (l_sym (cf nm_len)))) (snd (run (cfg_FN true) st0 (events drift))) = false /\
  existsb (hook_eqb (HEnter (l_sym (cf nm_len)))) (hooks_of (select (cfg_FN false) 0 0 0 drift)) = false.
Proof. exact counter_drift_witness. Qed.
Print Assumptions C19_libcount_drift_legacy_refuted.

(* under its exact guard the old apply_filters met the same specification (what the repair changed
   is exactly the class [nobad = false]) *)
Theorem C19_legacy_guarded : forall c f, nobad c 0 0 f = true ->
  run c st0 (events f) = (st0, hooks_of (select c 0 0 0 f)).
Proof. exact run_forest_guarded. Qed.
Print Assumptions C19_legacy_guarded.

(* without the call-depth test the two runpy returns after sys.exit() reached libmcount as
   unpaired exits in default and --nest-libcall mode *)
Theorem C19_exit_by_exception_legacy_refuted :
  no_underflow (snd (run (cfg_plain LSingle) st0 exit_stream)) = false /\
  snd (mc_run [] (snd (run (cfg_plain LSingle) st0 exit_stream))) = 2%nat /\
  snd (mc_run [] (snd (run (cfg_plain LNested) st0 exit_stream))) = 2%nat /\
  no_underflow (snd (run (cfg_plain LNone) st0 exit_stream)) = true.
Proof. exact exit_by_exception_witness. Qed.
Print Assumptions C19_exit_by_exception_legacy_refuted.

(* the specification factorises into the filter selection and the library policy *)
Theorem C19_spec_factors : forall c f ci co l, select c ci co l f = libprune (c_lib c) l (fsel c ci co f).
Proof. exact select_factors. Qed.
Print Assumptions C19_spec_factors.

(* library-call policy *)
Theorem C19_libcall_none : forall c ci co l f, c_lib c = LNone ->
  fall (fun b => negb (s_lib (l_sym b))) (select c ci co l f) = true.
Proof. exact libcall_none. Qed.
Print Assumptions C19_libcall_none.

Theorem C19_libcall_nested_all : forall c f, c_fmode c = None -> c_lib c = LNested -> select c 0 0 0 f = f.
Proof. exact libcall_nested_all. Qed.
Print Assumptions C19_libcall_nested_all.

Theorem C19_libcall_single_depth : forall c f ci co l, c_lib c = LSingle -> 0 <= l ->
  no_lib_under_lib (l >? 0) (select c ci co l f) = true.
Proof. exact libcall_single_depth. Qed.
Print Assumptions C19_libcall_single_depth.

(* default mode keeps exactly the library calls made directly from non-library code - provided no
   non-library code runs below a library call (no callbacks) ... *)
Theorem C19_libcall_single_direct : forall f l, 0 <= l -> no_callback (l >? 0) f = true ->
  libprune LSingle l f = prune_direct (l >? 0) f.
Proof. exact libcall_single_direct. Qed.
Print Assumptions C19_libcall_single_direct.

(* ... and not otherwise: sorted(key=b) with b calling len(): len is called directly from
   non-library code but is not traced in default mode (it is with --nest-libcall) *)
Theorem C19_libcall_direct_refuted :
  no_callback false callback = false /\
  select (cfg_plain LSingle) 0 0 0 callback = FNode (py nm_a) (FNode (cf nm_sorted) (FNode (py nm_b) FNil FNil) FNil) FNil /\
  prune_direct false callback = callback /\
  select (cfg_plain LNested) 0 0 0 callback = callback.
Proof. exact libcall_direct_witness. Qed.
Print Assumptions C19_libcall_direct_refuted.

(* filters: -F only = the named calls with everything below them; -N only = everything except the
   named calls and what is below them *)
Theorem C19_filters_opt_in : forall c f, c_fmode c = Some FIn -> forallb is_in (c_filters c) = true ->
  fsel c 0 0 f = pick (matches c) f.
Proof. exact filters_opt_in. Qed.
Print Assumptions C19_filters_opt_in.

Theorem C19_filters_opt_out : forall c f, c_fmode c = Some FOut ->
  forallb (fun x => negb (is_in x)) (c_filters c) = true -> fsel c 0 0 f = drop (matches c) f.
Proof. exact filters_opt_out. Qed.
Print Assumptions C19_filters_opt_out.

(* -F and -N together: the -F calls with everything below them, minus the -N calls and everything
   below those, wherever they are; without -F: everything minus the -N calls and what is below them *)
Theorem C19_filters_mixed : forall c f, c_fmode c = Some FIn ->
  fsel c 0 0 f = pick (is_kin c) (drop (is_kout c) f).
Proof. exact filters_mixed. Qed.
Print Assumptions C19_filters_mixed.

Theorem C19_filters_opt_out_general : forall c f ci, c_fmode c = Some FOut -> fsel c ci 0 f = drop (is_kout c) f.
Proof. exact filters_out_general. Qed.
Print Assumptions C19_filters_opt_out_general.

(* every call of the main module is traced whatever the library-call mode: removing the library
   calls from the trace gives the program's own call forest *)
Theorem C19_main_calls_all_traced : forall m f l, main_only (libprune m l f) = main_only f.
Proof. exact main_calls_all_traced. Qed.
Print Assumptions C19_main_calls_all_traced.

(* pseudo-address table: the address-level automaton (what the C code does) is the symbolic one on
   the canonical symbols; the table only grows; every address handed to libmcount resolves through
   the final table (python.fake.sym) - and any extension of it - to the symbol of its event *)
Theorem C19_addresses_resolve : forall c md evs tab s,
  let '(tab', s', hs) := arun c md tab s evs in
  let '(tab2, sevs) := sym_events md tab evs in
  tab2 = tab' /\ (exists ext, tab' = tab ++ ext) /\
  s' = fst (run c s sevs) /\
  forall ext, resolve_hooks (tab' ++ ext) hs = map Some (snd (run c s sevs)).
Proof. exact arun_resolves. Qed.
Print Assumptions C19_addresses_resolve.

(* Records carry the names of the functions that were called: the symbolic events the automaton
   runs on ([sym_events], see C19_addresses_resolve: its hook addresses resolve to these symbols
   through the written table) have, event by event, the name computed from the function the
   interpreter reported - whatever the table already holds and however code objects were created,
   freed and their addresses re-used in between (the model identifies a function by nothing but
   that name). *)
Theorem C19_names_are_the_called_functions : forall md evs tab,
  map (fun e => (e_kind e, s_name (e_sym e))) (snd (sym_events md tab evs)) = called_names md evs.
Proof. exact sym_events_names. Qed.
Print Assumptions C19_names_are_the_called_functions.

(* The callback as a whole, on interpreter-level events (uftrace_trace_python from module
   initialisation: call-depth test, naming, classification, address table, filters, library policy):
   for every configuration, every sequence of call forests over a table of functions whose names
   determine their symbols, followed by any returns of frames never called (script ended by an
   exception): the counters are restored and the addresses handed to libmcount, resolved through
   the symbol table written at exit, are exactly the traversal of the selected forests. *)
Theorem C19_trace_python_spec : forall c md fns fs rets,
  c_fixed c = true -> consistent md fns -> returns_only rets = true ->
  let '(tab, s, hs) := trace_python c md (flat_map (ievents fns) fs ++ rets) in
  s = st0 /\ resolve_hooks tab hs = map Some (select_all c (map (iforest_syms md fns) fs)).
Proof. exact trace_python_spec. Qed.
Print Assumptions C19_trace_python_spec.

(* its hypothesis is decidable and checked on every generated case *)
Theorem C19_consistentb_sound : forall md fns, consistentb md fns = true -> consistent md fns.
Proof. exact consistentb_sound. Qed.
Print Assumptions C19_consistentb_sound.

Example C19_trace_python_example :
  consistentb (Some (main_dir_of ex_main)) ex_fns = true /\ returns_only ex_rets = true /\
  (let '(tab, s, hs) := trace_python (cfg_FN true) (Some (main_dir_of ex_main)) (ievents ex_fns ex_forest ++ ex_rets) in
   hs = [AEnter 1; AEnter 2; AEnter 3; AExit; AExit; AExit] /\ length tab = 4%nat /\ s = st0).
Proof. exact trace_python_example. Qed.
Print Assumptions C19_trace_python_example.

(* the two judgements of a run agree: an implementation output equal to the model's is accepted by
   the specification checker applied at run time *)
Theorem C19_checker_accepts_model : forall k,
  consistent (option_map main_dir_of (k_pymain k)) (k_funcs k) ->
  forallb (fun p => match fst p with Return => true | _ => false end) (k_raw k) = true ->
  agrees k = true -> ok_case k = true.
Proof. exact checker_accepts_model. Qed.
Print Assumptions C19_checker_accepts_model.

(* python.fake.sym (write_symtab: 48-byte header, "%016x %c %s" entries, __sym_end) read back line
   by line gives the table itself: addresses 1..n in order, names and library flags as recorded;
   names without newline, fewer than 16^16 symbols *)
Theorem C19_symfile_roundtrip : forall tab,
  Forall (fun s => no_nl (s_name s)) tab -> (N.of_nat (length tab) + 1 < 16 ^ 16)%N ->
  parse_symfile (render_symtab tab) = Some (number_from 1 tab).
Proof. exact symfile_roundtrip. Qed.
Print Assumptions C19_symfile_roundtrip.

(* so the address the callback handed to libmcount for a call names, in the file every analysis
   command reads, the symbol of that call (with C19_addresses_resolve / C19_trace_python_spec) *)
Theorem C19_symfile_resolves : forall tab a s,
  Forall (fun s => no_nl (s_name s)) tab -> (N.of_nat (length tab) + 1 < 16 ^ 16)%N ->
  resolve tab a = Some s ->
  exists l, parse_symfile (render_symtab tab) = Some l /\ In (a, s) l.
Proof. exact symfile_resolves. Qed.
Print Assumptions C19_symfile_resolves.

Example C19_symfile_example :
  parse_symfile (render_symtab [l_sym (py nm_a); l_sym (cf nm_getpid)]) =
    Some [(1%N, l_sym (py nm_a)); (2%N, l_sym (cf nm_getpid))] /\
  length (join_lines (header_lines 2)) = 48%nat.
Proof. exact symfile_example. Qed.
Print Assumptions C19_symfile_example.

(* os._exit (or a kill) inside the open calls of [f] - the calls with l_exc = true, the rightmost
   path ([open_ok]).  libmcount writes the ENTRY of a call lazily, when a call below it completes
   ([lz_run]: record_trace_data).  The data file then holds exactly the records of the selected
   forest in which every open call without a completed traced call below it is dropped
   ([trim_open]): completed calls have ENTRY and EXIT, the remaining open calls an ENTRY only, all
   properly nested - for every configuration of the current code. *)
Theorem C19_os_exit_records : forall c f, c_fixed c = true -> open_ok f = true ->
  lz_out (lz_run lz0 (snd (run c st0 (events_open f)))) = open_records 0 (trim_open (select c 0 0 0 f)).
Proof. exact os_exit_records. Qed.
Print Assumptions C19_os_exit_records.

(* the writer alone, on any hook-call stream of that shape *)
Theorem C19_lazy_records : forall f, open_ok f = true ->
  lz_out (lz_run lz0 (hooks_open f)) = open_records 0 (trim_open f).
Proof. exact lazy_records. Qed.
Print Assumptions C19_lazy_records.

Example C19_os_exit_example :
  open_ok ex_open = true /\
  lz_out (lz_run lz0 (snd (run (cfg_plain LSingle) st0 (events_open ex_open)))) =
    [REntry 0 (l_sym (py nm_a)); REntry 1 (l_sym (py nm_b)); RExit 1 (l_sym (py nm_b))] /\
  lz_out (lz_run lz0 (snd (run (mkcfg (Some [33 :: nm_b]%N) LSingle true) st0 (events_open ex_open)))) = [].
Proof. exact os_exit_example. Qed.
Print Assumptions C19_os_exit_example.

(* The loader python/uftrace.py (module UV.C19.Loader): `python -m uftrace` starts with the current
   directory in front of the base path (PYTHONPATH entries, standard library); the loader replaces
   that entry by the directory of the script.  The script therefore runs with exactly the module
   search path of a plain run: every import finds the file a plain run finds, the module next to
   the script first, whatever the current directory or PYTHONPATH (in any order) offer. *)
Theorem C19_loader_path_is_plain : forall sd cwd base, loader_path sd cwd base = plain_path sd base.
Proof. exact loader_is_plain. Qed.
Print Assumptions C19_loader_path_is_plain.

Theorem C19_loader_same_modules : forall has sd cwd base,
  find_module has (loader_path sd cwd base) = find_module has (plain_path sd base).
Proof. exact loader_same_modules. Qed.
Print Assumptions C19_loader_same_modules.

Theorem C19_loader_sibling_module : forall has sd cwd base, has sd = true ->
  find_module has (loader_path sd cwd base) = Some sd.
Proof. exact loader_sibling. Qed.
Print Assumptions C19_loader_sibling_module.

(* the loader before fix e6ae373 (sys.path.insert(0, dir)) kept the current directory as sys.path[1] *)
Theorem C19_loader_cwd_legacy_refuted :
  find_module has_cwd_pp (plain_path d_app [d_lib]) = Some d_lib /\
  find_module has_cwd_pp (loader_path d_app d_cwd [d_lib]) = Some d_lib /\
  find_module has_cwd_pp (loader_path_legacy d_app d_cwd [d_lib]) = Some d_cwd.
Proof. exact loader_cwd_witness. Qed.
Print Assumptions C19_loader_cwd_legacy_refuted.

(* the variant "insert the script's directory only if it is not listed yet" imports another file *)
Theorem C19_loader_conditional_insert_refuted :
  find_module has_helpers (plain_path d_app [d_lib; d_app]) = Some d_app /\
  find_module has_helpers (loader_path d_app d_cwd [d_lib; d_app]) = Some d_app /\
  find_module has_helpers (loader_path_cond d_app d_cwd [d_lib; d_app]) = Some d_lib /\
  hd_error (loader_path_cond d_app d_cwd [d_lib; d_app]) <> Some d_app.
Proof. exact loader_cond_witness. Qed.
Print Assumptions C19_loader_conditional_insert_refuted.
