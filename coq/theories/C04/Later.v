(* C04 - monotone in the kill point: if the process is killed later (the schedule goes on), the completely stored
   records are those of the earlier kill point followed by zero or more further ones, and the data file after the
   recorder's clean-up consists of exactly those whole records. *)
From Coq Require Import NArith List Bool Arith.
Import ListNotations.
Require Import UV.Gen.Consts UV.C04.Model UV.C04.Proofs UV.C04.Compose UV.C04.ProofsMulti.

Theorem later_kill_extends setup cap recs sched more :
  let s1 := run true cap sched (start setup recs) in
  let s2 := run true cap (sched ++ more) (start setup recs) in
  exists new, done s2 = done s1 ++ new
              /\ match_recs (done s1 ++ new) (file (finish s2)) = true
              /\ exists rest, recs = done s1 ++ new ++ rest.
Proof.
  cbv zeta.
  destruct (prefix_fixed setup cap recs (sched ++ more)) as (HM & (rest & HR) & _).
  rewrite run_app in *.
  destruct (done_run true cap more (run true cap sched (start setup recs))) as [d Hd].
  exists d. split; [exact Hd|]. rewrite Hd in HM, HR. split; [exact HM|].
  exists rest. rewrite app_assoc. exact HR.
Qed.
