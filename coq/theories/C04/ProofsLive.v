(* C04 - the recorder's liveness skeleton (tid_list, FORK_START/END, TASK_START/END, FINISH,
   check_tid_list, drop_pending_forks, the loop of stop_tracing).
   The code as it is: once the pipe is drained and has no writer, the loop ends - also when a
   FORK_START never got its FORK_END.  The legacy loop (without drop_pending_forks) never ends then. *)
From Coq Require Import NArith ZArith List Bool Arith Lia.
Import ListNotations.
Require Import UV.Gen.Consts UV.C04.Model.
Local Open Scope Z_scope.

Definition set_rchan (ch : list tmsg) (s : rs) : rs :=
  {| tids := tids s; rchan := ch; shm := shm s; finish_received := finish_received s;
     child_exited := child_exited s; failed := failed s |}.
Fixpoint handle_all (ms : list tmsg) (s : rs) : rs :=
  match ms with
  | [] => s
  | m :: t => handle_all t (handle m (set_rchan t s))
  end.

Lemma handle_rchan m s : rchan (handle m s) = rchan s.
Proof.
  destruct m; cbn; try reflexivity.
  - destruct (existsb _ _); reflexivity.
  - destruct (set_fork_tid _ _ _); [reflexivity|]. destruct (set_fork_tid _ _ _); reflexivity.
Qed.

(* ------------------------------------------------------------------ termination *)
(* a task the loop can finish with: already marked, or a pending fork, or a dead task with a real tid *)
Definition task_done (dead : Z -> bool) (t : tl) : bool :=
  t_exited t || (t_tid t =? -1) || ((0 <=? t_tid t) && dead (t_tid t)).

Lemma check_mark_exited dead t : t_exited t = true -> check_mark dead t = t.
Proof. intro H. unfold check_mark. rewrite H. reflexivity. Qed.

Lemma check_mark_keeps_exited dead t : t_exited t = true -> t_exited (check_mark dead t) = true.
Proof. intro H. rewrite check_mark_exited; assumption. Qed.

(* after check_tid_list an entry that can be finished is marked or is a pending fork *)
Lemma check_mark_done dead t :
  task_done dead t = true -> t_exited (check_mark dead t) = true \/ pending_fork (check_mark dead t) = true.
Proof.
  unfold task_done, check_mark, pending_fork. destruct (t_exited t) eqn:E; cbn [orb].
  - intros _. left. exact E.
  - destruct (t_tid t =? -1) eqn:E1; cbn [orb].
    + intros _. right. apply Z.eqb_eq in E1.
      replace (t_tid t <? 0) with true by (symmetry; apply Z.ltb_lt; lia).
      rewrite E. cbn. apply Z.eqb_eq in E1. rewrite E1. reflexivity.
    + intro H. apply andb_true_iff in H. destruct H as [H1 H2]. left.
      replace (t_tid t <? 0) with false by (symmetry; apply Z.ltb_ge; apply Z.leb_le; exact H1).
      rewrite H2. reflexivity.
Qed.

Lemma drop_mark_exited t : t_exited t = true \/ pending_fork t = true -> t_exited (drop_mark t) = true.
Proof.
  intros [H|H]; unfold drop_mark.
  - destruct (pending_fork t); [reflexivity|exact H].
  - rewrite H. reflexivity.
Qed.

Lemma drop_mark_not_pending t : pending_fork (drop_mark t) = false.
Proof.
  unfold drop_mark. destruct (pending_fork t) eqn:E; [|exact E].
  unfold pending_fork. cbn. apply andb_false_r.
Qed.

Lemma check_mark_not_pending dead t : pending_fork t = false -> pending_fork (check_mark dead t) = false.
Proof.
  unfold check_mark. destruct (t_exited t || (t_tid t <? 0)); [auto|].
  destruct (dead (t_tid t)); [|auto]. intros _. unfold pending_fork. cbn. apply andb_false_r.
Qed.

Lemma existsb_false_map {A} (p : A -> bool) (f : A -> A) l :
  (forall x, p (f x) = false) -> existsb p (map f l) = false.
Proof. intro H. induction l as [|x l IH]; cbn; [reflexivity|]. rewrite H. exact IH. Qed.
Lemma existsb_false_map_keep {A} (p : A -> bool) (f : A -> A) l :
  (forall x, p x = false -> p (f x) = false) -> existsb p l = false -> existsb p (map f l) = false.
Proof.
  intros H. induction l as [|x l IH]; cbn; [reflexivity|]. intro E. apply orb_false_iff in E.
  destruct E as [E1 E2]. rewrite (H x E1). apply IH. exact E2.
Qed.

(* the pipe is drained (rchan = []), it has no writer: at most two more iterations *)
Lemma stops_when_drained dead s fuel :
  rchan s = [] ->
  forallb (task_done dead) (tids s) = true \/ finish_received s = true ->
  (2 < fuel)%nat ->
  is_stopped (stop_loop true fuel dead true s) = true.
Proof.
  intros Hch H Hf. destruct fuel as [|[|[|k]]]; try lia.
  (* first iteration *)
  cbn [stop_loop]. rewrite Hch. unfold check_tid_list.
  set (l1 := map (check_mark dead) (tids s)).
  destruct (forallb t_exited l1) eqn:E1; [reflexivity|].
  unfold drop_pending_forks. cbn [rchan tids finish_received child_exited failed]. rewrite Hch.
  set (l2 := map drop_mark l1).
  assert (Hnp2 : existsb pending_fork l2 = false) by (apply existsb_false_map, drop_mark_not_pending).
  (* whatever the first iteration does, the state it continues with has no pending fork left, or it stops *)
  assert (Hnext : forall ce,
            is_stopped (stop_loop true (S (S k)) dead true
                          {| tids := l2; rchan := []; shm := shm s; finish_received := finish_received s;
                             child_exited := ce; failed := failed s |}) = true).
  { intro ce. cbn [stop_loop rchan]. unfold check_tid_list. cbn [tids rchan finish_received child_exited failed].
    set (l3 := map (check_mark dead) l2).
    destruct (forallb t_exited l3) eqn:E3; [reflexivity|].
    unfold drop_pending_forks. cbn [rchan tids finish_received].
    assert (Hnp3 : existsb pending_fork l3 = false).
    { apply existsb_false_map_keep; [intros x; apply check_mark_not_pending | exact Hnp2]. }
    rewrite Hnp3.
    destruct H as [H|H].
    - (* everything could be finished: l3 is all exited, contradiction with E3 *)
      exfalso. assert (E3' : forallb t_exited l3 = true).
      { rewrite forallb_forall. intros x Hx. unfold l3, l2, l1 in Hx.
        apply in_map_iff in Hx. destruct Hx as [y [<- Hy]].
        apply in_map_iff in Hy. destruct Hy as [z [<- Hz]].
        apply in_map_iff in Hz. destruct Hz as [w [<- Hw]].
        apply check_mark_keeps_exited, drop_mark_exited, check_mark_done.
        rewrite forallb_forall in H. apply H. exact Hw. }
      congruence.
    - rewrite H. reflexivity. }
  destruct (existsb pending_fork l1) eqn:Ed.
  - exact (Hnext (child_exited s || false)).
  - (* nothing was dropped *)
    cbn [finish_received]. destruct H as [H|H].
    + exfalso. assert (E1' : forallb t_exited l1 = true).
      { rewrite forallb_forall. intros x Hx. unfold l1 in Hx. apply in_map_iff in Hx. destruct Hx as [y [<- Hy]].
        rewrite forallb_forall in H. destruct (check_mark_done dead y (H y Hy)) as [Hd|Hd]; [exact Hd|].
        exfalso. assert (Hin : In (check_mark dead y) l1) by (apply in_map; exact Hy).
        assert (existsb pending_fork l1 = true) by (apply existsb_exists; eexists; split; eassumption).
        congruence. }
      congruence.
    + rewrite H. reflexivity.
Qed.

(* `uftrace record` terminates: from the moment every tracee has closed the pipe, if after the
   pending messages every listed task is marked, a pending fork, or a dead task with a real tid -
   or FINISH was received - the loop ends within |pending messages| + 2 iterations *)
Theorem recorder_stops dead : forall ms s fuel,
  rchan s = ms ->
  forallb (task_done dead) (tids (handle_all ms s)) = true \/ finish_received (handle_all ms s) = true ->
  (length ms + 2 < fuel)%nat ->
  is_stopped (stop_loop true fuel dead true s) = true.
Proof.
  induction ms as [|m t IH]; intros s fuel Hch H Hf.
  - apply stops_when_drained; [exact Hch | exact H | cbn in Hf; lia].
  - destruct fuel as [|k]; [cbn in Hf; lia|]. cbn [stop_loop]. rewrite Hch.
    apply (IH (handle m (set_rchan t s)) k).
    + rewrite handle_rchan. reflexivity.
    + exact H.
    + cbn in Hf. lia.
Qed.

(* in the words of the property: every task is dead (no hypothesis about forks) *)
Definition real_or_fork (t : tl) : bool := t_exited t || (-1 <=? t_tid t).
Corollary recorder_stops_when_all_dead dead ms :
  (forall tid, 0 <= tid -> dead tid = true) ->
  forallb real_or_fork (tids (handle_all ms (rs0 ms))) = true ->
  is_stopped (stop_loop true (length ms + 3) dead true (rs0 ms)) = true.
Proof.
  intros Hd Hr. apply (recorder_stops dead ms (rs0 ms)); [reflexivity| |lia].
  left. rewrite forallb_forall in *. intros t Ht. specialize (Hr t Ht).
  unfold real_or_fork, task_done in *. destruct (t_exited t); [reflexivity|]. cbn [orb] in *.
  destruct (t_tid t =? -1) eqn:E; [reflexivity|]. cbn [orb].
  apply Z.leb_le in Hr. apply Z.eqb_neq in E.
  replace (0 <=? t_tid t) with true by (symmetry; apply Z.leb_le; lia). cbn. apply Hd. lia.
Qed.

(* the former fork window: FORK_START, no FORK_END, every task dead - the loop ends now *)
Definition fw_msgs : list tmsg := [TaskStart 100 100; ForkStart 100; TaskEnd 100].
Example fork_window_now_stops :
  is_stopped (stop_loop true 6 (fun _ => true) true (rs0 fw_msgs)) = true
  /\ is_stopped (stop_loop true 5 (fun _ => true) true (rs0 fw_msgs)) = true.
Proof. split; reflexivity. Qed.

(* ------------------------------------------------------------------ the legacy loop, and a pipe that still has a writer *)
Definition unresolved (t : tl) : Prop := t_tid t < 0 /\ t_exited t = false.
Definition stuck (s : rs) : Prop :=
  rchan s = [] /\ finish_received s = false /\ exists t, In t (tids s) /\ unresolved t.

Lemma check_mark_unresolved dead t : unresolved t -> check_mark dead t = t.
Proof.
  intros [Hn He]. unfold check_mark. rewrite He. cbn.
  replace (t_tid t <? 0) with true by (symmetry; apply Z.ltb_lt; exact Hn). reflexivity.
Qed.

Lemma stuck_step dead s :
  stuck s -> snd (check_tid_list dead s) = false /\ stuck (fst (check_tid_list dead s)).
Proof.
  intros [Hch [Hf [t [Hin Hu]]]]. unfold check_tid_list. cbn [fst snd].
  assert (Hin' : In t (map (check_mark dead) (tids s))).
  { apply in_map_iff. exists t. split; [apply check_mark_unresolved; exact Hu | exact Hin]. }
  split.
  - destruct (forallb t_exited (map (check_mark dead) (tids s))) eqn:E; [|reflexivity].
    rewrite forallb_forall in E. specialize (E t Hin'). destruct Hu as [_ Hu]. congruence.
  - split; [exact Hch|]. split; [exact Hf|]. exists t. split; [exact Hin' | exact Hu].
Qed.

(* without drop_pending_forks - or while some process still holds the pipe open - an unresolved
   entry keeps the loop going for ever *)
Theorem stuck_forever dropf nowriter dead :
  dropf && nowriter = false ->
  forall fuel s, stuck s -> is_stopped (stop_loop dropf fuel dead nowriter s) = false.
Proof.
  intro Hoff. induction fuel as [|k IH]; intros s Hs; [reflexivity|].
  cbn [stop_loop]. pose proof Hs as [Hch _]. rewrite Hch.
  destruct (stuck_step dead s Hs) as [Ha Hst].
  destruct (check_tid_list dead s) as [s1 all]. cbn [fst snd] in *. subst all.
  assert (Hd : (if dropf then drop_pending_forks nowriter s1 else (s1, false)) = (s1, false)).
  { destruct dropf; [|reflexivity]. cbn in Hoff. subst nowriter.
    unfold drop_pending_forks. destruct (rchan s1); reflexivity. }
  rewrite Hd. destruct Hst as [Hc1 [Hf1 Hx]]. rewrite Hf1. apply IH. split; [exact Hc1|]. split; [exact Hf1|exact Hx].
Qed.

(* SIGCHLD does not help either: no process has pid -1 *)
Lemma mark_first_keeps pid l t : 0 <= pid -> In t l -> unresolved t -> In t (mark_first pid l).
Proof.
  intros Hp. induction l as [|x l IH]; intros Hin Hu; [contradiction|]. cbn.
  destruct (t_tid x =? pid) eqn:E.
  - destruct Hin as [->|Hin]; [|right; exact Hin].
    apply Z.eqb_eq in E. destruct Hu as [Hu _]. lia.
  - destruct Hin as [->|Hin]; [left; reflexivity | right; apply IH; assumption].
Qed.
Lemma stuck_sigchld pid s : 0 <= pid -> stuck s -> stuck (sigchld pid s).
Proof.
  intros Hp [Hch [Hf [t [Hin Hu]]]]. split; [exact Hch|]. split; [exact Hf|].
  exists t. split; [apply mark_first_keeps; assumption | exact Hu].
Qed.

(* the legacy code: FORK_START is received, FORK_END never comes, every task is dead, the pipe has no
   writer - the recorder spins for ever *)
Theorem fork_window_legacy_spins :
  forall fuel, is_stopped (stop_loop false fuel (fun _ => true) true (rs0 fw_msgs)) = false.
Proof.
  intro fuel. destruct fuel as [|[|[|k]]]; try reflexivity.
  change (stop_loop false (S (S (S k))) (fun _ => true) true (rs0 fw_msgs))
    with (stop_loop false k (fun _ => true) true
            {| tids := [ {| t_pid := 100; t_tid := -1; t_exited := false |};
                         {| t_pid := 100; t_tid := 100; t_exited := true |} ];
               rchan := []; shm := []; finish_received := false; child_exited := false; failed := false |}).
  apply stuck_forever; [reflexivity|]. split; [reflexivity|]. split; [reflexivity|].
  eexists. split; [left; reflexivity|]. split; [reflexivity|reflexivity].
Qed.
