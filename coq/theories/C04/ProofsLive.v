(* C04 - the recorder's liveness skeleton (tid_list, FORK_START/END, TASK_START/END, FINISH,
   check_tid_list, the loop of stop_tracing): the loop ends once the pipe is drained, unless an
   entry with tid = -1 (FORK_START without FORK_END) is left: then it never ends. *)
From Coq Require Import NArith ZArith List Bool Arith Lia.
Import ListNotations.
Require Import UV.Gen.Consts UV.C04.Model.
Local Open Scope Z_scope.

Definition set_rchan (ch : list tmsg) (s : rs) : rs :=
  {| tids := tids s; rchan := ch; finish_received := finish_received s;
     child_exited := child_exited s; failed := failed s |}.
Fixpoint handle_all (ms : list tmsg) (s : rs) : rs :=
  match ms with
  | [] => s
  | m :: t => handle_all t (handle m (set_rchan t s))
  end.

Lemma handle_rchan m s : rchan (handle m s) = rchan s.
Proof.
  destruct m; cbn; try reflexivity.
  - destruct (existsb _ _); reflexivity.
  - destruct (set_fork_tid _ _ _); [reflexivity|]. destruct (set_fork_tid _ _ _); reflexivity.
Qed.

(* an entry that check_tid_list will never mark *)
Definition unresolved (t : tl) : Prop := t_tid t < 0 /\ t_exited t = false.
Definition stuck (s : rs) : Prop :=
  rchan s = [] /\ finish_received s = false /\ exists t, In t (tids s) /\ unresolved t.

Lemma check_mark_unresolved dead t : unresolved t -> check_mark dead t = t.
Proof.
  intros [Hn He]. unfold check_mark. rewrite He. cbn.
  replace (t_tid t <? 0) with true by (symmetry; apply Z.ltb_lt; exact Hn). reflexivity.
Qed.

Lemma stuck_step dead s :
  stuck s -> snd (check_tid_list dead s) = false /\ stuck (fst (check_tid_list dead s)).
Proof.
  intros [Hch [Hf [t [Hin Hu]]]]. unfold check_tid_list. cbn [fst snd].
  assert (Hin' : In t (map (check_mark dead) (tids s))).
  { apply in_map_iff. exists t. split; [apply check_mark_unresolved; exact Hu | exact Hin]. }
  split.
  - destruct (forallb t_exited (map (check_mark dead) (tids s))) eqn:E; [|reflexivity].
    rewrite forallb_forall in E. specialize (E t Hin'). destruct Hu as [_ Hu]. congruence.
  - split; [exact Hch|]. split; [exact Hf|]. exists t. split; [exact Hin' | exact Hu].
Qed.

(* the stuck state is never left: stop_tracing does not return *)
Theorem stuck_forever dead : forall fuel s, stuck s -> is_stopped (stop_loop fuel dead s) = false.
Proof.
  induction fuel as [|k IH]; intros s Hs; [reflexivity|].
  cbn [stop_loop]. pose proof Hs as [Hch _]. rewrite Hch.
  destruct (stuck_step dead s Hs) as [Ha Hst].
  destruct (check_tid_list dead s) as [s1 all]. cbn [fst snd] in *. subst all.
  destruct Hst as [Hc1 [Hf1 Hx]]. rewrite Hf1. apply IH. split; [exact Hc1|]. split; [exact Hf1|exact Hx].
Qed.

(* SIGCHLD does not help either: no process has pid -1 *)
Lemma mark_first_keeps pid l t : 0 <= pid -> In t l -> unresolved t -> In t (mark_first pid l).
Proof.
  intros Hp. induction l as [|x l IH]; intros Hin Hu; [contradiction|]. cbn.
  destruct (t_tid x =? pid) eqn:E.
  - destruct Hin as [->|Hin]; [|right; exact Hin].
    apply Z.eqb_eq in E. destruct Hu as [Hu _]. lia.
  - destruct Hin as [->|Hin]; [left; reflexivity | right; apply IH; assumption].
Qed.
Lemma stuck_sigchld pid s : 0 <= pid -> stuck s -> stuck (sigchld pid s).
Proof.
  intros Hp [Hch [Hf [t [Hin Hu]]]]. split; [exact Hch|]. split; [exact Hf|].
  exists t. split; [apply mark_first_keeps; assumption | exact Hu].
Qed.

(* the fork window: FORK_START is received, FORK_END never comes (fork() failed, or the child
   died before its atfork handler ran); every task is dead; the recorder spins for ever *)
Definition fw_msgs : list tmsg := [TaskStart 100 100; ForkStart 100; TaskEnd 100].
Theorem fork_window_spins : forall fuel, is_stopped (stop_loop fuel (fun _ => true) (rs0 fw_msgs)) = false.
Proof.
  intro fuel. destruct fuel as [|[|[|k]]]; try reflexivity.
  change (stop_loop (S (S (S k))) (fun _ => true) (rs0 fw_msgs))
    with (stop_loop k (fun _ => true)
            {| tids := [ {| t_pid := 100; t_tid := -1; t_exited := false |};
                         {| t_pid := 100; t_tid := 100; t_exited := true |} ];
               rchan := []; finish_received := false; child_exited := false; failed := false |}).
  apply stuck_forever. split; [reflexivity|]. split; [reflexivity|].
  eexists. split; [left; reflexivity|]. split; [reflexivity|reflexivity].
Qed.

(* termination *)
Definition task_done (dead : Z -> bool) (t : tl) : bool := t_exited t || ((0 <=? t_tid t) && dead (t_tid t)).

Lemma check_mark_done dead t : task_done dead t = true -> t_exited (check_mark dead t) = true.
Proof.
  unfold task_done, check_mark. destruct (t_exited t) eqn:E; cbn; [intros _; exact E|].
  intro H. apply andb_true_iff in H. destruct H as [H1 H2].
  replace (t_tid t <? 0) with false by (symmetry; apply Z.ltb_ge; apply Z.leb_le; exact H1).
  rewrite H2. reflexivity.
Qed.

Theorem recorder_stops dead : forall ms s fuel,
  rchan s = ms ->
  forallb (task_done dead) (tids (handle_all ms s)) = true \/ finish_received (handle_all ms s) = true ->
  (length ms < fuel)%nat ->
  is_stopped (stop_loop fuel dead s) = true.
Proof.
  induction ms as [|m t IH]; intros s fuel Hch H Hf.
  - destruct fuel as [|k]; [cbn in Hf; lia|]. cbn [stop_loop]. rewrite Hch. cbn [handle_all] in H.
    unfold check_tid_list.
    destruct (forallb t_exited (map (check_mark dead) (tids s))) eqn:E; [reflexivity|].
    cbn [finish_received]. destruct H as [H|H]; [|rewrite H; reflexivity].
    exfalso. assert (E' : forallb t_exited (map (check_mark dead) (tids s)) = true).
    { rewrite forallb_forall. intros x Hx. apply in_map_iff in Hx. destruct Hx as [y [<- Hy]].
      apply check_mark_done. rewrite forallb_forall in H. apply H. exact Hy. }
    congruence.
  - destruct fuel as [|k]; [cbn in Hf; lia|]. cbn [stop_loop]. rewrite Hch.
    apply (IH (handle m (set_rchan t s)) k).
    + rewrite handle_rchan. reflexivity.
    + exact H.
    + cbn in Hf. lia.
Qed.

(* in the words of the property: every task is dead and every FORK_START got its FORK_END *)
Definition resolved (t : tl) : bool := t_exited t || (0 <=? t_tid t).
Corollary recorder_stops_when_all_dead dead ms :
  (forall tid, 0 <= tid -> dead tid = true) ->
  forallb resolved (tids (handle_all ms (rs0 ms))) = true ->
  is_stopped (stop_loop (S (length ms)) dead (rs0 ms)) = true.
Proof.
  intros Hd Hr. apply (recorder_stops dead ms (rs0 ms)); [reflexivity| |lia].
  left. rewrite forallb_forall in *. intros t Ht. specialize (Hr t Ht).
  unfold resolved, task_done in *. destruct (t_exited t); [reflexivity|]. cbn in *.
  rewrite Hr. cbn. apply Hd. apply Z.leb_le. exact Hr.
Qed.

(* non-vacuity: a fork whose FORK_END arrives, all tasks dead *)
Example stops_example :
  is_stopped (stop_loop 5 (fun _ => true)
                (rs0 [TaskStart 100 100; ForkStart 100; ForkEnd 100 101; TaskEnd 100])) = true.
Proof. reflexivity. Qed.
