(* C04 - the `PDark` abstraction is faithful: the machine in which a thread goes on storing after the pipe was
   closed (into buffers whose REC_START / REC_END never reach the recorder) leaves the same data file as the
   machine of the theorems, for every schedule. *)
From Coq Require Import NArith List Bool Arith Lia.
Import ListNotations.
Require Import UV.Gen.Consts UV.C04.Model UV.C04.Proofs.

Ltac simp := cbn [bufs curr chan shl wl file pc todo done with_pc with_bufs with_curr with_chan with_shl
                  with_wl with_file with_todo with_done on_cur] in *.

(* everything the recorder will ever look at *)
Definition ids (s : st) : list nat := wl s ++ ends (chan s) ++ shl_after (chan s) (shl s).

(* faithful state sf vs abstract dark state sa *)
(* the faithful machine has no exec: it is never inside an exec()ed image's set-up *)
Definition nox (s : st) : Prop :=
  match pc s with PXStart _ _ | PXFlag _ _ | PXTask _ _ => False | _ => True end.

Record Dark (sf sa : st) : Prop := {
  d_pc : pc sa = PDark;
  d_chan : chan sf = chan sa; d_shl : shl sf = shl sa; d_wl : wl sf = wl sa; d_file : file sf = file sa;
  d_bufs : forall i, In i (ids sa) -> getb i (bufs sf) = getb i (bufs sa);
  d_rec : forall i, In i (ids sa) -> f_rec (b_flag (getb i (bufs sf))) = true;
  d_cur : forall c, curr sf = Some c -> ~ In c (ids sa);
  d_curok : cur_ok sf;
  d_prep : pc sf = PPrepStart \/ pc sf = PPrepFlag -> ~ In 0 (ids sa);
  d_nox : nox sf;
  d_nodup : NoDup (ids sa)
}.

(* ------------------------------------------------------------------ what a producer step can touch *)
Lemma pstep_keeps single cap s :
  shl (pstep single cap s) = shl s /\ wl (pstep single cap s) = wl s /\ file (pstep single cap s) = file s.
Proof.
  unfold pstep.
  repeat match goal with |- context [match ?x with _ => _ end] => destruct x end; simp; auto.
Qed.

Lemma pstep_cur_ok single cap s : cur_ok s -> cur_ok (pstep single cap s).
Proof.
  unfold cur_ok, pstep. intro H.
  destruct (pc s) eqn:Epc;
  repeat match goal with |- context [match ?x with _ => _ end] => destruct x eqn:? end; simp;
    try exact I; try reflexivity; try assumption; try (eexists; reflexivity); try congruence.
  all: try (match goal with E : curr _ = Some ?n |- _ => exists n; exact E end).
  all: try (destruct H as [c0 Hc0]; exists c0; congruence).
Qed.

(* buffers that are RECORDING and not the current one are left alone *)
Lemma pstep_nox single cap s : nox s -> nox (pstep single cap s).
Proof.
  intro H. unfold nox in H. unfold pstep.
  destruct (pc s) eqn:Epc; try contradiction;
    try destruct (todo s); try destruct (curr s); try destruct (_ <? _); try destruct (has_pl _); try destruct single;
    unfold nox; simp; try exact I; rewrite Epc; exact I.
Qed.

Lemma pstep_frame single cap s i :
  cur_ok s -> curr s <> Some i -> f_rec (b_flag (getb i (bufs s))) = true ->
  (pc s = PPrepFlag -> i <> 0) -> nox s ->
  getb i (bufs (pstep single cap s)) = getb i (bufs s).
Proof.
  intros Hc Hi Hf H0 Hnx. unfold pstep, cur_ok, nox in *.
  assert (Hlen : i < length (bufs s)).
  { destruct (Nat.lt_ge_cases i (length (bufs s))) as [H|H]; [exact H|].
    rewrite getb_overflow in Hf by exact H. discriminate. }
  destruct (pc s) eqn:Epc; try reflexivity; try contradiction;
    try (destruct (todo s); reflexivity);
    try (destruct (curr s); [destruct (_ <? _)|]; reflexivity);
    try (destruct (curr s); reflexivity).
  - (* PPick *)
    simp. set (k := find_free_from (base s) (bufs s)).
    assert (Hk : k <> i).
    { intro E. subst i. pose proof (ff_free (base s) (bufs s) Hlen) as Hff. fold k in Hff. congruence. }
    rewrite getb_upd_other by exact Hk.
    destruct (k <? length (bufs s)); [reflexivity | apply getb_app1; exact Hlen].
  - (* PZero *)
    destruct Hc as [c Ec]. simp. unfold cur_buf. rewrite Ec.
    assert (Hci : c <> i) by (intro; subst; apply Hi; exact Ec).
    set (l1 := upd c (set_size 0) (bufs s)).
    assert (Hg : getb i l1 = getb i (bufs s)) by (apply getb_upd_other; exact Hci).
    unfold shrink. destruct (c + 3 <=? length l1); [|exact Hg].
    destruct ((3 <=? count_written (skipn (S c) l1)) && is_written_only (b_flag (last l1 fresh_buf))) eqn:E2; [|exact Hg].
    apply andb_true_iff in E2. destruct E2 as [_ E2].
    assert (Hl1 : length l1 = length (bufs s)) by apply upd_length.
    assert (Hne : l1 <> []) by (intro E; rewrite E in Hl1; cbn in Hl1; lia).
    rewrite (last_getb l1 Hne) in E2.
    assert (Hil : i <> length l1 - 1).
    { intro E. rewrite <- E in E2. rewrite Hg in E2. unfold is_written_only in E2. rewrite Hf in E2.
      rewrite andb_false_r in E2. discriminate. }
    rewrite getb_removelast by lia. exact Hg.
  - destruct Hc as [c Ec]. simp. unfold cur_buf. rewrite Ec.
    apply getb_upd_other. intro; subst; apply Hi; exact Ec.
  - destruct Hc as [c Ec]. simp. unfold cur_buf. rewrite Ec.
    apply getb_upd_other. intro; subst; apply Hi; exact Ec.
  - destruct Hc as [c Ec].
    assert (Hci : c <> i) by (intro; subst; apply Hi; exact Ec).
    cbv zeta. unfold on_cur, cur_buf. rewrite Ec.
    destruct (has_pl r); [destruct single|]; simp; try reflexivity; apply getb_upd_other; exact Hci.
  - destruct Hc as [c Ec]. simp. unfold cur_buf. rewrite Ec.
    apply getb_upd_other. intro; subst; apply Hi; exact Ec.
  - destruct Hc as [c Ec]. simp. unfold cur_buf. rewrite Ec.
    apply getb_upd_other. intro; subst; apply Hi; exact Ec.
  - simp. apply getb_upd_other. intro E. apply (H0 eq_refl). symmetry. exact E.
Qed.

Lemma pstep_curr single cap s c' :
  nox s ->
  curr (pstep single cap s) = Some c' ->
  curr s = Some c' \/ f_rec (b_flag (getb c' (bufs s))) = false \/ (pc s = PPrepFlag /\ c' = 0).
Proof.
  unfold nox, pstep. intro Hnx. destruct (pc s) eqn:Epc; try contradiction;
    repeat match goal with |- context [match ?x with _ => _ end] => destruct x eqn:? end; simp;
    intro H; try (left; congruence); try discriminate.
  all: match goal with
       | E : pc _ = PPick _ |- _ =>
           right; left; injection H as <-;
           destruct (Nat.lt_ge_cases (find_free_from (base s) (bufs s)) (length (bufs s))) as [Hl|Hg];
           [apply ff_free; exact Hl | rewrite getb_overflow by exact Hg; reflexivity]
       | E : pc _ = PPrepFlag |- _ => right; right; split; [reflexivity | congruence]
       end.
Qed.

Lemma pstep_pc_prep single cap s :
  pc (pstep single cap s) = PPrepStart \/ pc (pstep single cap s) = PPrepFlag -> pc s = PPrepStart \/ pc s = PPrepFlag.
Proof.
  unfold pstep. destruct (pc s) eqn:Epc;
    repeat match goal with |- context [match ?x with _ => _ end] => destruct x eqn:? end; simp;
    intros [H|H]; try discriminate; auto; try (rewrite Epc in H; discriminate).
Qed.

(* ------------------------------------------------------------------ dark phase: steps keep the relation *)
Lemma dark_pstep single cap sf sa : Dark sf sa -> Dark (pstep_mute single cap sf) sa.
Proof.
  intros [Hpc Hch Hsh Hwl Hfi Hb Hr Hc Hok Hprep Hnx Hnd].
  destruct (pstep_keeps single cap sf) as [K1 [K2 K3]].
  assert (Hfr : forall i, In i (ids sa) -> getb i (bufs (pstep single cap sf)) = getb i (bufs sf)).
  { intros i Hi. apply pstep_frame; [exact Hok | | apply Hr; exact Hi | | exact Hnx].
    - intro E. exact (Hc i E Hi).
    - intros Ep E0. subst i. apply (Hprep (or_intror Ep)). exact Hi. }
  unfold pstep_mute. constructor; simp.
  - exact Hpc.
  - exact Hch.
  - rewrite K1. exact Hsh.
  - rewrite K2. exact Hwl.
  - rewrite K3. exact Hfi.
  - intros i Hi. rewrite (Hfr i Hi). apply Hb. exact Hi.
  - intros i Hi. rewrite (Hfr i Hi). apply Hr. exact Hi.
  - intros c' Ec' Hin. destruct (pstep_curr single cap sf c' Hnx Ec') as [E|[E|[Ep E0]]].
    + exact (Hc c' E Hin).
    + rewrite (Hr c' Hin) in E. discriminate.
    + subst c'. apply (Hprep (or_intror Ep)). exact Hin.
  - pose proof (pstep_cur_ok single cap sf Hok) as H. unfold cur_ok in *. simp. exact H.
  - intro Hp. apply Hprep. apply (pstep_pc_prep single cap). exact Hp.
  - pose proof (pstep_nox single cap sf Hnx) as H. unfold nox in *. simp. exact H.
  - exact Hnd.
Qed.

Lemma ids_cons_start i ch sh w : w ++ ends (MStart i :: ch) ++ shl_after (MStart i :: ch) sh = w ++ ends ch ++ shl_after ch (sh ++ [i]).
Proof. reflexivity. Qed.

(* no exec in the faithful machine: no TASK_START of an exec()ed image in the pipe *)
Definition notask (s : st) : Prop := forall i, ~ In (MTask i) (chan s).

Lemma dark_rstep sf sa : notask sa -> Dark sf sa -> Dark (rstep sf) (rstep sa).
Proof.
  intros Hnt [Hpc Hch Hsh Hwl Hfi Hb Hr Hc Hok Hprep Hnx Hnd].
  unfold rstep. rewrite Hch. destruct (chan sa) as [|[i|i|i] ch] eqn:E;
    [| | | exfalso; apply (Hnt i); rewrite E; left; reflexivity].
  - constructor; try assumption. rewrite E. exact Hch.
  - (* REC_START *)
    assert (Hids : ids (with_shl (shl sa ++ [i]) (with_chan ch sa)) = ids sa).
    { unfold ids. simp. rewrite E. reflexivity. }
    rewrite Hsh. constructor; try (rewrite Hids); simp; try assumption; try reflexivity.
  - (* REC_END *)
    assert (Hin : In i (ids sa)).
    { unfold ids. rewrite E. cbn. apply in_or_app. right. left. reflexivity. }
    set (sa1 := with_shl (remove_first i (shl sa)) (with_chan ch sa)).
    set (sf1 := with_shl (remove_first i (shl sf)) (with_chan ch sf)).
    assert (Hq : f_rec (b_flag (getb i (bufs sf1))) && negb (b_size (getb i (bufs sf1)) =? 0)
                 = f_rec (b_flag (getb i (bufs sa1))) && negb (b_size (getb i (bufs sa1)) =? 0)).
    { unfold sf1, sa1. simp. rewrite (Hb i Hin). reflexivity. }
    assert (Hids0 : ids sa = wl sa ++ i :: ends ch ++ shl_after ch (remove_first i (shl sa))).
    { unfold ids. rewrite E. reflexivity. }
    unfold queue_if. rewrite Hq.
    destruct (f_rec (b_flag (getb i (bufs sa1))) && negb (b_size (getb i (bufs sa1)) =? 0)).
    + assert (Hids : ids (with_wl (wl sa1 ++ [i]) sa1) = ids sa).
      { rewrite Hids0. unfold ids, sa1. simp. rewrite <- app_assoc. reflexivity. }
      constructor; try (rewrite Hids); unfold sf1, sa1; simp; try assumption; try reflexivity.
      * rewrite Hsh. reflexivity.
      * rewrite Hwl. reflexivity.
    + assert (Hsub : forall j, In j (ids sa1) -> In j (ids sa)).
      { intros j Hj. rewrite Hids0. unfold ids, sa1 in Hj. simp.
        apply in_app_or in Hj. apply in_or_app. destruct Hj as [Hj|Hj]; [left; exact Hj | right; right; exact Hj]. }
      constructor; unfold sf1, sa1 in *; simp; try assumption; try reflexivity.
      * rewrite Hsh. reflexivity.
      * intros j Hj. apply Hb. apply Hsub. exact Hj.
      * intros j Hj. apply Hr. apply Hsub. exact Hj.
      * intros c Ec Hj. exact (Hc c Ec (Hsub c Hj)).
      * intros Hp Hj. exact (Hprep Hp (Hsub 0 Hj)).
      * rewrite Hids0 in Hnd. apply NoDup_remove_1 in Hnd. exact Hnd.
Qed.

Lemma dark_wstep sf sa : Dark sf sa -> Dark (wstep sf) (wstep sa).
Proof.
  intros [Hpc Hch Hsh Hwl Hfi Hb Hr Hc Hok Hprep Hnx Hnd].
  unfold wstep. rewrite Hwl. destruct (wl sa) as [|i w] eqn:E.
  - constructor; try assumption. rewrite E. exact Hwl.
  - assert (Hids0 : ids sa = i :: (w ++ ends (chan sa) ++ shl_after (chan sa) (shl sa))).
    { unfold ids. rewrite E. reflexivity. }
    assert (Hin : In i (ids sa)) by (rewrite Hids0; left; reflexivity).
    rewrite Hids0 in Hnd. inversion Hnd as [|x l Hni Hnd' Ex]; subst x l.
    assert (Hsub : forall j, In j (ids (write_one true i (with_wl w sa))) -> In j (ids sa) /\ j <> i).
    { intros j Hj. unfold ids, write_one in Hj. simp. split; [rewrite Hids0; right; exact Hj|].
      intro; subst j. contradiction. }
    constructor; unfold write_one; simp; try assumption; try reflexivity.
    + rewrite Hfi. f_equal. f_equal. apply Hb. exact Hin.
    + intros j Hj. destruct (Hsub j Hj) as [Hj1 Hj2].
      rewrite !getb_upd_other by (intro; subst; contradiction). apply Hb. exact Hj1.
    + intros j Hj. destruct (Hsub j Hj) as [Hj1 Hj2].
      rewrite getb_upd_other by (intro; subst; contradiction). apply Hr. exact Hj1.
    + intros c Ec Hj. destruct (Hsub c Hj) as [Hj1 _]. exact (Hc c Ec Hj1).
    + intros Hp Hj. destruct (Hsub 0 Hj) as [Hj1 _]. exact (Hprep Hp Hj1).
Qed.

(* ------------------------------------------------------------------ the end of the recording sees the same *)
Lemma notask_rstep s : notask s -> notask (rstep s).
Proof.
  intros H i Hin. destruct (rstep_frame s) as [F _]. rewrite F in Hin. apply (H i).
  destruct (chan s); [exact Hin | right; exact Hin].
Qed.
Lemma dark_iter_r n : forall sf sa, notask sa -> Dark sf sa -> Dark (iter n rstep sf) (iter n rstep sa).
Proof.
  induction n as [|n IH]; intros sf sa Hn H; [exact H|]. cbn [iter].
  apply IH; [apply notask_rstep; exact Hn | apply dark_rstep; assumption].
Qed.

Lemma drain_chan_nil s : chan (drain s) = [].
Proof.
  unfold drain. remember (length (chan s)) as n eqn:Hn. revert s Hn.
  induction n as [|n IH]; intros s Hn; cbn [iter].
  - destruct (chan s); [reflexivity|discriminate].
  - apply IH. destruct (rstep_frame s) as [F _]. rewrite F. destruct (chan s); cbn in *; lia.
Qed.

Definition qcond (l : list buf) (i : nat) : bool :=
  f_rec (b_flag (getb i l)) && negb (b_size (getb i l) =? 0).
Lemma flush_fold l : forall x,
  let y := fold_left (fun s i => queue_if i s) l x in
  wl y = wl x ++ filter (qcond (bufs x)) l /\ bufs y = bufs x /\ file y = file x.
Proof.
  induction l as [|i r IH]; intro x; cbn [fold_left filter].
  - rewrite app_nil_r. auto.
  - destruct (IH (queue_if i x)) as [A [B C]]. unfold queue_if in *. fold (qcond (bufs x) i) in *.
    destruct (qcond (bufs x) i); simp.
    + rewrite A, B, C. simp. rewrite <- app_assoc. auto.
    + rewrite A, B, C. auto.
Qed.

Lemma NoDup_app_filter {A} (p : A -> bool) (a b : list A) : NoDup (a ++ b) -> NoDup (a ++ filter p b).
Proof.
  induction a as [|x a IH]; cbn; intro H.
  - apply NoDup_filter. exact H.
  - inversion H as [|? ? Hx Ha]; subst. constructor; [|apply IH; exact Ha].
    intro Hin. apply Hx. apply in_app_or in Hin. apply in_or_app.
    destruct Hin as [Hin|Hin]; [left; exact Hin | right; apply filter_In in Hin; apply Hin].
Qed.

Lemma filter_ext_in' {A} (p q : A -> bool) l : (forall x, In x l -> p x = q x) -> filter p l = filter q l.
Proof.
  induction l as [|x l IH]; intro H; [reflexivity|]. cbn. rewrite (H x (or_introl eq_refl)).
  rewrite IH; [reflexivity|]. intros y Hy. apply H. right. exact Hy.
Qed.

Lemma dark_finish_file sf sa : notask sa -> Dark sf sa -> file (finish sf) = file (finish sa).
Proof.
  intros Hnt H. unfold finish.
  assert (Hd : Dark (drain sf) (drain sa)).
  { unfold drain. rewrite (d_chan _ _ H). apply dark_iter_r; assumption. }
  pose proof (drain_chan_nil sa) as Hnil.
  destruct Hd as [Hpc Hch Hsh Hwl Hfi Hb Hr Hc Hok Hprep Hnx Hnd].
  set (xf := drain sf) in *. set (xa := drain sa) in *.
  assert (Hids : ids xa = wl xa ++ shl xa) by (unfold ids; rewrite Hnil; reflexivity).
  unfold flush_shmem_list.
  destruct (flush_fold (shl xf) (with_shl [] xf)) as [A1 [B1 C1]].
  destruct (flush_fold (shl xa) (with_shl [] xa)) as [A2 [B2 C2]]. simp.
  set (yf := fold_left (fun s i => queue_if i s) (shl xf) (with_shl [] xf)) in *.
  set (ya := fold_left (fun s i => queue_if i s) (shl xa) (with_shl [] xa)) in *.
  assert (Hw : wl yf = wl ya).
  { rewrite A1, A2, Hwl, Hsh. f_equal. apply filter_ext_in'. intros i Hi. unfold qcond.
    rewrite (Hb i) by (rewrite Hids; apply in_or_app; right; exact Hi). reflexivity. }
  assert (Hsub : forall i, In i (wl ya) -> In i (ids xa)).
  { intros i Hi. rewrite A2 in Hi. rewrite Hids. apply in_app_or in Hi. apply in_or_app.
    destruct Hi as [Hi|Hi]; [left; exact Hi | right; apply filter_In in Hi; apply Hi]. }
  assert (Hndw : NoDup (wl ya)).
  { rewrite A2. apply NoDup_app_filter. rewrite <- Hids. exact Hnd. }
  unfold record_remaining.
  rewrite (write_all (wl yf)) by (rewrite Hw; exact Hndw).
  rewrite (write_all (wl ya)) by exact Hndw. simp.
  rewrite C1, C2, B1, B2, Hw. simp. rewrite Hfi. f_equal.
  apply body_ext. intros i Hi. apply Hb. apply Hsub. exact Hi.
Qed.

(* ------------------------------------------------------------------ going dark *)
Lemma with_chan_same s : with_chan (chan s) s = s.
Proof. destruct s; reflexivity. Qed.

Lemma pstep_mute_other single cap s :
  nox s ->
  (forall r, pc s <> PFinish r) -> (forall r, pc s <> PStart r) -> pc s <> PPrepStart ->
  pstep_mute single cap s = pstep_closed single cap s.
Proof.
  intros Hnx H1 H2 H3. unfold pstep_mute, pstep_closed, nox in *.
  destruct (pc s) eqn:Epc; try contradiction; try (exfalso; eapply H1; reflexivity); try (exfalso; eapply H2; reflexivity);
    try (exfalso; apply H3; reflexivity);
    unfold pstep; rewrite Epc;
    repeat match goal with |- context [match ?x with _ => _ end] => destruct x end; simp; destruct s; reflexivity.
Qed.

Lemma dark_enter single recs cap s :
  Inv single recs s ->
  (exists r, pc s = PFinish r) \/ (exists r, pc s = PStart r) \/ pc s = PPrepStart ->
  Dark (pstep_mute single cap s) (pstep_closed single cap s).
Proof.
  intros HI Hp. pose proof HI as [Hnd Hrec Hfree Hcur Hpart Hshl Hcont Hrecs].
  unfold pstep_mute, pstep_closed, pstep.
  destruct Hp as [[r Epc]|[[r Epc]|Epc]]; rewrite Epc;
    unfold cur_ok, partial_ok, announced in Hcur, Hpart, Hshl; rewrite Epc in Hcur, Hpart, Hshl.
  - (* the current buffer is full *)
    assert (Hids : ids s = pend s) by (unfold ids, pend, others; rewrite Hshl, <- app_assoc; reflexivity).
    destruct (curr s) as [c|] eqn:Ec; constructor; simp; unfold cur_ok; simp;
      try reflexivity; try (change (ids (with_pc PDark (with_todo [] s))) with (ids s); rewrite Hids);
      try assumption; try (intros i Hi; apply Hrec; exact Hi); try discriminate;
      try (intros [H|H]; discriminate).
    all: try (intros c' E'; congruence).
  - (* the new buffer's REC_START is lost *)
    destruct Hcur as [c Ec].
    destruct (cur_facts single recs s c HI Ec) as [Hp [Hni [Hndo _]]].
    assert (Hids : ids (with_pc PDark (with_todo [] (with_curr None s))) = others s).
    { unfold ids, others. simp. rewrite Hshl, app_nil_r. reflexivity. }
    constructor; simp; unfold cur_ok; simp; try reflexivity; try (rewrite Hids); try assumption;
      try (intros [H|H]; discriminate).
    + intros i Hi. apply Hrec. rewrite Hp. apply in_or_app. left. exact Hi.
    + intros c' Ec'. rewrite Ec in Ec'. injection Ec' as <-. exact Hni.
    + exists c. exact Ec.
  - (* the thread's very first REC_START is lost *)
    assert (Hids : ids s = pend s).
    { unfold ids, pend, others. rewrite Hshl, <- app_assoc. reflexivity. }
    destruct Hpart as [Hl0 Hf0].
    constructor; simp; unfold cur_ok; simp;
      try reflexivity; try (change (ids (with_pc PDark (with_todo [] s))) with (ids s); rewrite Hids);
      try assumption; try (intros i Hi; apply Hrec; exact Hi).
    + intros c Ec. rewrite Hcur in Ec. discriminate.
    + intros _ Hin. destruct (Hrec 0 Hin) as [_ Hf]. congruence.
Qed.

Lemma pstep_closed_dark single cap s : pc s = PDark -> pstep_closed single cap s = s.
Proof. intro E. unfold pstep_closed, pstep. rewrite E. reflexivity. Qed.
Lemma dstep_dark c s : pc s = PDark -> dstep c s = s.
Proof. intro E. unfold dstep. rewrite E. reflexivity. Qed.

Lemma dark_dstep sf sa : Dark sf sa -> Dark (dstep true sf) sa.
Proof.
  intros H. unfold dstep. destruct (pc sf) eqn:Epc; try exact H.
  destruct H as [Hpc Hch Hsh Hwl Hfi Hb Hr Hc Hok Hprep Hnx Hnd].
  constructor; simp; unfold cur_ok; simp; try assumption; try exact I.
  intros [E|E]; discriminate.
Qed.

(* ------------------------------------------------------------------ the theorem *)
Definition Rel (closed : bool) (sf sa : st) : Prop := sf = sa \/ (closed = true /\ Dark sf sa).

(* no exec on the way: neither machine is ever inside an exec()ed image's set-up, no TASK_START in the pipe *)
Definition NoX (s : st) : Prop := nox s /\ notask s.

Lemma notask_append s s' m : chan s' = chan s ++ [m] -> (forall i, m <> MTask i) -> notask s -> notask s'.
Proof.
  intros Hc Hm H i Hin. rewrite Hc in Hin. apply in_app_or in Hin. destruct Hin as [Hin|[Hin|[]]]; [exact (H i Hin)|].
  exact (Hm i Hin).
Qed.
Lemma notask_same s s' : chan s' = chan s -> notask s -> notask s'.
Proof. intros Hc H i Hin. rewrite Hc in Hin. exact (H i Hin). Qed.

Lemma nox_pstep single cap s : NoX s -> NoX (pstep single cap s).
Proof.
  intros [Hn Ht]. split; [apply pstep_nox; exact Hn|].
  unfold nox in Hn. unfold pstep. destruct (pc s) eqn:Epc; try contradiction;
    repeat match goal with |- context [match ?x with _ => _ end] => destruct x eqn:? end;
    try (apply (notask_same s); [reflexivity | exact Ht]);
    (eapply (notask_append s); [simp; reflexivity | intros; discriminate | exact Ht]).
Qed.
Lemma nox_pstep_closed single cap s : NoX s -> NoX (pstep_closed single cap s).
Proof.
  intros H. unfold pstep_closed. destruct (pc s) eqn:Epc; try (apply nox_pstep; exact H);
    destruct H as [Hn Ht]; (split; [unfold nox; simp; exact I | apply (notask_same s); [reflexivity | exact Ht]]).
Qed.
Lemma nox_rstep s : NoX s -> NoX (rstep s).
Proof.
  intros [Hn Ht]. split; [|apply notask_rstep; exact Ht].
  destruct (rstep_frame s) as [_ [F _]]. unfold nox in *. rewrite F. exact Hn.
Qed.
Lemma nox_wstep s : NoX s -> NoX (wstep s).
Proof.
  intros [Hn Ht]. unfold wstep. destruct (wl s); [split; assumption|].
  split; [unfold nox, write_one in *; simp; exact Hn | apply (notask_same s); [reflexivity | exact Ht]].
Qed.
Lemma nox_dstep c s : NoX s -> NoX (dstep c s).
Proof.
  intros [Hn Ht]. unfold dstep, pend_thread. destruct (pc s) eqn:Epc; try (split; assumption).
  destruct c; [|destruct (curr s)]; (split; [unfold nox; simp; exact I|]);
    try (apply (notask_same s); [reflexivity | exact Ht]).
  eapply (notask_append s); [simp; reflexivity | intros; discriminate | exact Ht].
Qed.
Lemma notask_task s : notask s -> TaskInv s.
Proof. intros H pre i post E. exfalso. apply (H i). rewrite E. apply in_or_app. right. left. reflexivity. Qed.

Lemma frun_rel single recs cap sched : forall sf sa closed,
  Inv single recs sa -> NoX sa -> Rel closed sf sa ->
  file (finish (fst (frun single cap sched (sf, closed)))) = file (finish (run single cap (asched closed sched) sa)).
Proof.
  induction sched as [|l r IH]; intros sf sa closed HI HX HR.
  - cbn. destruct HR as [->|[_ HD]]; [reflexivity | apply dark_finish_file; [apply HX | exact HD]].
  - cbn [frun fold_left asched]. unfold run. rewrite fold_left_app. fold (run single cap).
    destruct l; cbn [fstep alab fold_left].
    + (* producer *)
      destruct closed.
      * cbn [step]. apply IH; [apply pstep_closed_inv; exact HI | apply nox_pstep_closed; exact HX |].
        destruct HR as [->|[_ HD]].
        -- destruct (pc sa) eqn:Epc;
             try (left; apply pstep_mute_other; [apply HX | rewrite Epc; intros; discriminate ..]);
             right; (split; [reflexivity|]); apply (dark_enter single recs); try exact HI; eauto.
        -- right. split; [reflexivity|]. rewrite (pstep_closed_dark _ _ _ (d_pc _ _ HD)). apply dark_pstep. exact HD.
      * cbn [step]. apply IH; [apply pstep_inv; exact HI | apply nox_pstep; exact HX |].
        destruct HR as [->|[E _]]; [left; reflexivity | discriminate].
    + cbn [step]. apply IH; [apply rstep_inv; [apply notask_task; apply HX | exact HI] | apply nox_rstep; exact HX |].
      destruct HR as [->|[E HD]]; [left; reflexivity | right; split; [exact E | apply dark_rstep; [apply HX | exact HD]]].
    + cbn [step]. apply IH; [apply wstep_inv; exact HI | apply nox_wstep; exact HX |].
      destruct HR as [->|[E HD]]; [left; reflexivity | right; split; [exact E | apply dark_wstep; exact HD]].
    + (* the pipe is closed *)
      apply IH; [exact HI | exact HX |]. destruct HR as [->|[_ HD]]; [left; reflexivity | right; split; [reflexivity|exact HD]].
    + (* mtd_dtor *)
      destruct closed; cbn [step]; (apply IH; [apply dstep_inv; exact HI | apply nox_dstep; exact HX |]).
      * destruct HR as [->|[_ HD]]; [left; reflexivity|].
        right. split; [reflexivity|]. rewrite (dstep_dark _ _ (d_pc _ _ HD)). apply dark_dstep. exact HD.
      * destruct HR as [->|[E _]]; [left; reflexivity | discriminate].
Qed.

Lemma start_nox setup recs : NoX (start setup recs).
Proof.
  split; [destruct setup; exact I|]. intros i Hin. destruct setup; cbn in Hin; [exact Hin|].
  destruct Hin as [Hin|[]]. discriminate.
Qed.

(* the faithful machine (every store of a thread that lost its connection to the recorder happens) and the
   machine of the theorems (such a thread is `PDark`) leave the same data file *)
Theorem dark_is_faithful setup single cap recs sched :
  file (finish (fst (frun single cap sched (start setup recs, false))))
  = file (finish (run single cap (asched false sched) (start setup recs))).
Proof. apply (frun_rel single recs); [apply start_inv | apply start_nox | left; reflexivity]. Qed.

(* hence the guarantee for the faithful machine *)
Theorem prefix_faithful setup cap recs sched :
  ok_prefix recs (file (finish (fst (frun true cap sched (start setup recs, false))))) = true.
Proof. rewrite dark_is_faithful. apply (prefix_fixed setup cap recs (asched false sched)). Qed.

(* non-vacuity: the pipe is closed while the thread fills its first buffer; it switches to a second one
   (REC_END and REC_START lost) and stores two more records there: they exist in shared memory, the
   recorder never sees them, and the file is what the abstract machine says *)
Example dark_nv :
  let recs := [w_r2; w_r1; w_r2; w_r2; w_r2] in
  let sf := fst (frun true 48 (repeat FP 9 ++ [FC] ++ repeat FP 30) (init0 recs, false)) in
  let sa := run true 48 (asched false (repeat FP 9 ++ [FC] ++ repeat FP 30)) (init0 recs) in
  pc sa = PDark /\ length (done sa) = 2 /\ length (done sf) = 5 /\ curr sf = Some 1
  /\ b_size (getb 1 (bufs sf)) = 48 /\ chan sf = [MStart 0]
  /\ length (file (finish sf)) = 40 /\ file (finish sf) = file (finish sa).
Proof. vm_compute. repeat split; reflexivity. Qed.
