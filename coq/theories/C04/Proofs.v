(* C04 - proofs about the producer/recorder LTS: whatever the interleaving and wherever the
   tracee dies, the data file after the recorder's end-of-recording sequence consists of the
   completely stored records, in order (plus the bare header of the record in flight when the
   tracee died between its two size updates). *)
From Coq Require Import NArith List Bool Arith Lia.
Import ListNotations.
Require Import UV.Gen.Consts UV.C04.Model.

(* ------------------------------------------------------------------ lists *)
Lemma firstn_exact {A} (l1 l2 : list A) : firstn (length l1) (l1 ++ l2) = l1.
Proof. induction l1; cbn; [destruct l2; reflexivity | f_equal; assumption]. Qed.
Lemma skipn_exact {A} (l1 l2 : list A) : skipn (length l1) (l1 ++ l2) = l2.
Proof. induction l1; cbn; auto. Qed.

Lemma list_eqb_refl l : list_eqb l l = true.
Proof. induction l; cbn; [reflexivity | rewrite N.eqb_refl; assumption]. Qed.

Lemma le_bytes_length n v : length (le_bytes n v) = n.
Proof. revert v; induction n; intro v; cbn; [reflexivity | f_equal; apply IHn]. Qed.
Lemma hdr_length r : length (hdr r) = 16.
Proof. unfold hdr, le64. rewrite app_length, !le_bytes_length. reflexivity. Qed.

Lemma align8_ge n : n <= align8 n.
Proof.
  unfold align8. pose proof (Nat.div_mod_eq (n + 7) 8) as H.
  pose proof (Nat.mod_upper_bound (n + 7) 8) as H1. lia.
Qed.

(* ------------------------------------------------------------------ memory *)
Lemma read_at_length off n m : length (read_at off n m) = n.
Proof. unfold read_at. rewrite map_length, seq_length. reflexivity. Qed.

Lemma read_at_app off a b m : read_at off (a + b) m = read_at off a m ++ read_at (off + a) b m.
Proof. unfold read_at. rewrite seq_app, map_app. reflexivity. Qed.

Lemma read_at_0 off m : read_at off 0 m = [].
Proof. reflexivity. Qed.

Lemma map_nth_seq (bs : list N) : map (fun k => nth k bs 0%N) (seq 0 (length bs)) = bs.
Proof.
  induction bs as [|b bs IH]; cbn [length seq map]; [reflexivity|].
  cbn [nth]. f_equal. rewrite <- seq_shift, map_map. exact IH.
Qed.

Lemma read_write_same off bs m : read_at off (length bs) (write_at off bs m) = bs.
Proof.
  unfold read_at.
  rewrite <- (map_nth_seq bs) at 3.
  replace (seq off (length bs)) with (map (fun k => off + k) (seq 0 (length bs))).
  - rewrite map_map. apply map_ext_in. intros k Hk. apply in_seq in Hk.
    unfold write_at.
    replace ((off <=? off + k) && (off + k <? off + length bs)) with true.
    + f_equal. lia.
    + symmetry. apply andb_true_iff. split; [apply Nat.leb_le | apply Nat.ltb_lt]; lia.
  - clear. revert off. induction (length bs) as [|n IH]; intro off; cbn [seq map]; [reflexivity|].
    f_equal; [lia|]. rewrite <- seq_shift, map_map. rewrite <- (IH (S off)).
    apply map_ext. intro; lia.
Qed.

Lemma read_write_other off bs m off' n :
  off' + n <= off \/ off + length bs <= off' ->
  read_at off' n (write_at off bs m) = read_at off' n m.
Proof.
  intro H. unfold read_at. apply map_ext_in. intros i Hi. apply in_seq in Hi.
  unfold write_at.
  destruct ((off <=? i) && (i <? off + length bs)) eqn:E; [|reflexivity].
  apply andb_true_iff in E. destruct E as [E1 E2].
  apply Nat.leb_le in E1. apply Nat.ltb_lt in E2. lia.
Qed.

(* ------------------------------------------------------------------ buffers *)
Lemma upd_length {A} i (f : A -> A) l : length (upd i f l) = length l.
Proof. revert i; induction l; intros [|i]; cbn; auto. Qed.

Lemma getb_upd_same i f l : i < length l -> getb i (upd i f l) = f (getb i l).
Proof.
  unfold getb. revert i; induction l as [|x l IH]; intros [|i] H; cbn in *; try lia; [reflexivity|].
  apply IH. lia.
Qed.
Lemma getb_upd_other i j f l : i <> j -> getb j (upd i f l) = getb j l.
Proof.
  unfold getb. revert i j; induction l as [|x l IH]; intros [|i] [|j] H; cbn; try reflexivity; try lia.
  apply IH. lia.
Qed.
Lemma getb_app1 i l l' : i < length l -> getb i (l ++ l') = getb i l.
Proof. intro H. unfold getb. apply app_nth1. exact H. Qed.
Lemma getb_app_fresh l : getb (length l) (l ++ [fresh_buf]) = fresh_buf.
Proof. unfold getb. rewrite app_nth2; [|lia]. rewrite Nat.sub_diag. reflexivity. Qed.
Lemma getb_overflow i l : length l <= i -> getb i l = fresh_buf.
Proof. intro H. unfold getb. apply nth_overflow. exact H. Qed.

Lemma find_free_le l : find_free l <= length l.
Proof. induction l as [|b l IH]; cbn; [lia|]. destruct (f_rec (b_flag b)); lia. Qed.
Lemma find_free_free l : find_free l < length l -> f_rec (b_flag (getb (find_free l) l)) = false.
Proof.
  unfold getb. induction l as [|b l IH]; cbn; [lia|].
  destruct (f_rec (b_flag b)) eqn:E; intro H; [apply IH; lia | exact E].
Qed.

Lemma nth_skipn_add {A} b k (l : list A) d : nth k (skipn b l) d = nth (b + k) l d.
Proof. revert l. induction b as [|b IH]; intro l; [reflexivity|]. destruct l as [|x l]; [destruct k; reflexivity|]. cbn. apply IH. Qed.
Lemma ff_le b l : find_free_from b l <= length l.
Proof.
  unfold find_free_from. destruct (b <=? length l) eqn:E; [|lia]. apply Nat.leb_le in E.
  pose proof (find_free_le (skipn b l)) as H. rewrite skipn_length in H. lia.
Qed.
Lemma ff_free b l : find_free_from b l < length l -> f_rec (b_flag (getb (find_free_from b l) l)) = false.
Proof.
  unfold find_free_from. destruct (b <=? length l) eqn:E; [|lia]. apply Nat.leb_le in E. intro H.
  assert (Hk : find_free (skipn b l) < length (skipn b l)) by (rewrite skipn_length; lia).
  pose proof (find_free_free _ Hk) as Hf. unfold getb in *. rewrite nth_skipn_add in Hf. exact Hf.
Qed.

Lemma getb_removelast i l : i < length l - 1 -> getb i (removelast l) = getb i l.
Proof.
  intro H. destruct l as [|x l'] eqn:E; [reflexivity|]. rewrite <- E in *.
  assert (Hne : l <> []) by (subst; discriminate).
  rewrite (app_removelast_last fresh_buf Hne) at 2.
  symmetry. apply getb_app1.
  rewrite (app_removelast_last fresh_buf Hne) in H. rewrite app_length in H. cbn in H. lia.
Qed.
Lemma removelast_length {A} (l : list A) : length (removelast l) = length l - 1.
Proof.
  destruct l as [|x l'] eqn:E; [reflexivity|]. rewrite <- E.
  assert (Hne : l <> []) by (subst; discriminate).
  rewrite (app_removelast_last x Hne) at 2. rewrite app_length. cbn. lia.
Qed.
Lemma last_getb l : l <> [] -> last l fresh_buf = getb (length l - 1) l.
Proof.
  intro Hne. rewrite (app_removelast_last fresh_buf Hne) at 2 3.
  unfold getb. rewrite app_length. cbn [length].
  rewrite app_nth2; [|lia].
  replace (length (removelast l) + 1 - 1 - length (removelast l)) with 0 by lia. reflexivity.
Qed.

(* ------------------------------------------------------------------ whole records *)
Definition chunk_ok (r : rec) (c : list N) : Prop :=
  exists pad, c = hdr r ++ r_pl r ++ pad /\ length pad = align8 (length (r_pl r)) - length (r_pl r).

Inductive Matches : list rec -> list N -> Prop :=
| M_nil : Matches [] []
| M_cons r c rs bs : chunk_ok r c -> Matches rs bs -> Matches (r :: rs) (c ++ bs).

Lemma Matches_snoc rs bs r c : Matches rs bs -> chunk_ok r c -> Matches (rs ++ [r]) (bs ++ c).
Proof.
  induction 1 as [|r0 c0 rs0 bs0 Hc0 Hm IH]; intro Hc; cbn.
  - rewrite <- (app_nil_r c). constructor; [exact Hc | constructor].
  - rewrite <- app_assoc. constructor; [exact Hc0 | apply IH; exact Hc].
Qed.

Lemma chunk_length r c : chunk_ok r c -> length c = 16 + align8 (length (r_pl r)).
Proof.
  intros [pad [-> Hp]]. rewrite !app_length, hdr_length, Hp.
  pose proof (align8_ge (length (r_pl r))). lia.
Qed.

(* the executable checker accepts every byte string made of whole records *)
Lemma Matches_match_recs rs bs : Matches rs bs -> match_recs rs bs = true.
Proof.
  induction 1 as [|r c rs bs Hc Hm IH]; [reflexivity|].
  cbn [match_recs].
  pose proof (chunk_length r c Hc) as Hl.
  destruct Hc as [pad [-> Hp]].
  apply andb_true_iff; split; [apply andb_true_iff; split|].
  - apply Nat.leb_le. rewrite app_length, Hl. lia.
  - replace (16 + length (r_pl r)) with (length (hdr r ++ r_pl r)) by (rewrite app_length, hdr_length; reflexivity).
    replace ((hdr r ++ r_pl r ++ pad) ++ bs) with ((hdr r ++ r_pl r) ++ (pad ++ bs)) by (rewrite <- !app_assoc; reflexivity).
    rewrite firstn_exact. apply list_eqb_refl.
  - rewrite <- Hl. rewrite skipn_exact. exact IH.
Qed.

(* ------------------------------------------------------------------ the invariant *)
Definition ends (ch : list msg) : list nat :=
  flat_map (fun m => match m with MEnd i => [i] | MStart _ => [] | MTask i => [i] end) ch.
Definition curl (s : st) : list nat := match curr s with Some c => [c] | None => [] end.
Definition others (s : st) : list nat := wl s ++ ends (chan s).
Definition pend (s : st) : list nat := others s ++ curl s.
Definition body (l : list buf) (ids : list nat) : list N :=
  concat (map (fun i => committed (getb i l)) ids).
Definition content (s : st) : list N := file s ++ body (bufs s) (pend s).

Fixpoint shl_after (ch : list msg) (l : list nat) : list nat :=
  match ch with
  | [] => l
  | MStart i :: t => shl_after t (l ++ [i])
  | MEnd i :: t => shl_after t (remove_first i l)
  | MTask _ :: t => shl_after t (List.tl l)
  end.
Definition announced (s : st) : list nat :=
  match pc s with
  | PZero _ | PStart _ => []
  | PPrepFlag => [0]
  | PXFlag b o | PXTask b o => [o; b]
  | _ => curl s
  end.

Definition cur_ok (s : st) : Prop :=
  match pc s with
  | PZero _ | PStart _ | PTime _ | PWord _ | PBump _ | PCopy _ | PBumpPl _ => exists c, curr s = Some c
  | PPick _ | PPrepStart | PPrepFlag => curr s = None
  | PXStart b o | PXFlag b o | PXTask b o => curr s = Some o
  | _ => True
  end.
Definition partial_ok (single : bool) (s : st) : Prop :=
  let b := getb (cur_buf s) (bufs s) in
  match pc s with
  | PWord r => read_at (b_size b) 8 (b_data b) = le64 (r_time r)
  | PBump r => read_at (b_size b) 16 (b_data b) = hdr r
  | PCopy r => if single then read_at (b_size b) 16 (b_data b) = hdr r else True
  | PBumpPl r =>
      if single then read_at (b_size b) 16 (b_data b) = hdr r
                     /\ read_at (b_size b + 16) (length (r_pl r)) (b_data b) = r_pl r
      else read_at (b_size b) (length (r_pl r)) (b_data b) = r_pl r
  | PZero _ | PStart _ => b_size b = 0
  | PPrepStart | PPrepFlag => 0 < length (bufs s) /\ f_rec (b_flag (getb 0 (bufs s))) = false
  | PXStart n o | PXFlag n o => n < length (bufs s) /\ f_rec (b_flag (getb n (bufs s))) = false
  | PXTask n o => n < length (bufs s) /\ f_rec (b_flag (getb n (bufs s))) = true
                  /\ b_size (getb n (bufs s)) = 0 /\ ~ In n (pend s)
  | _ => True
  end.
Definition extra (single : bool) (s : st) : list N :=
  if single then [] else match pc s with PCopy r | PBumpPl r => hdr r | _ => [] end.
Definition inflight (s : st) : list rec :=
  match pc s with
  | PIdle => []
  | PCheck r | PFinish r | PPick r | PZero r | PStart r | PTime r | PWord r | PBump r
  | PCopy r | PBumpPl r => [r]
  | PDark | PPrepStart | PPrepFlag | PXStart _ _ | PXFlag _ _ | PXTask _ _ => []
  end.

Record Inv (single : bool) (recs : list rec) (s : st) : Prop := {
  i_nodup : NoDup (pend s);
  i_rec : forall i, In i (pend s) -> i < length (bufs s) /\ f_rec (b_flag (getb i (bufs s))) = true;
  i_free : forall i, f_rec (b_flag (getb i (bufs s))) = false -> b_size (getb i (bufs s)) = 0;
  i_cur : cur_ok s;
  i_part : partial_ok single s;
  i_shl : shl_after (chan s) (shl s) = announced s;
  i_content : exists bs, Matches (done s) bs /\ content s = bs ++ extra single s;
  i_recs : exists rest, done s ++ inflight s ++ todo s ++ rest = recs /\ (pc s <> PDark -> rest = [])
}.

Lemma body_app l a b : body l (a ++ b) = body l a ++ body l b.
Proof. unfold body. rewrite map_app, concat_app. reflexivity. Qed.
Lemma body_upd_notin l c f ids : ~ In c ids -> body (upd c f l) ids = body l ids.
Proof.
  intro H. unfold body. f_equal. apply map_ext_in. intros i Hi.
  rewrite getb_upd_other; [reflexivity|]. intro; subst; contradiction.
Qed.
Lemma body_ext l l' ids : (forall i, In i ids -> getb i l' = getb i l) -> body l' ids = body l ids.
Proof. intro H. unfold body. f_equal. apply map_ext_in. intros i Hi. rewrite H; auto. Qed.
Lemma body_one l c : body l [c] = committed (getb c l).
Proof. unfold body. cbn. apply app_nil_r. Qed.

Lemma ends_app a b : ends (a ++ b) = ends a ++ ends b.
Proof. unfold ends. apply flat_map_app. Qed.
Lemma shl_after_app ch m l :
  shl_after (ch ++ [m]) l =
  match m with
  | MStart i => shl_after ch l ++ [i] | MEnd i => remove_first i (shl_after ch l) | MTask _ => List.tl (shl_after ch l)
  end.
Proof.
  revert l; induction ch as [|m0 ch IH]; intro l; cbn.
  - destruct m; reflexivity.
  - destruct m0; apply IH.
Qed.

Lemma init_inv single recs : Inv single recs (init recs).
Proof.
  constructor; cbn.
  - constructor; [intros []|constructor].
  - intros i [<-|[]]. cbn. split; [lia|reflexivity].
  - intros [|[|[|i]]]; cbn; try discriminate; reflexivity.
  - exact I.
  - exact I.
  - reflexivity.
  - exists []. split; [constructor|destruct single; reflexivity].
  - exists []. split; [rewrite app_nil_r; reflexivity | reflexivity].
Qed.

Lemma init0_inv single recs : Inv single recs (init0 recs).
Proof.
  constructor; cbn.
  - constructor.
  - intros i [].
  - intros [|[|[|i]]]; cbn; reflexivity.
  - reflexivity.
  - split; [lia|reflexivity].
  - reflexivity.
  - exists []. split; [constructor|destruct single; reflexivity].
  - exists []. split; [rewrite app_nil_r; reflexivity | reflexivity].
Qed.

(* ------------------------------------------------------------------ recorder steps *)
Ltac simp := cbn [bufs curr chan shl wl file pc todo done with_pc with_bufs with_curr with_chan with_shl
                  with_wl with_file with_todo with_done with_base base] in *.

Lemma committed_size0 b : b_size b = 0 -> committed b = [].
Proof. unfold committed. intros ->. reflexivity. Qed.

Lemma NoDup_app_remove_mid {A} (a : list A) x b : NoDup (a ++ x :: b) -> NoDup (a ++ b) /\ ~ In x (a ++ b).
Proof. intro H. split; [eapply NoDup_remove_1; eauto | eapply NoDup_remove_2; eauto]. Qed.

Lemma partial_ok_ext single s s' :
  pc s' = pc s -> curr s' = curr s ->
  (forall c, curr s = Some c -> getb c (bufs s') = getb c (bufs s)) ->
  (forall n, ~ In n (pend s) \/ f_rec (b_flag (getb n (bufs s))) = false -> getb n (bufs s') = getb n (bufs s)) ->
  length (bufs s') = length (bufs s) ->
  (forall n, In n (pend s') -> In n (pend s)) ->
  cur_ok s -> partial_ok single s -> partial_ok single s'.
Proof.
  intros Hpc Hc Hb H0 Hlen Hpe Hcur Hp. unfold partial_ok, cur_ok, cur_buf in *. rewrite Hpc, Hc, Hlen.
  destruct (pc s); try exact I.
  all: try (destruct Hp as [Hp1 Hp2]; rewrite (H0 _ (or_intror Hp2)); split; assumption).
  all: try (destruct Hp as [Hp1 [Hp2 [Hp3 Hp4]]]; rewrite (H0 _ (or_introl Hp4)); repeat split; try assumption;
            intro Hn; apply Hp4; apply Hpe; exact Hn).
  all: destruct Hcur as [c Ec]; rewrite Ec in *; rewrite (Hb c eq_refl); exact Hp.
Qed.

(* when TASK_START of an exec()ed image reaches the head of the pipe, the first announced buffer of the tid is
   the one the old image was recording into *)
Definition TaskInv (s : st) : Prop :=
  forall pre i post, chan s = pre ++ MTask i :: post -> exists r, shl_after pre (shl s) = i :: r.

Lemma rstep_inv single recs s :
  TaskInv s -> Inv single recs s -> Inv single recs (rstep s) /\ content (rstep s) = content s.
Proof.
  intros HT HI.
  unfold rstep. destruct (chan s) as [|[i|i|i] ch] eqn:Ech;
    [split; [exact HI | reflexivity] | | |]; destruct HI as [Hnd Hrec Hfree Hcur Hpart Hshl Hcont Hrecs].
  - (* REC_START *)
    assert (Hp : pend (with_shl (shl s ++ [i]) (with_chan ch s)) = pend s).
    { unfold pend, others, curl. simp. rewrite Ech. reflexivity. }
    assert (Hincl : forall n, In n (pend (with_shl (shl s ++ [i]) (with_chan ch s))) -> In n (pend s))
      by (intros n Hn; rewrite Hp in Hn; exact Hn).
    split.
    + constructor; try (rewrite Hp); simp; try assumption; try (apply (partial_ok_ext single s); [reflexivity | reflexivity | intros; reflexivity | intros; reflexivity | reflexivity | exact Hincl | assumption | assumption]).
      * unfold announced, curl in *. simp. rewrite <- Hshl, Ech. reflexivity.
      * unfold content in *. rewrite Hp. simp. exact Hcont.
    + unfold content. rewrite Hp. reflexivity.
  - (* REC_END *)
    set (s1 := with_shl (remove_first i (shl s)) (with_chan ch s)).
    assert (Hpend : pend s = wl s ++ i :: ends ch ++ curl s).
    { unfold pend, others. rewrite Ech. cbn. rewrite <- app_assoc. reflexivity. }
    assert (Hshl1 : shl_after (chan s1) (shl s1) = announced s1).
    { unfold s1, announced, curl in *. simp. rewrite <- Hshl, Ech. reflexivity. }
    unfold queue_if.
    destruct (f_rec (b_flag (getb i (bufs s1))) && negb (b_size (getb i (bufs s1)) =? 0)) eqn:Eq.
    + assert (Hp : pend (with_wl (wl s1 ++ [i]) s1) = pend s).
      { rewrite Hpend. unfold pend, others, curl, s1. simp. rewrite <- !app_assoc. reflexivity. }
      assert (Hincl : forall n, In n (pend (with_wl (wl s1 ++ [i]) s1)) -> In n (pend s))
        by (intros n Hn; rewrite Hp in Hn; exact Hn).
      split.
      * constructor; try (rewrite Hp); unfold s1 in *; simp; try assumption; try (apply (partial_ok_ext single s); [reflexivity | reflexivity | intros; reflexivity | intros; reflexivity | reflexivity | exact Hincl | assumption | assumption]).
        unfold content in *. rewrite Hp. simp. exact Hcont.
      * unfold content. rewrite Hp. reflexivity.
    + assert (Hp : pend s1 = wl s ++ ends ch ++ curl s).
      { unfold pend, others, curl, s1. simp. rewrite <- app_assoc. reflexivity. }
      rewrite Hpend in Hnd. apply NoDup_app_remove_mid in Hnd. destruct Hnd as [Hnd Hni].
      assert (Hi : In i (pend s)) by (rewrite Hpend; apply in_or_app; right; left; reflexivity).
      destruct (Hrec i Hi) as [_ Hri].
      assert (Hsz : b_size (getb i (bufs s)) = 0).
      { unfold s1 in Eq. simp. rewrite Hri in Eq. cbn in Eq.
        apply negb_false_iff in Eq. apply Nat.eqb_eq in Eq. exact Eq. }
      assert (Hc : content s1 = content s).
      { unfold content. rewrite Hp, Hpend. unfold s1. simp.
        rewrite !body_app. f_equal. f_equal.
        change (i :: ends ch ++ curl s) with ([i] ++ (ends ch ++ curl s)).
        rewrite (body_app _ [i]), body_one, (committed_size0 _ Hsz). rewrite body_app. reflexivity. }
      assert (Hincl : forall n, In n (pend s1) -> In n (pend s)).
      { intros n Hn. rewrite Hp in Hn. rewrite Hpend.
        apply in_app_or in Hn. apply in_or_app. destruct Hn as [Hn|Hn]; [left; exact Hn | right; right; exact Hn]. }
      split; [|exact Hc].
      constructor; try (rewrite Hp); unfold s1 in *; simp; try assumption; try (apply (partial_ok_ext single s); [reflexivity | reflexivity | intros; reflexivity | intros; reflexivity | reflexivity | exact Hincl | assumption | assumption]).
      * intros j Hj. apply Hrec. rewrite Hpend.
        apply in_app_or in Hj. apply in_or_app. destruct Hj as [Hj|Hj]; [left; exact Hj | right; right; exact Hj].
      * rewrite Hc. exact Hcont.
  - (* TASK_START of an exec()ed image: flush_old_shmem takes the first announced buffer - the old image's *)
    destruct (HT [] i ch Ech) as [r Hr]. cbn [shl_after] in Hr. rewrite Hr.
    set (s1 := with_shl r (with_chan ch s)).
    assert (Hpend : pend s = wl s ++ i :: ends ch ++ curl s).
    { unfold pend, others. rewrite Ech. cbn. rewrite <- app_assoc. reflexivity. }
    assert (Hshl1 : shl_after (chan s1) (shl s1) = announced s1).
    { unfold s1, announced, curl in *. simp. rewrite <- Hshl, Ech. cbn [shl_after]. rewrite Hr. reflexivity. }
    unfold queue_if.
    destruct (f_rec (b_flag (getb i (bufs s1))) && negb (b_size (getb i (bufs s1)) =? 0)) eqn:Eq.
    + assert (Hp : pend (with_wl (wl s1 ++ [i]) s1) = pend s).
      { rewrite Hpend. unfold pend, others, curl, s1. simp. rewrite <- !app_assoc. reflexivity. }
      assert (Hincl : forall n, In n (pend (with_wl (wl s1 ++ [i]) s1)) -> In n (pend s))
        by (intros n Hn; rewrite Hp in Hn; exact Hn).
      split.
      * constructor; try (rewrite Hp); unfold s1 in *; simp; try assumption; try (apply (partial_ok_ext single s); [reflexivity | reflexivity | intros; reflexivity | intros; reflexivity | reflexivity | exact Hincl | assumption | assumption]).
        unfold content in *. rewrite Hp. simp. exact Hcont.
      * unfold content. rewrite Hp. reflexivity.
    + assert (Hp : pend s1 = wl s ++ ends ch ++ curl s).
      { unfold pend, others, curl, s1. simp. rewrite <- app_assoc. reflexivity. }
      rewrite Hpend in Hnd. apply NoDup_app_remove_mid in Hnd. destruct Hnd as [Hnd Hni].
      assert (Hi : In i (pend s)) by (rewrite Hpend; apply in_or_app; right; left; reflexivity).
      destruct (Hrec i Hi) as [_ Hri].
      assert (Hsz : b_size (getb i (bufs s)) = 0).
      { unfold s1 in Eq. simp. rewrite Hri in Eq. cbn in Eq.
        apply negb_false_iff in Eq. apply Nat.eqb_eq in Eq. exact Eq. }
      assert (Hc : content s1 = content s).
      { unfold content. rewrite Hp, Hpend. unfold s1. simp.
        rewrite !body_app. f_equal. f_equal.
        change (i :: ends ch ++ curl s) with ([i] ++ (ends ch ++ curl s)).
        rewrite (body_app _ [i]), body_one, (committed_size0 _ Hsz). rewrite body_app. reflexivity. }
      assert (Hincl : forall n, In n (pend s1) -> In n (pend s)).
      { intros n Hn. rewrite Hp in Hn. rewrite Hpend.
        apply in_app_or in Hn. apply in_or_app. destruct Hn as [Hn|Hn]; [left; exact Hn | right; right; exact Hn]. }
      split; [|exact Hc].
      constructor; try (rewrite Hp); unfold s1 in *; simp; try assumption; try (apply (partial_ok_ext single s); [reflexivity | reflexivity | intros; reflexivity | intros; reflexivity | reflexivity | exact Hincl | assumption | assumption]).
      * intros j Hj. apply Hrec. rewrite Hpend.
        apply in_app_or in Hj. apply in_or_app. destruct Hj as [Hj|Hj]; [left; exact Hj | right; right; exact Hj].
      * rewrite Hc. exact Hcont.
Qed.

Lemma wstep_inv single recs s : Inv single recs s -> Inv single recs (wstep s) /\ content (wstep s) = content s.
Proof.
  intros HI. unfold wstep. destruct (wl s) as [|i w] eqn:Ewl; [split; [exact HI|reflexivity]|].
  destruct HI as [Hnd Hrec Hfree Hcur Hpart Hshl Hcont Hrecs].
  set (rest := w ++ ends (chan s) ++ curl s).
  assert (Hpend : pend s = i :: rest).
  { unfold pend, others, rest. rewrite Ewl. cbn. rewrite <- app_assoc. reflexivity. }
  set (s' := write_one true i (with_wl w s)).
  assert (Hp : pend s' = rest).
  { unfold pend, others, curl, rest, s', write_one. simp. rewrite <- app_assoc. reflexivity. }
  rewrite Hpend in Hnd. inversion Hnd as [|x l Hni Hnd' Ex]; subst x l.
  assert (Hil : i < length (bufs s)) by (apply Hrec; rewrite Hpend; left; reflexivity).
  assert (Hb : forall j, In j rest -> getb j (bufs s') = getb j (bufs s)).
  { intros j Hj. unfold s', write_one. simp. apply getb_upd_other. intro; subst; contradiction. }
  assert (Hc : content s' = content s).
  { unfold content. rewrite Hp, Hpend. unfold s', write_one. simp.
    rewrite <- app_assoc. f_equal.
    change (i :: rest) with ([i] ++ rest). rewrite body_app, body_one. f_equal.
    apply body_upd_notin. exact Hni. }
  split; [|exact Hc].
  constructor; try (rewrite Hp).
  - exact Hnd'.
  - intros j Hj. rewrite (Hb j Hj). unfold s', write_one. simp. rewrite upd_length.
    apply Hrec. rewrite Hpend. right. exact Hj.
  - intros j. unfold s', write_one. simp.
    destruct (Nat.eq_dec i j) as [<-|Hne].
    + rewrite getb_upd_same by exact Hil. reflexivity.
    + rewrite getb_upd_other by exact Hne. apply Hfree.
  - unfold s', write_one, cur_ok in *. simp. exact Hcur.
  - assert (Hi0 : In i (pend s)) by (rewrite Hpend; left; reflexivity).
    apply (partial_ok_ext single s); try reflexivity; try assumption.
    + intros c Ec. apply Hb. unfold rest, curl. rewrite Ec. apply in_or_app. right. apply in_or_app. right. left. reflexivity.
    + intros n Hn. unfold s', write_one. simp. apply getb_upd_other. intro E0. subst n.
      destruct (Hrec i Hi0) as [_ Hf0]. destruct Hn as [Hn|Hn]; [contradiction | congruence].
    + unfold s', write_one. simp. apply upd_length.
    + intros n Hn. rewrite Hp in Hn. rewrite Hpend. right. exact Hn.
  - unfold s', write_one, announced, curl in *. simp. exact Hshl.
  - rewrite Hc. unfold s', write_one, extra. simp. exact Hcont.
  - unfold s', write_one, inflight. simp. exact Hrecs.
Qed.

(* ------------------------------------------------------------------ producer steps *)
Definition pre (s : st) : list N := file s ++ body (bufs s) (others s).

Lemma cur_facts single recs s c :
  Inv single recs s -> curr s = Some c ->
  pend s = others s ++ [c] /\ ~ In c (others s) /\ NoDup (others s) /\ c < length (bufs s)
  /\ f_rec (b_flag (getb c (bufs s))) = true /\ content s = pre s ++ committed (getb c (bufs s)).
Proof.
  intros HI Ec. destruct HI as [Hnd Hrec _ _ _ _ _ _].
  assert (Hp : pend s = others s ++ [c]) by (unfold pend, curl; rewrite Ec; reflexivity).
  rewrite Hp in Hnd.
  assert (Hin : In c (pend s)) by (rewrite Hp; apply in_or_app; right; left; reflexivity).
  destruct (Hrec c Hin) as [Hl Hf].
  split; [exact Hp|]. split.
  { replace (others s ++ [c]) with (others s ++ c :: []) in Hnd by reflexivity.
    apply NoDup_remove_2 in Hnd. rewrite app_nil_r in Hnd. exact Hnd. }
  split.
  { replace (others s ++ [c]) with (others s ++ c :: []) in Hnd by reflexivity.
    apply NoDup_remove_1 in Hnd. rewrite app_nil_r in Hnd. exact Hnd. }
  split; [exact Hl|]. split; [exact Hf|].
  unfold content, pre. rewrite Hp, body_app, body_one, app_assoc. reflexivity.
Qed.

Lemma on_cur_core single recs s c f :
  Inv single recs s -> curr s = Some c -> (forall b, b_flag (f b) = b_flag b) ->
  let s1 := on_cur f s in
  NoDup (pend s1)
  /\ (forall i, In i (pend s1) -> i < length (bufs s1) /\ f_rec (b_flag (getb i (bufs s1))) = true)
  /\ (forall i, f_rec (b_flag (getb i (bufs s1))) = false -> b_size (getb i (bufs s1)) = 0)
  /\ getb c (bufs s1) = f (getb c (bufs s))
  /\ content s1 = pre s ++ committed (f (getb c (bufs s))).
Proof.
  intros HI Ec Hf s1.
  destruct (cur_facts single recs s c HI Ec) as [Hp [Hni [Hndo [Hl [Hfc Hcont]]]]].
  destruct HI as [Hnd Hrec Hfree _ _ _ _ _].
  assert (Hcb : cur_buf s = c) by (unfold cur_buf; rewrite Ec; reflexivity).
  assert (Hpe : pend s1 = pend s) by reflexivity.
  assert (Hg : getb c (bufs s1) = f (getb c (bufs s))).
  { unfold s1, on_cur. simp. rewrite Hcb. apply getb_upd_same. exact Hl. }
  split; [rewrite Hpe; exact Hnd|]. split.
  { intros i Hi. rewrite Hpe in Hi. destruct (Hrec i Hi) as [Hli Hfi].
    unfold s1, on_cur. simp. rewrite upd_length, Hcb. split; [exact Hli|].
    destruct (Nat.eq_dec c i) as [<-|Hne].
    - rewrite getb_upd_same by exact Hl. rewrite Hf. exact Hfc.
    - rewrite getb_upd_other by exact Hne. exact Hfi. }
  split.
  { intros i. unfold s1, on_cur. simp. rewrite Hcb.
    destruct (Nat.eq_dec c i) as [<-|Hne].
    - rewrite getb_upd_same by exact Hl. rewrite Hf, Hfc. discriminate.
    - rewrite getb_upd_other by exact Hne. apply Hfree. }
  split; [exact Hg|].
  unfold content. rewrite Hpe, Hp, body_app, body_one, Hg, app_assoc. unfold pre.
  f_equal. f_equal. unfold s1, on_cur. simp. rewrite Hcb. apply body_upd_notin. exact Hni.
Qed.

Ltac open_inv HI Epc :=
  let Hnd := fresh "Hnd" in let Hrec := fresh "Hrec" in let Hfree := fresh "Hfree" in
  let Hcur := fresh "Hcur" in let Hpart := fresh "Hpart" in let Hshl := fresh "Hshl" in
  let Hcont := fresh "Hcont" in let Hrecs := fresh "Hrecs" in
  pose proof HI as [Hnd Hrec Hfree Hcur Hpart Hshl Hcont Hrecs];
  unfold cur_ok, partial_ok, announced, extra, inflight in Hcur, Hpart, Hshl, Hcont, Hrecs;
  rewrite Epc in Hcur, Hpart, Hshl, Hcont, Hrecs.
Ltac close_fields := unfold cur_ok, partial_ok, announced, extra, inflight; simp.
(* the i_recs field: same records, the new pc is not PDark *)
Ltac keep_recs H :=
  let rest := fresh "rest" in let Hr := fresh "Hr" in let Hd := fresh "Hd" in
  destruct H as [rest [Hr Hd]]; exists rest; split;
  [ first [ exact Hr | rewrite <- Hr; rewrite <- ?app_assoc; reflexivity ]
  | intros _; apply Hd; discriminate ].

Lemma p_idle single recs cap s : pc s = PIdle -> Inv single recs s -> Inv single recs (pstep single cap s).
Proof.
  intros Epc HI. unfold pstep. rewrite Epc. destruct (todo s) as [|r t] eqn:Et; [exact HI|].
  open_inv HI Epc.
  constructor; close_fields; try assumption; try exact I.
  rewrite Et in Hrecs. keep_recs Hrecs.
Qed.

Lemma p_check single recs cap s r : pc s = PCheck r -> Inv single recs s -> Inv single recs (pstep single cap s).
Proof.
  intros Epc HI. unfold pstep. rewrite Epc. open_inv HI Epc.
  destruct (curr s) as [c|] eqn:Ec.
  - destruct (cap <? b_size (getb c (bufs s)) + rsize r);
      constructor; close_fields; try assumption; try exact I; try (keep_recs Hrecs).
    exists c. exact Ec.
  - constructor; close_fields; try assumption; try exact I; try (keep_recs Hrecs).
Qed.

Lemma p_finish single recs cap s r : pc s = PFinish r -> Inv single recs s -> Inv single recs (pstep single cap s).
Proof.
  intros Epc HI. unfold pstep. rewrite Epc. open_inv HI Epc.
  destruct (curr s) as [c|] eqn:Ec.
  - set (s' := with_pc (PPick r) (with_curr None (with_chan (chan s ++ [MEnd c]) s))).
    assert (Hp : pend s' = pend s).
    { unfold pend, others, curl, s'. simp. rewrite Ec, ends_app. cbn. rewrite app_nil_r, <- app_assoc. reflexivity. }
    assert (Hc : content s' = content s) by (unfold content; rewrite Hp; reflexivity).
    constructor; try (rewrite Hp); try (rewrite Hc); subst s'; close_fields; try assumption; try reflexivity; try (keep_recs Hrecs).
    rewrite shl_after_app, Hshl. unfold curl. rewrite Ec. cbn. rewrite Nat.eqb_refl. reflexivity.
  - constructor; close_fields; try assumption; try exact I; try (keep_recs Hrecs).
Qed.

Lemma p_start single recs cap s r : pc s = PStart r -> Inv single recs s -> Inv single recs (pstep single cap s).
Proof.
  intros Epc HI. unfold pstep. rewrite Epc. open_inv HI Epc.
  destruct Hcur as [c Ec].
  set (s' := with_pc (PTime r) (with_chan (chan s ++ [MStart (cur_buf s)]) s)).
  assert (Hp : pend s' = pend s).
  { unfold pend, others, curl, s'. simp. rewrite ends_app. cbn. rewrite app_nil_r. reflexivity. }
  assert (Hc : content s' = content s) by (unfold content; rewrite Hp; reflexivity).
  constructor; try (rewrite Hp); try (rewrite Hc); subst s'; close_fields; try assumption; try exact I; try (keep_recs Hrecs).
  - exists c. exact Ec.
  - rewrite shl_after_app, Hshl. unfold curl, cur_buf. simp. rewrite Ec. reflexivity.
Qed.

Lemma cur_buf_eq s c : curr s = Some c -> cur_buf s = c.
Proof. unfold cur_buf. intros ->. reflexivity. Qed.

Lemma committed_write_beyond b bs off :
  b_size b <= off -> committed (set_data (write_at off bs (b_data b)) b) = committed b.
Proof. intro H. unfold committed. cbn. apply read_write_other. left. lia. Qed.

Lemma p_time single recs cap s r : pc s = PTime r -> Inv single recs s -> Inv single recs (pstep single cap s).
Proof.
  intros Epc HI. unfold pstep. rewrite Epc. open_inv HI Epc. destruct Hcur as [c Ec].
  set (f := fun b => set_data (write_at (b_size b) (le64 (r_time r)) (b_data b)) b).
  destruct (on_cur_core single recs s c f HI Ec (fun b => eq_refl)) as [H1 [H2 [H3 [Hg Hc]]]].
  destruct (cur_facts single recs s c HI Ec) as [_ [_ [_ [_ [_ Hcs]]]]].
  constructor; close_fields; try assumption; try exact I; try (keep_recs Hrecs).
  - exists c. exact Ec.
  - replace (cur_buf _) with c by (unfold cur_buf; cbn; rewrite Ec; reflexivity).
    change (bufs (with_pc _ (on_cur f s))) with (bufs (on_cur f s)). rewrite Hg. unfold f. cbn [b_size b_data b_flag set_data set_size].
    pose proof (read_write_same (b_size (getb c (bufs s))) (le64 (r_time r)) (b_data (getb c (bufs s)))) as H.
    unfold le64 in H at 1. rewrite le_bytes_length in H. exact H.
  - destruct Hcont as [bs [Hm Hcb]]. exists bs. split; [exact Hm|].
    change (content (with_pc (PWord r) (on_cur f s))) with (content (on_cur f s)).
    rewrite Hc. unfold f. rewrite committed_write_beyond by lia. rewrite <- Hcs. exact Hcb.
Qed.

Lemma p_word single recs cap s r : pc s = PWord r -> Inv single recs s -> Inv single recs (pstep single cap s).
Proof.
  intros Epc HI. unfold pstep. rewrite Epc. open_inv HI Epc. destruct Hcur as [c Ec].
  set (f := fun b => set_data (write_at (b_size b + 8) (le64 (word_of r)) (b_data b)) b).
  destruct (on_cur_core single recs s c f HI Ec (fun b => eq_refl)) as [H1 [H2 [H3 [Hg Hc]]]].
  destruct (cur_facts single recs s c HI Ec) as [_ [_ [_ [_ [_ Hcs]]]]].
  rewrite (cur_buf_eq s c Ec) in Hpart.
  constructor; close_fields; try assumption; try exact I; try (keep_recs Hrecs).
  - exists c. exact Ec.
  - replace (cur_buf _) with c by (unfold cur_buf; cbn; rewrite Ec; reflexivity).
    change (bufs (with_pc _ (on_cur f s))) with (bufs (on_cur f s)). rewrite Hg. unfold f. cbn [b_size b_data b_flag set_data set_size].
    change 16 with (8 + 8). rewrite read_at_app. unfold hdr. f_equal.
    + rewrite read_write_other by (left; lia). exact Hpart.
    + pose proof (read_write_same (b_size (getb c (bufs s)) + 8) (le64 (word_of r)) (b_data (getb c (bufs s)))) as H.
      unfold le64 in H at 1. rewrite le_bytes_length in H. exact H.
  - destruct Hcont as [bs [Hm Hcb]]. exists bs. split; [exact Hm|].
    change (content (with_pc (PBump r) (on_cur f s))) with (content (on_cur f s)).
    rewrite Hc. unfold f. rewrite committed_write_beyond by lia. rewrite <- Hcs. exact Hcb.
Qed.

Lemma p_copy single recs cap s r : pc s = PCopy r -> Inv single recs s -> Inv single recs (pstep single cap s).
Proof.
  intros Epc HI. unfold pstep. rewrite Epc. open_inv HI Epc. destruct Hcur as [c Ec].
  set (f := fun b => set_data (write_at (b_size b + (if single then 16 else 0)) (r_pl r) (b_data b)) b).
  destruct (on_cur_core single recs s c f HI Ec (fun b => eq_refl)) as [H1 [H2 [H3 [Hg Hc]]]].
  destruct (cur_facts single recs s c HI Ec) as [_ [_ [_ [_ [_ Hcs]]]]].
  rewrite (cur_buf_eq s c Ec) in Hpart.
  constructor; close_fields; try assumption; try exact I; try (keep_recs Hrecs).
  - exists c. exact Ec.
  - replace (cur_buf _) with c by (unfold cur_buf; cbn; rewrite Ec; reflexivity).
    change (bufs (with_pc _ (on_cur f s))) with (bufs (on_cur f s)). rewrite Hg. unfold f.
    cbn [b_size b_data b_flag set_data set_size].
    destruct single.
    + split.
      * rewrite read_write_other by (left; lia). exact Hpart.
      * apply read_write_same.
    + rewrite Nat.add_0_r. apply read_write_same.
  - destruct Hcont as [bs [Hm Hcb]]. exists bs. split; [exact Hm|].
    change (content (with_pc (PBumpPl r) (on_cur f s))) with (content (on_cur f s)).
    rewrite Hc. unfold f. rewrite committed_write_beyond by lia. rewrite <- Hcs. exact Hcb.
Qed.

Lemma committed_grow b n :
  committed (set_size (b_size b + n) b) = committed b ++ read_at (b_size b) n (b_data b).
Proof. unfold committed. cbn. apply read_at_app. Qed.

Lemma has_pl_false r : has_pl r = false -> r_pl r = [].
Proof. unfold has_pl. destruct (r_pl r); [reflexivity|discriminate]. Qed.

Lemma p_bump single recs cap s r : pc s = PBump r -> Inv single recs s -> Inv single recs (pstep single cap s).
Proof.
  intros Epc HI. unfold pstep. rewrite Epc. open_inv HI Epc. destruct Hcur as [c Ec].
  set (f := fun b => set_size (b_size b + 16) b).
  destruct (on_cur_core single recs s c f HI Ec (fun b => eq_refl)) as [H1 [H2 [H3 [Hg Hc]]]].
  destruct (cur_facts single recs s c HI Ec) as [_ [_ [_ [_ [_ Hcs]]]]].
  rewrite (cur_buf_eq s c Ec) in Hpart.
  assert (Hc' : content (on_cur f s) = content s ++ hdr r).
  { rewrite Hc, Hcs. unfold f. rewrite committed_grow, Hpart, app_assoc. reflexivity. }
  destruct Hcont as [bs [Hm Hcb]].
  assert (Hcb' : content s = bs) by (rewrite Hcb; destruct single; apply app_nil_r).
  destruct (has_pl r) eqn:Epl.
  - destruct single.
    + (* repaired code: nothing is counted yet *)
      constructor; close_fields; try assumption; try exact I; try (keep_recs Hrecs).
      * exists c. exact Ec.
      * replace (cur_buf _) with c by (unfold cur_buf; cbn; rewrite Ec; reflexivity). exact Hpart.
      * exists bs. split; [exact Hm|]. change (content (with_pc (PCopy r) s)) with (content s).
        rewrite Hcb'. symmetry. apply app_nil_r.
    + constructor; close_fields; try assumption; try exact I; try (keep_recs Hrecs).
      * exists c. exact Ec.
      * exists bs. split; [exact Hm|].
        change (content (with_pc (PCopy r) (on_cur f s))) with (content (on_cur f s)).
        rewrite Hc', Hcb'. reflexivity.
  - constructor; close_fields; try assumption; try exact I; try (keep_recs Hrecs).
    + exists (bs ++ hdr r). split.
      * apply Matches_snoc; [exact Hm|]. exists []. rewrite (has_pl_false r Epl). split; reflexivity.
      * change (content (with_pc PIdle (with_done (done s ++ [r]) (on_cur f s)))) with (content (on_cur f s)).
        rewrite Hc', Hcb'. destruct single; symmetry; apply app_nil_r.
Qed.

Lemma p_bumppl single recs cap s r : pc s = PBumpPl r -> Inv single recs s -> Inv single recs (pstep single cap s).
Proof.
  intros Epc HI. unfold pstep. rewrite Epc. open_inv HI Epc. destruct Hcur as [c Ec].
  set (n := length (r_pl r)).
  set (f := fun b => set_size (b_size b + (if single then 16 else 0) + align8 n) b).
  destruct (on_cur_core single recs s c f HI Ec (fun b => eq_refl)) as [H1 [H2 [H3 [Hg Hc]]]].
  destruct (cur_facts single recs s c HI Ec) as [_ [_ [_ [_ [_ Hcs]]]]].
  rewrite (cur_buf_eq s c Ec) in Hpart.
  set (b := getb c (bufs s)) in *.
  destruct Hcont as [bs [Hm Hcb]].
  destruct single.
  - (* repaired code: header and payload become visible together *)
    destruct Hpart as [Hh Hp]. fold n in Hp.
    set (pad := read_at (b_size b + 16 + n) (align8 n - n) (b_data b)).
    assert (Hc' : content (on_cur f s) = content s ++ hdr r ++ r_pl r ++ pad).
    { rewrite Hc, Hcs. unfold f.
      replace (b_size b + 16 + align8 n) with (b_size b + (16 + align8 n)) by lia.
      rewrite committed_grow, read_at_app, Hh.
      replace (align8 n) with (n + (align8 n - n)) at 1 by (pose proof (align8_ge n); lia).
      rewrite read_at_app, Hp, <- !app_assoc. reflexivity. }
    rewrite app_nil_r in Hcb.
    constructor; close_fields; try assumption; try exact I; try (keep_recs Hrecs).
    + exists (bs ++ hdr r ++ r_pl r ++ pad). split.
      * apply Matches_snoc; [exact Hm|]. exists pad. split; [reflexivity|].
        unfold pad. rewrite read_at_length. reflexivity.
      * change (content (with_pc PIdle (with_done (done s ++ [r]) (on_cur f s)))) with (content (on_cur f s)).
        rewrite Hc', Hcb, app_nil_r. reflexivity.
  - fold n in Hpart.
    set (pad := read_at (b_size b + n) (align8 n - n) (b_data b)).
    assert (Hc' : content (on_cur f s) = content s ++ r_pl r ++ pad).
    { rewrite Hc, Hcs. unfold f. rewrite Nat.add_0_r, committed_grow.
      replace (align8 n) with (n + (align8 n - n)) at 1 by (pose proof (align8_ge n); lia).
      rewrite read_at_app, Hpart, app_assoc. reflexivity. }
    constructor; close_fields; try assumption; try exact I; try (keep_recs Hrecs).
    + exists (bs ++ hdr r ++ r_pl r ++ pad). split.
      * apply Matches_snoc; [exact Hm|]. exists pad. split; [reflexivity|].
        unfold pad. rewrite read_at_length. reflexivity.
      * change (content (with_pc PIdle (with_done (done s ++ [r]) (on_cur f s)))) with (content (on_cur f s)).
        rewrite Hc', Hcb, app_nil_r, <- !app_assoc. reflexivity.
Qed.

Lemma NoDup_snoc {A} (l : list A) x : NoDup l -> ~ In x l -> NoDup (l ++ [x]).
Proof.
  induction l as [|a l IH]; intros Hnd Hni; cbn.
  - constructor; [intros []|constructor].
  - inversion Hnd as [|? ? Ha Hl]; subst. constructor.
    + intro Hin. apply in_app_or in Hin. destruct Hin as [Hin|[->|[]]]; [contradiction|].
      apply Hni. left. reflexivity.
    + apply IH; [exact Hl|]. intro. apply Hni. right. assumption.
Qed.

Lemma shrink_struct c l ids :
  (forall i, In i ids -> i < length l /\ f_rec (b_flag (getb i l)) = true) ->
  (forall i, f_rec (b_flag (getb i l)) = false -> b_size (getb i l) = 0) ->
  (forall i, In i ids -> i < length (shrink c l) /\ getb i (shrink c l) = getb i l)
  /\ (forall i, f_rec (b_flag (getb i (shrink c l))) = false -> b_size (getb i (shrink c l)) = 0).
Proof.
  intros Hrec Hfree. unfold shrink.
  destruct (c + 3 <=? length l) eqn:E1; [|split; [intros i Hi; split; [apply Hrec; exact Hi|reflexivity]|exact Hfree]].
  destruct ((3 <=? count_written (skipn (S c) l)) && is_written_only (b_flag (last l fresh_buf))) eqn:E2;
    [|split; [intros i Hi; split; [apply Hrec; exact Hi|reflexivity]|exact Hfree]].
  apply Nat.leb_le in E1. apply andb_true_iff in E2. destruct E2 as [_ E2].
  assert (Hne : l <> []) by (destruct l; [cbn in E1; lia|discriminate]).
  rewrite (last_getb l Hne) in E2.
  assert (Hlast : f_rec (b_flag (getb (length l - 1) l)) = false).
  { unfold is_written_only in E2. destruct (f_rec (b_flag (getb (length l - 1) l))); [|reflexivity].
    rewrite andb_false_r in E2. discriminate. }
  split.
  - intros i Hi. destruct (Hrec i Hi) as [Hl Hf].
    assert (i <> length l - 1) by (intro; subst i; rewrite Hlast in Hf; discriminate).
    rewrite removelast_length. split; [lia|]. apply getb_removelast. lia.
  - intros i. destruct (Nat.lt_ge_cases i (length l - 1)) as [Hlt|Hge].
    + rewrite getb_removelast by exact Hlt. apply Hfree.
    + rewrite getb_overflow by (rewrite removelast_length; exact Hge). reflexivity.
Qed.

Lemma p_zero single recs cap s r : pc s = PZero r -> Inv single recs s -> Inv single recs (pstep single cap s).
Proof.
  intros Epc HI. unfold pstep. rewrite Epc. open_inv HI Epc. destruct Hcur as [c Ec].
  rewrite (cur_buf_eq s c Ec) in *.
  destruct (on_cur_core single recs s c (set_size 0) HI Ec (fun b => eq_refl)) as [H1 [H2 [H3 [Hg Hc]]]].
  destruct (cur_facts single recs s c HI Ec) as [Hp [_ [_ [_ [_ Hcs]]]]].
  assert (Hl1 : bufs (on_cur (set_size 0) s) = upd c (set_size 0) (bufs s)).
  { unfold on_cur. simp. rewrite (cur_buf_eq s c Ec). reflexivity. }
  rewrite Hl1 in *.
  set (l1 := upd c (set_size 0) (bufs s)) in *.
  change (pend (on_cur (set_size 0) s)) with (pend s) in *.
  destruct (shrink_struct c l1 (pend s) H2 H3) as [S1 S2].
  set (s' := with_pc (PStart r) (with_bufs (shrink c l1) s)).
  assert (Hcin : In c (pend s)) by (rewrite Hp; apply in_or_app; right; left; reflexivity).
  assert (Hc' : content s' = content s).
  { transitivity (content (on_cur (set_size 0) s)).
    - unfold content. f_equal. unfold s'. simp. change (pend (with_pc _ _)) with (pend s).
      change (pend (on_cur _ _)) with (pend s). rewrite Hl1. fold l1.
      apply body_ext. intros i Hi. apply S1. exact Hi.
    - rewrite Hc, Hcs. f_equal. unfold committed. cbn. rewrite Hpart. reflexivity. }
  constructor; try (rewrite Hc'); subst s'; close_fields; try assumption; try exact I; try (keep_recs Hrecs).
  - intros i Hi. destruct (S1 i Hi) as [Sa Sb]. split; [exact Sa|]. rewrite Sb. apply H2. exact Hi.
  - exists c. exact Ec.
  - replace (cur_buf _) with c by (unfold cur_buf; cbn; rewrite Ec; reflexivity).
    destruct (S1 c Hcin) as [_ Sb]. rewrite Sb, Hg. reflexivity.
Qed.

Lemma p_pick single recs cap s r : pc s = PPick r -> Inv single recs s -> Inv single recs (pstep single cap s).
Proof.
  intros Epc HI. unfold pstep. rewrite Epc. open_inv HI Epc.
  set (i := find_free_from (base s) (bufs s)).
  set (l := if i <? length (bufs s) then bufs s else bufs s ++ [fresh_buf]).
  set (g := fun b => set_flag (or_rec (b_flag b)) b).
  assert (Hpe : pend s = others s) by (unfold pend, curl; rewrite Hcur; apply app_nil_r).
  assert (Hile : i <= length (bufs s)) by apply ff_le.
  assert (Hil : i < length l).
  { unfold l. destruct (i <? length (bufs s)) eqn:E; [apply Nat.ltb_lt; exact E|].
    rewrite app_length. cbn. lia. }
  assert (Hib : f_rec (b_flag (getb i l)) = false /\ b_size (getb i l) = 0).
  { unfold l. destruct (i <? length (bufs s)) eqn:E.
    - apply Nat.ltb_lt in E. pose proof (ff_free (base s) (bufs s) E) as Hf. fold i in Hf.
      split; [exact Hf | apply Hfree; exact Hf].
    - apply Nat.ltb_ge in E. assert (i = length (bufs s)) as -> by lia.
      rewrite getb_app_fresh. split; reflexivity. }
  assert (Hjl : forall j, j <> i -> getb j l = getb j (bufs s)).
  { intros j Hj. unfold l. destruct (i <? length (bufs s)) eqn:E; [reflexivity|].
    apply Nat.ltb_ge in E. assert (Hi : i = length (bufs s)) by lia.
    destruct (Nat.lt_ge_cases j (length (bufs s))) as [Hlt|Hge].
    - apply getb_app1. exact Hlt.
    - rewrite !getb_overflow; [reflexivity|exact Hge|rewrite app_length; cbn; lia]. }
  assert (Hni : ~ In i (others s)).
  { intro Hin. rewrite <- Hpe in Hin. destruct (Hrec i Hin) as [Hl Hf].
    destruct Hib as [Hib _]. unfold l in Hib. apply Nat.ltb_lt in Hl. rewrite Hl in Hib.
    rewrite Hf in Hib. discriminate. }
  set (s' := with_pc (PZero r) (with_curr (Some i) (with_bufs (upd i g l) s))).
  assert (Hp' : pend s' = others s ++ [i]) by reflexivity.
  assert (Hlen : length (bufs s) <= length l).
  { unfold l. destruct (i <? length (bufs s)); [lia|]. rewrite app_length. lia. }
  assert (Hgi : getb i (upd i g l) = g (getb i l)) by (apply getb_upd_same; exact Hil).
  assert (Hc' : content s' = content s).
  { unfold content. rewrite Hp', Hpe. unfold s'. simp. f_equal.
    rewrite body_app, body_one, Hgi.
    rewrite (committed_size0 (g (getb i l))) by (unfold g; cbn; apply Hib).
    rewrite app_nil_r, body_upd_notin by exact Hni.
    apply body_ext. intros j Hj. apply Hjl. intro; subst; contradiction. }
  constructor; try (rewrite Hc'); try (rewrite Hp'); subst s'; close_fields; try assumption; try exact I; try (keep_recs Hrecs).
  - apply NoDup_snoc; [rewrite <- Hpe; exact Hnd | exact Hni].
  - intros j Hj. rewrite upd_length. apply in_app_or in Hj. destruct Hj as [Hj|[<-|[]]].
    + assert (Hne : i <> j) by (intro; subst; contradiction).
      rewrite getb_upd_other by exact Hne. rewrite Hjl by (intro; subst; contradiction).
      rewrite <- Hpe in Hj. destruct (Hrec j Hj) as [Ha Hb]. split; [lia|exact Hb].
    + split; [exact Hil|]. rewrite Hgi. reflexivity.
  - intros j. destruct (Nat.eq_dec i j) as [<-|Hne].
    + rewrite Hgi. unfold g. cbn. discriminate.
    + rewrite getb_upd_other by exact Hne. rewrite Hjl by (intro; subst; contradiction). apply Hfree.
  - exists i. reflexivity.
  - replace (cur_buf _) with i by reflexivity. rewrite Hgi. unfold g. cbn. apply Hib.
  - rewrite Hshl. unfold curl. rewrite Hcur. reflexivity.
Qed.

(* thread set-up: REC_START for buffer 0, then its flag *)
Lemma p_prepstart single recs cap s : pc s = PPrepStart -> Inv single recs s -> Inv single recs (pstep single cap s).
Proof.
  intros Epc HI. unfold pstep. rewrite Epc. open_inv HI Epc.
  set (s' := with_pc PPrepFlag (with_chan (chan s ++ [MStart 0]) s)).
  assert (Hp : pend s' = pend s).
  { unfold pend, others, curl, s'. simp. rewrite ends_app. cbn. rewrite app_nil_r. reflexivity. }
  assert (Hc : content s' = content s) by (unfold content; rewrite Hp; reflexivity).
  constructor; try (rewrite Hp); try (rewrite Hc); subst s'; close_fields; try assumption; try exact I;
    try (keep_recs Hrecs).
  rewrite shl_after_app, Hshl. unfold curl. rewrite Hcur. reflexivity.
Qed.

Lemma p_prepflag single recs cap s : pc s = PPrepFlag -> Inv single recs s -> Inv single recs (pstep single cap s).
Proof.
  intros Epc HI. unfold pstep. rewrite Epc. open_inv HI Epc. destruct Hpart as [Hl0 Hf0].
  set (g := set_flag {| f_new := true; f_written := false; f_rec := true |}).
  set (s' := with_pc PIdle (with_curr (Some 0) (with_bufs (upd 0 g (bufs s)) s))).
  assert (Hpe : pend s = others s) by (unfold pend, curl; rewrite Hcur; apply app_nil_r).
  assert (Hni : ~ In 0 (others s)).
  { intro Hin. rewrite <- Hpe in Hin. destruct (Hrec 0 Hin) as [_ Hf]. congruence. }
  assert (Hp' : pend s' = others s ++ [0]) by reflexivity.
  assert (Hg0 : getb 0 (upd 0 g (bufs s)) = g (getb 0 (bufs s))) by (apply getb_upd_same; exact Hl0).
  assert (Hsz : b_size (getb 0 (bufs s)) = 0) by (apply Hfree; exact Hf0).
  assert (Hc' : content s' = content s).
  { unfold content. rewrite Hp', Hpe. unfold s'. simp. f_equal.
    rewrite body_app, body_one, Hg0.
    rewrite (committed_size0 (g (getb 0 (bufs s)))) by (unfold g; cbn; exact Hsz).
    rewrite app_nil_r. apply body_upd_notin. exact Hni. }
  constructor; try (rewrite Hc'); try (rewrite Hp'); subst s'; close_fields; try assumption; try exact I;
    try (keep_recs Hrecs).
  - apply NoDup_snoc; [rewrite <- Hpe; exact Hnd | exact Hni].
  - intros j Hj. rewrite upd_length. apply in_app_or in Hj. destruct Hj as [Hj|[<-|[]]].
    + assert (Hne : 0 <> j) by (intro; subst; contradiction).
      rewrite getb_upd_other by exact Hne. apply Hrec. rewrite Hpe. exact Hj.
    + split; [exact Hl0|]. rewrite Hg0. reflexivity.
  - intros j. destruct (Nat.eq_dec 0 j) as [<-|Hne].
    + rewrite Hg0. unfold g. cbn. discriminate.
    + rewrite getb_upd_other by exact Hne. apply Hfree.
Qed.

(* the image exec()ed in the task sets itself up: REC_START of its first buffer, the flag, TASK_START *)
Lemma p_xstart single recs cap s b o : pc s = PXStart b o -> Inv single recs s -> Inv single recs (pstep single cap s).
Proof.
  intros Epc HI. unfold pstep. rewrite Epc. open_inv HI Epc.
  set (s' := with_pc (PXFlag b o) (with_chan (chan s ++ [MStart b]) s)).
  assert (Hp : pend s' = pend s).
  { unfold pend, others, curl, s'. simp. rewrite ends_app. cbn. rewrite app_nil_r. reflexivity. }
  assert (Hc : content s' = content s) by (unfold content; rewrite Hp; reflexivity).
  constructor; try (rewrite Hp); try (rewrite Hc); subst s'; close_fields; try assumption; try exact I;
    try (keep_recs Hrecs).
  rewrite shl_after_app, Hshl. unfold curl. rewrite Hcur. reflexivity.
Qed.

Lemma p_xflag single recs cap s b o : pc s = PXFlag b o -> Inv single recs s -> Inv single recs (pstep single cap s).
Proof.
  intros Epc HI. unfold pstep. rewrite Epc. open_inv HI Epc. destruct Hpart as [Hlb Hfb].
  set (g := set_flag {| f_new := true; f_written := false; f_rec := true |}).
  set (s' := with_pc (PXTask b o) (with_bufs (upd b g (bufs s)) s)).
  assert (Hnb : ~ In b (pend s)).
  { intro Hin. destruct (Hrec b Hin) as [_ Hf]. congruence. }
  assert (Hp' : pend s' = pend s) by reflexivity.
  assert (Hgb : getb b (upd b g (bufs s)) = g (getb b (bufs s))) by (apply getb_upd_same; exact Hlb).
  assert (Hc' : content s' = content s).
  { unfold content. rewrite Hp'. unfold s'. simp. f_equal. apply body_upd_notin. exact Hnb. }
  constructor; try (rewrite Hc'); try (rewrite Hp'); subst s'; close_fields; try assumption; try exact I;
    try (keep_recs Hrecs).
  - intros j Hj. rewrite upd_length.
    assert (Hne : b <> j) by (intro; subst; contradiction).
    rewrite getb_upd_other by exact Hne. apply Hrec. exact Hj.
  - intros j. destruct (Nat.eq_dec b j) as [<-|Hne].
    + rewrite Hgb. unfold g. cbn. discriminate.
    + rewrite getb_upd_other by exact Hne. apply Hfree.
  - rewrite upd_length, Hgb. unfold g. cbn [b_flag b_size set_flag f_rec].
    repeat split; try assumption; try reflexivity; try (apply Hfree; exact Hfb).
Qed.

Lemma p_xtask single recs cap s b o : pc s = PXTask b o -> Inv single recs s -> Inv single recs (pstep single cap s).
Proof.
  intros Epc HI. unfold pstep. rewrite Epc. open_inv HI Epc. destruct Hpart as [Hlb [Hfb [Hsb Hnb]]].
  set (s' := with_pc PIdle (with_curr (Some b) (with_chan (chan s ++ [MTask o]) s))).
  assert (Hpe : pend s = others s ++ [o]) by (unfold pend, curl; rewrite Hcur; reflexivity).
  assert (Hp' : pend s' = pend s ++ [b]).
  { rewrite Hpe. unfold pend, others, curl, s'. simp. rewrite ends_app. cbn. rewrite <- !app_assoc. reflexivity. }
  assert (Hc' : content s' = content s).
  { unfold content. rewrite Hp'. unfold s'. simp. rewrite body_app, body_one, (committed_size0 _ Hsb), app_nil_r.
    reflexivity. }
  constructor; try (rewrite Hc'); try (rewrite Hp'); subst s'; close_fields; try assumption; try exact I;
    try (keep_recs Hrecs).
  - apply NoDup_snoc; assumption.
  - intros j Hj. apply in_app_or in Hj. destruct Hj as [Hj|[<-|[]]]; [apply Hrec; exact Hj | split; assumption].
  - rewrite shl_after_app, Hshl. reflexivity.
Qed.

(* exec between two hook calls *)
Lemma xstep_inv single recs s : Inv single recs s -> Inv single recs (xstep s).
Proof.
  intro HI. unfold xstep. destruct (pc s) eqn:Epc; try exact HI. destruct (curr s) as [c|] eqn:Ec; [|exact HI].
  open_inv HI Epc.
  set (l' := bufs s ++ [fresh_buf; fresh_buf]).
  set (s' := with_pc (PXStart (length (bufs s)) c) (with_base (length (bufs s)) (with_bufs l' s))).
  assert (Hp' : pend s' = pend s) by reflexivity.
  assert (Hg : forall i, i < length (bufs s) -> getb i l' = getb i (bufs s)).
  { intros i Hi. unfold l'. apply getb_app1. exact Hi. }
  assert (Hc' : content s' = content s).
  { unfold content. rewrite Hp'. unfold s'. simp. f_equal. unfold body. f_equal. apply map_ext_in. intros i Hi.
    destruct (Hrec i Hi) as [Hl _]. rewrite (Hg i Hl). reflexivity. }
  constructor; try (rewrite Hc'); try (rewrite Hp'); subst s'; close_fields; try assumption; try exact I;
    try (keep_recs Hrecs).
  - intros i Hi. destruct (Hrec i Hi) as [Hl Hf]. unfold l'. rewrite app_length. split; [lia|].
    fold l'. rewrite (Hg i Hl). exact Hf.
  - intros i Hf. destruct (Nat.lt_ge_cases i (length (bufs s))) as [Hl|Hge].
    + rewrite (Hg i Hl) in Hf |- *. apply Hfree. exact Hf.
    + unfold l', getb. rewrite app_nth2 by exact Hge.
      destruct (i - length (bufs s)) as [|[|k]]; try reflexivity. destruct k; reflexivity.
  - unfold l'. rewrite app_length. cbn [length]. split; [lia|].
    unfold getb. rewrite app_nth2 by lia. rewrite Nat.sub_diag. reflexivity.
Qed.

Lemma pstep_inv single recs cap s : Inv single recs s -> Inv single recs (pstep single cap s).
Proof.
  intro HI. destruct (pc s) eqn:Epc.
  - apply p_idle; assumption.
  - eapply p_check; eassumption.
  - eapply p_finish; eassumption.
  - eapply p_pick; eassumption.
  - eapply p_zero; eassumption.
  - eapply p_start; eassumption.
  - eapply p_time; eassumption.
  - eapply p_word; eassumption.
  - eapply p_bump; eassumption.
  - eapply p_copy; eassumption.
  - eapply p_bumppl; eassumption.
  - apply p_prepstart; assumption.
  - apply p_prepflag; assumption.
  - eapply p_xstart; eassumption.
  - eapply p_xflag; eassumption.
  - eapply p_xtask; eassumption.
  - unfold pstep. rewrite Epc. exact HI.
Qed.

(* the i_recs field when the thread goes dark: everything not yet stored is dropped *)
Ltac dark_recs H :=
  let rest := fresh "rest" in let Hr := fresh "Hr" in let Hd := fresh "Hd" in
  destruct H as [rest [Hr Hd]]; eexists; split;
  [ rewrite <- Hr; cbn [app]; reflexivity
  | let Hne := fresh "Hne" in intro Hne; exfalso; apply Hne; reflexivity ].

(* the pipe is closed and the current buffer is full: REC_END is lost, the buffer stays announced *)
Lemma dark_finish single recs s r :
  pc s = PFinish r -> Inv single recs s -> Inv single recs (with_pc PDark (with_todo [] s)).
Proof.
  intros Epc HI. open_inv HI Epc.
  constructor; close_fields; try assumption; try exact I; try (destruct single; exact Hcont); try (cbn [app]; dark_recs Hrecs).
Qed.

(* the pipe is closed before REC_START of a new (empty) buffer went out: the buffer stays unknown *)
Lemma dark_start single recs s r :
  pc s = PStart r -> Inv single recs s -> Inv single recs (with_pc PDark (with_todo [] (with_curr None s))).
Proof.
  intros Epc HI. open_inv HI Epc. destruct Hcur as [c Ec].
  destruct (cur_facts single recs s c HI Ec) as [Hp [Hni [Hndo [Hl [Hfc Hcs]]]]].
  rewrite (cur_buf_eq s c Ec) in Hpart.
  set (s' := with_pc PDark (with_todo [] (with_curr None s))).
  assert (Hp' : pend s' = others s) by (unfold pend, curl, s'; simp; apply app_nil_r).
  assert (Hc' : content s' = content s).
  { unfold content at 1. rewrite Hp'. rewrite Hcs. unfold pre, s'. simp.
    rewrite (committed_size0 _ Hpart), app_nil_r. reflexivity. }
  constructor; try (rewrite Hp'); try (rewrite Hc'); subst s'; close_fields; try assumption; try exact I; try (destruct single; exact Hcont); try (cbn [app]; dark_recs Hrecs).
  all: try (intros i Hi; apply Hrec; rewrite Hp; apply in_or_app; left; exact Hi).
  all: try (unfold curl; simp; exact Hshl).
Qed.

(* the pipe was closed before the thread's first REC_START: the recorder never hears of the thread *)
Lemma dark_prep single recs s :
  pc s = PPrepStart -> Inv single recs s -> Inv single recs (with_pc PDark (with_todo [] s)).
Proof.
  intros Epc HI. open_inv HI Epc.
  constructor; close_fields; try assumption; try exact I; try (destruct single; exact Hcont); try (cbn [app]; dark_recs Hrecs).
Qed.

Lemma pstep_closed_inv single recs cap s : Inv single recs s -> Inv single recs (pstep_closed single cap s).
Proof.
  intro HI. unfold pstep_closed. destruct (pc s) eqn:Epc; try (apply pstep_inv; exact HI).
  - eapply dark_finish; eassumption.
  - eapply dark_start; eassumption.
  - eapply dark_prep; eassumption.
Qed.

(* mtd_dtor between two hook calls *)
Lemma dstep_inv single recs closed s : Inv single recs s -> Inv single recs (dstep closed s).
Proof.
  intro HI. unfold dstep. destruct (pc s) eqn:Epc; try exact HI.
  open_inv HI Epc. destruct closed.
  - constructor; close_fields; try assumption; try exact I; try (destruct single; exact Hcont); try (cbn [app]; dark_recs Hrecs).
  - unfold pend_thread. destruct (curr s) as [c|] eqn:Ec.
    + set (s' := with_pc PDark (with_todo [] (with_curr None (with_chan (chan s ++ [MEnd c]) s)))).
      assert (Hp : pend s' = pend s).
      { unfold pend, others, curl, s'. simp. rewrite Ec, ends_app. cbn. rewrite app_nil_r, <- app_assoc. reflexivity. }
      assert (Hc : content s' = content s) by (unfold content; rewrite Hp; reflexivity).
      constructor; try (rewrite Hp); try (rewrite Hc); subst s'; close_fields; try assumption; try exact I; try (destruct single; exact Hcont); try (cbn [app]; dark_recs Hrecs).
      * rewrite shl_after_app, Hshl. unfold curl. simp. rewrite Ec. cbn. rewrite Nat.eqb_refl. reflexivity.
    + constructor; close_fields; try assumption; try exact I; try (destruct single; exact Hcont); try (cbn [app]; dark_recs Hrecs).
Qed.

(* ------------------------------------------------------------------ TASK_START finds the old image's buffer *)
Lemma task_same s s' : chan s' = chan s -> shl s' = shl s -> TaskInv s -> TaskInv s'.
Proof. intros Hc Hs H pre i post E. rewrite Hc in E. rewrite Hs. exact (H pre i post E). Qed.

Lemma task_append s s' m :
  chan s' = chan s ++ [m] -> shl s' = shl s -> TaskInv s ->
  (forall i, m = MTask i -> exists r, shl_after (chan s) (shl s) = i :: r) ->
  TaskInv s'.
Proof.
  intros Hc Hs H Hm pre i post E. rewrite Hc in E. rewrite Hs.
  destruct post as [|x post'] using rev_ind.
  - apply app_inj_tail in E. destruct E as [E1 E2]. subst pre. apply Hm. exact E2.
  - clear IHpost'. change (pre ++ MTask i :: post' ++ [x]) with (pre ++ (MTask i :: post') ++ [x]) in E.
    rewrite app_assoc in E. apply app_inj_tail in E. destruct E as [E1 _]. exact (H pre i post' E1).
Qed.

Lemma task_rstep s : TaskInv s -> TaskInv (rstep s).
Proof.
  intros H pre i post E. unfold rstep in *. destruct (chan s) as [|m ch] eqn:Ech.
  - rewrite Ech in E. destruct pre; discriminate.
  - assert (Hch : chan (rstep s) = ch /\ shl_after pre (shl (rstep s)) = shl_after (m :: pre) (shl s)).
    { unfold rstep. rewrite Ech. destruct m as [j|j|j]; unfold queue_if; simp.
      - split; reflexivity.
      - destruct (_ && _); simp; split; reflexivity.
      - destruct (shl s) as [|k r] eqn:Es; [simp; rewrite Es; split; reflexivity|].
        unfold queue_if. destruct (_ && _); simp; split; reflexivity. }
    destruct Hch as [Hc Hs]. unfold rstep in Hc, Hs. rewrite Ech in Hc, Hs. rewrite Hs.
    apply (H (m :: pre) i post). rewrite Hc in E. rewrite Ech, E. reflexivity.
Qed.

Lemma task_wstep s : TaskInv s -> TaskInv (wstep s).
Proof.
  intro H. apply (task_same s); [| |exact H]; unfold wstep; destruct (wl s); try reflexivity; unfold write_one; reflexivity.
Qed.

Lemma task_pstep single recs cap s : Inv single recs s -> TaskInv s -> TaskInv (pstep single cap s).
Proof.
  intros HI HT. destruct HI as [_ _ _ Hcur _ Hshl _ _].
  unfold pstep. destruct (pc s) eqn:Epc;
    repeat match goal with |- context [match ?x with _ => _ end] => destruct x eqn:? end;
    try (apply (task_same s); [reflexivity | reflexivity | exact HT]);
    try (eapply (task_append s); [simp; reflexivity | reflexivity | exact HT | intros j Ej; discriminate]).
  (* TASK_START of the exec()ed image *)
  eapply (task_append s); [simp; reflexivity | reflexivity | exact HT |].
  intros j Ej. injection Ej as <-. unfold announced in Hshl. rewrite Epc in Hshl. rewrite Hshl. eexists. reflexivity.
Qed.

Lemma task_pstep_closed single recs cap s : Inv single recs s -> TaskInv s -> TaskInv (pstep_closed single cap s).
Proof.
  intros HI HT. unfold pstep_closed. destruct (pc s) eqn:Epc; try (apply (task_pstep single recs); assumption);
    apply (task_same s); try reflexivity; exact HT.
Qed.

Lemma task_dstep closed s : TaskInv s -> TaskInv (dstep closed s).
Proof.
  intro HT. unfold dstep, pend_thread. destruct (pc s); try exact HT.
  destruct closed; [apply (task_same s); try reflexivity; exact HT|].
  destruct (curr s); [|apply (task_same s); try reflexivity; exact HT].
  eapply (task_append s); [simp; reflexivity | reflexivity | exact HT | intros j Ej; discriminate].
Qed.

Lemma task_xstep s : TaskInv s -> TaskInv (xstep s).
Proof.
  intro HT. unfold xstep. destruct (pc s); try exact HT. destruct (curr s); [|exact HT].
  apply (task_same s); try reflexivity; exact HT.
Qed.

Lemma step_inv single recs cap l s :
  Inv single recs s -> TaskInv s -> Inv single recs (step single cap l s) /\ TaskInv (step single cap l s).
Proof.
  intros HI HT. destruct l; cbn.
  - split; [apply pstep_inv; exact HI | apply (task_pstep single recs); assumption].
  - split; [apply rstep_inv; assumption | apply task_rstep; exact HT].
  - split; [apply wstep_inv; exact HI | apply task_wstep; exact HT].
  - split; [apply pstep_closed_inv; exact HI | apply (task_pstep_closed single recs); assumption].
  - split; [apply dstep_inv; exact HI | apply task_dstep; exact HT].
  - split; [apply dstep_inv; exact HI | apply task_dstep; exact HT].
  - split; [apply xstep_inv; exact HI | apply task_xstep; exact HT].
Qed.

Lemma run_inv2 single recs cap sched s :
  Inv single recs s -> TaskInv s -> Inv single recs (run single cap sched s) /\ TaskInv (run single cap sched s).
Proof.
  revert s. induction sched as [|l t IH]; intros s HI HT; cbn; [split; assumption|].
  destruct (step_inv single recs cap l s HI HT) as [A B]. apply IH; assumption.
Qed.
Lemma run_inv single recs cap sched s :
  Inv single recs s -> TaskInv s -> Inv single recs (run single cap sched s).
Proof. intros HI HT. apply run_inv2; assumption. Qed.

(* ------------------------------------------------------------------ end of the recording *)
Lemma rstep_frame s :
  chan (rstep s) = List.tl (chan s) /\ pc (rstep s) = pc s /\ done (rstep s) = done s /\ todo (rstep s) = todo s.
Proof.
  unfold rstep. destruct (chan s) as [|[i|i|i] ch] eqn:E; [rewrite E; cbn; auto | cbn; auto | |].
  - unfold queue_if. simp.
    destruct (f_rec (b_flag (getb i (bufs s))) && negb (b_size (getb i (bufs s)) =? 0)); cbn; auto.
  - destruct (shl s) as [|j r]; [cbn; auto|]. unfold queue_if. simp. destruct (_ && _); cbn; auto.
Qed.

Lemma drain_spec single recs n s :
  Inv single recs s -> TaskInv s -> n = length (chan s) ->
  let s1 := iter n rstep s in
  Inv single recs s1 /\ content s1 = content s /\ chan s1 = [] /\ pc s1 = pc s /\ done s1 = done s /\ todo s1 = todo s.
Proof.
  revert s. induction n as [|n IH]; intros s HI HT Hn; cbn.
  - split; [exact HI|]. split; [reflexivity|]. split; [|auto].
    destruct (chan s); [reflexivity|discriminate].
  - destruct (rstep_inv single recs s HT HI) as [HI' Hc]. destruct (rstep_frame s) as [F1 [F2 [F3 F4]]].
    assert (Hn' : n = length (chan (rstep s))).
    { rewrite F1. destruct (chan s); cbn in *; lia. }
    destruct (IH (rstep s) HI' (task_rstep s HT) Hn') as [A [B [C [D [E F]]]]].
    split; [exact A|]. split; [rewrite B; exact Hc|]. split; [exact C|].
    split; [rewrite D; exact F2|]. split; [rewrite E; exact F3 | rewrite F; exact F4].
Qed.

Lemma announced_cases single recs s :
  Inv single recs s ->
  (announced s = [] /\ body (bufs s) (curl s) = []) \/ (exists c, announced s = [c] /\ curr s = Some c)
  \/ (announced s = [0] /\ curr s = None /\ f_rec (b_flag (getb 0 (bufs s))) = false)
  \/ (exists o n, announced s = [o; n] /\ curr s = Some o
                  /\ (f_rec (b_flag (getb n (bufs s))) = false \/ b_size (getb n (bufs s)) = 0)).
Proof.
  intros [_ _ _ Hcur Hpart _ _ _]. unfold announced, curl, cur_ok, partial_ok, cur_buf in *.
  destruct (pc s) eqn:Epc; destruct (curr s) as [c|] eqn:Ec;
    try (right; left; exists c; split; reflexivity); try (left; split; reflexivity);
    try discriminate;
    try (right; right; left; split; [reflexivity|]; split; [reflexivity|]; apply Hpart);
    try (right; right; right; injection Hcur as ->; eexists; eexists; split; [reflexivity|]; split; [reflexivity|];
         first [left; apply Hpart | right; apply Hpart]);
    left; (split; [reflexivity|]); rewrite body_one; apply committed_size0; exact Hpart.
Qed.

Lemma NoDup_app_l {A} (a b : list A) : NoDup (a ++ b) -> NoDup a.
Proof.
  induction a as [|x a IH]; cbn; intro H; [constructor|].
  inversion H as [|? ? Hx Ha]; subst. constructor; [|apply IH; exact Ha].
  intro Hin. apply Hx. apply in_or_app. left. exact Hin.
Qed.

Lemma flush_spec single recs s :
  Inv single recs s -> chan s = [] ->
  let s2 := flush_shmem_list s in
  bufs s2 = bufs s /\ file s2 = file s /\ NoDup (wl s2) /\ body (bufs s) (wl s2) = body (bufs s) (pend s).
Proof.
  intros HI Hch. pose proof HI as [Hnd Hrec _ _ _ Hshl _ _].
  rewrite Hch in Hshl. cbn in Hshl.
  assert (Hp : pend s = wl s ++ curl s) by (unfold pend, others; rewrite Hch; cbn; rewrite app_nil_r; reflexivity).
  unfold flush_shmem_list. rewrite Hshl.
  destruct (announced_cases single recs s HI) as [[Ha Hb]|[[c [Ha Ec]]|[[Ha [Ec Hf0]]|[o [n [Ha [Ec Hn]]]]]]];
    rewrite Ha; cbn [fold_left]; simp.
  - split; [reflexivity|]. split; [reflexivity|]. split.
    + rewrite Hp in Hnd. apply NoDup_app_l in Hnd. exact Hnd.
    + rewrite Hp, body_app, Hb, app_nil_r. reflexivity.
  - assert (Hcl : curl s = [c]) by (unfold curl; rewrite Ec; reflexivity).
    rewrite Hcl in Hp.
    unfold queue_if. simp.
    assert (Hin : In c (pend s)) by (rewrite Hp; apply in_or_app; right; left; reflexivity).
    destruct (Hrec c Hin) as [_ Hf]. rewrite Hf. cbn [andb].
    destruct (b_size (getb c (bufs s)) =? 0) eqn:Ez; cbn [negb]; simp.
    + split; [reflexivity|]. split; [reflexivity|]. split.
      * rewrite Hp in Hnd. apply NoDup_app_l in Hnd. exact Hnd.
      * apply Nat.eqb_eq in Ez. rewrite Hp, body_app, body_one, (committed_size0 _ Ez), app_nil_r. reflexivity.
    + split; [reflexivity|]. split; [reflexivity|]. rewrite <- Hp. split; [exact Hnd|reflexivity].
  - (* thread set-up: buffer 0 is announced but not yet RECORDING: record_mmap_file skips it *)
    unfold queue_if. simp. rewrite Hf0. cbn [andb].
    assert (Hcl : curl s = []) by (unfold curl; rewrite Ec; reflexivity).
    rewrite Hcl, app_nil_r in Hp. simp.
    split; [reflexivity|]. split; [reflexivity|]. rewrite <- Hp. split; [exact Hnd|reflexivity].
  - (* an exec()ed image is setting itself up: the old image's buffer o and the new, still empty, buffer n *)
    assert (Hcl : curl s = [o]) by (unfold curl; rewrite Ec; reflexivity).
    rewrite Hcl in Hp.
    assert (Hin : In o (pend s)) by (rewrite Hp; apply in_or_app; right; left; reflexivity).
    destruct (Hrec o Hin) as [_ Hf].
    assert (Hqn : forall x, bufs x = bufs s -> queue_if n x = x).
    { intros x Hx. unfold queue_if. rewrite Hx. destruct Hn as [Hn|Hn]; rewrite Hn; [reflexivity|].
      rewrite andb_false_r. reflexivity. }
    assert (Hqb : forall i x, bufs (queue_if i x) = bufs x) by (intros; unfold queue_if; destruct (_ && _); reflexivity).
    rewrite Hqn by (rewrite Hqb; reflexivity).
    unfold queue_if. simp. rewrite Hf. cbn [andb].
    destruct (b_size (getb o (bufs s)) =? 0) eqn:Ez; cbn [negb]; simp.
    + split; [reflexivity|]. split; [reflexivity|]. split.
      * rewrite Hp in Hnd. apply NoDup_app_l in Hnd. exact Hnd.
      * apply Nat.eqb_eq in Ez. rewrite Hp, body_app, body_one, (committed_size0 _ Ez), app_nil_r. reflexivity.
    + split; [reflexivity|]. split; [reflexivity|]. rewrite <- Hp. split; [exact Hnd|reflexivity].
Qed.

Lemma write_all W : forall s, NoDup W ->
  file (fold_left (fun s i => write_one false i s) W s) = file s ++ body (bufs s) W.
Proof.
  induction W as [|i t IH]; intros s Hnd; cbn [fold_left].
  - unfold body. cbn. rewrite app_nil_r. reflexivity.
  - inversion Hnd as [|? ? Hni Ht]; subst. rewrite IH by exact Ht.
    unfold write_one. simp.
    change (i :: t) with ([i] ++ t). rewrite body_app, body_one, <- app_assoc. f_equal. f_equal.
    apply body_upd_notin. exact Hni.
Qed.

Lemma finish_file single recs s : Inv single recs s -> TaskInv s -> file (finish s) = content s.
Proof.
  intros HI HT. unfold finish, drain.
  destruct (drain_spec single recs (length (chan s)) s HI HT eq_refl) as [HI1 [Hc1 [Hch1 _]]].
  set (s1 := iter (length (chan s)) rstep s) in *.
  destruct (flush_spec single recs s1 HI1 Hch1) as [Hb [Hf [Hnd Hbody]]].
  set (s2 := flush_shmem_list s1) in *.
  unfold record_remaining. rewrite write_all by exact Hnd. simp.
  rewrite Hf, Hb, Hbody, <- Hc1. reflexivity.
Qed.

(* ------------------------------------------------------------------ the theorems *)
(* where a thread's history starts: before its first hook call set it up (`true`: prepare_shmem_buffer is
   part of the schedule) or right after *)
Definition start (setup : bool) (recs : list rec) : st := if setup then init0 recs else init recs.
Lemma start_inv setup single recs : Inv single recs (start setup recs).
Proof. destruct setup; [apply init0_inv | apply init_inv]. Qed.
Lemma start_task setup recs : TaskInv (start setup recs).
Proof.
  intros pre i post E. destruct setup; cbn in E.
  - destruct pre; discriminate.
  - destruct pre as [|m [|m' pre]]; discriminate.
Qed.
Lemma init_is_two_steps single cap recs : init recs = run single cap [LP; LP] (init0 recs).
Proof. reflexivity. Qed.

Theorem prefix_general setup single cap recs sched :
  let s := run single cap sched (start setup recs) in
  exists bs rest,
    Matches (done s) bs /\ file (finish s) = bs ++ extra single s /\ recs = done s ++ rest.
Proof.
  intro s. destruct (run_inv2 single recs cap sched (start setup recs) (start_inv setup single recs) (start_task setup recs)) as [HI HT].
  fold s in HI, HT. rewrite (finish_file single recs s HI HT).
  destruct HI as [_ _ _ _ _ _ [bs [Hm Hc]] [rest0 [Hrecs _]]].
  exists bs, (inflight s ++ todo s ++ rest0). split; [exact Hm|]. split; [exact Hc|]. symmetry. exact Hrecs.
Qed.

Lemma extra_window single s : in_window single s = false -> extra single s = [].
Proof. unfold in_window, extra. destruct single; [reflexivity|]. destruct (pc s); try reflexivity; discriminate. Qed.

(* outside the window: the file is exactly the sequence of the completely stored records,
   which is a prefix of what the thread was going to write *)
Theorem prefix_outside_window setup single cap recs sched :
  let s := run single cap sched (start setup recs) in
  in_window single s = false ->
  match_recs (done s) (file (finish s)) = true
  /\ (exists rest, recs = done s ++ rest)
  /\ ok_prefix recs (file (finish s)) = true.
Proof.
  intros s Hw. destruct (prefix_general setup single cap recs sched) as [bs [rest [Hm [Hf Hr]]]]. fold s in Hm, Hf, Hr.
  rewrite (extra_window single s Hw), app_nil_r in Hf.
  assert (Hmr : match_recs (done s) (file (finish s)) = true) by (rewrite Hf; apply Matches_match_recs; exact Hm).
  split; [exact Hmr|]. split; [exists rest; exact Hr|].
  assert (Hlen : length recs = length (done s) + length rest).
  { rewrite <- app_length. f_equal. exact Hr. }
  assert (Hfn : firstn (length (done s)) recs = done s).
  { transitivity (firstn (length (done s)) (done s ++ rest)); [f_equal; exact Hr | apply firstn_exact]. }
  unfold ok_prefix. apply existsb_exists. exists (length (done s)). split.
  - apply in_seq. lia.
  - rewrite Hfn. exact Hmr.
Qed.

(* the code as it is (one size update per record, fix 4751e05) has no window at all *)
Theorem prefix_fixed setup cap recs sched :
  let s := run true cap sched (start setup recs) in
  match_recs (done s) (file (finish s)) = true
  /\ (exists rest, recs = done s ++ rest)
  /\ ok_prefix recs (file (finish s)) = true.
Proof. intro s. apply (prefix_outside_window setup true cap recs sched). reflexivity. Qed.

(* inside the window: the same, followed by the bare 16-byte header of the record in flight *)
Theorem window_exact setup cap recs sched :
  let s := run false cap sched (start setup recs) in
  in_window false s = true ->
  exists r bs rest, (pc s = PCopy r \/ pc s = PBumpPl r) /\
    Matches (done s) bs /\ file (finish s) = bs ++ hdr r /\ recs = done s ++ r :: rest.
Proof.
  intros s Hw. destruct (run_inv2 false recs cap sched (start setup recs) (start_inv setup false recs) (start_task setup recs)) as [HI HT].
  fold s in HI, HT. rewrite (finish_file false recs s HI HT).
  destruct HI as [_ _ _ _ _ _ [bs [Hm Hc]] [rest0 [Hrecs _]]].
  unfold in_window in Hw. unfold extra in Hc. unfold inflight in Hrecs. cbn [negb andb] in Hw.
  destruct (pc s) as [| | | | | | | | |r|r| | | | | |] eqn:Epc; try discriminate;
    exists r, bs, (todo s ++ rest0); (split; [auto|]); (split; [exact Hm|]); (split; [exact Hc|]); symmetry; exact Hrecs.
Qed.

(* a complete run (every record stored): the file holds all records *)
Theorem complete_run setup single cap recs sched :
  let s := run single cap sched (start setup recs) in
  pc s = PIdle -> todo s = [] -> match_recs recs (file (finish s)) = true.
Proof.
  intros s Hpc Ht. pose proof (run_inv single recs cap sched (start setup recs) (start_inv setup single recs) (start_task setup recs)) as HI. fold s in HI.
  destruct (prefix_outside_window setup single cap recs sched) as [Hm _].
  { unfold in_window. fold s. rewrite Hpc. apply andb_false_r. }
  fold s in Hm. destruct HI as [_ _ _ _ _ _ _ [rest0 [Hrecs Hd]]]. unfold inflight in Hrecs. rewrite Hpc, Ht in Hrecs.
  rewrite Hd in Hrecs by (rewrite Hpc; discriminate).
  cbn in Hrecs. rewrite app_nil_r in Hrecs. rewrite <- Hrecs. exact Hm.
Qed.

Theorem prefix_general_now setup cap recs sched :
  let s := run true cap sched (start setup recs) in
  exists rest, Matches (done s) (file (finish s)) /\ recs = done s ++ rest.
Proof.
  intro s. destruct (prefix_general setup true cap recs sched) as [bs [rest [Hm [Hf Hr]]]]. fold s in Hm, Hf, Hr.
  cbn [extra] in Hf. rewrite app_nil_r in Hf. exists rest. rewrite Hf. split; assumption.
Qed.

(* the legacy window (two size updates per record with payload): header without payload *)
Definition w_r1 : rec := {| r_time := 1000; r_type := 0; r_depth := 0; r_addr := 4096; r_pl := [1; 2; 3; 4; 5; 6; 7; 8]%N |}.
Definition w_r2 : rec := {| r_time := 1100; r_type := 1; r_depth := 0; r_addr := 4096; r_pl := [] |}.
Definition w_recs := [w_r1; w_r2].
Definition w_sched := repeat LP 5.       (* PIdle, PCheck, PTime, PWord, PBump *)
Lemma window_witness :
  in_window false (run false 4080 w_sched (init w_recs)) = true
  /\ ok_prefix w_recs (file (finish (run false 4080 w_sched (init w_recs)))) = false
  /\ file (finish (run false 4080 w_sched (init w_recs))) = hdr w_r1.
Proof. vm_compute. repeat split; reflexivity. Qed.
(* the same schedule on the repaired code *)
Lemma window_witness_fixed :
  file (finish (run true 4080 w_sched (init w_recs))) = []
  /\ ok_prefix w_recs (file (finish (run true 4080 (repeat LP 7) (init w_recs)))) = true
  /\ length (file (finish (run true 4080 (repeat LP 7) (init w_recs)))) = 24.
Proof. vm_compute. repeat split; reflexivity. Qed.
