(* C04 - several threads and one recorder: the view of one thread (`proj t`) of any run of the
   multi-thread system is a run of the single-thread LTS, and the end-of-recording sequence commutes
   with the projection.  So every thread's data file has the single-thread guarantee, whatever the
   other threads and the recorder do in between. *)
From Coq Require Import NArith List Bool Arith Lia.
Import ListNotations.
Require Import UV.Gen.Consts UV.C04.Model UV.C04.Proofs UV.C04.ProofsLazy.

(* ------------------------------------------------------------------ lists tagged with a tid *)
Lemma sel_app {A} t (a b : list (nat * A)) : sel t (a ++ b) = sel t a ++ sel t b.
Proof. unfold sel. rewrite filter_app, map_app. reflexivity. Qed.
Lemma sel_tagged_same {A} t (l : list A) : sel t (map (pair t) l) = l.
Proof. unfold sel. induction l as [|x l IH]; cbn; [reflexivity|]. rewrite Nat.eqb_refl. cbn. f_equal. exact IH. Qed.
Lemma sel_tagged_other {A} t u (l : list A) : u <> t -> sel t (map (pair u) l) = [].
Proof.
  intro H. unfold sel. induction l as [|x l IH]; cbn; [reflexivity|].
  replace (u =? t) with false by (symmetry; apply Nat.eqb_neq; exact H). exact IH.
Qed.
Lemma sel_cons_same {A} t (x : A) l : sel t ((t, x) :: l) = x :: sel t l.
Proof. unfold sel. cbn. rewrite Nat.eqb_refl. reflexivity. Qed.
Lemma sel_cons_other {A} t u (x : A) l : u <> t -> sel t ((u, x) :: l) = sel t l.
Proof. intro H. unfold sel. cbn. replace (u =? t) with false by (symmetry; apply Nat.eqb_neq; exact H). reflexivity. Qed.

Lemma nth_upd_same {A} i (f : A -> A) l d : i < length l -> nth i (upd i f l) d = f (nth i l d).
Proof. revert i; induction l as [|x l IH]; intros [|i] H; cbn in *; try lia; [reflexivity|]. apply IH. lia. Qed.
Lemma nth_upd_other {A} i j (f : A -> A) l d : i <> j -> nth j (upd i f l) d = nth j l d.
Proof. revert i j; induction l as [|x l IH]; intros [|i] [|j] H; cbn; try reflexivity; try lia. apply IH. lia. Qed.

(* ------------------------------------------------------------------ thread steps *)
(* a thread's own step only appends to the pipe and leaves the recorder's lists alone *)
Definition local (f : st -> st) : Prop :=
  forall s, (exists out, chan (f s) = chan s ++ out) /\ shl (f s) = shl s /\ wl (f s) = wl s.

Ltac simp := cbn [bufs curr chan shl wl file pc todo done with_pc with_bufs with_curr with_chan with_shl
                  with_wl with_file with_todo with_done on_cur] in *.

Lemma local_pstep single cap : local (pstep single cap).
Proof.
  intro s. unfold pstep.
  repeat match goal with |- context [match ?x with _ => _ end] => destruct x end;
    simp; (split; [first [exists []; rewrite app_nil_r; reflexivity | eexists; reflexivity] | split; reflexivity]).
Qed.
Lemma local_pstep_closed single cap : local (pstep_closed single cap).
Proof.
  intro s. unfold pstep_closed. pose proof (local_pstep single cap s) as H.
  destruct (pc s); try exact H; simp; (split; [exists []; rewrite app_nil_r; reflexivity | split; reflexivity]).
Qed.
Lemma local_dstep closed : local (dstep closed).
Proof.
  intro s. unfold dstep, pend_thread.
  destruct (pc s); try (split; [exists []; rewrite app_nil_r; reflexivity | split; reflexivity]).
  destruct closed; [|destruct (curr s)]; simp;
    (split; [first [exists []; rewrite app_nil_r; reflexivity | eexists; reflexivity] | split; reflexivity]).
Qed.

Lemma local_xstep : local xstep.
Proof.
  intro s. unfold xstep. destruct (pc s); try (split; [exists []; rewrite app_nil_r; reflexivity | split; reflexivity]).
  destruct (curr s); simp; (split; [exists []; rewrite app_nil_r; reflexivity | split; reflexivity]).
Qed.

Lemma st_eta s : {| bufs := bufs s; curr := curr s; chan := chan s; shl := shl s; wl := wl s; file := file s;
                    pc := pc s; todo := todo s; done := done s; base := base s |} = s.
Proof. destruct s; reflexivity. Qed.

Lemma skipn_app_exact {A} (a b : list A) : skipn (length a) (a ++ b) = b.
Proof. induction a; cbn; auto. Qed.

Lemma proj_lift_same f t M : local f -> t < length (m_thr M) -> proj t (lift_p f t M) = f (proj t M).
Proof.
  intros Hl Ht. unfold lift_p. replace (t <? length (m_thr M)) with true by (symmetry; apply Nat.ltb_lt; exact Ht).
  destruct (Hl (proj t M)) as [[out Hout] [Hs Hw]].
  unfold proj at 1. cbn [m_thr m_chan m_shl m_wl].
  rewrite nth_upd_same by exact Ht. cbn [thr_of h_bufs h_curr h_pc h_todo h_done h_file h_base].
  rewrite sel_app, sel_tagged_same, Hout, skipn_app_exact.
  rewrite <- (st_eta (f (proj t M))). f_equal.
  - rewrite Hout. reflexivity.
  - rewrite Hs. reflexivity.
  - rewrite Hw. reflexivity.
Qed.

Lemma proj_lift_other f t u M : u <> t -> proj u (lift_p f t M) = proj u M.
Proof.
  intro H. unfold lift_p. destruct (t <? length (m_thr M)); [|reflexivity].
  unfold proj. cbn [m_thr m_chan m_shl m_wl].
  rewrite nth_upd_other by (intro; subst; contradiction).
  rewrite sel_app, sel_tagged_other by (intro; subst; contradiction). rewrite app_nil_r. reflexivity.
Qed.

(* ------------------------------------------------------------------ recorder steps *)
Ltac msimp := cbn [m_thr m_chan m_shl m_wl bufs curr chan shl wl file pc todo done with_pc with_bufs with_curr with_chan
                   with_shl with_wl with_file with_todo with_done with_base base h_bufs h_curr h_pc h_todo h_done h_file h_base thr_of fst snd] in *.
Lemma sel_remove_same t i l : sel t (remove_first_pair (t, i) l) = remove_first i (sel t l).
Proof.
  induction l as [|[a b] r IH]; [reflexivity|]. cbn [remove_first_pair fst snd].
  destruct (Nat.eq_dec a t) as [->|Ha].
  - rewrite Nat.eqb_refl. cbn [andb]. rewrite sel_cons_same. cbn [remove_first].
    destruct (b =? i) eqn:E; [reflexivity|]. rewrite sel_cons_same, IH. reflexivity.
  - replace (a =? t) with false by (symmetry; apply Nat.eqb_neq; exact Ha). cbn [andb].
    rewrite !sel_cons_other by exact Ha. exact IH.
Qed.
Lemma sel_remove_other t u i l : u <> t -> sel t (remove_first_pair (u, i) l) = sel t l.
Proof.
  intro H. induction l as [|[a b] r IH]; [reflexivity|]. cbn [remove_first_pair fst snd].
  destruct ((a =? u) && (b =? i)) eqn:E.
  - apply andb_true_iff in E. destruct E as [E _]. apply Nat.eqb_eq in E. subst a.
    rewrite sel_cons_other by exact H. reflexivity.
  - destruct (Nat.eq_dec a t) as [->|Ha].
    + rewrite !sel_cons_same, IH. reflexivity.
    + rewrite !sel_cons_other by exact Ha. exact IH.
Qed.

Lemma proj_mqueue_same t i M : proj t (mqueue_if t i M) = queue_if i (proj t M).
Proof.
  unfold mqueue_if, queue_if. cbn [proj bufs].
  destruct (f_rec (b_flag (getb i (h_bufs (nth t (m_thr M) thr0)))) &&
            negb (b_size (getb i (h_bufs (nth t (m_thr M) thr0))) =? 0)); [|reflexivity].
  unfold proj. msimp. rewrite sel_app, sel_cons_same. reflexivity.
Qed.
Lemma proj_mqueue_other t u i M : u <> t -> proj t (mqueue_if u i M) = proj t M.
Proof.
  intro H. unfold mqueue_if.
  destruct (f_rec _ && _); [|reflexivity].
  unfold proj. msimp. rewrite sel_app, sel_cons_other by exact H. cbn [sel filter map]. rewrite app_nil_r. reflexivity.
Qed.

Lemma take_first_spec t l :
  match take_first t l with
  | None => sel t l = []
  | Some (i, w) => sel t l = i :: sel t w /\ forall u, u <> t -> sel u w = sel u l
  end.
Proof.
  induction l as [|[u i] r IH]; [reflexivity|]. cbn [take_first].
  destruct (Nat.eq_dec u t) as [->|Hu].
  - rewrite Nat.eqb_refl. split; [apply sel_cons_same|]. intros v Hv. rewrite sel_cons_other; [reflexivity|].
    intro; subst; contradiction.
  - replace (u =? t) with false by (symmetry; apply Nat.eqb_neq; exact Hu).
    destruct (take_first t r) as [[j w]|].
    + destruct IH as [H1 H2]. split.
      * rewrite !sel_cons_other by exact Hu. exact H1.
      * intros v Hv. destruct (Nat.eq_dec u v) as [->|Huv].
        -- rewrite !sel_cons_same. f_equal. apply H2. exact Hv.
        -- rewrite !sel_cons_other by exact Huv. apply H2. exact Hv.
    + rewrite sel_cons_other by exact Hu. exact IH.
Qed.

Lemma proj_mrstep t M :
  proj t (mrstep M) =
  match m_chan M with
  | (u, _) :: _ => if u =? t then rstep (proj t M) else proj t M
  | [] => proj t M
  end.
Proof.
  unfold mrstep. destruct (m_chan M) as [|[u m] ch] eqn:E; [reflexivity|].
  destruct (Nat.eq_dec u t) as [->|Hu].
  - rewrite Nat.eqb_refl. unfold rstep. cbn [proj chan]. rewrite E, sel_cons_same.
    destruct m as [i|i|i].
    + unfold proj. msimp. rewrite sel_app, sel_cons_same. reflexivity.
    + rewrite proj_mqueue_same. f_equal.
      unfold proj. msimp. rewrite sel_remove_same. reflexivity.
    + pose proof (take_first_spec t (m_shl M)) as H. cbn [proj shl].
      destruct (take_first t (m_shl M)) as [[j r]|].
      * destruct H as [H1 _]. rewrite H1. rewrite proj_mqueue_same. reflexivity.
      * rewrite H. unfold proj. msimp. reflexivity.
  - replace (u =? t) with false by (symmetry; apply Nat.eqb_neq; exact Hu).
    destruct m as [i|i|i].
    + unfold proj. msimp. rewrite E, sel_cons_other, sel_app, sel_cons_other by exact Hu. cbn [sel filter map]. rewrite app_nil_r. reflexivity.
    + rewrite proj_mqueue_other by exact Hu.
      unfold proj. msimp. rewrite E, sel_cons_other, sel_remove_other by exact Hu. reflexivity.
    + pose proof (take_first_spec u (m_shl M)) as H.
      destruct (take_first u (m_shl M)) as [[j r]|].
      * destruct H as [_ H2]. rewrite proj_mqueue_other by exact Hu.
        unfold proj. msimp. rewrite E, sel_cons_other by exact Hu. rewrite (H2 t) by (intro; subst; contradiction). reflexivity.
      * unfold proj. msimp. rewrite E, sel_cons_other by exact Hu. reflexivity.
Qed.

(* ------------------------------------------------------------------ writers *)
Lemma proj_set_thr_same t s' M :
  t < length (m_thr M) ->
  chan s' = chan (proj t M) -> shl s' = shl (proj t M) -> wl s' = wl (proj t M) ->
  proj t (set_thr t (thr_of s') M) = s'.
Proof.
  intros Ht Hc Hs Hw. destruct s' as [b c ch sh w f p td dn]. cbn [chan shl wl proj] in Hc, Hs, Hw. subst ch sh w.
  unfold proj, set_thr. cbn [m_thr m_chan m_shl m_wl].
  rewrite nth_upd_same by exact Ht. reflexivity.
Qed.
Lemma proj_set_thr_other t u h M : u <> t -> proj u (set_thr t h M) = proj u M.
Proof.
  intro H. unfold proj, set_thr. cbn [m_thr m_chan m_shl m_wl].
  rewrite nth_upd_other by (intro; subst; contradiction). reflexivity.
Qed.

Lemma write_one_frame r i s :
  chan (write_one r i s) = chan s /\ shl (write_one r i s) = shl s /\ wl (write_one r i s) = wl s.
Proof. unfold write_one. simp. auto. Qed.

Lemma proj_mwrite_same r t i M : t < length (m_thr M) -> proj t (mwrite r t i M) = write_one r i (proj t M).
Proof.
  intro Ht. unfold mwrite. destruct (write_one_frame r i (proj t M)) as [A [B C]].
  apply proj_set_thr_same; assumption.
Qed.
Lemma proj_mwrite_other r t u i M : u <> t -> proj u (mwrite r t i M) = proj u M.
Proof. intro H. unfold mwrite. apply proj_set_thr_other. exact H. Qed.

Lemma proj_mwstep_same t M : t < length (m_thr M) -> proj t (mwstep t M) = wstep (proj t M).
Proof.
  intro Et. unfold mwstep, wstep. replace (t <? length (m_thr M)) with true by (symmetry; apply Nat.ltb_lt; exact Et).
  pose proof (take_first_spec t (m_wl M)) as H.
  cbn [proj wl]. destruct (take_first t (m_wl M)) as [[i w]|].
  - destruct H as [H1 _]. rewrite H1.
    rewrite proj_mwrite_same by exact Et. reflexivity.
  - rewrite H. reflexivity.
Qed.

Lemma proj_mwstep_other t u M : u <> t -> proj u (mwstep t M) = proj u M.
Proof.
  intro Hu. unfold mwstep. destruct (t <? length (m_thr M)); [|reflexivity].
  pose proof (take_first_spec t (m_wl M)) as H.
  destruct (take_first t (m_wl M)) as [[i w]|]; [|reflexivity].
  destruct H as [_ H2]. rewrite proj_mwrite_other by exact Hu.
  unfold proj. msimp. rewrite (H2 u Hu). reflexivity.
Qed.

(* ------------------------------------------------------------------ runs *)
Lemma lift_len f t M : length (m_thr (lift_p f t M)) = length (m_thr M).
Proof. unfold lift_p. destruct (t <? length (m_thr M)); [cbn; apply upd_length | reflexivity]. Qed.
Lemma mqueue_len t i M : length (m_thr (mqueue_if t i M)) = length (m_thr M).
Proof. unfold mqueue_if. destruct (_ && _); reflexivity. Qed.
Lemma mrstep_len M : length (m_thr (mrstep M)) = length (m_thr M).
Proof.
  unfold mrstep. destruct (m_chan M) as [|[u [i|i|i]] ch]; try reflexivity; [rewrite mqueue_len; reflexivity|].
  destruct (take_first u (m_shl M)) as [[j r]|]; [rewrite mqueue_len|]; reflexivity.
Qed.
Lemma mwrite_len r t i M : length (m_thr (mwrite r t i M)) = length (m_thr M).
Proof. unfold mwrite, set_thr. cbn. apply upd_length. Qed.
Lemma mwstep_len t M : length (m_thr (mwstep t M)) = length (m_thr M).
Proof.
  unfold mwstep. destruct (t <? length (m_thr M)); [|reflexivity].
  destruct (take_first t (m_wl M)) as [[i w]|]; [|reflexivity]. rewrite mwrite_len. reflexivity.
Qed.
Lemma mstep_len single cap l M : length (m_thr (mstep single cap l M)) = length (m_thr M).
Proof. destruct l; cbn [mstep]; try apply lift_len; [apply mrstep_len | apply mwstep_len]. Qed.

(* what thread t sees of one step of the whole system is one step of the single-thread LTS, or nothing *)
Lemma proj_mstep single cap t l M :
  t < length (m_thr M) ->
  exists ls, proj t (mstep single cap l M) = run single cap ls (proj t M).
Proof.
  intro Ht. destruct l as [u|u|u|u| |u|u]; cbn [mstep].
  - destruct (Nat.eq_dec u t) as [->|Hu].
    + exists [LP]. rewrite proj_lift_same by (try apply local_pstep; exact Ht). reflexivity.
    + exists []. apply proj_lift_other. intro; subst; contradiction.
  - destruct (Nat.eq_dec u t) as [->|Hu].
    + exists [LPC]. rewrite proj_lift_same by (try apply local_pstep_closed; exact Ht). reflexivity.
    + exists []. apply proj_lift_other. intro; subst; contradiction.
  - destruct (Nat.eq_dec u t) as [->|Hu].
    + exists [LD]. rewrite proj_lift_same by (try apply local_dstep; exact Ht). reflexivity.
    + exists []. apply proj_lift_other. intro; subst; contradiction.
  - destruct (Nat.eq_dec u t) as [->|Hu].
    + exists [LDC]. rewrite proj_lift_same by (try apply local_dstep; exact Ht). reflexivity.
    + exists []. apply proj_lift_other. intro; subst; contradiction.
  - rewrite proj_mrstep. destruct (m_chan M) as [|[u m] ch]; [exists []; reflexivity|].
    destruct (u =? t); [exists [LR] | exists []]; reflexivity.
  - destruct (Nat.eq_dec u t) as [->|Hu].
    + exists [LW]. rewrite proj_mwstep_same by exact Ht. reflexivity.
    + exists []. apply proj_mwstep_other. intro; subst; contradiction.
  - destruct (Nat.eq_dec u t) as [->|Hu].
    + exists [LX]. rewrite proj_lift_same by (try apply local_xstep; exact Ht). reflexivity.
    + exists []. apply proj_lift_other. intro; subst; contradiction.
Qed.

Lemma run_app single cap a b s : run single cap (a ++ b) s = run single cap b (run single cap a s).
Proof. unfold run. apply fold_left_app. Qed.

Lemma proj_mrun single cap t sched : forall M,
  t < length (m_thr M) ->
  exists ls, proj t (mrun single cap sched M) = run single cap ls (proj t M)
             /\ length (m_thr (mrun single cap sched M)) = length (m_thr M).
Proof.
  induction sched as [|l r IH]; intros M Ht.
  - exists []. split; reflexivity.
  - cbn [mrun fold_left]. destruct (proj_mstep single cap t l M Ht) as [l1 H1].
    assert (Ht' : t < length (m_thr (mstep single cap l M))) by (rewrite mstep_len; exact Ht).
    destruct (IH _ Ht') as [l2 [H2 H3]]. exists (l1 ++ l2). split.
    + unfold mrun in H2. rewrite H2, H1, run_app. reflexivity.
    + unfold mrun in H3. rewrite H3. apply mstep_len.
Qed.

(* ------------------------------------------------------------------ end of the recording *)
Lemma drain_unfold s m ch : chan s = m :: ch -> drain s = drain (rstep s).
Proof.
  intro E. unfold drain. rewrite E. cbn [length iter].
  destruct (rstep_frame s) as [F _]. rewrite F, E. reflexivity.
Qed.
Lemma drain_nil s : chan s = [] -> drain s = s.
Proof. intro E. unfold drain. rewrite E. reflexivity. Qed.

Lemma proj_mdrain t : forall n M, n = length (m_chan M) -> proj t (iter n mrstep M) = drain (proj t M).
Proof.
  induction n as [|n IH]; intros M Hn.
  - cbn [iter]. destruct (m_chan M) eqn:E; [|discriminate].
    symmetry. apply drain_nil. cbn [proj chan]. rewrite E. reflexivity.
  - cbn [iter]. destruct (m_chan M) as [|[u m] ch] eqn:E; [discriminate|].
    assert (Hlen : n = length (m_chan (mrstep M))).
    { unfold mrstep. rewrite E. destruct m as [i|i|i]; [cbn in *; lia| |].
      - unfold mqueue_if. destruct (_ && _); cbn in *; lia.
      - destruct (take_first u (m_shl M)) as [[j r]|]; [unfold mqueue_if; destruct (_ && _)|]; cbn in *; lia. }
    rewrite (IH _ Hlen), proj_mrstep, E.
    destruct (Nat.eq_dec u t) as [->|Hu].
    + rewrite Nat.eqb_refl. symmetry. apply (drain_unfold _ m (sel t ch)).
      cbn [proj chan]. rewrite E, sel_cons_same. reflexivity.
    + replace (u =? t) with false by (symmetry; apply Nat.eqb_neq; exact Hu). reflexivity.
Qed.

Lemma proj_mflush_fold t : forall l M,
  proj t (fold_left (fun M x => mqueue_if (fst x) (snd x) M) l M)
  = fold_left (fun s i => queue_if i s) (sel t l) (proj t M).
Proof.
  induction l as [|[u i] r IH]; intro M; [reflexivity|]. cbn [fold_left fst snd]. rewrite IH.
  destruct (Nat.eq_dec u t) as [->|Hu].
  - rewrite sel_cons_same, proj_mqueue_same. reflexivity.
  - rewrite sel_cons_other, proj_mqueue_other by exact Hu. reflexivity.
Qed.
Lemma proj_mflush t M : proj t (mflush M) = flush_shmem_list (proj t M).
Proof. unfold mflush, flush_shmem_list. rewrite proj_mflush_fold. reflexivity. Qed.

Lemma mflush_len M : length (m_thr (mflush M)) = length (m_thr M).
Proof.
  unfold mflush. set (M0 := {| m_thr := m_thr M; m_chan := m_chan M; m_shl := []; m_wl := m_wl M |}).
  change (length (m_thr M)) with (length (m_thr M0)). generalize M0. clear M0.
  induction (m_shl M) as [|x r IH]; intro M0; [reflexivity|]. cbn [fold_left]. rewrite IH. apply mqueue_len.
Qed.
Lemma iter_mrstep_len n : forall M, length (m_thr (iter n mrstep M)) = length (m_thr M).
Proof. induction n as [|n IH]; intro M; [reflexivity|]. cbn [iter]. rewrite IH. apply mrstep_len. Qed.

Lemma proj_mremaining_fold t : forall l M,
  t < length (m_thr M) ->
  proj t (fold_left (fun M x => if fst x <? length (m_thr M) then mwrite false (fst x) (snd x) M else M) l M)
  = fold_left (fun s i => write_one false i s) (sel t l) (proj t M).
Proof.
  induction l as [|[u i] r IH]; intros M Ht; [reflexivity|]. cbn [fold_left fst snd].
  destruct (Nat.eq_dec u t) as [->|Hu].
  - replace (t <? length (m_thr M)) with true by (symmetry; apply Nat.ltb_lt; exact Ht).
    rewrite IH by (rewrite mwrite_len; exact Ht).
    rewrite sel_cons_same, proj_mwrite_same by exact Ht. reflexivity.
  - rewrite sel_cons_other by exact Hu.
    destruct (u <? length (m_thr M)).
    + rewrite IH by (rewrite mwrite_len; exact Ht). rewrite proj_mwrite_other by (intro; subst; contradiction). reflexivity.
    + apply IH. exact Ht.
Qed.
Lemma proj_mremaining t M : t < length (m_thr M) -> proj t (mremaining M) = record_remaining (proj t M).
Proof. intro Ht. unfold mremaining, record_remaining. rewrite proj_mremaining_fold by exact Ht. reflexivity. Qed.

Lemma proj_mfinish t M : t < length (m_thr M) -> proj t (mfinish M) = finish (proj t M).
Proof.
  intro Ht. unfold mfinish, finish.
  rewrite proj_mremaining by (rewrite mflush_len; unfold mdrain; rewrite iter_mrstep_len; exact Ht).
  rewrite proj_mflush. unfold mdrain. rewrite (proj_mdrain t _ M eq_refl). reflexivity.
Qed.

(* ------------------------------------------------------------------ the theorem *)
Lemma proj_minit t recss : t < length recss -> proj t (minit recss) = init0 (nth t recss []).
Proof.
  intro Ht. unfold proj, minit. cbn [m_thr m_chan m_shl m_wl].
  rewrite (nth_indep _ thr0 (thr_of (init0 [])) ) by (rewrite map_length; exact Ht).
  rewrite (map_nth (fun recs => thr_of (init0 recs)) recss [] t). reflexivity.
Qed.

(* any number of threads, any interleaving of their steps (set-up, stores, buffer switches, closed pipe,
   mtd_dtor), of the recorder's main thread and of per-tid writers, a kill / end of recording at any point:
   every thread's data file consists of exactly the records that thread stored completely, in order *)
Theorem multi_prefix cap recss sched t :
  t < length recss ->
  let Mk := mrun true cap sched (minit recss) in
  match_recs (mdone t Mk) (mfile t (mfinish Mk)) = true
  /\ (exists rest, nth t recss [] = mdone t Mk ++ rest)
  /\ ok_prefix (nth t recss []) (mfile t (mfinish Mk)) = true.
Proof.
  intros Ht Mk.
  assert (Ht0 : t < length (m_thr (minit recss))) by (cbn; rewrite map_length; exact Ht).
  destruct (proj_mrun true cap t sched (minit recss) Ht0) as [ls [Hp Hl]]. fold Mk in Hp, Hl.
  rewrite proj_minit in Hp by exact Ht.
  assert (Htk : t < length (m_thr Mk)) by (rewrite Hl; exact Ht0).
  pose proof (proj_mfinish t Mk Htk) as Hf. rewrite Hp in Hf.
  pose proof (prefix_fixed true cap (nth t recss []) ls) as H. cbn [start] in H. cbv zeta in H.
  change (mfile t (mfinish Mk)) with (file (proj t (mfinish Mk))). rewrite Hf.
  change (mdone t Mk) with (done (proj t Mk)). rewrite Hp. exact H.
Qed.

(* every thread executes its own hook-call history; whatever the interleaving and the instant of the kill,
   each thread's file is made of whole records that form a prefix of what THAT thread executed *)
Theorem multi_killed_trace_is_prefix_of_execution cap opss sched t :
  t < length opss ->
  wf_ops [] (nth t opss []) = true ->
  let Mk := mrun true cap sched (minit (map (fun ops => concat (snd (ops_run [] ops))) opss)) in
  exists k, match_recs (firstn k (eager [] (nth t opss []))) (mfile t (mfinish Mk)) = true.
Proof.
  intros Ht Hwf Mk.
  set (recss := map (fun ops => concat (snd (ops_run [] ops))) opss) in *.
  assert (Htr : t < length recss) by (unfold recss; rewrite map_length; exact Ht).
  destruct (multi_prefix cap recss sched t Htr) as [Hm [[rest Hr] _]]. fold Mk in Hm, Hr.
  assert (Hn : nth t recss [] = concat (snd (ops_run [] (nth t opss [])))).
  { unfold recss. rewrite (nth_indep _ [] (concat (snd (ops_run [] [])))) by (rewrite map_length; exact Ht).
    apply (map_nth (fun ops => concat (snd (ops_run [] ops)))). }
  destruct (lazy_is_prefix_of_eager _ Hwf) as [rest' He].
  exists (length (mdone t Mk)).
  assert (Hfn : firstn (length (mdone t Mk)) (eager [] (nth t opss [])) = mdone t Mk).
  { rewrite He, <- Hn, Hr, <- app_assoc. apply firstn_exact. }
  rewrite Hfn. exact Hm.
Qed.

(* non-vacuity: two threads, interleaved stores, the recorder and two writers in between, one thread ends
   normally (REC_END), the process is killed while the other is in the middle of a record *)
Definition mt_recss : list (list rec) := [[w_r2; w_r1; w_r2; w_r2]; [w_r1; w_r1; w_r2]].
Definition mt_sched : list mlab :=
  repeat (MP 0) 9 ++ repeat (MP 1) 12 ++ [MR; MR] ++ repeat (MP 0) 14 ++ [MR; MW 0; MR] ++ repeat (MP 1) 10
  ++ [MD 0; MR; MW 1; MW 0] ++ repeat (MP 1) 1.
Example multi_nv :
  let Mk := mrun true 48 mt_sched (minit mt_recss) in
  mdone 0 Mk = [w_r2; w_r1; w_r2] /\ mdone 1 Mk = [w_r1; w_r1]
  /\ h_pc (nth 0 (m_thr Mk) thr0) = PDark
  /\ (mfile 0 Mk <> [] /\ mfile 1 Mk <> [])
  /\ match_recs (mdone 0 Mk) (mfile 0 (mfinish Mk)) = true
  /\ match_recs (mdone 1 Mk) (mfile 1 (mfinish Mk)) = true.
Proof. vm_compute. repeat split; try reflexivity; discriminate. Qed.

(* the crashing thread among several: it stored every record of its history and of the handler's flush
   before the process died; whatever the other threads were doing, its file is its whole eager trace *)
Theorem multi_crashed_thread_is_complete cap recss sched t ops :
  t < length recss ->
  wf_ops [] ops = true ->
  nth t recss [] = concat (snd (ops_run [] ops)) ++ segv_flush (fst (ops_run [] ops)) ->
  let Mk := mrun true cap sched (minit recss) in
  mdone t Mk = nth t recss [] ->
  match_recs (eager [] ops) (mfile t (mfinish Mk)) = true.
Proof.
  intros Ht Hwf Hrecs Mk Hdone.
  destruct (multi_prefix cap recss sched t Ht) as [Hm _]. fold Mk in Hm.
  rewrite Hdone, Hrecs, (lazy_plus_flush_is_eager ops Hwf) in Hm. exact Hm.
Qed.
