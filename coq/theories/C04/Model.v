(* C04 - a crashing or killed tracee still leaves a replayable prefix trace.

   Executable model (no proofs here) of

   1. libmcount/record.c, producer side of ONE thread at the granularity of single stores to
      the shared buffer / single messages to the recorder:
        get_shmem_buffer  -> finish_shmem_buffer (REC_END) -> get_new_shmem_buffer
                             (first buffer without RECORDING, else a fresh one; flag |= RECORDING;
                              size = 0; shrink; REC_START)
        record_ret_stack  -> buf[0] = time; buf[1] = rec; size += 16;
                             [payload:] mcount_memcpy4(...); size += ALIGN(len, 8)
      The tracee may die between any two of these steps (a schedule is any list of labels;
      "kill" = the schedule simply contains no further producer step).
   2. cmds/record.c, recorder side: read_record_mmap (REC_START / REC_END), record_mmap_file,
      copy_to_buffer (buf_write_list), the writer (write_buffer + flag = WRITTEN) and the end of
      the recording: stop_tracing drains the pipe, flush_shmem_list, record_remaining_buffer.
   3. libmcount/record.c record_trace_data + mcount.c mcount_exit_filter_record / segv_handler:
      lazily written ENTRY records, the flush of the open calls on SIGSEGV/SIGABRT and on
      exit/exec-like PLT calls.
   4. cmds/record.c liveness skeleton: tid_list, TASK_START/END, FORK_START/END, FINISH,
      sigchld_handler, check_tid_list, the loop of stop_tracing.

   Not modelled: allocation failure / LOST records (C03), event records (one size update, no
   window), filters/triggers (C05), more than one thread per data file, writer-thread
   registration per tid (C03), memory ordering of the hardware.                              *)
From Coq Require Import NArith ZArith List Bool Arith.
Import ListNotations.
Require Import UV.Gen.Consts.

(* ------------------------------------------------------------------ bytes and records *)
Fixpoint le_bytes (n : nat) (v : N) : list N :=
  match n with O => [] | S k => (v mod 256)%N :: le_bytes k (v / 256)%N end.
Definition le64 (v : N) : list N := le_bytes 8 v.

Record rec := { r_time : N; r_type : N; r_depth : N; r_addr : N; r_pl : list N }.
Definition has_pl (r : rec) : bool := match r_pl r with [] => false | _ => true end.

(* rec = type | RECORD_MAGIC << 3; rec += argbuf ? 4 : 0; rec += depth << 6; rec += child_ip << 16 *)
Definition word_of (r : rec) : N :=
  ((r_type r + RECORD_MAGIC * 8 + (if has_pl r then 4 else 0) + r_depth r * 64 + r_addr r * 65536)
     mod 18446744073709551616)%N.
Definition hdr (r : rec) : list N := le64 (r_time r) ++ le64 (word_of r).
Definition align8 (n : nat) : nat := (n + 7) / 8 * 8.
Definition rsize (r : rec) : nat := 16 + length (r_pl r).    (* what get_shmem_buffer is asked for *)

(* ------------------------------------------------------------------ shared memory *)
(* data[] of a buffer: a total function (the model's memory is unbounded: that a record fits
   into a fresh buffer is the code's own unchecked assumption) *)
Definition mem := nat -> N.
Definition zero_mem : mem := fun _ => 0%N.
Definition write_at (off : nat) (bs : list N) (m : mem) : mem :=
  fun i => if (off <=? i) && (i <? off + length bs) then nth (i - off) bs 0%N else m i.
Definition read_at (off n : nat) (m : mem) : list N := map m (seq off n).

Record flags := { f_new : bool; f_written : bool; f_rec : bool }.
Definition flag_val (f : flags) : N :=
  ((if f_new f then SHMEM_FL_NEW else 0) + (if f_written f then SHMEM_FL_WRITTEN else 0)
   + (if f_rec f then SHMEM_FL_RECORDING else 0))%N.
Definition fl_none := {| f_new := false; f_written := false; f_rec := false |}.
Definition fl_written := {| f_new := false; f_written := true; f_rec := false |}.
Definition or_rec (f : flags) := {| f_new := f_new f; f_written := f_written f; f_rec := true |}.
Definition is_written_only (f : flags) : bool := negb (f_new f) && f_written f && negb (f_rec f).

Record buf := { b_flag : flags; b_size : nat; b_data : mem }.
Definition fresh_buf := {| b_flag := fl_none; b_size := 0; b_data := zero_mem |}.
Definition committed (b : buf) : list N := read_at 0 (b_size b) (b_data b).

Fixpoint upd {A} (i : nat) (f : A -> A) (l : list A) : list A :=
  match l, i with
  | [], _ => []
  | x :: t, O => f x :: t
  | x :: t, S k => x :: upd k f t
  end.
Definition getb (i : nat) (l : list buf) : buf := nth i l fresh_buf.
Definition set_size (n : nat) (b : buf) := {| b_flag := b_flag b; b_size := n; b_data := b_data b |}.
Definition set_flag (f : flags) (b : buf) := {| b_flag := f; b_size := b_size b; b_data := b_data b |}.
Definition set_data (m : mem) (b : buf) := {| b_flag := b_flag b; b_size := b_size b; b_data := m |}.

(* ------------------------------------------------------------------ the LTS *)
Inductive msg := MStart (i : nat) | MEnd (i : nat)
               | MTask (i : nat).   (* TASK_START for a tid the recorder already knows: the task exec()ed a new image;
                                       flush_old_shmem flushes the FIRST announced buffer of the tid (`i`, a ghost
                                       annotation: the buffer the old image was recording into) *)
Inductive ppc :=
| PIdle                 (* between two records *)
| PCheck (r : rec)      (* get_shmem_buffer: does it fit? *)
| PFinish (r : rec)     (* finish_shmem_buffer: REC_END *)
| PPick (r : rec)       (* get_new_shmem_buffer: choose / allocate, flag |= RECORDING *)
| PZero (r : rec)       (* curr_buf->size = 0; shrink *)
| PStart (r : rec)      (* REC_START *)
| PTime (r : rec)       (* buf[0] = timestamp *)
| PWord (r : rec)       (* buf[1] = rec *)
| PBump (r : rec)       (* curr_buf->size += 16 *)
| PCopy (r : rec)       (* mcount_memcpy4(ptr, argbuf + 4, size) *)
| PBumpPl (r : rec)     (* curr_buf->size += ALIGN(size, 8) *)
| PPrepStart            (* prepare_shmem_buffer: both buffers exist; REC_START for index 0 *)
| PPrepFlag             (* prepare_shmem_buffer: buffer[0]->flag = RECORDING | NEW (curr = 0) *)
| PXStart (b o : nat)   (* the image exec()ed in this task sets itself up: its ring starts at index b; REC_START b *)
| PXFlag (b o : nat)    (*   buffer[b]->flag = RECORDING | NEW *)
| PXTask (b o : nat)    (*   TASK_START: the recorder will flush the old image's buffer o (curr = b from now on) *)
| PDark.                (* nothing this thread does can reach the recorder any more: it is done (mtd_dtor,
                           shmem.done), or the message pipe was closed (mcount_trace_finish, fd = -1) and it
                           moved on to a buffer whose REC_START was never delivered *)

Record st := {
  bufs : list buf;        (* the thread's ring of shm buffers, by index *)
  curr : option nat;      (* shmem->curr (None: closed, between REC_END and the next choice) *)
  chan : list msg;        (* the FIFO to the recorder, oldest first *)
  shl : list nat;         (* recorder: shmem_list_head *)
  wl : list nat;          (* recorder: buf_write_list *)
  file : list N;          (* <tid>.dat *)
  pc : ppc;
  todo : list rec;        (* records the thread is still going to emit *)
  done : list rec;        (* ghost: records completely stored (both size updates done) *)
  base : nat              (* where the running image's own ring starts in `bufs` (0 until the task exec()s) *)
}.

Definition with_pc (p : ppc) (s : st) : st :=
  {| bufs := bufs s; curr := curr s; chan := chan s; shl := shl s; wl := wl s; file := file s;
     pc := p; todo := todo s; done := done s; base := base s |}.
Definition with_bufs (b : list buf) (s : st) : st :=
  {| bufs := b; curr := curr s; chan := chan s; shl := shl s; wl := wl s; file := file s;
     pc := pc s; todo := todo s; done := done s; base := base s |}.
Definition with_curr (c : option nat) (s : st) : st :=
  {| bufs := bufs s; curr := c; chan := chan s; shl := shl s; wl := wl s; file := file s;
     pc := pc s; todo := todo s; done := done s; base := base s |}.
Definition with_chan (c : list msg) (s : st) : st :=
  {| bufs := bufs s; curr := curr s; chan := c; shl := shl s; wl := wl s; file := file s;
     pc := pc s; todo := todo s; done := done s; base := base s |}.
Definition with_shl (l : list nat) (s : st) : st :=
  {| bufs := bufs s; curr := curr s; chan := chan s; shl := l; wl := wl s; file := file s;
     pc := pc s; todo := todo s; done := done s; base := base s |}.
Definition with_wl (l : list nat) (s : st) : st :=
  {| bufs := bufs s; curr := curr s; chan := chan s; shl := shl s; wl := l; file := file s;
     pc := pc s; todo := todo s; done := done s; base := base s |}.
Definition with_file (f : list N) (s : st) : st :=
  {| bufs := bufs s; curr := curr s; chan := chan s; shl := shl s; wl := wl s; file := f;
     pc := pc s; todo := todo s; done := done s; base := base s |}.
Definition with_todo (t : list rec) (s : st) : st :=
  {| bufs := bufs s; curr := curr s; chan := chan s; shl := shl s; wl := wl s; file := file s;
     pc := pc s; todo := t; done := done s; base := base s |}.
Definition with_done (d : list rec) (s : st) : st :=
  {| bufs := bufs s; curr := curr s; chan := chan s; shl := shl s; wl := wl s; file := file s;
     pc := pc s; todo := todo s; done := d; base := base s |}.
Definition with_base (b : nat) (s : st) : st :=
  {| bufs := bufs s; curr := curr s; chan := chan s; shl := shl s; wl := wl s; file := file s;
     pc := pc s; todo := todo s; done := done s; base := b |}.

(* "always use first buffer available": index of the first buffer without RECORDING, or the
   length of the ring (then a fresh shm object is created, zero filled, flag 0) *)
Fixpoint find_free (l : list buf) : nat :=
  match l with
  | [] => 0
  | b :: t => if f_rec (b_flag b) then S (find_free t) else 0
  end.

(* the running image sees only its own shm objects: the ring from index `b` on *)
Definition find_free_from (b : nat) (l : list buf) : nat :=
  if b <=? length l then b + find_free (skipn b l) else length l.

(* "shrink unused buffers" *)
Definition count_written (l : list buf) : nat :=
  length (filter (fun b => is_written_only (b_flag b)) l).
Definition shrink (idx : nat) (l : list buf) : list buf :=
  if idx + 3 <=? length l then
    if (3 <=? count_written (skipn (S idx) l)) && is_written_only (b_flag (last l fresh_buf))
    then removelast l else l
  else l.

Definition cur_buf (s : st) : nat := match curr s with Some c => c | None => 0 end.
Definition on_cur (f : buf -> buf) (s : st) : st := with_bufs (upd (cur_buf s) f (bufs s)) s.

(* one producer step: at most one store to shared memory or one message *)
(* `single` = the repaired code (proposed-fixes/C04-1.diff): header and payload are counted by ONE
   size update after both are stored; `single = false` is the code as found *)
Definition pstep (single : bool) (cap : nat) (s : st) : st :=
  match pc s with
  | PIdle =>
      match todo s with
      | [] => s
      | r :: t => with_pc (PCheck r) (with_todo t s)
      end
  | PCheck r =>
      match curr s with
      | None => with_pc (PPick r) s
      | Some c => if cap <? b_size (getb c (bufs s)) + rsize r then with_pc (PFinish r) s
                  else with_pc (PTime r) s
      end
  | PFinish r =>
      match curr s with
      | Some c => with_pc (PPick r) (with_curr None (with_chan (chan s ++ [MEnd c]) s))
      | None => with_pc (PPick r) s
      end
  | PPick r =>
      let i := find_free_from (base s) (bufs s) in
      let l := if i <? length (bufs s) then bufs s else bufs s ++ [fresh_buf] in
      with_pc (PZero r) (with_curr (Some i) (with_bufs (upd i (fun b => set_flag (or_rec (b_flag b)) b) l) s))
  | PZero r =>
      let c := cur_buf s in
      with_pc (PStart r) (with_bufs (shrink c (upd c (set_size 0) (bufs s))) s)
  | PStart r => with_pc (PTime r) (with_chan (chan s ++ [MStart (cur_buf s)]) s)
  | PTime r =>
      with_pc (PWord r) (on_cur (fun b => set_data (write_at (b_size b) (le64 (r_time r)) (b_data b)) b) s)
  | PWord r =>
      with_pc (PBump r) (on_cur (fun b => set_data (write_at (b_size b + 8) (le64 (word_of r)) (b_data b)) b) s)
  | PBump r =>
      let s' := on_cur (fun b => set_size (b_size b + 16) b) s in
      if has_pl r then (if single then with_pc (PCopy r) s else with_pc (PCopy r) s')
      else with_pc PIdle (with_done (done s ++ [r]) s')
  | PCopy r =>
      let off := if single then 16 else 0 in
      with_pc (PBumpPl r) (on_cur (fun b => set_data (write_at (b_size b + off) (r_pl r) (b_data b)) b) s)
  | PBumpPl r =>
      let off := if single then 16 else 0 in
      with_pc PIdle (with_done (done s ++ [r])
                       (on_cur (fun b => set_size (b_size b + off + align8 (length (r_pl r))) b) s))
  | PDark => s
  | PXStart b o => with_pc (PXFlag b o) (with_chan (chan s ++ [MStart b]) s)
  | PXFlag b o =>
      with_pc (PXTask b o)
        (with_bufs (upd b (set_flag {| f_new := true; f_written := false; f_rec := true |}) (bufs s)) s)
  | PXTask b o => with_pc PIdle (with_curr (Some b) (with_chan (chan s ++ [MTask o]) s))
  | PPrepStart => with_pc PPrepFlag (with_chan (chan s ++ [MStart 0]) s)
  | PPrepFlag =>
      with_pc PIdle (with_curr (Some 0)
        (with_bufs (upd 0 (set_flag {| f_new := true; f_written := false; f_rec := true |}) (bufs s)) s))
  end.

(* shmem_finish at a normal thread end: REC_END for the current buffer *)
Definition pend_thread (s : st) : st :=
  match curr s with
  | Some c => with_curr None (with_chan (chan s ++ [MEnd c]) s)
  | None => s
  end.

(* a producer step while the message pipe is closed (another thread - or a signal handler's flag picked up
   by another thread - ran mcount_trace_finish: uftrace_send_message returns at once).  REC_END / REC_START
   are lost: the buffer that was current stays announced (flush_shmem_list writes it at the end); whatever
   the thread stores from then on goes to buffers the recorder never hears of.  That part of the run is
   not modelled store by store: the thread is `PDark` (its remaining records are dropped from the ghost
   state; the tie checks on the real code that the data file is the same). *)
Definition pstep_closed (single : bool) (cap : nat) (s : st) : st :=
  match pc s with
  | PFinish r => with_pc PDark (with_todo [] s)                     (* REC_END lost; curr stays announced *)
  | PStart r => with_pc PDark (with_todo [] (with_curr None s))     (* REC_START lost: the new buffer is unknown *)
  | PPrepStart => with_pc PDark (with_todo [] s)                    (* ... the thread's very first buffer *)
  | _ => pstep single cap s
  end.
(* exec between two hook calls: the image is replaced.  The old image's current buffer stays announced (no REC_END);
   its other shm objects are out of reach of the new image, which gets a ring of its own (new session id):
   two fresh buffers appended, and `base` moved there.  The rest of `todo` is what the new image records. *)
Definition xstep (s : st) : st :=
  match pc s, curr s with
  | PIdle, Some c => with_pc (PXStart (length (bufs s)) c) (with_base (length (bufs s)) (with_bufs (bufs s ++ [fresh_buf; fresh_buf]) s))
  | _, _ => s
  end.
(* mtd_dtor between two hook calls: a normal thread end sends REC_END (shmem_finish); after a finish /
   signal trigger the pipe is closed first, so the REC_END is lost.  Later hook calls record nothing. *)
Definition dstep (closed : bool) (s : st) : st :=
  match pc s with
  | PIdle => with_pc PDark (with_todo [] (if closed then s else pend_thread s))
  | _ => s
  end.

Fixpoint remove_first (i : nat) (l : list nat) : list nat :=
  match l with
  | [] => []
  | x :: t => if Nat.eqb x i then t else x :: remove_first i t
  end.

(* record_mmap_file: queue the buffer when it is RECORDING and not empty (copy_to_buffer) *)
Definition queue_if (i : nat) (s : st) : st :=
  let b := getb i (bufs s) in
  if f_rec (b_flag b) && negb (Nat.eqb (b_size b) 0) then with_wl (wl s ++ [i]) s else s.

(* read_record_mmap: one message *)
Definition rstep (s : st) : st :=
  match chan s with
  | [] => s
  | MStart i :: ch => with_shl (shl s ++ [i]) (with_chan ch s)
  | MEnd i :: ch => queue_if i (with_shl (remove_first i (shl s)) (with_chan ch s))
  | MTask _ :: ch =>         (* flush_old_shmem: the first entry of the tid *)
      match shl s with
      | j :: r => queue_if j (with_shl r (with_chan ch s))
      | [] => with_chan ch s
      end
  end.

(* writer: write_buffer (append data[0..size), size = 0), then flag = WRITTEN *)
Definition write_one (release : bool) (i : nat) (s : st) : st :=
  let b := getb i (bufs s) in
  with_bufs (upd i (fun b => (if release then set_flag fl_written else fun x => x) (set_size 0 b)) (bufs s))
            (with_file (file s ++ committed b) s).
Definition wstep (s : st) : st :=
  match wl s with
  | [] => s
  | i :: w => write_one true i (with_wl w s)
  end.

Inductive lab := LP | LR | LW
                | LPC            (* producer step with the pipe closed *)
                | LD | LDC       (* mtd_dtor with the pipe open / closed *)
                | LX.            (* exec *)
Definition step (single : bool) (cap : nat) (l : lab) (s : st) : st :=
  match l with
  | LP => pstep single cap s | LR => rstep s | LW => wstep s
  | LPC => pstep_closed single cap s | LD => dstep false s | LDC => dstep true s
  | LX => xstep s
  end.
Definition run (single : bool) (cap : nat) (sched : list lab) (s : st) : st :=
  fold_left (fun s l => step single cap l s) sched s.

Fixpoint iter {A} (n : nat) (f : A -> A) (x : A) : A :=
  match n with O => x | S k => iter k f (f x) end.

(* end of the recording, the tracee is gone: stop_tracing reads what is left in the pipe,
   flush_shmem_list, record_remaining_buffer (no flag update there) *)
Definition drain (s : st) : st := iter (length (chan s)) rstep s.
Definition flush_shmem_list (s : st) : st :=
  fold_left (fun s i => queue_if i s) (shl s) (with_shl [] s).
Definition record_remaining (s : st) : st :=
  fold_left (fun s i => write_one false i s) (wl s) (with_wl [] s).
Definition finish (s : st) : st := record_remaining (flush_shmem_list (drain s)).

(* prepare_shmem_buffer: two buffers, REC_START for index 0, flag = RECORDING | NEW *)
Definition init (recs : list rec) : st :=
  {| bufs := [ {| b_flag := {| f_new := true; f_written := false; f_rec := true |}; b_size := 0; b_data := zero_mem |};
               fresh_buf ];
     curr := Some 0; chan := [MStart 0]; shl := []; wl := []; file := [];
     pc := PIdle; todo := recs; done := []; base := 0 |}.

(* before the thread's first hook call has set it up (mcount_prepare -> prepare_shmem_buffer) *)
Definition init0 (recs : list rec) : st :=
  {| bufs := [fresh_buf; fresh_buf]; curr := None; chan := []; shl := []; wl := []; file := [];
     pc := PPrepStart; todo := recs; done := []; base := 0 |}.

(* the window between the two size updates of a record with payload *)
Definition in_window (single : bool) (s : st) : bool :=
  negb single && match pc s with PCopy _ | PBumpPl _ => true | _ => false end.

(* ------------------------------------------------------------------ the faithful machine for a closed pipe *)
(* In the LTS above a thread that lost its connection to the recorder is abstracted to `PDark`.  Here it is not:
   with the pipe closed every store of the thread still happens (into buffers the recorder never hears of), only
   the messages are dropped.  ProofsDark.v shows that both machines leave the same data file. *)
(* the producer's real step while the pipe is closed: every store happens, nothing is sent *)
Definition pstep_mute (single : bool) (cap : nat) (s : st) : st := with_chan (chan s) (pstep single cap s).

(* the faithful machine: the closing of the pipe is part of the state *)
Inductive flab := FP | FR | FW | FC | FD.
Definition fstep (single : bool) (cap : nat) (l : flab) (x : st * bool) : st * bool :=
  let '(s, closed) := x in
  match l with
  | FP => (if closed then pstep_mute single cap s else pstep single cap s, closed)
  | FR => (rstep s, closed)
  | FW => (wstep s, closed)
  | FC => (s, true)
  | FD => (dstep closed s, closed)
  end.
Definition frun single cap (sched : list flab) (x : st * bool) := fold_left (fun x l => fstep single cap l x) sched x.
(* the same schedule for the abstract machine of the theorems *)
Definition alab (closed : bool) (l : flab) : list lab :=
  match l with
  | FP => [if closed then LPC else LP] | FR => [LR] | FW => [LW] | FC => [] | FD => [if closed then LDC else LD]
  end.
Fixpoint asched (closed : bool) (sched : list flab) : list lab :=
  match sched with
  | [] => []
  | l :: r => alab closed l ++ asched (match l with FC => true | _ => closed end) r
  end.


(* ------------------------------------------------------------------ several threads, one recorder *)
(* Every thread has its own ring of buffers, its own data file and its own program; all of them write to
   the one message pipe, and the recorder keeps ONE shmem_list and ONE buf_write_list for all of them
   (entries carry the tid, as the shm names "/uftrace-<sid>-<tid>-<idx>" do).  A thread's step is the
   single-thread step on its own view (`proj`); the messages it produces are appended to the common pipe.
   The recorder's main thread handles the head of the pipe; a writer takes the first queued buffer of
   the tid it serves (writer_thread: per-tid, in queue order). *)
Record thr := { h_bufs : list buf; h_curr : option nat; h_pc : ppc; h_todo : list rec; h_done : list rec;
                h_file : list N; h_base : nat }.
Record mst := { m_thr : list thr; m_chan : list (nat * msg); m_shl : list (nat * nat); m_wl : list (nat * nat) }.
Definition thr0 : thr := {| h_bufs := []; h_curr := None; h_pc := PDark; h_todo := []; h_done := []; h_file := []; h_base := 0 |}.
Definition sel {A} (t : nat) (l : list (nat * A)) : list A := map snd (filter (fun x => Nat.eqb (fst x) t) l).
Definition proj (t : nat) (M : mst) : st :=
  let h := nth t (m_thr M) thr0 in
  {| bufs := h_bufs h; curr := h_curr h; chan := sel t (m_chan M); shl := sel t (m_shl M); wl := sel t (m_wl M);
     file := h_file h; pc := h_pc h; todo := h_todo h; done := h_done h; base := h_base h |}.
Definition thr_of (s : st) : thr :=
  {| h_bufs := bufs s; h_curr := curr s; h_pc := pc s; h_todo := todo s; h_done := done s; h_file := file s; h_base := base s |}.
Definition set_thr (t : nat) (h : thr) (M : mst) : mst :=
  {| m_thr := upd t (fun _ => h) (m_thr M); m_chan := m_chan M; m_shl := m_shl M; m_wl := m_wl M |}.
(* a step of thread t: `f` on its own view; what it sends goes to the end of the common pipe *)
Definition lift_p (f : st -> st) (t : nat) (M : mst) : mst :=
  if t <? length (m_thr M) then
    let s := proj t M in
    let s' := f s in
    {| m_thr := upd t (fun _ => thr_of s') (m_thr M);
       m_chan := m_chan M ++ map (pair t) (skipn (length (chan s)) (chan s'));
       m_shl := m_shl M; m_wl := m_wl M |}
  else M.
Fixpoint remove_first_pair (x : nat * nat) (l : list (nat * nat)) : list (nat * nat) :=
  match l with
  | [] => []
  | y :: r => if Nat.eqb (fst y) (fst x) && Nat.eqb (snd y) (snd x) then r else y :: remove_first_pair x r
  end.
Definition mqueue_if (t i : nat) (M : mst) : mst :=
  let b := getb i (h_bufs (nth t (m_thr M) thr0)) in
  if f_rec (b_flag b) && negb (Nat.eqb (b_size b) 0)
  then {| m_thr := m_thr M; m_chan := m_chan M; m_shl := m_shl M; m_wl := m_wl M ++ [(t, i)] |} else M.
(* the first entry of tid t in a list (a writer serving tid t; flush_old_shmem) *)
Fixpoint take_first (t : nat) (l : list (nat * nat)) : option (nat * list (nat * nat)) :=
  match l with
  | [] => None
  | (u, i) :: r => if Nat.eqb u t then Some (i, r)
                   else match take_first t r with Some (j, r') => Some (j, (u, i) :: r') | None => None end
  end.
(* read_record_mmap: the head of the pipe *)
Definition mrstep (M : mst) : mst :=
  match m_chan M with
  | [] => M
  | (t, MStart i) :: ch => {| m_thr := m_thr M; m_chan := ch; m_shl := m_shl M ++ [(t, i)]; m_wl := m_wl M |}
  | (t, MEnd i) :: ch =>
      mqueue_if t i {| m_thr := m_thr M; m_chan := ch; m_shl := remove_first_pair (t, i) (m_shl M); m_wl := m_wl M |}
  | (t, MTask _) :: ch =>
      match take_first t (m_shl M) with
      | Some (j, r) => mqueue_if t j {| m_thr := m_thr M; m_chan := ch; m_shl := r; m_wl := m_wl M |}
      | None => {| m_thr := m_thr M; m_chan := ch; m_shl := m_shl M; m_wl := m_wl M |}
      end
  end.
Definition mwrite (release : bool) (t i : nat) (M : mst) : mst :=
  set_thr t (thr_of (write_one release i (proj t M))) M.
Definition mwstep (t : nat) (M : mst) : mst :=
  if t <? length (m_thr M) then
    match take_first t (m_wl M) with
    | None => M
    | Some (i, w) => mwrite true t i {| m_thr := m_thr M; m_chan := m_chan M; m_shl := m_shl M; m_wl := w |}
    end
  else M.
Inductive mlab := MP (t : nat) | MPC (t : nat) | MD (t : nat) | MDC (t : nat) | MR | MW (t : nat) | MX (t : nat).
Definition mstep (single : bool) (cap : nat) (l : mlab) (M : mst) : mst :=
  match l with
  | MP t => lift_p (pstep single cap) t M
  | MPC t => lift_p (pstep_closed single cap) t M
  | MD t => lift_p (dstep false) t M
  | MDC t => lift_p (dstep true) t M
  | MR => mrstep M
  | MW t => mwstep t M
  | MX t => lift_p xstep t M
  end.
Definition mrun (single : bool) (cap : nat) (sched : list mlab) (M : mst) : mst :=
  fold_left (fun M l => mstep single cap l M) sched M.
(* end of the recording: drain the pipe, flush_shmem_list, record_remaining_buffer - over all tids *)
Definition mdrain (M : mst) : mst := iter (length (m_chan M)) mrstep M.
Definition mflush (M : mst) : mst :=
  fold_left (fun M x => mqueue_if (fst x) (snd x) M) (m_shl M)
            {| m_thr := m_thr M; m_chan := m_chan M; m_shl := []; m_wl := m_wl M |}.
Definition mremaining (M : mst) : mst :=
  fold_left (fun M x => if fst x <? length (m_thr M) then mwrite false (fst x) (snd x) M else M) (m_wl M)
            {| m_thr := m_thr M; m_chan := m_chan M; m_shl := m_shl M; m_wl := [] |}.
Definition mfinish (M : mst) : mst := mremaining (mflush (mdrain M)).
(* every thread before its first hook call *)
Definition minit (recss : list (list rec)) : mst :=
  {| m_thr := map (fun recs => thr_of (init0 recs)) recss; m_chan := []; m_shl := []; m_wl := [] |}.
Definition mfile (t : nat) (M : mst) : list N := h_file (nth t (m_thr M) thr0).
Definition mdone (t : nat) (M : mst) : list rec := h_done (nth t (m_thr M) thr0).

(* ------------------------------------------------------------------ the property checker *)
Fixpoint list_eqb (a b : list N) : bool :=
  match a, b with
  | [], [] => true
  | x :: a', y :: b' => (x =? y)%N && list_eqb a' b'
  | _, _ => false
  end.

(* `bytes` is exactly the concatenation of whole records rs: header, payload, padding to 8
   (the padding bytes are never stored by the producer, so they are arbitrary) *)
Fixpoint match_recs (rs : list rec) (bytes : list N) : bool :=
  match rs with
  | [] => match bytes with [] => true | _ => false end
  | r :: t =>
      let n := 16 + align8 (length (r_pl r)) in
      (n <=? length bytes)
      && list_eqb (firstn (16 + length (r_pl r)) bytes) (hdr r ++ r_pl r)
      && match_recs t (skipn n bytes)
  end.

(* whole records forming a prefix of what the thread executed *)
Definition ok_prefix (recs : list rec) (bytes : list N) : bool :=
  existsb (fun k => match_recs (firstn k recs) bytes) (seq 0 (S (length recs))).

(* ------------------------------------------------------------------ lazy recording *)
(* mcount_ret_stack as far as record_trace_data looks at it.  `c_skip`: the frame carries
   MCOUNT_FL_NORECORD (a function hidden by -N, a PLT call beyond the depth limit, ...): it is on the
   return stack but gets no record, is never marked WRITTEN and does not count for the depth *)
Record call := { c_addr : N; c_start : N; c_pl : list N; c_skip : bool }.
Record frame := { fr_call : call; fr_written : bool }.          (* + MCOUNT_FL_WRITTEN *)
Inductive op :=
| OEnter (addr time : N) (pl : list N) (skip : bool)   (* hook entry that pushes a frame; argument payload as saved *)
| OExit (time : N) (pl : list N).                      (* hook exit of the innermost frame; return value payload *)

Definition entry_rec (depth : nat) (c : call) : rec :=
  {| r_time := c_start c; r_type := UFTRACE_ENTRY; r_depth := N.of_nat depth; r_addr := c_addr c; r_pl := c_pl c |}.
Definition exit_rec (depth : nat) (c : call) (t : N) (pl : list N) : rec :=
  {| r_time := t; r_type := UFTRACE_EXIT; r_depth := N.of_nat depth; r_addr := c_addr c; r_pl := pl |}.
Definition fr_skip (f : frame) : bool := c_skip (fr_call f).
(* record_ret_stack sets WRITTEN; frames with SKIP_FLAGS are stepped over *)
Definition mark (f : frame) : frame := if fr_skip f then f else {| fr_call := fr_call f; fr_written := true |}.
Definition new_frame (a t : N) (pl : list N) (skip : bool) : frame :=
  {| fr_call := {| c_addr := a; c_start := t; c_pl := pl; c_skip := skip |}; fr_written := false |}.
(* rstack->depth = mtdp->record_idx at entry: the number of recordable frames below *)
Definition rdepth (l : list frame) : nat := length (filter (fun f => negb (fr_skip f)) l).
Definition cdepth (l : list call) : nat := length (filter (fun c => negb (c_skip c)) l).

(* the rstack is kept bottom first.  record_trace_data(top): walk down while the frame below
   is not WRITTEN, then write the ENTRY records of the recordable frames upwards.
   Returns the records and the marked stack. *)
Fixpoint unwritten_top (rstk : list frame) : nat :=      (* on the reversed stack: top first *)
  match rstk with
  | [] => 0
  | f :: t => if fr_written f then 0 else S (unwritten_top t)
  end.
Fixpoint entries_from (depth : nat) (l : list frame) : list rec :=
  match l with
  | [] => []
  | f :: t => if fr_skip f then entries_from depth t
              else entry_rec depth (fr_call f) :: entries_from (S depth) t
  end.
Definition flush_entries (stk : list frame) : list rec * list frame :=
  match rev stk with
  | [] => ([], stk)
  | top :: below =>
      if fr_written top then ([], stk)
      else
        let n := S (unwritten_top below) in
        let keep := length stk - n in
        (entries_from (rdepth (firstn keep stk)) (skipn keep stk), firstn keep stk ++ map mark (skipn keep stk))
  end.

(* one hook call; returns the records written by it (in order) *)
Definition op_step (stk : list frame) (o : op) : list frame * list rec :=
  match o with
  | OEnter a t pl skip => (stk ++ [new_frame a t pl skip], [])
  | OExit t pl =>
      match rev stk with
      | [] => (stk, [])
      | top :: _ =>
          if fr_skip top then (removelast stk, [])         (* NORECORD: mcount_exit_filter_record records nothing *)
          (* mcount_exit_filter_record with threshold 0: end - start > 0 (unsigned) or WRITTEN *)
          else if negb (t =? c_start (fr_call top))%N || fr_written top then
            let '(es, stk') := flush_entries stk in
            (removelast stk', es ++ [exit_rec (rdepth (removelast stk)) (fr_call top) t pl])
          else (removelast stk, [])
      end
  end.
Fixpoint ops_run (stk : list frame) (ops : list op) : list frame * list (list rec) :=
  match ops with
  | [] => (stk, [])
  | o :: t => let '(stk1, rs) := op_step stk o in
              let '(stk2, rss) := ops_run stk1 t in (stk2, rs :: rss)
  end.
(* segv_handler / PLT_FL_FLUSH: record_trace_data(innermost frame) with end_time = 0 *)
Definition segv_flush (stk : list frame) : list rec := fst (flush_entries stk).

(* what an eager tracer would have written (its stack carries no WRITTEN flags) *)
Fixpoint eager (stk : list call) (ops : list op) : list rec :=
  match ops with
  | [] => []
  | OEnter a t pl skip :: r =>
      let c := {| c_addr := a; c_start := t; c_pl := pl; c_skip := skip |} in
      if skip then eager (stk ++ [c]) r
      else entry_rec (cdepth stk) c :: eager (stk ++ [c]) r
  | OExit t pl :: r =>
      match rev stk with
      | [] => eager stk r
      | top :: _ =>
          if c_skip top then eager (removelast stk) r
          else exit_rec (cdepth (removelast stk)) top t pl :: eager (removelast stk) r
      end
  end.
(* balanced so far (no exit without a call), and no recorded call returns at the clock value it was
   entered with (such a call is dropped by the time filter even with threshold 0, see C02) *)
Fixpoint wf_ops (stk : list call) (ops : list op) : bool :=
  match ops with
  | [] => true
  | OEnter a t pl skip :: r => wf_ops (stk ++ [{| c_addr := a; c_start := t; c_pl := pl; c_skip := skip |}]) r
  | OExit t pl :: r =>
      match rev stk with
      | [] => false
      | top :: _ => (c_skip top || negb (t =? c_start top)%N) && wf_ops (removelast stk) r
      end
  end.

(* ------------------------------------------------------------------ liveness skeleton *)
Record tl := { t_pid : Z; t_tid : Z; t_exited : bool }.
Inductive tmsg :=
| TaskStart (pid tid : Z) | TaskEnd (tid : Z) | ForkStart (pid : Z) | ForkEnd (ppid tid : Z)
| Finish | Other
| RecStart (sid tid idx : Z) | RecEnd (sid tid idx : Z).   (* "/uftrace-<sid>-<tid>-<idx>" *)
Record rs := { tids : list tl; rchan : list tmsg;
               shm : list (Z * Z * Z);     (* shmem_list_head: announced buffers (sid, tid, idx), oldest first *)
               finish_received : bool; child_exited : bool;
               failed : bool (* pr_err: "cannot find fork pid" *) }.

Local Open Scope Z_scope.
Definition mark_exited (t : tl) := {| t_pid := t_pid t; t_tid := t_tid t; t_exited := true |}.
Fixpoint mark_first (tid : Z) (l : list tl) : list tl :=
  match l with
  | [] => []
  | t :: r => if t_tid t =? tid then mark_exited t :: r else t :: mark_first tid r
  end.
Fixpoint set_fork_tid (pred : tl -> bool) (tid : Z) (l : list tl) : option (list tl) :=
  match l with
  | [] => None
  | t :: r => if pred t then Some ({| t_pid := t_pid t; t_tid := tid; t_exited := t_exited t |} :: r)
              else match set_fork_tid pred tid r with Some r' => Some (t :: r') | None => None end
  end.
Definition id_eqb (a b : Z * Z * Z) : bool :=
  let '(a1, a2, a3) := a in let '(b1, b2, b3) := b in (a1 =? b1) && (a2 =? b2) && (a3 =? b3).
Fixpoint remove_first_id (x : Z * Z * Z) (l : list (Z * Z * Z)) : list (Z * Z * Z) :=
  match l with [] => [] | y :: r => if id_eqb y x then r else y :: remove_first_id x r end.
(* flush_old_shmem(tid): the first entry whose name carries that tid - the buffer of the image that
   exec() wiped, announced before the new image's first buffer *)
Fixpoint remove_first_tid (tid : Z) (l : list (Z * Z * Z)) : list (Z * Z * Z) :=
  match l with [] => [] | (a, t, i) :: r => if t =? tid then r else (a, t, i) :: remove_first_tid tid r end.
Definition handle (m : tmsg) (s : rs) : rs :=
  match m with
  | TaskStart pid tid =>
      (* existing tid (exec): flush_old_shmem, no new entry; else add_tid_list (list_add: at the head) *)
      if existsb (fun t => t_tid t =? tid) (tids s)
      then {| tids := tids s; rchan := rchan s; shm := remove_first_tid tid (shm s);
              finish_received := finish_received s; child_exited := child_exited s; failed := failed s |}
      else {| tids := {| t_pid := pid; t_tid := tid; t_exited := false |} :: tids s; rchan := rchan s; shm := shm s;
              finish_received := finish_received s; child_exited := child_exited s; failed := failed s |}
  | TaskEnd tid =>
      {| tids := mark_first tid (tids s); rchan := rchan s; shm := shm s; finish_received := finish_received s;
         child_exited := child_exited s; failed := failed s |}
  | ForkStart pid =>
      {| tids := {| t_pid := pid; t_tid := -1; t_exited := false |} :: tids s; rchan := rchan s; shm := shm s;
         finish_received := finish_received s; child_exited := child_exited s; failed := failed s |}
  | ForkEnd ppid tid =>
      match set_fork_tid (fun t => (t_pid t =? ppid) && (t_tid t =? -1)) tid (tids s) with
      | Some l => {| tids := l; rchan := rchan s; shm := shm s; finish_received := finish_received s;
                     child_exited := child_exited s; failed := failed s |}
      | None =>
          match set_fork_tid (fun t => t_tid t =? -1) tid (tids s) with
          | Some l => {| tids := l; rchan := rchan s; shm := shm s; finish_received := finish_received s;
                         child_exited := child_exited s; failed := failed s |}
          | None => {| tids := tids s; rchan := rchan s; shm := shm s; finish_received := finish_received s;
                       child_exited := child_exited s; failed := true |}
          end
      end
  | Finish => {| tids := tids s; rchan := rchan s; shm := shm s; finish_received := true;
                 child_exited := child_exited s; failed := failed s |}
  | Other => s
  | RecStart sid tid idx =>        (* list_add_tail *)
      {| tids := tids s; rchan := rchan s; shm := shm s ++ [(sid, tid, idx)];
         finish_received := finish_received s; child_exited := child_exited s; failed := failed s |}
  | RecEnd sid tid idx =>          (* the first entry with that name is unlinked (then record_mmap_file) *)
      {| tids := tids s; rchan := rchan s; shm := remove_first_id (sid, tid, idx) (shm s);
         finish_received := finish_received s; child_exited := child_exited s; failed := failed s |}
  end.
(* sigchld_handler *)
Definition sigchld (pid : Z) (s : rs) : rs :=
  {| tids := mark_first pid (tids s); rchan := rchan s; shm := shm s; finish_received := finish_received s;
     child_exited := true; failed := failed s |}.
(* check_tid_list; dead tid = /proc/<tid>/stat cannot be opened or shows state Z *)
Definition check_mark (dead : Z -> bool) (t : tl) : tl :=
  if t_exited t || (t_tid t <? 0) then t else if dead (t_tid t) then mark_exited t else t.
Definition check_tid_list (dead : Z -> bool) (s : rs) : rs * bool :=
  let l := map (check_mark dead) (tids s) in
  let all := forallb t_exited l in
  ({| tids := l; rchan := rchan s; shm := shm s; finish_received := finish_received s;
      child_exited := child_exited s || all; failed := failed s |}, all).

(* drop_pending_forks (fix df8806b): FORK_END can only arrive through the pipe; once the pipe is empty
   and has no writer left (`nowriter`: poll says POLLHUP and not POLLIN) the tid = -1 entries are given up *)
Definition pending_fork (t : tl) : bool := (t_tid t =? -1) && negb (t_exited t).
Definition drop_mark (t : tl) : tl := if pending_fork t then mark_exited t else t.
Definition drop_pending_forks (nowriter : bool) (s : rs) : rs * bool :=
  match rchan s with
  | [] =>
      if nowriter then
        ({| tids := map drop_mark (tids s); rchan := rchan s; shm := shm s; finish_received := finish_received s;
            child_exited := child_exited s; failed := failed s |}, existsb pending_fork (tids s))
      else (s, false)
  | _ :: _ => (s, false)
  end.

Inductive outcome := Stopped (s : rs) | Spinning (s : rs).
(* the loop of stop_tracing (uftrace_done stays false: no signal to the recorder itself).
   `dropf = true`: the code as it is (with drop_pending_forks); `dropf = false`: the legacy loop.
   `nowriter`: every tracee has closed the pipe (that is why do_main_loop left its poll loop). *)
Fixpoint stop_loop (dropf : bool) (fuel : nat) (dead : Z -> bool) (nowriter : bool) (s : rs) : outcome :=
  match fuel with
  | O => Spinning s
  | S k =>
      match rchan s with
      | m :: ch =>
          stop_loop dropf k dead nowriter
                    (handle m {| tids := tids s; rchan := ch; shm := shm s; finish_received := finish_received s;
                                 child_exited := child_exited s; failed := failed s |})
      | [] =>
          let '(s1, all) := check_tid_list dead s in
          if all then Stopped s1
          else
            let '(s2, dropped) := if dropf then drop_pending_forks nowriter s1 else (s1, false) in
            if dropped then stop_loop dropf k dead nowriter s2
            else if finish_received s2 then Stopped s2 else stop_loop dropf k dead nowriter s2
      end
  end.
Definition rs0 (ch : list tmsg) : rs :=
  {| tids := []; rchan := ch; shm := []; finish_received := false; child_exited := false; failed := false |}.
Definition is_stopped (o : outcome) : bool := match o with Stopped _ => true | Spinning _ => false end.
Definition out_state (o : outcome) : rs := match o with Stopped s => s | Spinning s => s end.
Local Close Scope Z_scope.

(* ------------------------------------------------------------------ helpers for the run-time tie *)
Fixpoint bad_indices {A} (ok : A -> bool) (l : list A) (i : nat) : list nat :=
  match l with
  | [] => []
  | x :: t => if ok x then bad_indices ok t (S i) else i :: bad_indices ok t (S i)
  end.

(* visible events of the producer: a change of (size, flag) of some buffer *)
Definition visible (single : bool) (s : st) : bool :=
  match pc s with
  | PPick _ | PPrepFlag | PXFlag _ _ => true
  | PBump r => negb (single && has_pl r)
  | PBumpPl r => single || negb (Nat.eqb (align8 (length (r_pl r))) 0)
  | _ => false
  end.
(* producer steps until `n` records are complete and the producer is idle (or dark) *)
Definition plab (closed : bool) : lab := if closed then LPC else LP.
Fixpoint p_until_done (single closed : bool) (cap fuel n : nat) (s : st) : list lab :=
  match fuel with
  | O => []
  | S k => match pc s with
           | PDark => []
           | PIdle => if n <=? length (done s) then []
                      else plab closed :: p_until_done single closed cap k n (step single cap (plab closed) s)
           | _ => plab closed :: p_until_done single closed cap k n (step single cap (plab closed) s)
           end
  end.
(* producer steps until `e` visible events have happened (stops right after the e-th), or until
   `n` records are complete, or the thread is dark *)
Fixpoint p_until_events (single closed : bool) (cap fuel e n : nat) (s : st) : list lab :=
  match fuel, e with
  | O, _ => []
  | _, O => []
  | S k, S e' =>
      match pc s with
      | PDark => []
      | PIdle => if n <=? length (done s) then []
                 else plab closed :: p_until_events single closed cap k e n (step single cap (plab closed) s)
      | _ => plab closed :: p_until_events single closed cap k (if visible single s then e' else e) n
                                           (step single cap (plab closed) s)
      end
  end.
(* the recorder catches up completely: every message, then every queued buffer *)
Definition catch_up (s : st) : list lab := repeat LR (length (chan s)) ++ repeat LW (length (chan s) + length (wl s)).

(* EVENT records of a read trigger (-T f@read=proc/statm: record_event, a header with the `more` bit and a payload
   of u16 size ++ data): record_ret_stack stores the "read" event right after the function's ENTRY record and the
   "diff" event right before its EXIT record - whenever those are written (lazily, by the crash handler, ...).
   The table gives, keyed by the time of the ENTRY / EXIT record (fake clock: unique), the event record. *)
Definition ev_tab := list (N * bool * rec).
Fixpoint find_ev (t : N) (x : bool) (evs : ev_tab) : option rec :=
  match evs with
  | [] => None
  | (t', x', e) :: r => if (t' =? t)%N && Bool.eqb x' x then Some e else find_ev t x r
  end.
Definition add_events (evs : ev_tab) (g : list rec) : list rec :=
  flat_map (fun r =>
    let x := (r_type r =? UFTRACE_EXIT)%N in
    if (r_type r =? UFTRACE_EVENT)%N then [r]
    else match find_ev (r_time r) x evs with
         | Some e => if x then [e; r] else [r; e]
         | None => [r]
         end) g.

(* ---- one case of the store-level tie (props/c04.py, harness/c/c04_rec.c + c04_prod.c) ----
   The producer executes the hook calls `tc_ops` one after the other; before op i the recorder
   catches up when `nth i tc_sync`; with `tc_kill = Some e` the last op is cut right after the
   e-th visible store (SIGKILL), otherwise all ops complete and the process ends (`tc_flush`:
   through SIGSEGV/SIGABRT, whose handler flushes the open calls first). *)
Record tcase := {
  tc_single : bool; tc_cap : nat; tc_ops : list op; tc_sync : list bool; tc_kill : option nat; tc_flush : bool;
  tc_close : nat;      (* the pipe is closed (as by another thread's mcount_trace_finish) before this op; >= #ops: never *)
  tc_end : N;          (* after the last op: 0 nothing, 1 mtd_dtor after a finish / signal trigger (pipe closed),
                          2 mtd_dtor of a normal thread end (pipe open) *)
  tc_ops2 : list op; tc_sync2 : list bool;     (* not []: after tc_ops the task exec()s an image that runs these hook
                                                  calls (tc_kill / tc_flush then concern the second image) *)
  tc_evs : ev_tab; tc_evs2 : ev_tab;           (* EVENT records with payload of read triggers (record_event), per image *)
  (* what the implementation showed *)
  tc_shl : list nat; tc_shf : list N; tc_wl : list nat; tc_file : list N }.

Definition fuel_for (n : nat) : nat := 12 * n + 12.
Fixpoint tie_ops (single : bool) (cap : nat) (i close_at : nat) (groups : list (list rec)) (syncs : list bool)
         (kill : option nat) (s : st) : st :=
  match groups with
  | [] => s
  | g :: rest =>
      let closed := close_at <=? i in
      let s1 := if hd false syncs then run single cap (catch_up s) s else s in
      let n := length (done s1) + length g in
      match rest, kill with
      | [], Some e => run single cap (p_until_events single closed cap (fuel_for (length g)) e n s1) s1
      | _, _ => tie_ops single cap (S i) close_at rest (List.tl syncs) kill
                        (run single cap (p_until_done single closed cap (fuel_for (length g)) n s1) s1)
      end
  end.
(* the same with the faithful machine: after the pipe was closed the producer's stores are all made (and
   counted as visible events, as the driver sees them in shared memory) *)
Definition fpstep (closed single : bool) (cap : nat) (s : st) : st :=
  if closed then pstep_mute single cap s else pstep single cap s.
Fixpoint pf_until_done (single closed : bool) (cap fuel n : nat) (s : st) : st :=
  match fuel with
  | O => s
  | S k => match pc s with
           | PDark => s
           | PIdle => if n <=? length (done s) then s else pf_until_done single closed cap k n (fpstep closed single cap s)
           | _ => pf_until_done single closed cap k n (fpstep closed single cap s)
           end
  end.
Fixpoint pf_until_events (single closed : bool) (cap fuel e n : nat) (s : st) : st :=
  match fuel, e with
  | O, _ => s
  | _, O => s
  | S k, S e' =>
      match pc s with
      | PDark => s
      | PIdle => if n <=? length (done s) then s else pf_until_events single closed cap k e n (fpstep closed single cap s)
      | _ => pf_until_events single closed cap k (if visible single s then e' else e) n (fpstep closed single cap s)
      end
  end.
Fixpoint tie_ops_f (single : bool) (cap : nat) (i close_at : nat) (groups : list (list rec)) (syncs : list bool)
         (kill : option nat) (s : st) : st :=
  match groups with
  | [] => s
  | g :: rest =>
      let closed := close_at <=? i in
      let s1 := if hd false syncs then run single cap (catch_up s) s else s in
      let n := length (done s1) + length g in
      match rest, kill with
      | [], Some e => pf_until_events single closed cap (fuel_for (length g)) e n s1
      | _, _ => tie_ops_f single cap (S i) close_at rest (List.tl syncs) kill
                          (pf_until_done single closed cap (fuel_for (length g)) n s1)
      end
  end.
Definition tc_groups (tc : tcase) : list (list rec) :=
  let '(stk, rss) := ops_run [] (tc_ops tc) in
  map (add_events (tc_evs tc))
  match tc_ops2 tc with
  | [] => if tc_flush tc then rss ++ [segv_flush stk] else rss
  | _ => rss
  end.
Definition tc_groups2 (tc : tcase) : list (list rec) :=
  map (add_events (tc_evs2 tc))
  match tc_ops2 tc with
  | [] => []
  | ops2 => let '(stk, rss) := ops_run [] ops2 in if tc_flush tc then rss ++ [segv_flush stk] else rss
  end.
Definition tc_state (tc : tcase) : st :=
  let s0 := init0 (concat (tc_groups tc) ++ concat (tc_groups2 tc)) in
  match tc_ops2 tc with
  | [] =>
      let s := tie_ops (tc_single tc) (tc_cap tc) 0 (tc_close tc) (tc_groups tc) (tc_sync tc) (tc_kill tc) s0 in
      if (tc_end tc =? 1)%N then dstep true s else if (tc_end tc =? 2)%N then dstep false s else s
  | _ =>
      let s1 := tie_ops (tc_single tc) (tc_cap tc) 0 (tc_close tc) (tc_groups tc) (tc_sync tc) None s0 in
      tie_ops (tc_single tc) (tc_cap tc) 0 (tc_close tc) (tc_groups2 tc) (tc_sync2 tc) (tc_kill tc) (xstep s1)
  end.
Definition obs (s : st) : list nat * list N * list nat * list N :=
  let s1 := drain s in
  let s2 := flush_shmem_list s1 in
  (shl s1, map (fun i => flag_val (b_flag (getb i (bufs s1)))) (shl s1),
   map (fun i => b_size (getb i (bufs s2))) (wl s2), file (record_remaining s2)).
Fixpoint nat_list_eqb (a b : list nat) : bool :=
  match a, b with
  | [], [] => true
  | x :: a', y :: b' => Nat.eqb x y && nat_list_eqb a' b'
  | _, _ => false
  end.
Definition tc_state_f (tc : tcase) : st :=
  let s0 := init0 (concat (tc_groups tc) ++ concat (tc_groups2 tc)) in
  match tc_ops2 tc with
  | [] =>
      let s := tie_ops_f (tc_single tc) (tc_cap tc) 0 (tc_close tc) (tc_groups tc) (tc_sync tc) (tc_kill tc) s0 in
      if (tc_end tc =? 1)%N then dstep true s else if (tc_end tc =? 2)%N then dstep false s else s
  | _ =>
      let s1 := tie_ops_f (tc_single tc) (tc_cap tc) 0 (tc_close tc) (tc_groups tc) (tc_sync tc) None s0 in
      tie_ops_f (tc_single tc) (tc_cap tc) 0 (tc_close tc) (tc_groups2 tc) (tc_sync2 tc) (tc_kill tc) (xstep s1)
  end.
(* model = implementation on this case *)
Definition shl_agree (tc : tcase) (a : list nat) : bool :=
  match tc_ops2 tc with
  | [] => nat_list_eqb a (tc_shl tc)
  | _ => Nat.eqb (length a) (length (tc_shl tc))     (* the second session numbers its buffers from 0 again *)
  end.
Definition agrees_f (tc : tcase) : bool :=
  let '(a, f, b, c) := obs (tc_state_f tc) in
  shl_agree tc a && list_eqb f (tc_shf tc) && nat_list_eqb b (tc_wl tc) && list_eqb c (tc_file tc).
Definition agrees (tc : tcase) : bool :=
  let '(a, f, b, c) := obs (tc_state tc) in
  shl_agree tc a && list_eqb f (tc_shf tc) && nat_list_eqb b (tc_wl tc) && list_eqb c (tc_file tc).
(* the property on the implementation's file: whole records, a prefix of the execution; after a
   crash handler that ran to completion: the whole eager trace (every open call included) *)
Definition ok_case (tc : tcase) : bool :=
  match tc_ops2 tc with
  | [] =>
      let want := add_events (tc_evs tc) (eager [] (tc_ops tc)) in
      if tc_flush tc && (length (tc_ops tc) <=? tc_close tc) then match_recs want (tc_file tc)
      else ok_prefix want (tc_file tc)
  | ops2 =>
      (* the old image ran all its hook calls (what it had written lazily stays); then the new image's trace *)
      let old := add_events (tc_evs tc) (concat (snd (ops_run [] (tc_ops tc)))) in
      let new := add_events (tc_evs2 tc) (eager [] ops2) in
      if tc_flush tc then match_recs (old ++ new) (tc_file tc)
      else ok_prefix (old ++ new) (tc_file tc) && match_recs old (firstn (length (concat (map (fun r => hdr r ++ r_pl r ++ repeat 0%N (align8 (length (r_pl r)) - length (r_pl r))) old))) (tc_file tc))
  end.
(* the header-before-payload window (known defect): whole records followed by one bare header *)
Definition window_shape (tc : tcase) : bool :=
  let f := tc_file tc in
  (16 <=? length f) && ok_prefix (add_events (tc_evs tc) (eager [] (tc_ops tc))) (firstn (length f - 16) f).
Definition is_dark (s : st) : bool := match pc s with PDark => true | _ => false end.
Definition tc_in_window (tc : tcase) : bool := in_window (tc_single tc) (tc_state tc).

(* ---- one case of the two-producer tie (c04_rec multi): hook calls of several producers scheduled one at a
   time, recorder catch-ups in between, one producer killed inside a hook call, the others between two ---- *)
Inductive mact := AP (t : nat) | AR | AK (t e : nat).
Record mcase := {
  mc_cap : nat; mc_ops : list (list op); mc_acts : list mact;
  mc_shl : list (nat * nat * N); mc_wl : list (nat * nat); mc_files : list (list N) }.
Definition mcatch_up (M : mst) : mst :=
  let M1 := mdrain M in
  iter (length (m_wl M1)) (fun M => match m_wl M with (u, _) :: _ => mwstep u M | [] => M end) M1.
Fixpoint mt_acts (cap : nat) (groups : list (list (list rec))) (acts : list mact) (M : mst) : mst :=
  match acts with
  | [] => M
  | AR :: r => mt_acts cap groups r (mcatch_up M)
  | AP t :: r =>
      match nth t groups [] with
      | [] => mt_acts cap groups r M
      | g :: gs =>
          let s := proj t M in
          let k := length (p_until_done true false cap (fuel_for (length g)) (length (done s) + length g) s) in
          mt_acts cap (upd t (fun _ => gs) groups) r (iter k (mstep true cap (MP t)) M)
      end
  | AK t e :: r =>
      match nth t groups [] with
      | [] => mt_acts cap groups r M
      | g :: gs =>
          let s := proj t M in
          let k := length (p_until_events true false cap (fuel_for (length g)) e (length (done s) + length g) s) in
          mt_acts cap (upd t (fun _ => []) groups) r (iter k (mstep true cap (MP t)) M)
      end
  end.
Definition mc_groups (mc : mcase) : list (list (list rec)) := map (fun ops => snd (ops_run [] ops)) (mc_ops mc).
Definition mc_state (mc : mcase) : mst :=
  mt_acts (mc_cap mc) (mc_groups mc) (mc_acts mc) (minit (map (fun gs => concat gs) (mc_groups mc))).
Definition mobs (M : mst) : list (nat * nat * N) * list (nat * nat) * list (list N) :=
  let M1 := mdrain M in
  let M2 := mflush M1 in
  (map (fun x => (fst x, snd x, flag_val (b_flag (getb (snd x) (h_bufs (nth (fst x) (m_thr M1) thr0)))))) (m_shl M1),
   map (fun x => (fst x, b_size (getb (snd x) (h_bufs (nth (fst x) (m_thr M2) thr0))))) (m_wl M2),
   map h_file (m_thr (mremaining M2))).
Fixpoint pairs_eqb (a b : list (nat * nat)) : bool :=
  match a, b with
  | [], [] => true
  | (x, y) :: a', (u, v) :: b' => Nat.eqb x u && Nat.eqb y v && pairs_eqb a' b'
  | _, _ => false
  end.
Fixpoint triples_eqb (a b : list (nat * nat * N)) : bool :=
  match a, b with
  | [], [] => true
  | (x, y, z) :: a', (u, v, w) :: b' => Nat.eqb x u && Nat.eqb y v && (z =? w)%N && triples_eqb a' b'
  | _, _ => false
  end.
Fixpoint files_eqb (a b : list (list N)) : bool :=
  match a, b with
  | [], [] => true
  | x :: a', y :: b' => list_eqb x y && files_eqb a' b'
  | _, _ => false
  end.
Definition magrees (mc : mcase) : bool :=
  let '(a, b, c) := mobs (mc_state mc) in
  triples_eqb a (mc_shl mc) && pairs_eqb b (mc_wl mc) && files_eqb c (mc_files mc).
(* the property on the implementation's files: every producer's file is a whole-record prefix of its execution *)
Definition mok_case (mc : mcase) : bool :=
  forallb (fun x => ok_prefix (eager [] (fst x)) (snd x)) (combine (mc_ops mc) (mc_files mc))
  && Nat.eqb (length (mc_files mc)) (length (mc_ops mc)).

(* ---- one case of the liveness tie: messages / SIGCHLD / check_tid_list on real processes ---- *)
Inductive lev :=
| LMsg (m : tmsg)
| LSig (pid : Z)
| LCheck (dead : list Z)                          (* tids whose /proc/<tid>/stat is gone or shows Z *)
         (ret cex fin : bool) (l : list (Z * Z * bool))    (* what the implementation reported *)
| LDrop (nowriter : bool)                         (* drop_pending_forks on an empty pipe with / without a writer *)
        (ret : bool) (l : list (Z * Z * bool))
| LShm (l : list (Z * Z * Z)).                    (* shmem_list_head as the implementation shows it *)
Definition tl_eqb (t : tl) (e : Z * Z * bool) : bool :=
  let '(p, i, x) := e in (t_pid t =? p)%Z && (t_tid t =? i)%Z && Bool.eqb (t_exited t) x.
Fixpoint tls_eqb (a : list tl) (b : list (Z * Z * bool)) : bool :=
  match a, b with
  | [], [] => true
  | x :: a', y :: b' => tl_eqb x y && tls_eqb a' b'
  | _, _ => false
  end.
Definition in_list (l : list Z) (z : Z) : bool := existsb (Z.eqb z) l.
Fixpoint ids_eqb (a b : list (Z * Z * Z)) : bool :=
  match a, b with
  | [], [] => true
  | x :: a', y :: b' => id_eqb x y && ids_eqb a' b'
  | _, _ => false
  end.
Fixpoint live_agrees (evs : list lev) (s : rs) : bool :=
  match evs with
  | [] => true
  | LMsg m :: r => live_agrees r (handle m s)
  | LSig p :: r => live_agrees r (sigchld p s)
  | LCheck dead ret cex fin l :: r =>
      let '(s1, all) := check_tid_list (in_list dead) s in
      Bool.eqb all ret && Bool.eqb (child_exited s1) cex && Bool.eqb (finish_received s1) fin
      && tls_eqb (tids s1) l && live_agrees r s1
  | LDrop nw ret l :: r =>
      let '(s1, d) := drop_pending_forks nw s in
      Bool.eqb d ret && tls_eqb (tids s1) l && live_agrees r s1
  | LShm l :: r => ids_eqb (shm s) l && live_agrees r s
  end.
(* the property on what the implementation reported: a dead task with a real tid is marked, when every
   entry is marked the answer is "all exited", and once the pipe is empty without a writer no
   unresolved fork entry is left *)
Definition ok_check (dead : list Z) (ret : bool) (l : list (Z * Z * bool)) : bool :=
  forallb (fun e => let '(_, i, x) := e in (i <? 0)%Z || negb (in_list dead i) || x) l
  && (negb (forallb (fun e => let '(_, _, x) := e in x) l) || ret).
Definition ok_drop (nowriter : bool) (l : list (Z * Z * bool)) : bool :=
  negb nowriter || forallb (fun e => let '(_, i, x) := e in negb (i =? -1)%Z || x) l.
Fixpoint ok_live (evs : list lev) : bool :=
  match evs with
  | [] => true
  | LCheck dead ret _ _ l :: r => ok_check dead ret l && ok_live r
  | LDrop nw _ l :: r => ok_drop nw l && ok_live r
  | _ :: r => ok_live r
  end.
(* every task dead, pipe without writer: check; drop; check must end with "all exited" *)
Fixpoint last_check_true (evs : list lev) (seen : bool) : bool :=
  match evs with
  | [] => seen
  | LCheck _ ret _ _ _ :: r => last_check_true r ret
  | _ :: r => last_check_true r seen
  end.

(* ---- end-to-end: decode a real <tid>.dat and judge it against the program's own log ---- *)
Record drec := { d_time : N; d_type : N; d_more : N; d_magic : N; d_depth : N; d_addr : N }.
Definition dec_word (t w : N) : drec :=
  {| d_time := t; d_type := (w mod 4)%N; d_more := ((w / 4) mod 2)%N; d_magic := ((w / 8) mod 8)%N;
     d_depth := ((w / 64) mod 1024)%N; d_addr := (w / 65536)%N |}.
(* records without payload only (the end-to-end programs are traced without argument specs) *)
Fixpoint dec_words (ws : list N) : option (list drec) :=
  match ws with
  | [] => Some []
  | t :: w :: r =>
      let d := dec_word t w in
      if ((d_magic d =? RECORD_MAGIC) && (d_more d =? 0))%N
      then match dec_words r with Some l => Some (d :: l) | None => None end
      else None
  | _ => None
  end.
(* the file as bytes: little-endian 64-bit words (None: the length is not a multiple of 8) *)
Definition from_le (bs : list N) : N := fold_right (fun b acc => (b + 256 * acc)%N) 0%N bs.
Fixpoint words_of (bs : list N) : option (list N) :=
  match bs with
  | [] => Some []
  | b0 :: b1 :: b2 :: b3 :: b4 :: b5 :: b6 :: b7 :: r =>
      match words_of r with
      | Some ws => Some (from_le [b0; b1; b2; b3; b4; b5; b6; b7] :: ws)
      | None => None
      end
  | _ => None
  end.
Definition dec_bytes (bs : list N) : option (list drec) :=
  match words_of bs with Some ws => dec_words ws | None => None end.
Definition drec_of (r : rec) : drec :=
  {| d_time := r_time r; d_type := r_type r; d_more := if has_pl r then 1%N else 0%N; d_magic := RECORD_MAGIC;
     d_depth := r_depth r; d_addr := r_addr r |}.

Fixpoint func_of (ftab : list (N * N)) (k : N) (a : N) : option N :=
  match ftab with
  | [] => None
  | (s, n) :: r => if ((s <=? a) && (a <? s + n))%N then Some k else func_of r (k + 1)%N a
  end.
Fixpoint project (ftab : list (N * N)) (l : list drec) : list (N * N) :=
  match l with
  | [] => []
  | d :: r =>
      match (if ((d_type d =? UFTRACE_ENTRY) || (d_type d =? UFTRACE_EXIT))%N then func_of ftab 0%N (d_addr d) else None) with
      | Some k => (d_type d, k) :: project ftab r
      | None => project ftab r
      end
  end.
Fixpoint ev_prefix (a b : list (N * N)) : bool :=
  match a, b with
  | [], _ => true
  | (x, y) :: a', (u, v) :: b' => (x =? u)%N && (y =? v)%N && ev_prefix a' b'
  | _, [] => false
  end.
Fixpoint times_ok (prev : N) (l : list drec) : bool :=
  match l with [] => true | d :: r => (prev <=? d_time d)%N && times_ok (d_time d) r end.
(* ENTRY depth = number of open calls, EXIT closes the innermost one (same address) *)
Fixpoint nest_ok (stk : list N) (l : list drec) : bool :=
  match l with
  | [] => true
  | d :: r =>
      if (d_type d =? UFTRACE_ENTRY)%N then (d_depth d =? N.of_nat (length stk))%N && nest_ok (d_addr d :: stk) r
      else if (d_type d =? UFTRACE_EXIT)%N then
        match stk with
        | a :: s' => (a =? d_addr d)%N && (d_depth d =? N.of_nat (length s'))%N && nest_ok s' r
        | [] => false
        end
      else nest_ok stk r
  end.
(* what the record-time options keep of the program's own log: -N functions (and everything below them)
   and calls at a nesting level >= the -D limit are not recorded (level of a logged call = number of
   open logged calls + 1: main / the thread function is level 0) *)
Fixpoint filt (nt : list N) (maxd : N) (d : N) (hide : option N) (l : list (N * N)) : list (N * N) :=
  match l with
  | [] => []
  | (ty, k) :: r =>
      if (ty =? 0)%N then
        match hide with
        | Some _ => filt nt maxd (d + 1) hide r
        | None =>
            if existsb (N.eqb k) nt then filt nt maxd (d + 1) (Some d) r
            else if (d + 1 <? maxd)%N then (ty, k) :: filt nt maxd (d + 1) None r
            else filt nt maxd (d + 1) None r
        end
      else
        let d' := (d - 1)%N in
        match hide with
        | Some h => if (h =? d')%N then filt nt maxd d' None r else filt nt maxd d' hide r
        | None => if (d' + 1 <? maxd)%N then (ty, k) :: filt nt maxd d' None r else filt nt maxd d' None r
        end
  end.
Definition crash_log (l : list (N * N)) : list (N * N) :=
  match rev l with
  | (1%N, _) :: _ => removelast l       (* died while logging the leave: that call is still open *)
  | _ => l
  end.
Record ecase := {
  e_ftab : list (N * N);          (* start, size of f0, f1, ... *)
  e_nt : list N; e_maxd : N;      (* record options -N f<k> ... / -D <n> *)
  e_log1 : list (N * N);          (* the thread's own log: (0 enter | 1 leave, k) *)
  e_log2 : list (N * N);          (* ... of the image exec()ed in the same task ([] if none) *)
  e_bytes : list N;               (* <tid>.dat *)
  e_crash1 : bool;                (* the thread died in the SIGSEGV/SIGABRT handler path: open calls included *)
  e_crash2 : bool;                (* ... in the second image *)
  e_nest : bool;                  (* check nesting (off when the image was replaced by exec) *)
  e_free : bool }.                (* no log to compare with (a forked child: it starts with inherited open calls) *)
Definition expect1 (c : ecase) := filt (e_nt c) (e_maxd c) 0%N None (if e_crash1 c then crash_log (e_log1 c) else e_log1 c).
Definition expect2 (c : ecase) := filt (e_nt c) (e_maxd c) 0%N None (if e_crash2 c then crash_log (e_log2 c) else e_log2 c).
(* p = p1 ++ p2, p1 a prefix of the first image's trace, p2 of the second's (complete where a crash
   handler ran) *)
Definition split_ok (c : ecase) (p : list (N * N)) (i : nat) : bool :=
  let p1 := firstn i p in let p2 := skipn i p in
  ev_prefix p1 (expect1 c) && ev_prefix p2 (expect2 c)
  && (negb (e_crash1 c) || Nat.eqb (length p1) (length (expect1 c)))
  && (negb (e_crash2 c) || Nat.eqb (length p2) (length (expect2 c))).
Definition ok_e2e (c : ecase) : bool :=
  match dec_bytes (e_bytes c) with
  | None => false
  | Some l =>
      let p := project (e_ftab c) l in
      times_ok 0 l && (negb (e_nest c) || nest_ok [] l)
      && match e_log2 c with
         | [] => e_free c || split_ok c p (length p)
         | _ => existsb (split_ok c p) (seq 0 (S (length p)))
         end
  end.
