(* C04 - composition: hook calls -> lazily written records -> stores -> kill -> recorder. *)
From Coq Require Import NArith List Bool Arith Lia.
Import ListNotations.
Require Import UV.Gen.Consts UV.C04.Model UV.C04.Proofs UV.C04.ProofsLazy.

(* the thread executed `ops`; it (or the whole process) is killed at any instant, under any
   interleaving with the recorder; unless the instant lies between the two size updates of a
   record with payload, the data file is made of whole records that form a prefix of the
   eager trace of `ops` *)
Theorem killed_trace_is_prefix_of_execution setup single cap ops sched :
  wf_ops [] ops = true ->
  let recs := concat (snd (ops_run [] ops)) in
  let s := run single cap sched (start setup recs) in
  in_window single s = false ->
  exists k, match_recs (firstn k (eager [] ops)) (file (finish s)) = true.
Proof.
  intros Hwf recs s Hw.
  destruct (prefix_outside_window setup single cap recs sched Hw) as [Hm [[rest Hr] _]]. fold s in Hm, Hr.
  destruct (lazy_is_prefix_of_eager ops Hwf) as [rest' He]. fold recs in He.
  exists (length (done s)).
  assert (Hfn : firstn (length (done s)) (eager [] ops) = done s).
  { transitivity (firstn (length (done s)) (done s ++ (rest ++ rest'))).
    - f_equal. rewrite He, app_assoc. f_equal. exact Hr.
    - apply firstn_exact. }
  rewrite Hfn. exact Hm.
Qed.

(* the crash handler ran to completion (the thread stored every record of `ops` and of the
   flush) before the process died: the file is the whole eager trace - every open call has its
   ENTRY record *)
Theorem crashed_trace_is_complete setup single cap ops sched :
  wf_ops [] ops = true ->
  let recs := concat (snd (ops_run [] ops)) ++ segv_flush (fst (ops_run [] ops)) in
  let s := run single cap sched (start setup recs) in
  pc s = PIdle -> todo s = [] ->
  match_recs (eager [] ops) (file (finish s)) = true.
Proof.
  intros Hwf recs s Hpc Ht.
  pose proof (complete_run setup single cap recs sched Hpc Ht) as H. fold s in H.
  unfold recs in H at 1. rewrite (lazy_plus_flush_is_eager ops Hwf) in H. exact H.
Qed.

(* the code as it is: no guard *)
Theorem killed_trace_now setup cap ops sched :
  wf_ops [] ops = true ->
  let s := run true cap sched (start setup (concat (snd (ops_run [] ops)))) in
  exists k, match_recs (firstn k (eager [] ops)) (file (finish s)) = true.
Proof. intros Hwf s. apply (killed_trace_is_prefix_of_execution setup true cap ops sched Hwf). reflexivity. Qed.

(* non-vacuity: two nested calls with argument and return-value payloads, a 64-byte buffer (one
   or two records per buffer, so buffers are switched and re-used), recorder steps interleaved *)
Definition nv_ops : list op :=
  [OEnter 4096 1000 [1; 2; 3; 4; 5; 6; 7; 8]%N false; OEnter 4352 1100 [] false; OExit 1200 [];
   OEnter 4864 1250 [] true; OExit 1260 [];
   OEnter 4608 1300 [7; 7; 7; 7]%N false; OExit 1400 []; OExit 1500 [9; 9; 9; 9]%N].
Definition nv_sched : list lab :=
  repeat LP 20 ++ [LR; LR; LW] ++ repeat LP 25 ++ [LR; LW; LR; LR; LW] ++ repeat LP 40.
Example nv_complete :
  wf_ops [] nv_ops = true /\
  let s := run true 48 nv_sched (init (concat (snd (ops_run [] nv_ops)) ++ segv_flush (fst (ops_run [] nv_ops)))) in
  pc s = PIdle /\ todo s = [] /\ in_window true s = false /\ length (bufs s) = 2 /\ length (file s) = 80 /\ shl s = [0]
  /\ match_recs (eager [] nv_ops) (file (finish s)) = true.
Proof. vm_compute. repeat split; reflexivity. Qed.

(* non-vacuity of the schedules with a closed pipe / mtd_dtor (finish trigger, signal trigger, thread end):
   (1) finish trigger after three records: the thread is done, later producer steps change nothing, the
       file holds exactly the three records although five were to be written;
   (2) another thread closed the pipe: the thread fills its buffer, REC_END of the switch is lost, it goes
       dark; the buffer that was current is still flushed at the end;
   (3) a normal thread end sends REC_END: the recorder's ordinary catch-up writes everything *)
Definition fin_recs : list rec := [w_r2; w_r1; w_r2; w_r2; w_r2].
Example nv_finish_trigger :
  let s := run true 48 (repeat LP 21 ++ [LDC] ++ repeat LP 20) (init fin_recs) in
  pc s = PDark /\ done s = [w_r2; w_r1; w_r2] /\ match_recs (done s) (file (finish s)) = true
  /\ length (file (finish s)) = 56.
Proof. vm_compute. repeat split; reflexivity. Qed.
Example nv_pipe_closed :
  let s := run true 48 (repeat LP 9 ++ repeat LPC 30) (init fin_recs) in
  pc s = PDark /\ done s = [w_r2; w_r1] /\ chan s = [MStart 0] /\ match_recs (done s) (file (finish s)) = true
  /\ length (file (finish s)) = 40.
Proof. vm_compute. repeat split; reflexivity. Qed.
Example nv_thread_end :
  let s := run true 4080 (repeat LP 30 ++ [LD; LR; LR; LW]) (init fin_recs) in
  pc s = PDark /\ done s = fin_recs /\ shl s = [] /\ wl s = [] /\ match_recs fin_recs (file s) = true.
Proof. vm_compute. repeat split; reflexivity. Qed.

(* from before the thread's set-up: killed right after REC_START 0, before the buffer's flag is set - the
   recorder skips the announced buffer; and a whole history from the set-up on *)
Example nv_setup :
  let s1 := run true 48 [LP] (init0 fin_recs) in
  pc s1 = PPrepFlag /\ chan s1 = [MStart 0] /\ file (finish s1) = [] /\ shl (drain s1) = [0]
  /\ let s := run true 48 (repeat LP 23 ++ [LDC]) (init0 fin_recs) in
     done s = [w_r2; w_r1; w_r2] /\ match_recs (done s) (file (finish s)) = true.
Proof. vm_compute. repeat split; reflexivity. Qed.

(* exec: the task replaces its image between two hook calls (LX); the new image sets itself up (REC_START of its
   own first buffer, flag, TASK_START) and goes on recording; the recorder's flush_old_shmem - first announced
   buffer of the tid - takes the OLD image's buffer, so the one data file is old records ++ new records.
   (1) a complete run; (2) killed between the new image's REC_START and its TASK_START: both announced buffers are
   flushed at the end, the old one first, the new one is still empty *)
Example nv_exec :
  let sched := repeat LP 21 ++ [LR; LX] ++ repeat LP 3 ++ [LR; LR; LR; LW] ++ repeat LP 30 in
  let s := run true 48 sched (init fin_recs) in
  pc s = PIdle /\ todo s = [] /\ done s = fin_recs /\ length (bufs s) = 4 /\ curr s = Some 2
  /\ length (file s) = 40 /\ shl s = [1; 2] /\ chan s = [MTask 1]
  /\ match_recs fin_recs (file (finish s)) = true /\ length (file (finish s)) = 88.
Proof. vm_compute. repeat split; reflexivity. Qed.
Example nv_exec_killed_in_setup :
  let s := run true 48 (repeat LP 21 ++ [LX; LP; LP]) (init fin_recs) in
  (exists b o, pc s = PXTask b o) /\ chan s = [MStart 0; MEnd 0; MStart 1; MStart 2]
  /\ shl (drain s) = [1; 2] /\ done s = [w_r2; w_r1; w_r2]
  /\ match_recs (done s) (file (finish s)) = true /\ length (file (finish s)) = 56.
Proof. vm_compute. repeat split; try reflexivity. eexists; eexists; reflexivity. Qed.

(* what has been stored completely stays stored: `done` only grows *)
Lemma done_step single cap l s : exists d, done (step single cap l s) = done s ++ d.
Proof.
  destruct l; cbn [step].
  - unfold pstep.
    repeat match goal with |- context [match ?x with _ => _ end] => destruct x end;
      cbn [done with_pc with_bufs with_curr with_chan with_shl with_wl with_file with_todo with_done on_cur];
      first [exists []; rewrite app_nil_r; reflexivity | eexists; reflexivity].
  - destruct (rstep_frame s) as [_ [_ [F _]]]. exists []. rewrite F, app_nil_r. reflexivity.
  - exists []. rewrite app_nil_r. unfold wstep. destruct (wl s); reflexivity.
  - unfold pstep_closed, pstep.
    repeat match goal with |- context [match ?x with _ => _ end] => destruct x end;
      cbn [done with_pc with_bufs with_curr with_chan with_shl with_wl with_file with_todo with_done on_cur];
      first [exists []; rewrite app_nil_r; reflexivity | eexists; reflexivity].
  - exists []. rewrite app_nil_r. unfold dstep, pend_thread. destruct (pc s); try reflexivity. destruct (curr s); reflexivity.
  - exists []. rewrite app_nil_r. unfold dstep. destruct (pc s); reflexivity.
  - exists []. rewrite app_nil_r. unfold xstep. destruct (pc s); try reflexivity. destruct (curr s); reflexivity.
Qed.
Lemma done_run single cap sched : forall s, exists d, done (run single cap sched s) = done s ++ d.
Proof.
  induction sched as [|l r IH]; intro s; cbn.
  - exists []. rewrite app_nil_r. reflexivity.
  - destruct (done_step single cap l s) as [d1 H1]. destruct (IH (step single cap l s)) as [d2 H2].
    exists (d1 ++ d2). unfold run in H2. rewrite H2, H1, app_assoc. reflexivity.
Qed.

(* exec: the task's one data file is what the old image stored followed by what the new image stored *)
Theorem exec_old_then_new setup cap recs before after :
  let s1 := run true cap before (start setup recs) in
  let s := run true cap (before ++ [LX] ++ after) (start setup recs) in
  exists new, done s = done s1 ++ new
              /\ match_recs (done s1 ++ new) (file (finish s)) = true
              /\ exists rest, recs = done s1 ++ new ++ rest.
Proof.
  intros s1 s.
  assert (Hs : s = run true cap ([LX] ++ after) s1).
  { unfold s, s1, run. rewrite fold_left_app. reflexivity. }
  destruct (done_run true cap ([LX] ++ after) s1) as [new Hn]. rewrite <- Hs in Hn.
  destruct (prefix_fixed setup cap recs (before ++ [LX] ++ after)) as [Hm [[rest Hr] _]]. fold s in Hm, Hr.
  exists new. split; [exact Hn|]. rewrite <- Hn. split; [exact Hm|]. exists rest.
  rewrite Hn in Hr. rewrite <- app_assoc in Hr. exact Hr.
Qed.

(* ------------------------------------------------------------------ EVENT records with payload (record_event) *)
(* A read trigger (-T f@read=proc/statm, ...) makes record_ret_stack call record_event: an EVENT record (a header with
   the `more` bit and a payload: u16 size ++ data) right after f's ENTRY record and right before its EXIT record.
   For the store-level LTS such a record is a record with payload like any other (`rec` is arbitrary in every
   theorem above: header stores, payload copy, ONE size update).  So the trace with its events is still a prefix of
   what the thread executed, and complete after the crash handler. *)
Lemma add_events_app evs a b : add_events evs (a ++ b) = add_events evs a ++ add_events evs b.
Proof. unfold add_events. apply flat_map_app. Qed.

Theorem killed_trace_with_events_is_prefix setup cap ops evs sched :
  wf_ops [] ops = true ->
  let recs := add_events evs (concat (snd (ops_run [] ops))) in
  let s := run true cap sched (start setup recs) in
  exists k, match_recs (firstn k (add_events evs (eager [] ops))) (file (finish s)) = true.
Proof.
  intros Hwf recs s.
  assert (Hw : in_window true s = false) by reflexivity.
  destruct (prefix_outside_window setup true cap recs sched Hw) as [Hm [[rest Hr] _]]. fold s in Hm, Hr.
  destruct (lazy_is_prefix_of_eager ops Hwf) as [rest' He].
  exists (length (done s)).
  assert (Hfn : firstn (length (done s)) (add_events evs (eager [] ops)) = done s).
  { rewrite He, add_events_app. fold recs. rewrite Hr, <- app_assoc. apply firstn_exact. }
  rewrite Hfn. exact Hm.
Qed.

Theorem crashed_trace_with_events_is_complete setup cap ops evs sched :
  wf_ops [] ops = true ->
  let recs := add_events evs (concat (snd (ops_run [] ops)) ++ segv_flush (fst (ops_run [] ops))) in
  let s := run true cap sched (start setup recs) in
  pc s = PIdle -> todo s = [] ->
  match_recs (add_events evs (eager [] ops)) (file (finish s)) = true.
Proof.
  intros Hwf recs s Hpc Ht.
  pose proof (complete_run setup true cap recs sched Hpc Ht) as H. fold s in H.
  unfold recs in H at 1. rewrite (lazy_plus_flush_is_eager ops Hwf) in H. exact H.
Qed.

(* non-vacuity: f0 calls f15 (read trigger): ENTRY f0, ENTRY f15, "read" event, "diff" event, EXIT f15, EXIT f0.
   (1) killed while the payload of the "read" event is being copied: the file holds the two ENTRY records only;
   (2) the same instant under the discipline "count the header, copy the payload, count the payload" (what
       record_ret_stack did before fix 4751e05, `single = false`): the file ends with an EVENT header whose payload is
       not there - not whole records;  (3) the complete run. *)
Definition ev_read : rec := {| r_time := 1020; r_type := UFTRACE_EVENT; r_depth := 0; r_addr := 100001;
  r_pl := [24; 0; 144; 1; 0; 0; 0; 0; 0; 0; 200; 0; 0; 0; 0; 0; 0; 0; 80; 0; 0; 0; 0; 0; 0; 0]%N |}.
Definition ev_diff : rec := {| r_time := 1050; r_type := UFTRACE_EVENT; r_depth := 0; r_addr := 100003;
  r_pl := [24; 0; 28; 0; 0; 0; 0; 0; 0; 0; 12; 0; 0; 0; 0; 0; 0; 0; 4; 0; 0; 0; 0; 0; 0; 0]%N |}.
Definition nv_ev_ops : list op := [OEnter 4096 1000 [] false; OEnter 7940 1020 [] false; OExit 1050 []; OExit 1060 []].
Definition nv_evs : ev_tab := [(1020%N, false, ev_read); (1050%N, true, ev_diff)].
Definition nv_ev_recs := add_events nv_evs (concat (snd (ops_run [] nv_ev_ops))).
Example nv_event_with_payload :
  map r_type nv_ev_recs = [0; 0; 3; 3; 1; 1]%N
  /\ (let s := run true 4080 (repeat LP 15) (init nv_ev_recs) in
      pc s = PCopy ev_read /\ length (file (finish s)) = 32 /\ ok_prefix nv_ev_recs (file (finish s)) = true)
  /\ (let s := run false 4080 (repeat LP 15) (init nv_ev_recs) in
      in_window false s = true /\ length (file (finish s)) = 48 /\ ok_prefix nv_ev_recs (file (finish s)) = false)
  /\ (let s := run true 4080 (repeat LP 40) (init nv_ev_recs) in
      pc s = PIdle /\ todo s = [] /\ length (file (finish s)) = 160
      /\ match_recs (add_events nv_evs (eager [] nv_ev_ops)) (file (finish s)) = true).
Proof. vm_compute. repeat split; reflexivity. Qed.
