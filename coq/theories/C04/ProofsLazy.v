(* C04 - lazily written ENTRY records (record_trace_data) and the flush of the open calls
   (segv_handler, PLT_FL_FLUSH), with NORECORD frames on the return stack: what has been written
   so far is a prefix of the eager trace, and written + flush = the eager trace: after the crash
   handler ran, every open RECORDABLE call has its ENTRY record - also when the innermost frame
   (the one the handler passes to record_trace_data) is a NORECORD frame. *)
From Coq Require Import NArith List Bool Arith Lia.
Import ListNotations.
Require Import UV.Gen.Consts UV.C04.Model.

Definition nw (stk : list frame) : nat := unwritten_top (rev stk).
Definition keep (stk : list frame) : nat := length stk - nw stk.
Definition pending (stk : list frame) : list rec :=
  entries_from (rdepth (firstn (keep stk) stk)) (skipn (keep stk) stk).
Definition ws (f : frame) : bool := fr_written f || fr_skip f.
Definition closed (stk : list frame) : Prop := forallb ws (firstn (keep stk) stk) = true.
Definition allws (stk : list frame) : Prop := forallb ws stk = true.
Definition strip (stk : list frame) : list call := map fr_call stk.

Lemma unwritten_top_le l : unwritten_top l <= length l.
Proof. induction l as [|f l IH]; cbn; [lia|]. destruct (fr_written f); lia. Qed.
Lemma nw_le stk : nw stk <= length stk.
Proof. unfold nw. rewrite <- (rev_length stk). apply unwritten_top_le. Qed.
Lemma keep_le stk : keep stk <= length stk.
Proof. unfold keep. lia. Qed.

Lemma rev_nil_inv {A} (l : list A) : rev l = [] -> l = [].
Proof. intro H. rewrite <- (rev_involutive l), H. reflexivity. Qed.

Lemma rdepth_app a b : rdepth (a ++ b) = rdepth a + rdepth b.
Proof. unfold rdepth. rewrite filter_app, app_length. reflexivity. Qed.
Lemma cdepth_strip stk : cdepth (strip stk) = rdepth stk.
Proof.
  unfold cdepth, rdepth, strip. induction stk as [|f l IH]; [reflexivity|]. cbn.
  unfold fr_skip at 1. destruct (c_skip (fr_call f)); cbn; [exact IH | f_equal; exact IH].
Qed.

Lemma flush_entries_spec stk :
  flush_entries stk = (pending stk, firstn (keep stk) stk ++ map mark (skipn (keep stk) stk)).
Proof.
  unfold flush_entries, pending, keep, nw.
  destruct (rev stk) as [|top below] eqn:E.
  - apply rev_nil_inv in E. subst. reflexivity.
  - cbn [unwritten_top]. destruct (fr_written top).
    + rewrite Nat.sub_0_r, skipn_all, firstn_all. cbn. rewrite app_nil_r. reflexivity.
    + reflexivity.
Qed.

Lemma segv_flush_pending stk : segv_flush stk = pending stk.
Proof. unfold segv_flush. rewrite flush_entries_spec. reflexivity. Qed.

Lemma entries_from_app d a b : entries_from d (a ++ b) = entries_from d a ++ entries_from (d + rdepth a) b.
Proof.
  revert d; induction a as [|f a IH]; intro d; cbn [app entries_from].
  - unfold rdepth. cbn. rewrite Nat.add_0_r. reflexivity.
  - unfold rdepth. cbn [filter]. destruct (fr_skip f) eqn:E; cbn [negb length].
    + apply IH.
    + cbn [app]. f_equal. rewrite IH. f_equal. f_equal. unfold rdepth. lia.
Qed.

Lemma nw_snoc stk f : fr_written f = false -> nw (stk ++ [f]) = S (nw stk).
Proof. intro H. unfold nw. rewrite rev_app_distr. cbn. rewrite H. reflexivity. Qed.
Lemma keep_snoc stk f : fr_written f = false -> keep (stk ++ [f]) = keep stk.
Proof. intro H. unfold keep. rewrite (nw_snoc _ _ H), app_length. cbn [length]. pose proof (nw_le stk). lia. Qed.

Lemma firstn_app_le {A} n (a b : list A) : n <= length a -> firstn n (a ++ b) = firstn n a.
Proof. intro H. rewrite firstn_app. replace (n - length a) with 0 by lia. cbn. apply app_nil_r. Qed.
Lemma skipn_app_le {A} n (a b : list A) : n <= length a -> skipn n (a ++ b) = skipn n a ++ b.
Proof. intro H. rewrite skipn_app. replace (n - length a) with 0 by lia. reflexivity. Qed.

Lemma pending_snoc stk f :
  fr_written f = false ->
  pending (stk ++ [f]) = pending stk ++ (if fr_skip f then [] else [entry_rec (rdepth stk) (fr_call f)]).
Proof.
  intro H. unfold pending. rewrite (keep_snoc _ _ H).
  pose proof (keep_le stk) as Hk.
  rewrite firstn_app_le, skipn_app_le by exact Hk.
  rewrite entries_from_app. f_equal. cbn [entries_from].
  destruct (fr_skip f); [reflexivity|]. f_equal. f_equal.
  rewrite <- rdepth_app, firstn_skipn. reflexivity.
Qed.
Lemma closed_snoc stk f : fr_written f = false -> closed stk -> closed (stk ++ [f]).
Proof.
  intros H Hc. unfold closed in *. rewrite (keep_snoc _ _ H).
  rewrite firstn_app_le by apply keep_le. exact Hc.
Qed.

Lemma entries_all_skip d l : forallb fr_skip l = true -> entries_from d l = [].
Proof.
  revert d; induction l as [|f l IH]; intros d H; [reflexivity|]. cbn in *.
  apply andb_true_iff in H. destruct H as [H1 H2]. rewrite H1. apply IH. exact H2.
Qed.

(* frames above the topmost WRITTEN frame are not written *)
Lemma unwritten_above l : forallb (fun f => negb (fr_written f)) (firstn (unwritten_top l) l) = true.
Proof.
  induction l as [|f l IH]; [reflexivity|]. cbn. destruct (fr_written f) eqn:E; [reflexivity|].
  cbn. rewrite E. cbn. exact IH.
Qed.
Lemma skipn_keep_unwritten stk : forallb (fun f => negb (fr_written f)) (skipn (keep stk) stk) = true.
Proof.
  pose proof (unwritten_above (rev stk)) as H. fold (nw stk) in H.
  rewrite firstn_rev in H. fold (keep stk) in H.
  rewrite forallb_forall in *. intros f Hf. apply H. apply -> in_rev. exact Hf.
Qed.

Lemma allws_facts stk : allws stk -> pending stk = [] /\ closed stk.
Proof.
  intro H. unfold allws in H. split.
  - unfold pending. apply entries_all_skip.
    pose proof (skipn_keep_unwritten stk) as Hu.
    rewrite forallb_forall in *. intros f Hf.
    assert (Hin : In f stk) by (rewrite <- (firstn_skipn (keep stk) stk); apply in_or_app; right; exact Hf).
    specialize (H f Hin). specialize (Hu f Hf). unfold ws in H.
    destruct (fr_written f); [discriminate|exact H].
  - unfold closed. rewrite forallb_forall in *. intros f Hf. apply H.
    rewrite <- (firstn_skipn (keep stk) stk). apply in_or_app. left. exact Hf.
Qed.

Lemma forallb_removelast {A} (p : A -> bool) l : forallb p l = true -> forallb p (removelast l) = true.
Proof.
  induction l as [|x l IH]; [auto|]. intro H. cbn in H. apply andb_true_iff in H. destruct H as [Hx Hl].
  destruct l as [|y l']; [reflexivity|]. cbn [removelast]. cbn [forallb]. rewrite Hx. cbn. apply IH. exact Hl.
Qed.
Lemma map_removelast {A B} (f : A -> B) l : map f (removelast l) = removelast (map f l).
Proof. induction l as [|x l IH]; [reflexivity|]. destruct l as [|y l']; [reflexivity|]. cbn in *. f_equal. exact IH. Qed.

Lemma mark_ws f : ws (mark f) = true.
Proof. unfold ws, mark. destruct (fr_skip f) eqn:E; [rewrite E; apply orb_true_r | reflexivity]. Qed.
Lemma mark_call f : fr_call (mark f) = fr_call f.
Proof. unfold mark. destruct (fr_skip f); reflexivity. Qed.

Lemma flushed_allws stk : closed stk -> allws (firstn (keep stk) stk ++ map mark (skipn (keep stk) stk)).
Proof.
  intro H. unfold allws. rewrite forallb_app. rewrite H. cbn.
  rewrite forallb_forall. intros f Hf. apply in_map_iff in Hf. destruct Hf as [g [<- _]]. apply mark_ws.
Qed.
Lemma flushed_strip stk : strip (firstn (keep stk) stk ++ map mark (skipn (keep stk) stk)) = strip stk.
Proof.
  unfold strip. rewrite map_app, map_map.
  rewrite (map_ext (fun x => fr_call (mark x)) fr_call) by apply mark_call.
  rewrite <- map_app, firstn_skipn. reflexivity.
Qed.

Lemma ops_run_cons stk o t :
  ops_run stk (o :: t) =
  (fst (ops_run (fst (op_step stk o)) t), snd (op_step stk o) :: snd (ops_run (fst (op_step stk o)) t)).
Proof. cbn [ops_run]. destruct (op_step stk o) as [s1 rs]. cbn. destruct (ops_run s1 t). reflexivity. Qed.

Lemma rev_strip_top stk top below : rev stk = top :: below -> rev (strip stk) = fr_call top :: map fr_call below.
Proof. intro H. unfold strip. rewrite <- map_rev, H. reflexivity. Qed.

Lemma strip_removelast stk : strip (removelast stk) = removelast (strip stk).
Proof. unfold strip. apply map_removelast. Qed.

(* written so far + what a flush would add = the eager trace *)
Lemma lazy_eager ops : forall stk,
  closed stk -> wf_ops (strip stk) ops = true ->
  concat (snd (ops_run stk ops)) ++ pending (fst (ops_run stk ops)) = pending stk ++ eager (strip stk) ops.
Proof.
  induction ops as [|o r IH]; intros stk Hc Hwf.
  - cbn. rewrite app_nil_r. reflexivity.
  - rewrite ops_run_cons. cbn [fst snd concat]. destruct o as [a t pl sk|t pl].
    + (* entry *)
      cbn [op_step fst snd app]. cbn [wf_ops] in Hwf. cbn [eager].
      assert (Hs : strip (stk ++ [new_frame a t pl sk]) = strip stk ++ [{| c_addr := a; c_start := t; c_pl := pl; c_skip := sk |}]).
      { unfold strip. rewrite map_app. reflexivity. }
      rewrite (IH (stk ++ [new_frame a t pl sk])); [| apply closed_snoc; [reflexivity|exact Hc] | rewrite Hs; exact Hwf].
      rewrite pending_snoc by reflexivity. rewrite Hs, <- app_assoc.
      unfold fr_skip. cbn [new_frame fr_call c_skip].
      destruct sk; cbn [app]; [reflexivity|]. rewrite cdepth_strip. reflexivity.
    + (* exit *)
      cbn [wf_ops] in Hwf. cbn [eager].
      destruct (rev stk) as [|top below] eqn:E.
      { apply rev_nil_inv in E. subst. cbn in Hwf. discriminate. }
      rewrite (rev_strip_top stk top below E) in *.
      apply andb_true_iff in Hwf. destruct Hwf as [Ht Hwf].
      unfold op_step. rewrite E.
      change (c_skip (fr_call top)) with (fr_skip top) in Ht.
      destruct (fr_skip top) eqn:Esk.
      * (* a NORECORD frame returns: nothing is written, the frames below are untouched *)
        cbn [fst snd app].
        assert (Hrl : stk = removelast stk ++ [top]).
        { rewrite <- (rev_involutive stk), E. cbn. rewrite removelast_last. reflexivity. }
        assert (Htw : fr_written top = false \/ fr_written top = true) by (destruct (fr_written top); auto).
        (* pending and closedness of the stack without its NORECORD top *)
        assert (Hpc : pending stk = pending (removelast stk) /\ closed (removelast stk)).
        { destruct Htw as [Hw|Hw].
          - split.
            + rewrite Hrl at 1. rewrite pending_snoc by exact Hw. rewrite Esk. apply app_nil_r.
            + unfold closed in *. rewrite Hrl in Hc. rewrite (keep_snoc _ _ Hw) in Hc.
              rewrite firstn_app_le in Hc by apply keep_le. exact Hc.
          - (* a written NORECORD frame does not exist in reachable states; handled for completeness *)
            assert (Hk : keep stk = length stk).
            { unfold keep, nw. rewrite E. cbn. rewrite Hw. lia. }
            assert (Hall : allws (removelast stk)).
            { unfold closed in Hc. rewrite Hk, firstn_all in Hc. apply forallb_removelast. exact Hc. }
            destruct (allws_facts _ Hall) as [Hp Hcl]. split; [|exact Hcl].
            rewrite Hp. unfold pending. rewrite Hk, skipn_all. reflexivity. }
        destruct Hpc as [Hp Hcl].
        rewrite (IH (removelast stk)); [| exact Hcl | rewrite strip_removelast; exact Hwf].
        rewrite Hp, strip_removelast. change (c_skip (fr_call top)) with (fr_skip top). rewrite Esk. reflexivity.
      * cbn [orb] in Ht. rewrite Ht. cbn [orb].
        rewrite flush_entries_spec. cbn [fst snd].
        set (stk' := firstn (keep stk) stk ++ map mark (skipn (keep stk) stk)).
        assert (Hall : allws (removelast stk')) by (apply forallb_removelast, flushed_allws; exact Hc).
        destruct (allws_facts _ Hall) as [Hp Hcl].
        assert (Hs : strip (removelast stk') = removelast (strip stk)).
        { rewrite strip_removelast. unfold stk'. rewrite flushed_strip. reflexivity. }
        rewrite <- app_assoc. rewrite (IH (removelast stk')); [| exact Hcl | rewrite Hs; exact Hwf].
        rewrite Hp, Hs. cbn [app]. rewrite <- app_assoc. cbn [app].
        rewrite <- strip_removelast, cdepth_strip. change (c_skip (fr_call top)) with (fr_skip top). rewrite Esk. reflexivity.
Qed.

Lemma closed_nil : closed [].
Proof. reflexivity. Qed.

(* from the empty stack *)
Theorem lazy_plus_flush_is_eager ops :
  wf_ops [] ops = true ->
  concat (snd (ops_run [] ops)) ++ segv_flush (fst (ops_run [] ops)) = eager [] ops.
Proof.
  intro H. rewrite segv_flush_pending. apply (lazy_eager ops [] closed_nil H).
Qed.

Theorem lazy_is_prefix_of_eager ops :
  wf_ops [] ops = true -> exists rest, eager [] ops = concat (snd (ops_run [] ops)) ++ rest.
Proof. intro H. eexists. symmetry. apply lazy_plus_flush_is_eager. exact H. Qed.

(* the eager trace has an ENTRY for every recordable call that is still open at the end *)
Fixpoint final_stack (stk : list call) (ops : list op) : list call :=
  match ops with
  | [] => stk
  | OEnter a t pl sk :: r => final_stack (stk ++ [{| c_addr := a; c_start := t; c_pl := pl; c_skip := sk |}]) r
  | OExit _ _ :: r => final_stack (removelast stk) r
  end.

Lemma removelast_firstn_len {A} (l : list A) : removelast l = firstn (length l - 1) l.
Proof.
  induction l as [|x l IH]; [reflexivity|]. destruct l as [|y l']; [reflexivity|].
  change (removelast (x :: y :: l')) with (x :: removelast (y :: l')). rewrite IH.
  cbn [length]. replace (S (S (length l')) - 1) with (S (S (length l') - 1)) by lia. reflexivity.
Qed.

Lemma firstn_firstn_le {A} i n (l : list A) : i <= n -> firstn i (firstn n l) = firstn i l.
Proof. intro H. rewrite firstn_firstn. f_equal. lia. Qed.

Lemma nth_error_firstn_some {A} n : forall (l : list A) i c,
  nth_error (firstn n l) i = Some c -> nth_error l i = Some c.
Proof.
  induction n as [|n IH]; intros l i c H.
  - destruct i; discriminate.
  - destruct l as [|x l]; [destruct i; discriminate|]. destruct i as [|i]; [exact H|]. cbn in *. apply IH. exact H.
Qed.

Lemma open_entries_in_eager ops : forall stk i c,
  nth_error (final_stack stk ops) i = Some c -> c_skip c = false ->
  (i < length stk /\ nth_error stk i = Some c /\ firstn i (final_stack stk ops) = firstn i stk)
  \/ In (entry_rec (cdepth (firstn i (final_stack stk ops))) c) (eager stk ops).
Proof.
  induction ops as [|o r IH]; intros stk i c H Hsk.
  - cbn in H. left. split; [apply nth_error_Some; congruence|]. split; [exact H|reflexivity].
  - destruct o as [a t pl sk|t pl]; cbn [final_stack eager] in *.
    + destruct (IH _ _ _ H Hsk) as [[Hl [Hn Hf]]|Hin].
      * rewrite app_length in Hl. cbn in Hl.
        destruct (Nat.eq_dec i (length stk)) as [->|Hne].
        -- rewrite nth_error_app2 in Hn by lia. rewrite Nat.sub_diag in Hn. cbn in Hn.
           injection Hn as <-. cbn [c_skip] in Hsk. subst sk. right. left.
           rewrite Hf, firstn_app_le, firstn_all by lia. reflexivity.
        -- left. split; [lia|]. rewrite nth_error_app1 in Hn by lia. split; [exact Hn|].
           rewrite Hf. apply firstn_app_le. lia.
      * right. destruct sk; [exact Hin | right; exact Hin].
    + destruct (IH _ _ _ H Hsk) as [[Hl [Hn Hf]]|Hin].
      * left. rewrite removelast_firstn_len in Hl, Hn. rewrite firstn_length in Hl.
        split; [lia|]. split; [apply nth_error_firstn_some in Hn; exact Hn|].
        rewrite Hf, removelast_firstn_len. apply firstn_firstn_le. lia.
      * right. destruct (rev stk) as [|top below] eqn:E; [apply rev_nil_inv in E; subst; exact Hin|].
        destruct (c_skip top); [exact Hin | right; exact Hin].
Qed.

(* after the crash handler: every open recordable call of the thread has its ENTRY record in the
   stream, with the depth it was entered at - whatever the innermost frame is *)
Theorem segv_includes_open_calls ops i c :
  wf_ops [] ops = true ->
  nth_error (final_stack [] ops) i = Some c -> c_skip c = false ->
  In (entry_rec (cdepth (firstn i (final_stack [] ops))) c)
     (concat (snd (ops_run [] ops)) ++ segv_flush (fst (ops_run [] ops))).
Proof.
  intros Hwf H Hsk. rewrite (lazy_plus_flush_is_eager ops Hwf).
  destruct (open_entries_in_eager ops [] i c H Hsk) as [[Hl _]|Hin]; [cbn in Hl; lia | exact Hin].
Qed.

(* non-vacuity and the seeded shape: the innermost frame is NORECORD, its callers are unwritten *)
Example segv_norecord_innermost :
  let ops := [OEnter 4096 1000 [] false; OEnter 4352 1100 [] false; OEnter 4608 1200 [] true] in
  wf_ops [] ops = true
  /\ concat (snd (ops_run [] ops)) = []
  /\ map r_addr (segv_flush (fst (ops_run [] ops))) = [4096; 4352]%N
  /\ map r_depth (segv_flush (fst (ops_run [] ops))) = [0; 1]%N.
Proof. vm_compute. repeat split; reflexivity. Qed.
