(* C04 - lazily written ENTRY records (record_trace_data) and the flush of the open calls
   (segv_handler, PLT_FL_FLUSH): what has been written so far is a prefix of the eager trace,
   and written + flush = the eager trace: after the crash handler ran, every open call has its
   ENTRY record. *)
From Coq Require Import NArith List Bool Arith Lia.
Import ListNotations.
Require Import UV.Gen.Consts UV.C04.Model.

Definition nw (stk : list frame) : nat := unwritten_top (rev stk).
Definition keep (stk : list frame) : nat := length stk - nw stk.
Definition pending (stk : list frame) : list rec := entries_from (keep stk) (skipn (keep stk) stk).
Definition closed (stk : list frame) : Prop := forallb fr_written (firstn (keep stk) stk) = true.
Definition allw (stk : list frame) : Prop := forallb fr_written stk = true.
Definition strip (stk : list frame) : list call := map fr_call stk.

Lemma unwritten_top_le l : unwritten_top l <= length l.
Proof. induction l as [|f l IH]; cbn; [lia|]. destruct (fr_written f); lia. Qed.
Lemma nw_le stk : nw stk <= length stk.
Proof. unfold nw. rewrite <- (rev_length stk). apply unwritten_top_le. Qed.
Lemma keep_le stk : keep stk <= length stk.
Proof. unfold keep. lia. Qed.

Lemma rev_nil_inv {A} (l : list A) : rev l = [] -> l = [].
Proof. intro H. rewrite <- (rev_involutive l), H. reflexivity. Qed.

Lemma flush_entries_spec stk :
  flush_entries stk = (pending stk, firstn (keep stk) stk ++ map mark (skipn (keep stk) stk)).
Proof.
  unfold flush_entries, pending, keep, nw.
  destruct (rev stk) as [|top below] eqn:E.
  - apply rev_nil_inv in E. subst. reflexivity.
  - cbn [unwritten_top]. destruct (fr_written top).
    + rewrite Nat.sub_0_r, skipn_all, firstn_all. cbn. rewrite app_nil_r. reflexivity.
    + reflexivity.
Qed.

Lemma segv_flush_pending stk : segv_flush stk = pending stk.
Proof. unfold segv_flush. rewrite flush_entries_spec. reflexivity. Qed.

Lemma entries_from_app d a b : entries_from d (a ++ b) = entries_from d a ++ entries_from (d + length a) b.
Proof.
  revert d; induction a as [|f a IH]; intro d; cbn.
  - rewrite Nat.add_0_r. reflexivity.
  - f_equal. rewrite IH. f_equal. f_equal. lia.
Qed.

Lemma nw_snoc stk f : fr_written f = false -> nw (stk ++ [f]) = S (nw stk).
Proof. intro H. unfold nw. rewrite rev_app_distr. cbn. rewrite H. reflexivity. Qed.
Lemma keep_snoc stk f : fr_written f = false -> keep (stk ++ [f]) = keep stk.
Proof. intro H. unfold keep. rewrite (nw_snoc _ _ H), app_length. cbn [length]. pose proof (nw_le stk). lia. Qed.

Lemma pending_snoc stk f :
  fr_written f = false -> pending (stk ++ [f]) = pending stk ++ [entry_rec (length stk) (fr_call f)].
Proof.
  intro H. unfold pending. rewrite (keep_snoc _ _ H).
  pose proof (keep_le stk) as Hk.
  rewrite skipn_app. replace (keep stk - length stk) with 0 by lia. cbn [skipn].
  rewrite entries_from_app. cbn [entries_from]. f_equal. f_equal. f_equal. rewrite skipn_length. lia.
Qed.
Lemma closed_snoc stk f : fr_written f = false -> closed stk -> closed (stk ++ [f]).
Proof.
  intros H Hc. unfold closed in *. rewrite (keep_snoc _ _ H).
  pose proof (keep_le stk) as Hk.
  rewrite firstn_app. replace (keep stk - length stk) with 0 by lia. cbn. rewrite app_nil_r. exact Hc.
Qed.

Lemma allw_facts stk : allw stk -> nw stk = 0 /\ pending stk = [] /\ closed stk.
Proof.
  intro H. assert (Hn : nw stk = 0).
  { unfold nw. destruct (rev stk) as [|top below] eqn:E; [reflexivity|]. cbn.
    assert (Hin : In top stk) by (apply in_rev; rewrite E; left; reflexivity).
    unfold allw in H. rewrite forallb_forall in H. rewrite (H top Hin). reflexivity. }
  split; [exact Hn|]. unfold pending, closed, keep. rewrite Hn, Nat.sub_0_r, skipn_all, firstn_all.
  split; [reflexivity|exact H].
Qed.

Lemma forallb_removelast {A} (p : A -> bool) l : forallb p l = true -> forallb p (removelast l) = true.
Proof.
  induction l as [|x l IH]; [auto|]. intro H. cbn in H. apply andb_true_iff in H. destruct H as [Hx Hl].
  destruct l as [|y l']; [reflexivity|]. cbn [removelast]. cbn [forallb]. rewrite Hx. cbn. apply IH. exact Hl.
Qed.
Lemma map_removelast {A B} (f : A -> B) l : map f (removelast l) = removelast (map f l).
Proof. induction l as [|x l IH]; [reflexivity|]. destruct l as [|y l']; [reflexivity|]. cbn in *. f_equal. exact IH. Qed.

Lemma flushed_allw stk : closed stk -> allw (firstn (keep stk) stk ++ map mark (skipn (keep stk) stk)).
Proof.
  intro H. unfold allw. rewrite forallb_app. rewrite H. cbn.
  rewrite forallb_forall. intros f Hf. apply in_map_iff in Hf. destruct Hf as [g [<- _]]. reflexivity.
Qed.
Lemma flushed_strip stk : strip (firstn (keep stk) stk ++ map mark (skipn (keep stk) stk)) = strip stk.
Proof.
  unfold strip. rewrite map_app, map_map. cbn [mark fr_call].
  rewrite <- map_app, firstn_skipn. reflexivity.
Qed.

Lemma ops_run_cons stk o t :
  ops_run stk (o :: t) =
  (fst (ops_run (fst (op_step stk o)) t), snd (op_step stk o) :: snd (ops_run (fst (op_step stk o)) t)).
Proof. cbn [ops_run]. destruct (op_step stk o) as [s1 rs]. cbn. destruct (ops_run s1 t). reflexivity. Qed.

Lemma rev_strip_top stk top below : rev stk = top :: below -> rev (strip stk) = fr_call top :: map fr_call below.
Proof. intro H. unfold strip. rewrite <- map_rev, H. reflexivity. Qed.

(* written so far + what a flush would add = the eager trace *)
Lemma lazy_eager ops : forall stk,
  closed stk -> wf_ops (strip stk) ops = true ->
  concat (snd (ops_run stk ops)) ++ pending (fst (ops_run stk ops)) = pending stk ++ eager (strip stk) ops.
Proof.
  induction ops as [|o r IH]; intros stk Hc Hwf.
  - cbn. rewrite app_nil_r. reflexivity.
  - rewrite ops_run_cons. cbn [fst snd concat]. destruct o as [a t pl|t pl].
    + (* entry *)
      cbn [op_step fst snd app]. cbn [wf_ops] in Hwf. cbn [eager].
      assert (Hs : strip (stk ++ [new_frame a t pl]) = strip stk ++ [{| c_addr := a; c_start := t; c_pl := pl |}]).
      { unfold strip. rewrite map_app. reflexivity. }
      rewrite (IH (stk ++ [new_frame a t pl])); [| apply closed_snoc; [reflexivity|exact Hc] | rewrite Hs; exact Hwf].
      rewrite pending_snoc by reflexivity. rewrite Hs, <- app_assoc. cbn.
      unfold strip. rewrite map_length. reflexivity.
    + (* exit *)
      cbn [wf_ops] in Hwf. cbn [eager].
      destruct (rev stk) as [|top below] eqn:E.
      { apply rev_nil_inv in E. subst. cbn in Hwf. discriminate. }
      rewrite (rev_strip_top stk top below E) in *.
      apply andb_true_iff in Hwf. destruct Hwf as [Ht Hwf].
      unfold op_step. rewrite E. rewrite Ht. cbn [orb].
      rewrite flush_entries_spec. cbn [fst snd].
      set (stk' := firstn (keep stk) stk ++ map mark (skipn (keep stk) stk)).
      assert (Hall : allw (removelast stk')) by (apply forallb_removelast, flushed_allw; exact Hc).
      destruct (allw_facts _ Hall) as [_ [Hp Hcl]].
      assert (Hs : strip (removelast stk') = removelast (strip stk)).
      { unfold strip at 1. rewrite map_removelast. fold (strip stk'). unfold stk'. rewrite flushed_strip. reflexivity. }
      rewrite <- app_assoc. rewrite (IH (removelast stk')); [| exact Hcl | rewrite Hs; exact Hwf].
      rewrite Hp, Hs. cbn [app]. rewrite <- app_assoc. cbn [app].
      unfold strip. rewrite map_length. reflexivity.
Qed.

Lemma closed_nil : closed [].
Proof. reflexivity. Qed.

(* from the empty stack *)
Theorem lazy_plus_flush_is_eager ops :
  wf_ops [] ops = true ->
  concat (snd (ops_run [] ops)) ++ segv_flush (fst (ops_run [] ops)) = eager [] ops.
Proof.
  intro H. rewrite segv_flush_pending. apply (lazy_eager ops [] closed_nil H).
Qed.

Theorem lazy_is_prefix_of_eager ops :
  wf_ops [] ops = true -> exists rest, eager [] ops = concat (snd (ops_run [] ops)) ++ rest.
Proof. intro H. eexists. symmetry. apply lazy_plus_flush_is_eager. exact H. Qed.

(* the eager trace has an ENTRY for every call that is still open at the end *)
Fixpoint final_stack (stk : list call) (ops : list op) : list call :=
  match ops with
  | [] => stk
  | OEnter a t pl :: r => final_stack (stk ++ [{| c_addr := a; c_start := t; c_pl := pl |}]) r
  | OExit _ _ :: r => final_stack (removelast stk) r
  end.

Lemma removelast_firstn_len {A} (l : list A) : removelast l = firstn (length l - 1) l.
Proof.
  induction l as [|x l IH]; [reflexivity|]. destruct l as [|y l']; [reflexivity|].
  change (removelast (x :: y :: l')) with (x :: removelast (y :: l')). rewrite IH.
  cbn [length]. replace (S (S (length l')) - 1) with (S (S (length l') - 1)) by lia. reflexivity.
Qed.

Lemma nth_error_firstn_some {A} n : forall (l : list A) i c,
  nth_error (firstn n l) i = Some c -> nth_error l i = Some c.
Proof.
  induction n as [|n IH]; intros l i c H.
  - destruct i; discriminate.
  - destruct l as [|x l]; [destruct i; discriminate|]. destruct i as [|i]; [exact H|]. cbn in *. apply IH. exact H.
Qed.

Lemma open_entries_in_eager ops : forall stk i c,
  nth_error (final_stack stk ops) i = Some c ->
  (i < length stk /\ nth_error stk i = Some c) \/ In (entry_rec i c) (eager stk ops).
Proof.
  induction ops as [|o r IH]; intros stk i c H.
  - cbn in H. left. split; [apply nth_error_Some; congruence | exact H].
  - destruct o as [a t pl|t pl]; cbn [final_stack eager] in *.
    + destruct (IH _ _ _ H) as [[Hl Hn]|Hin].
      * rewrite app_length in Hl. cbn in Hl.
        destruct (Nat.eq_dec i (length stk)) as [->|Hne].
        -- rewrite nth_error_app2 in Hn by lia. rewrite Nat.sub_diag in Hn. cbn in Hn.
           injection Hn as <-. right. left. reflexivity.
        -- left. split; [lia|]. rewrite nth_error_app1 in Hn by lia. exact Hn.
      * right. right. exact Hin.
    + destruct (IH _ _ _ H) as [[Hl Hn]|Hin].
      * left. rewrite removelast_firstn_len in Hl, Hn. rewrite firstn_length in Hl.
        split; [lia|]. apply nth_error_firstn_some in Hn. exact Hn.
      * right. destruct (rev stk) eqn:E; [apply rev_nil_inv in E; subst; exact Hin | right; exact Hin].
Qed.

(* after the crash handler: every open call of the thread has its ENTRY record in the stream *)
Theorem segv_includes_open_calls ops i c :
  wf_ops [] ops = true ->
  nth_error (final_stack [] ops) i = Some c ->
  In (entry_rec i c) (concat (snd (ops_run [] ops)) ++ segv_flush (fst (ops_run [] ops))).
Proof.
  intros Hwf H. rewrite (lazy_plus_flush_is_eager ops Hwf).
  destruct (open_entries_in_eager ops [] i c H) as [[Hl _]|Hin]; [cbn in Hl; lia | exact Hin].
Qed.

(* the model's own stack agrees with final_stack *)
Lemma final_stack_model ops : forall stk,
  wf_ops (strip stk) ops = true -> strip (fst (ops_run stk ops)) = final_stack (strip stk) ops.
Proof.
  induction ops as [|o r IH]; intros stk Hwf; [reflexivity|].
  rewrite ops_run_cons. cbn [fst]. destruct o as [a t pl|t pl]; cbn [wf_ops final_stack] in *.
  - cbn [op_step fst]. rewrite IH; unfold strip; rewrite map_app; [reflexivity|exact Hwf].
  - destruct (rev stk) as [|top below] eqn:E.
    { apply rev_nil_inv in E. subst. cbn in Hwf. discriminate. }
    rewrite (rev_strip_top stk top below E) in Hwf.
    apply andb_true_iff in Hwf. destruct Hwf as [Ht Hwf].
    unfold op_step. rewrite E, Ht. cbn [orb]. rewrite flush_entries_spec. cbn [fst].
    assert (Hs : strip (removelast (firstn (keep stk) stk ++ map mark (skipn (keep stk) stk))) = removelast (strip stk)).
    { unfold strip at 1. rewrite map_removelast. fold (strip (firstn (keep stk) stk ++ map mark (skipn (keep stk) stk))).
      rewrite flushed_strip. reflexivity. }
    rewrite IH; rewrite Hs; [reflexivity|exact Hwf].
Qed.
