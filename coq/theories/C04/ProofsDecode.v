(* C04 - the decoder that judges real data files end to end inverts the model's encoder:
   a file made of whole records (without payload) decodes to exactly those records. *)
From Coq Require Import NArith ZArith List Bool Arith Lia.
Require Import ZifyBool ZifyN ZifyNat.
Import ListNotations.
Require Import UV.Gen.Consts UV.C04.Model UV.C04.Proofs.
Ltac Zify.zify_post_hook ::= Z.div_mod_to_equations.
Local Open Scope N_scope.

Lemma from_le_le_bytes n : forall v, from_le (le_bytes n v) = v mod 256 ^ N.of_nat n.
Proof.
  induction n as [|n IH]; intro v.
  - cbn. rewrite N.mod_1_r. reflexivity.
  - cbn [le_bytes from_le fold_right]. fold (from_le (le_bytes n (v / 256))). rewrite IH.
    rewrite Nat2N.inj_succ, N.pow_succ_r'.
    rewrite N.mod_mul_r by (try apply N.pow_nonzero; lia). reflexivity.
Qed.

Lemma from_le_le64 v : v < 2 ^ 64 -> from_le (le64 v) = v.
Proof.
  intro H. unfold le64. rewrite from_le_le_bytes. change (256 ^ N.of_nat 8) with (2 ^ 64).
  apply N.mod_small. exact H.
Qed.

Definition fields_ok (r : rec) : Prop :=
  r_time r < 2 ^ 64 /\ r_type r < 4 /\ r_depth r < 1024 /\ r_addr r < 2 ^ 48.

Lemma word_of_lt r : word_of r < 2 ^ 64.
Proof. unfold word_of. apply N.mod_lt. discriminate. Qed.

(* the bit fields the readers use, applied to the word the producer computes with + and << *)
Lemma dec_word_word_of r : fields_ok r -> dec_word (r_time r) (word_of r) = drec_of r.
Proof.
  intros [Ht [Hty [Hd Ha]]]. unfold dec_word, drec_of, word_of, RECORD_MAGIC.
  change (2 ^ 48) with 281474976710656 in Ha.
  destruct (has_pl r); f_equal; lia.
Qed.

Lemma le64_cases v : exists b0 b1 b2 b3 b4 b5 b6 b7, le64 v = [b0; b1; b2; b3; b4; b5; b6; b7].
Proof. unfold le64. cbn. repeat eexists. Qed.

Lemma words_of_hdr r rest ws :
  fields_ok r -> words_of rest = Some ws ->
  words_of (hdr r ++ rest) = Some (r_time r :: word_of r :: ws).
Proof.
  intros [Ht _] Hr. unfold hdr.
  destruct (le64_cases (r_time r)) as [a0 [a1 [a2 [a3 [a4 [a5 [a6 [a7 Ea]]]]]]]].
  destruct (le64_cases (word_of r)) as [c0 [c1 [c2 [c3 [c4 [c5 [c6 [c7 Ec]]]]]]]].
  rewrite Ea, Ec. cbn [app words_of]. rewrite Hr.
  rewrite <- Ea, <- Ec, (from_le_le64 _ Ht), (from_le_le64 _ (word_of_lt r)). reflexivity.
Qed.

(* whole records without payload decode to themselves *)
Theorem decode_inverts_encode rs :
  Forall (fun r => fields_ok r /\ r_pl r = []) rs ->
  dec_bytes (concat (map hdr rs)) = Some (map drec_of rs).
Proof.
  intro H. unfold dec_bytes.
  assert (Hw : exists ws, words_of (concat (map hdr rs)) = Some ws /\ dec_words ws = Some (map drec_of rs)).
  { induction H as [|r rs [Hf Hpl] _ IH].
    - exists []. split; reflexivity.
    - destruct IH as [ws [Hws Hd]].
      exists (r_time r :: word_of r :: ws). split.
      + cbn [map concat]. apply words_of_hdr; assumption.
      + cbn [dec_words]. rewrite (dec_word_word_of r Hf). unfold drec_of at 1 2. cbn [d_magic d_more].
        unfold has_pl. rewrite Hpl. rewrite N.eqb_refl. cbn [andb N.eqb]. rewrite Hd. reflexivity. }
  destruct Hw as [ws [Hws Hd]]. rewrite Hws. exact Hd.
Qed.

(* non-vacuity *)
Example decode_example :
  dec_bytes (concat (map hdr [w_r2; w_r2])) = Some [drec_of w_r2; drec_of w_r2].
Proof. vm_compute. reflexivity. Qed.
