(* C13 - the LEGACY variant of the model (utils/demangle.c as found, before the `fix: demangle:` commits)
   reaches a fault / does not return / returns NULL on concrete names; the current code returns a
   string on all of them *)
From Coq Require Import ZArith List Bool Lia Ascii String.
Import ListNotations.
Require Import UV.C13.Model.
Local Open Scope Z_scope.

Definition w_ctor : list Z := str "_ZC1v".
Definition w_dtor : list Z := str "_ZD0v".
Definition w_nested_ctor : list Z := str "_ZNC1Ev".
Definition w_len : list Z := str "_Z2147483647x".
Definition w_len2 : list Z := str "_ZN2147483646aE".
Definition w_dollar_over : list Z := str "_Z3a$C".
Definition w_dollar_neg : list Z := str "_Z1$u20$xx".
Definition w_special : list Z := str "_ZT".
Definition w_null : list Z := str "_ZUt_".
Definition w_hang : list Z := str "_Z1aD".
Definition w_lambda : list Z := str "_ZUlvE2147483647_".

Lemma ctor_fault : demangle_legacy w_ctor = Crash F_null_out /\ demangle_legacy w_dtor = Crash F_null_out /\
                   demangle_legacy w_nested_ctor = Crash F_null_out.
Proof. split; [| split ]; vm_compute; reflexivity. Qed.
Lemma length_overflow : demangle_legacy w_len = Crash F_int_overflow /\ demangle_legacy w_len2 = Crash F_int_overflow.
Proof. split; vm_compute; reflexivity. Qed.
Lemma dollar_over_read : demangle_legacy w_dollar_over = Crash F_over_read.
Proof. vm_compute; reflexivity. Qed.
Lemma dollar_negative_size : demangle_legacy w_dollar_neg = Crash F_neg_size.
Proof. vm_compute; reflexivity. Qed.
Lemma special_name_index : demangle_legacy w_special = Crash F_index_oob.
Proof. vm_compute; reflexivity. Qed.
Lemma null_result : demangle_legacy w_null = Null.
Proof. vm_compute; reflexivity. Qed.

Lemma lambda_overflow : demangle_legacy w_lambda = Crash F_int_overflow.
Proof. vm_compute; reflexivity. Qed.

(* dd_number: the value is (int)strtoul(...): 4294967297 is read as 1 *)
Lemma number_truncation : demangle (str "_Z4294967297x") = Str (str "x").
Proof. vm_compute; reflexivity. Qed.

(* ---- "_Z1aD": dd_type returns 0 without consuming, the type loop of dd_encoding never ends.
   For EVERY fuel the model runs out of fuel. *)
Definition stL : state := mkst 4 5 (Some [97]) 0 1 0 false false false false.

Lemma type_no_progress : forall k, run false w_hang 0 (S (S k)) FType stL = R 0 stL.
Proof. intros k. vm_compute. reflexivity. Qed.

Lemma enc_step : forall rec : fn -> M,
  rec FType stL = R 0 stL -> enc_types_loop w_hang 0 rec stL = rec LEncTypes stL.
Proof.
  intros rec H. unfold enc_types_loop, bind. vm_compute in H. vm_compute. rewrite H. reflexivity.
Qed.

Lemma enc_loop_never_ends : forall k, run false w_hang 0 k LEncTypes stL = OOF.
Proof.
  induction k as [| k IH]; [ reflexivity |].
  destruct k as [| [| k']]; [ vm_compute; reflexivity | vm_compute; reflexivity |].
  change (run false w_hang 0 (S (S (S k'))) LEncTypes stL)
    with (enc_types_loop w_hang 0 (run false w_hang 0 (S (S k'))) stL).
  rewrite enc_step; [ exact IH | apply type_no_progress ].
Qed.

Definition st3 : state := mkst 2 5 None 0 1 0 false true false false.
Lemma enc_top : forall rec : fn -> M,
  rec FName st3 = R 0 stL -> rec LEncTypes stL = OOF -> dd_encoding w_hang 0 rec (st0 5) = OOF.
Proof.
  intros rec H1 H2. unfold dd_encoding, bind. vm_compute in H1. vm_compute in H2.
  vm_compute. rewrite H1. rewrite H2. reflexivity.
Qed.

Lemma hang_every_fuel : forall fuel, demangle_fuel false fuel w_hang = Hang.
Proof.
  intros fuel. destruct fuel as [| [| [| k]]];
    [ vm_compute; reflexivity | vm_compute; reflexivity | vm_compute; reflexivity |].
  assert (E : run false w_hang 0 (S (S (S k))) FEncoding (st0 5) = OOF).
  { change (run false w_hang 0 (S (S (S k))) FEncoding (st0 5))
      with (dd_encoding w_hang 0 (run false w_hang 0 (S (S k))) (st0 5)).
    apply enc_top; [ vm_compute; reflexivity | apply enc_loop_never_ends ]. }
  unfold demangle_fuel.
  replace (negb (mangled_form w_hang)) with false by (vm_compute; reflexivity).
  replace (prefix_of prefix_str w_hang) with false by (vm_compute; reflexivity).
  replace (Z.of_nat (List.length w_hang) - 0) with 5 by (vm_compute; reflexivity).
  rewrite E. reflexivity.
Qed.

(* the code as it is now returns a string on every legacy witness *)
Lemma witnesses_fixed :
  demangle w_ctor = Str w_ctor /\ demangle w_dtor = Str w_dtor /\ demangle w_nested_ctor = Str w_nested_ctor /\
  demangle w_len = Str w_len /\ demangle w_len2 = Str w_len2 /\
  demangle w_dollar_over = Str (str "aa$C") /\ demangle w_dollar_neg = Str w_dollar_neg /\
  demangle w_special = Str w_special /\ demangle w_null = Str w_null /\ demangle w_hang = Str w_hang /\
  demangle w_lambda = Str (str "$_2147483648").
Proof. vm_compute. repeat split; reflexivity. Qed.
