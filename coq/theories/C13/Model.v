(* C13 - executable model of utils/demangle.c (demangle_simple and every dd_* function).

   The model is a transliteration, function by function, of the C text AS IT IS:
   - the cursor is the pair pos/len of C ints (Z here; 32-bit wrap is explicit where an
     input-controlled number enters: dd_number = (int)strtoul(str,&end,0));
   - the output buffer dd->new is [out : option (list Z)]: None is the NULL pointer that the code
     keeps until the first append;
   - every place where the C code would read or write memory it does not own, use a NULL
     pointer, overflow a signed int or index an array out of bounds is an outcome [Fault k];
   - recursion and every `while` loop of the mutually recursive parser functions go through one
     fuel-indexed dispatcher [run]; running out of fuel is the outcome [OOF] (the C code has no
     bound of its own: OOF models "does not return").

   Bytes are Z in 0..255 (C chars >= 0x80 are negative there; they compare unequal to every
   ASCII constant and are in no ctype class, exactly like their unsigned value here).        *)
From Coq Require Import ZArith List Bool Ascii String.
Import ListNotations.
Local Open Scope Z_scope.

Definition ch (a : ascii) : Z := Z.of_N (N_of_ascii a).
Fixpoint str (s : string) : list Z :=
  match s with EmptyString => [] | String a r => ch a :: str r end.
Arguments ch a%char.
Arguments str s%string.

(* ------------------------------------------------------------------ ctype (C locale) *)
Definition isdigit (c : Z) : bool := (48 <=? c) && (c <=? 57).
Definition isupper (c : Z) : bool := (65 <=? c) && (c <=? 90).
Definition islower (c : Z) : bool := (97 <=? c) && (c <=? 122).
Definition isxdigit (c : Z) : bool :=
  isdigit c || ((97 <=? c) && (c <=? 102)) || ((65 <=? c) && (c <=? 70)).
(* strchr(set, c) != NULL : also true for c = 0 (the terminator of the set is found) *)
Definition strchr_set (set : list Z) (c : Z) : bool := (c =? 0) || existsb (Z.eqb c) set.

(* ------------------------------------------------------------------ state *)
Record state := mkst {
  pos : Z; len : Z; out : option (list Z);
  typ : Z; level : Z; templates : Z;
  type_info : bool; first_name : bool; ignore_disc : bool; expected : bool }.

Definition set_pos (st : state) (p : Z) : state :=
  mkst p (len st) (out st) (typ st) (level st) (templates st) (type_info st) (first_name st) (ignore_disc st) (expected st).
Definition set_len (st : state) (l : Z) : state :=
  mkst (pos st) l (out st) (typ st) (level st) (templates st) (type_info st) (first_name st) (ignore_disc st) (expected st).
Definition set_out (st : state) (o : option (list Z)) : state :=
  mkst (pos st) (len st) o (typ st) (level st) (templates st) (type_info st) (first_name st) (ignore_disc st) (expected st).
Definition set_typ (st : state) (t : Z) : state :=
  mkst (pos st) (len st) (out st) t (level st) (templates st) (type_info st) (first_name st) (ignore_disc st) (expected st).
Definition set_level (st : state) (l : Z) : state :=
  mkst (pos st) (len st) (out st) (typ st) l (templates st) (type_info st) (first_name st) (ignore_disc st) (expected st).
Definition set_templates (st : state) (t : Z) : state :=
  mkst (pos st) (len st) (out st) (typ st) (level st) t (type_info st) (first_name st) (ignore_disc st) (expected st).
Definition set_type_info (st : state) (b : bool) : state :=
  mkst (pos st) (len st) (out st) (typ st) (level st) (templates st) b (first_name st) (ignore_disc st) (expected st).
Definition set_first_name (st : state) (b : bool) : state :=
  mkst (pos st) (len st) (out st) (typ st) (level st) (templates st) (type_info st) b (ignore_disc st) (expected st).
Definition set_ignore_disc (st : state) (b : bool) : state :=
  mkst (pos st) (len st) (out st) (typ st) (level st) (templates st) (type_info st) (first_name st) b (expected st).
Definition set_expected (st : state) : state :=
  mkst (pos st) (len st) (out st) (typ st) (level st) (templates st) (type_info st) (first_name st) (ignore_disc st) true.

(* ------------------------------------------------------------------ outcomes *)
Inductive fault :=
| F_null_out        (* dd->new used while still NULL (strrchr / strncpy on NULL) *)
| F_int_overflow    (* signed int overflow (dd->pos + num, n + 1) *)
| F_over_read       (* read behind the terminating NUL of the symbol string *)
| F_under_read      (* read before the first byte of the symbol string *)
| F_neg_size        (* strncpy with a negative size / write before the output buffer *)
| F_index_oob.      (* T_type_name[6] *)

Inductive res :=
| R (v : Z) (st : state)
| Fault (k : fault)
| OOF.

Definition M := state -> res.
Definition ret (v : Z) : M := fun st => R v st.
Definition bind (m : M) (k : Z -> M) : M :=
  fun st => match m st with R v st' => k v st' | Fault f => Fault f | OOF => OOF end.
Definition fail (k : fault) : M := fun _ => Fault k.
Notation "x <- m ;; k" := (bind m (fun x => k)) (at level 61, m at next level, right associativity).
Notation "m ;;; k" := (bind m (fun _ => k)) (at level 61, right associativity).
Definition gets (f : state -> Z) : M := fun st => R (f st) st.
Definition getb (f : state -> bool) : M := fun st => R (if f st then 1 else 0) st.
Definition modify (f : state -> state) : M := fun st => R 0 (f st).

(* ------------------------------------------------------------------ names of the recursive functions *)
Inductive fn :=
| FEncoding | FName | FLocalName | FNestedName | FUnqualifiedName | FOperatorName | FCtorDtor
| FType | FDecltype | FExpression | FExprPrimary | FExprList | FInitializer
| FTemplateArg | FTemplateArgs | FSimpleId | FUnresolvedType | FDestructorName
| FBaseUnresolvedName | FUnresolvedName | FFunctionType | FArrayType | FPtrToMember
| FVectorType | FSpecialName
| LUntilE (x : fn)        (* while (dd_curr(dd) != 'E') { if (x(dd) < 0) return -1; }   value 0 / -1 *)
| LExprList (c : Z)       (* while (c != 'E' && c != '_') { if (dd_expression(dd) < 0) return -1; c = dd_curr(dd); } *)
| LUnresolved (c : Z)     (* while (c0 != 'E') { if (dd_simple_id(dd) < 0) return 0; c0 = dd_curr(dd); }  value 1 = fell out *)
| LFuncArgs (c : Z)       (* argument loop of dd_function_type; value = c after the loop *)
| LType (r : Z)           (* while (!done && !dd_eof(dd)) of dd_type; value = ret *)
| LNested (r : Z)         (* while (dd_curr(dd) != 'E' && !dd_eof(dd) && !ret) of dd_nested_name; value = ret *)
| LEncTypes.              (* while (!dd_eof(dd) && !strchr("E.@", dd_curr(dd))) { if (dd_type(dd) < 0) break; } *)

(* ------------------------------------------------------------------ tables *)
Definition ops : list (Z * Z * list Z) :=
  [ (ch "n", ch "w", str " new"); (ch "n", ch "a", str " new[]"); (ch "d", ch "l", str " delete");
    (ch "d", ch "a", str " delete[]"); (ch "p", ch "s", str "+"); (ch "n", ch "g", str "-");
    (ch "a", ch "d", str "&"); (ch "d", ch "e", str "*"); (ch "c", ch "o", str "~");
    (ch "p", ch "l", str "+"); (ch "m", ch "i", str "-"); (ch "m", ch "l", str "*");
    (ch "d", ch "v", str "/"); (ch "r", ch "m", str "%"); (ch "a", ch "n", str "&");
    (ch "o", ch "r", str "|"); (ch "e", ch "o", str "^"); (ch "a", ch "S", str "=");
    (ch "p", ch "L", str "+="); (ch "m", ch "I", str "-="); (ch "m", ch "L", str "*=");
    (ch "d", ch "V", str "/="); (ch "r", ch "M", str "%="); (ch "a", ch "N", str "&=");
    (ch "o", ch "R", str "|="); (ch "e", ch "O", str "^="); (ch "l", ch "s", str "<<");
    (ch "r", ch "s", str ">>"); (ch "l", ch "S", str "<<="); (ch "r", ch "S", str ">>=");
    (ch "e", ch "q", str "=="); (ch "n", ch "e", str "!="); (ch "l", ch "t", str "<");
    (ch "g", ch "t", str ">"); (ch "l", ch "e", str "<="); (ch "g", ch "e", str ">=");
    (ch "n", ch "t", str "!"); (ch "a", ch "a", str "&&"); (ch "o", ch "o", str "||");
    (ch "p", ch "p", str "++"); (ch "m", ch "m", str "--"); (ch "c", ch "m", str ",");
    (ch "p", ch "m", str "->*"); (ch "p", ch "t", str "->"); (ch "c", ch "l", str "()");
    (ch "i", ch "x", str "[]"); (ch "q", ch "u", str "?"); (ch "c", ch "v", str "(cast)");
    (ch "l", ch "i", [34; 34]) ].

Fixpoint find_op (l : list (Z * Z * list Z)) (c0 c1 : Z) : option (list Z) :=
  match l with
  | [] => None
  | (a, b, nm) :: r => if (c0 =? a) && (c1 =? b) then Some nm else find_op r c0 c1
  end.

Definition builtin_types : list Z := str "vwbcahstijlmxynofdegz".

Definition std_abbrevs : list (Z * list Z) :=
  [ (ch "t", str "std"); (ch "a", str "std::allocator"); (ch "b", str "std::basic_string");
    (ch "s", str "std::basic_string<>"); (ch "i", str "std::basic_istream");
    (ch "o", str "std::basic_ostream"); (ch "d", str "std::basic_iostream") ].
Fixpoint find_abbrev (l : list (Z * list Z)) (c : Z) : option (list Z) :=
  match l with [] => None | (a, nm) :: r => if c =? a then Some nm else find_abbrev r c end.

Definition rust_mappings : list (list Z * list Z) :=
  [ (str "SP", str "@"); (str "BP", str "*"); (str "RF", str "&"); (str "LT", str "<");
    (str "GT", str ">"); (str "LP", str "("); (str "RP", str ")"); (str "C", str ",");
    (str "u20", str " "); (str "u22", [34]); (str "u27", str "'"); (str "u2b", str "+");
    (str "u3b", str ";"); (str "u3d", str "="); (str "u5b", str "["); (str "u5d", str "]");
    (str "u7b", str "{"); (str "u7d", str "}"); (str "u7e", str "~") ].

Definition T_type : list Z := str "VTISFJ".
Definition T_type_name : list (list Z) :=
  [ str "vtable"; str "VTT"; str "typeinfo_name"; str "typeinfo"; str "typeinfo_fn"; str "java_class" ].

Definition unary_ops : list (list Z) :=
  [ str "ps"; str "ng"; str "ad"; str "de"; str "pp_"; str "mm_"; str "pp"; str "mm"; str "dl";
    str "da"; str "te"; str "sz"; str "az"; str "nx"; str "sp"; str "tw"; str "nt" ].

(* ------------------------------------------------------------------ list helpers *)
Fixpoint prefix_of (p l : list Z) : bool :=
  match p, l with
  | [], _ => true
  | a :: p', b :: l' => (a =? b) && prefix_of p' l'
  | _ :: _, [] => false
  end.
Fixpoint index_of (c : Z) (l : list Z) : option Z :=
  match l with
  | [] => None
  | a :: r => if a =? c then Some 0 else match index_of c r with Some k => Some (k + 1) | None => None end
  end.
Fixpoint index_of2 (c d : Z) (l : list Z) : option Z :=       (* strstr(l, "cd") *)
  match l with
  | a :: ((b :: _) as r) =>
      if (a =? c) && (b =? d) then Some 0 else match index_of2 c d r with Some k => Some (k + 1) | None => None end
  | _ => None
  end.
Fixpoint span_len (p : Z -> bool) (l : list Z) : Z :=
  match l with a :: r => if p a then 1 + span_len p r else 0 | [] => 0 end.
Fixpoint rindex_of (c : Z) (l : list Z) (i : Z) (acc : option Z) : option Z :=
  match l with [] => acc | a :: r => rindex_of c r (i + 1) (if a =? c then Some i else acc) end.

Definition wrap32 (v : Z) : Z :=
  let m := v mod 4294967296 in if m >=? 2147483648 then m - 4294967296 else m.
Definition INT_MAX : Z := 2147483647.
Definition ULONG_MAX : Z := 18446744073709551615.

(* strtoul(str, &end, 0) on a string that starts with a digit: value (saturated) and length *)
Definition digit_val (c : Z) : Z :=
  if isdigit c then c - 48
  else if (97 <=? c) && (c <=? 102) then c - 87
  else if (65 <=? c) && (c <=? 70) then c - 55 else 99.
Fixpoint scan_digits (b : Z) (l : list Z) (acc cnt : Z) : Z * Z :=
  match l with
  | c :: r => let d := digit_val c in if d <? b then scan_digits b r (acc * b + d) (cnt + 1) else (acc, cnt)
  | [] => (acc, cnt)
  end.
Definition sat (v : Z) : Z := if v >? ULONG_MAX then ULONG_MAX else v.
Definition scan_sat (b : Z) (l : list Z) : Z * Z := let '(v, c) := scan_digits b l 0 0 in (sat v, c).
Definition strtoul0 (l : list Z) : Z * Z :=
  match l with
  | c0 :: t =>
      if c0 =? 48 then
        match t with
        | x :: h :: r =>
            if ((x =? 120) || (x =? 88)) && isxdigit h
            then let '(v, c) := scan_sat 16 (h :: r) in (v, c + 2)
            else scan_sat 8 l
        | _ => scan_sat 8 l
        end
      else scan_sat 10 l
  | [] => scan_sat 10 l
  end.

(* decimal text of a non-negative number (snprintf "%d" for n+1 >= 0) *)
Fixpoint dec_digits (fuel : nat) (v : Z) (acc : list Z) : list Z :=
  match fuel with
  | O => acc
  | S k => let acc' := (48 + v mod 10) :: acc in if v / 10 =? 0 then acc' else dec_digits k (v / 10) acc'
  end.
Definition dec_text (v : Z) : list Z :=
  if v <? 0 then ch "-" :: dec_digits 12 (- v) [] else dec_digits 12 v [].

(* ================================================================== the parser, relative to one input *)
Section Parser.
(* fixed = true : utils/demangle.c as it is now (with the seven guards added by the `fix: demangle:`
   commits); fixed = false : the code as found (legacy), kept for the *_legacy_refuted witnesses *)
Variable fixed : bool.
Variable full : list Z.     (* the whole symbol string (no NUL inside) *)
Variable base : Z.          (* dd->old = str + base  (0, or 15 after "_GLOBAL__sub_I_") *)

Definition flen : Z := Z.of_nat (List.length full).
Definition slen : Z := flen - base.                 (* strlen(dd->old) *)

(* dd->old[i] *)
Definition rd (i : Z) : M := fun st =>
  let j := base + i in
  if j <? 0 then Fault F_under_read
  else if j <? flen then R (nth (Z.to_nat j) full 0) st
  else if j =? flen then R 0 st
  else Fault F_over_read.
(* the C string starting at dd->old + i (valid for 0 <= base+i <= flen) *)
Definition suffix (i : Z) : list Z := skipn (Z.to_nat (base + i)) full.
Definition valid_ptr (i : Z) : M := fun st =>
  let j := base + i in
  if j <? 0 then Fault F_under_read else if j <=? flen then R 0 st else Fault F_over_read.

(* `strchr(set, c)` as found; `c && strchr(set, c)` after the fix *)
Definition strchr_g (set : list Z) (c : Z) : bool :=
  if fixed then negb (c =? 0) && strchr_set set c else strchr_set set c.

Definition eof : M := fun st => R (if pos st >=? len st then 1 else 0) st.
Definition peek (la : Z) : M := fun st =>
  if pos st + la >? len st then R 0 st else rd (pos st + la) st.
Definition curr : M := peek 0.
Definition consume_n (k : Z) : M := fun st =>
  match curr st with
  | R c _ => if pos st + k >? len st then R 0 st else R c (set_pos st (pos st + k))
  | r => r
  end.
Definition consume : M := consume_n 1.

(* DD_DEBUG(dd, exp, inc) *)
Definition dbg (inc : Z) : M := fun st => R (-1) (set_expected (set_pos st (pos st + inc))).
(* DD_DEBUG_CONSUME / __DD_DEBUG_CONSUME: continue with k when the consumed char is c *)
Definition expect (c : Z) (k : M) : M :=
  v <- consume ;;
  if v =? c then k
  else fun st => R (-1) (if expected st then st else set_expected (set_pos st (pos st - 1))).

Definition inc_typ : M := modify (fun st => set_typ st (typ st + 1)).
Definition dec_typ : M := modify (fun st => set_typ st (typ st - 1)).
Definition inc_level : M := modify (fun st => set_level st (level st + 1)).
Definition dec_level : M := modify (fun st => set_level st (level st - 1)).
Definition inc_templates : M := modify (fun st => set_templates st (templates st + 1)).
Definition dec_templates : M := modify (fun st => set_templates st (templates st - 1)).

(* ---- output buffer *)
(* dd_append_len(dd, dd->old + src, size) *)
Definition append_len (src size : Z) : M := fun st =>
  match valid_ptr src st with
  | R _ _ =>
    let avail := slen - src in               (* strlen of the source *)
    match out st with
    | None =>
        if size <? 0 then Fault F_null_out
        else if size >? avail then Fault F_over_read
        else R 0 (set_out st (Some (firstn (Z.to_nat size) (suffix src))))
    | Some o =>
        let newpos := Z.of_nat (List.length o) in
        if size + 1 <? 0 then Fault F_neg_size
        else if newpos + size <? 0 then Fault F_neg_size
        else if size >? avail then Fault F_over_read
        else if size <? 0 then R 0 (set_out st (Some (firstn (Z.to_nat (newpos + size)) o)))
        else R 0 (set_out st (Some (o ++ firstn (Z.to_nat size) (suffix src))))
    end
  | r => r
  end.
(* dd_append(dd, literal) *)
Definition append (s : list Z) : M := fun st =>
  R 0 (set_out st (Some (match out st with None => s | Some o => o ++ s end))).
Definition append_separator (s : list Z) : M := fun st =>
  match (if first_name st then R 0 st else append s st) with
  | R v st' => R v (set_first_name st' false)
  | r => r
  end.

(* ---- leaf functions (no recursion into the grammar) *)
Definition dd_number : M := fun st =>
  if pos st >=? len st then R (-1) st else
  match rd (pos st) st with
  | R c _ =>
      let st1 := if c =? ch "n" then set_pos st (pos st + 1) else st in
      match rd (pos st1) st1 with
      | R c1 _ =>
          if negb (isdigit c1) then R (-1) (set_expected st1)
          else let '(v, cnt) := strtoul0 (suffix (pos st1)) in
               R (wrap32 v) (set_pos st1 (pos st1 + cnt))
      | r => r
      end
  | r => r
  end.

Definition dd_seq_id : M :=
  c <- curr ;;
  e <- eof ;;
  if e =? 1 then ret (-1) else
  fun st => R 0 (set_pos st (pos st + span_len (fun c => isdigit c || isupper c) (suffix (pos st)))).

Definition dd_call_offset : M :=
  c <- curr ;;
  e <- eof ;;
  if e =? 1 then ret (-1) else
  if c =? ch "h" then
    consume ;;; n <- dd_number ;; if n <? 0 then ret (-1) else expect (ch "_") (ret 0)
  else if c =? ch "v" then
    consume ;;; n <- dd_number ;; if n <? 0 then ret (-1) else
    expect (ch "_") (n2 <- dd_number ;; if n2 <? 0 then ret (-1) else expect (ch "_") (ret 0))
  else ret (-1).

Definition dd_qualifier : M :=
  c <- curr ;;
  e <- eof ;;
  if e =? 1 then ret (-1) else
  if strchr_set (str "rVKRO") c then consume ;;; ret 0 else ret 0.

(* dd_source_name: the Rust `$..$` loop.  p/dollar/end are offsets from dd->old *)
Fixpoint find_mapping (l : list (list Z * list Z)) (s : list Z) : option (list Z * list Z) :=
  match l with
  | [] => None
  | (code, punc) :: r => if prefix_of code s then Some (code, punc) else find_mapping r s
  end.
Definition strchr_from (p c : Z) : option Z :=     (* offset of the first c at or after p *)
  match index_of c (suffix p) with Some k => Some (p + k) | None => None end.

(* while (true) { update = strstr(separator, ".."); if (!update || update > dollar) break; ... } *)
Fixpoint dots_loop (k : nat) (separator dollar : Z) : state -> res :=
  match k with
  | O => fun _ => OOF
  | S k' =>
      match index_of2 (ch ".") (ch ".") (suffix separator) with
      | Some d =>
          let update := separator + d in
          if update >? dollar then ret separator
          else append_len separator (update - separator) ;;;
               append_separator (str "::") ;;;
               dots_loop k' (update + 2) dollar
      | None => ret separator
      end
  end.

(* while (dollar != NULL && dollar < end) {...}; value = final p *)
Fixpoint dollar_loop (k : nat) (p dollar end_ : Z) : state -> res :=
  match k with
  | O => fun _ => OOF
  | S k' =>
      if negb (dollar <? end_) then ret p else
      let num := dollar - p in
      separator <- dots_loop (S (Z.to_nat slen)) p dollar ;;
      append_len separator (dollar - separator) ;;;
      match find_mapping rust_mappings (suffix (dollar + 1)) with
      | Some (code, punc) =>
          if fixed && (dollar + Z.of_nat (List.length code) + 2 >? end_) then ret p else
          let num' := if prefix_of (str "$u20$as$u20$") (suffix dollar)
                      then num + (end_ - dollar)
                      else num + Z.of_nat (List.length code) + 2 in
          append (if prefix_of (str "$u20$as$u20$") (suffix dollar) then str ">" else punc) ;;;
          consume_n num' ;;;
          let p' := p + num' in
          valid_ptr p' ;;;                       (* strchr(p, '$') reads *p *)
          match strchr_from p' (ch "$") with
          | Some dollar' => dollar_loop k' p' dollar' end_
          | None => ret p'
          end
      | None => ret p
      end
  end.

Definition hash17 (l : list Z) : bool :=       (* 'h' followed by 16 hex digits *)
  match l with
  | h :: r => (h =? ch "h") && forallb isxdigit (firstn 16 r) && (16 <=? Z.of_nat (List.length r))
  | [] => false
  end.

Definition dd_source_name : M :=
  num <- dd_number ;;
  if num <? 0 then ret (-1) else
  e <- eof ;;
  p0 <- gets pos ;;
  l0 <- gets len ;;
  if e =? 1 then dbg 0 else
  if negb fixed && (p0 + num >? INT_MAX) then fail F_int_overflow else
  if (if fixed then num >? l0 - p0 else p0 + num >? l0) then dbg 0 else
  ty <- gets typ ;;
  ti <- getb type_info ;;
  tp <- gets templates ;;
  if (negb (ty =? 0) && (ti =? 0)) || negb (tp =? 0) then consume_n num ;;; ret 0 else
  if (num =? 17) && hash17 (suffix p0) then consume_n num ;;; ret 0 else
  append_separator (str "::") ;;;
  match strchr_from p0 (ch "$") with
  | None => append_len p0 num ;;; consume_n num ;;; ret 0
  | Some dollar =>
      let end_ := p0 + num in
      if dollar >? end_ then append_len p0 num ;;; consume_n num ;;; ret 0 else
      p <- dollar_loop (S (Z.to_nat slen)) p0 dollar end_ ;;
      append_len p (end_ - p) ;;; consume_n (end_ - p) ;;; ret 0
  end.

Definition dd_abi_tag : M :=
  e <- eof ;;
  if e =? 1 then ret (-1) else
  expect (ch "B") (r <- dd_source_name ;; if r <? 0 then ret (-1) else ret 0).

Definition dd_substitution : M :=
  e <- eof ;;
  if e =? 1 then ret (-1) else
  expect (ch "S")
    (c <- curr ;;
     match find_abbrev std_abbrevs c with
     | Some nm =>
         consume ;;;
         ty <- gets typ ;; ti <- getb type_info ;;
         (if (ty =? 0) || (ti =? 1) then append_separator (str "::") ;;; append nm else ret 0) ;;;
         c2 <- curr ;;
         (if c2 =? ch "B" then dd_abi_tag else ret 0) ;;;
         ret 0
     | None => dd_seq_id ;;; expect (ch "_") (ret 0)
     end).

Definition dd_function_param : M :=
  c0 <- consume ;;
  c1 <- consume ;;
  e <- eof ;;
  if e =? 1 then ret (-1) else
  if negb (c0 =? ch "f") || (negb (c1 =? ch "p") && negb (c1 =? ch "L")) then dbg (-2) else
  let tail :=
    dd_qualifier ;;;
    c <- curr ;;
    (if isdigit c then dd_number else ret 0) ;;;
    expect (ch "_") (ret 0) in
  c <- curr ;;
  if isdigit c then
    dd_number ;;;
    (if c1 =? ch "L" then expect (ch "p") tail else tail)
  else tail.

Definition dd_template_param : M :=
  e <- eof ;;
  if e =? 1 then ret (-1) else
  expect (ch "T") (dd_number ;;; expect (ch "_") (ret 0)).

Definition dd_discriminator : M :=
  e <- eof ;;
  if e =? 1 then ret (-1) else
  expect (ch "_")
    (c <- curr ;;
     if isdigit c then n <- dd_number ;; ret (if n >? 0 then 0 else -1)
     else if c =? ch "_" then
       consume ;;; n <- dd_number ;; if n <? 0 then ret (-1) else expect (ch "_") (ret 0)
     else ret 0).

(* ---- the mutually recursive part: [rec f] is a call of function/loop f *)
Variable rec : fn -> M.

Definition until_E (x : fn) : M :=            (* body of LUntilE x *)
  c <- curr ;;
  if c =? ch "E" then ret 0 else
  r <- rec x ;; if r <? 0 then ret (-1) else rec (LUntilE x).

Definition dd_initializer : M :=
  c0 <- consume ;;
  c1 <- consume ;;
  e <- eof ;;
  if e =? 1 then ret (-1) else
  if negb (c0 =? ch "p") || negb (c1 =? ch "i") then dbg (-2) else
  inc_level ;;;
  r <- rec (LUntilE FExpression) ;;
  if r <? 0 then ret (-1) else
  expect (ch "E") (dec_level ;;; ret 0).

Definition dd_template_arg : M :=
  c <- curr ;;
  e <- eof ;;
  if e =? 1 then ret (-1) else
  if c =? ch "X" then
    consume ;;; inc_level ;;; rec FExpression ;;; expect (ch "E") (dec_level ;;; ret 0)
  else if c =? ch "L" then
    r <- rec FExprPrimary ;; if r <? 0 then ret (-1) else ret 0
  else if c =? ch "J" then
    consume ;;; inc_level ;;;
    r <- rec (LUntilE FTemplateArg) ;;
    if r <? 0 then ret (-1) else expect (ch "E") (dec_level ;;; ret 0)
  else
    r <- rec FType ;; if r <? 0 then ret (-1) else ret 0.

Definition dd_template_args : M :=
  e <- eof ;;
  if e =? 1 then ret (-1) else
  expect (ch "I")
    (inc_templates ;;; inc_level ;;;
     r <- rec (LUntilE FTemplateArg) ;;
     if r <? 0 then ret (-1) else
     expect (ch "E") (dec_level ;;; dec_templates ;;; ret 0)).

Definition dd_simple_id : M :=
  e <- eof ;;
  if e =? 1 then ret (-1) else
  c <- curr ;;
  if negb (isdigit c) then dbg (-1) else
  r <- dd_source_name ;;
  if r <? 0 then ret (-1) else
  c2 <- curr ;;
  if c2 =? ch "I" then rec FTemplateArgs else ret 0.

Definition dd_unresolved_type : M :=
  c <- curr ;;
  e <- eof ;;
  if e =? 1 then ret (-1) else
  if c =? ch "T" then dd_template_param
  else if c =? ch "D" then rec FDecltype
  else if c =? ch "S" then
    r <- dd_substitution ;;
    if r <? 0 then ret (-1) else
    c2 <- curr ;;
    if c2 =? ch "I" then rec FTemplateArgs
    else if isdigit c2 then rec FUnqualifiedName
    else ret 0
  else ret (-1).

Definition dd_destructor_name : M :=
  c <- curr ;;
  e <- eof ;;
  if e =? 1 then ret (-1) else
  if isdigit c then dd_source_name else rec FUnresolvedType.

Definition dd_base_unresolved_name : M :=
  c0 <- curr ;;
  c1 <- peek 1 ;;
  e <- eof ;;
  if e =? 1 then ret (-1) else
  if (c0 =? ch "o") && (c1 =? ch "n") then
    consume_n 2 ;;;
    r <- rec FOperatorName ;;
    if r <? 0 then ret (-1) else
    c <- curr ;; if c =? ch "I" then rec FTemplateArgs else ret 0
  else if (c0 =? ch "d") && (c1 =? ch "n") then
    consume_n 2 ;;; rec FDestructorName
  else rec FSimpleId.

Definition unresolved_loop (c0 : Z) : M :=     (* body of LUnresolved c0 *)
  if c0 =? ch "E" then ret 1 else
  r <- rec FSimpleId ;;
  if r <? 0 then ret 0 else
  c <- curr ;; rec (LUnresolved c).

Definition dd_unresolved_name : M :=
  c0 <- curr ;;
  c1 <- peek 1 ;;
  e <- eof ;;
  if e =? 1 then ret (-1) else
  let after_gs (c0 c1 : Z) : M :=
    if (c0 =? ch "s") && (c1 =? ch "r") then
      consume_n 2 ;;;
      c0 <- curr ;;
      if (c0 =? ch "T") || (c0 =? ch "D") || (c0 =? ch "S") then
        r <- rec FType ;;
        if r <? 0 then ret (-1) else
        r2 <- rec FBaseUnresolvedName ;;
        if r2 <? 0 then ret (-1) else
        c <- curr ;;
        (if c =? ch "I" then rec FTemplateArgs else ret 0) ;;;
        ret 0
      else
        let rest : M :=
          c0 <- curr ;;
          r <- rec (LUnresolved c0) ;;
          if r =? 0 then ret 0 else
          if r <? 0 then ret r else
          expect (ch "E") (rec FBaseUnresolvedName) in
        if c0 =? ch "N" then
          consume ;;; r <- rec FType ;; if r <? 0 then ret (-1) else rest
        else rest
    else rec FBaseUnresolvedName in
  if (c0 =? ch "g") && (c1 =? ch "s") then
    consume_n 2 ;;; c0' <- curr ;; c1' <- peek 1 ;; after_gs c0' c1'
  else after_gs c0 c1.

Definition dd_expr_primary : M :=
  e <- eof ;;
  if e =? 1 then ret (-1) else
  expect (ch "L")
    (inc_typ ;;; inc_level ;;;
     c0 <- curr ;; c1 <- peek 1 ;;
     if (c0 =? ch "_") && (c1 =? ch "Z") then
       consume_n 2 ;;;
       r <- rec FEncoding ;;
       if r <? 0 then ret (-1) else
       expect (ch "E") (dec_level ;;; dec_typ ;;; ret 0)
     else
       rec FType ;;;
       dd_number ;;;
       c <- curr ;;
       (if c =? ch "_" then consume ;;; dd_number else ret 0) ;;;
       expect (ch "E") (dec_level ;;; dec_typ ;;; ret 0)).

Definition expr_list_loop (c : Z) : M :=       (* body of LExprList c *)
  if (c =? ch "E") || (c =? ch "_") then ret 0 else
  r <- rec FExpression ;;
  if r <? 0 then ret (-1) else
  c' <- curr ;; rec (LExprList c').

Definition dd_expr_list : M :=
  c <- curr ;;
  e <- eof ;;
  if e =? 1 then ret (-1) else
  inc_level ;;;
  r <- rec (LExprList c) ;;
  if r <? 0 then ret (-1) else
  consume_n 1 ;;; dec_level ;;; ret 0.

Fixpoint find_unary (l : list (list Z)) (s : list Z) : option Z :=
  match l with
  | [] => None
  | u :: r => if prefix_of u s then Some (Z.of_nat (List.length u)) else find_unary r s
  end.

Definition dd_expression : M :=
  c0 <- peek 0 ;;
  c1 <- peek 1 ;;
  exp <- gets pos ;;
  e <- eof ;;
  if e =? 1 then ret (-1) else
  let main (c0 c1 : Z) : M :=
    if c0 =? ch "L" then rec FExprPrimary else
    match find_unary unary_ops (suffix exp) with
    | Some k => consume_n k ;;; rec FExpression
    | None =>
    if (c0 =? ch "q") && (c1 =? ch "u") then
      consume_n 2 ;;;
      r <- rec FExpression ;; if r <? 0 then ret (-1) else
      r2 <- rec FExpression ;; if r2 <? 0 then ret (-1) else
      rec FExpression
    else if (match find_op ops c0 c1 with Some _ => true | None => false end)
            && negb (c0 =? ch "c") && negb (c1 =? ch "v") then
      consume_n 2 ;;;
      r <- rec FExpression ;; if r <? 0 then ret (-1) else rec FExpression
    else if (c0 =? ch "c") && (c1 =? ch "l") then
      consume_n 2 ;;; rec FExprList
    else if (c0 =? ch "c") && (c1 =? ch "v") then
      consume_n 2 ;;;
      r <- rec FType ;; if r <? 0 then ret (-1) else
      c <- curr ;;
      if c =? ch "_" then consume ;;; rec FExprList else rec FExpression
    else if (c0 =? ch "t") && (c1 =? ch "l") then
      consume_n 2 ;;;
      r <- rec FType ;; if r <? 0 then ret (-1) else rec FExprList
    else if (c0 =? ch "i") && (c1 =? ch "l") then
      consume_n 2 ;;; rec FExprList
    else if (c0 =? ch "n") && ((c1 =? ch "w") || (c1 =? ch "a")) then
      r <- rec FExprList ;; if r <? 0 then ret (-1) else
      r2 <- rec FType ;; if r2 <? 0 then ret (-1) else
      c <- curr ;;
      if c =? ch "E" then consume ;;; ret 0 else rec FInitializer
    else if strchr_set (str "dscr") c0 && (c1 =? ch "c") then
      consume_n 2 ;;;
      r <- rec FType ;; if r <? 0 then ret (-1) else rec FExpression
    else if ((c0 =? ch "t") && (c1 =? ch "i")) || (((c0 =? ch "s") || (c0 =? ch "a")) && (c1 =? ch "t")) then
      consume_n 2 ;;; rec FType
    else if (c0 =? ch "T") && ((c1 =? ch "_") || isdigit c1) then dd_template_param
    else if (c0 =? ch "f") && ((c1 =? ch "p") || (c1 =? ch "L")) then dd_function_param
    else if ((c0 =? ch "d") || (c0 =? ch "p")) && (c1 =? ch "t") then
      consume_n 2 ;;;
      r <- rec FExpression ;; if r <? 0 then ret (-1) else rec FUnresolvedName
    else if (c0 =? ch "d") && (c1 =? ch "s") then
      consume_n 2 ;;;
      r <- rec FExpression ;; if r <? 0 then ret (-1) else rec FExpression
    else if (c0 =? ch "s") && (c1 =? ch "Z") then
      consume_n 2 ;;;
      c <- curr ;;
      if c =? ch "T" then dd_template_param
      else if c =? ch "f" then dd_function_param
      else ret (-1)
    else if (c0 =? ch "s") && (c1 =? ch "P") then
      consume_n 2 ;;; inc_level ;;;
      r <- rec (LUntilE FTemplateArg) ;;
      if r <? 0 then ret (-1) else expect (ch "E") (dec_level ;;; ret 0)
    else if (c0 =? ch "t") && (c1 =? ch "r") then
      consume_n 2 ;;; ret 0
    else rec FUnresolvedName
    end in
  if (c0 =? ch "g") && (c1 =? ch "s") then
    consume_n 2 ;;; c0' <- curr ;; c1' <- peek 1 ;; main c0' c1'
  else main c0 c1.

(* int old_pos = dd->pos; if (dd_type(dd) < 0) { dd->pos = old_pos; ... } *)
Definition restore_on_fail (m : M) : M := fun st =>
  match m st with
  | R r st' => if r <? 0 then R r (set_pos st' (pos st)) else R r st'
  | x => x
  end.

Definition func_args_loop (c : Z) : M :=       (* body of LFuncArgs c; value = c after the loop *)
  if c =? ch "E" then ret c else
  r <- restore_on_fail (rec FType) ;;
  if r <? 0 then ret c else
  c' <- curr ;; rec (LFuncArgs c').

Definition dd_function_type : M :=
  e <- eof ;;
  if e =? 1 then ret (-1) else
  expect (ch "F")
    (c <- curr ;;
     (if c =? ch "Y" then consume else ret 0) ;;;
     inc_typ ;;; inc_level ;;;
     c <- curr ;;
     c' <- rec (LFuncArgs c) ;;
     (if (c' =? ch "R") || (c' =? ch "O") then dd_qualifier else ret 0) ;;;
     expect (ch "E") (dec_level ;;; dec_typ ;;; ret 0)).

Definition dd_array_type : M :=
  e <- eof ;;
  if e =? 1 then ret (-1) else
  expect (ch "A")
    (c <- curr ;;
     (if isdigit c then dd_number
      else if negb (c =? ch "_") then rec FExpression else ret 0) ;;;
     expect (ch "_") (rec FType)).

Definition dd_ptr_to_member_type : M :=
  e <- eof ;;
  if e =? 1 then ret (-1) else
  expect (ch "M") (r <- rec FType ;; if r <? 0 then ret (-1) else rec FType).

Definition dd_decltype : M :=
  c0 <- consume ;;
  c1 <- consume ;;
  e <- eof ;;
  if e =? 1 then ret (-1) else
  if negb (c0 =? ch "D") || (negb (c1 =? ch "T") && negb (c1 =? ch "t")) then dbg (-2) else
  inc_typ ;;; inc_level ;;;
  rec FExpression ;;;
  expect (ch "E") (dec_level ;;; dec_typ ;;; ret 0).

Definition dd_vector_type : M :=
  c0 <- consume ;;
  c1 <- consume ;;
  e <- eof ;;
  if e =? 1 then ret (-1) else
  if negb (c0 =? ch "D") || negb (c1 =? ch "v") then dbg (-2) else
  inc_typ ;;;
  c <- curr ;;
  let tail := expect (ch "_") (dec_typ ;;; ret 0) in
  if c =? ch "_" then consume ;;; rec FExpression ;;; tail
  else n <- dd_number ;; if n <? 0 then ret (-1) else tail.

Definition type_loop (r : Z) : M :=            (* body of LType r: one iteration; value = ret *)
  e <- eof ;;
  if e =? 1 then ret r else
  c <- curr ;;
  if strchr_set (str "rVK") c then dd_qualifier ;;; rec (LType r)
  else if strchr_set (str "PROCG") c then consume ;;; rec (LType r)
  else if c =? ch "F" then rec FFunctionType
  else if c =? ch "T" then
    c1 <- peek 1 ;;
    if strchr_g (str "sue") c1 then consume_n 2 ;;; rec FName
    else if (c1 =? ch "_") || isdigit c1 then
      r1 <- dd_template_param ;;
      c2 <- curr ;;
      if c2 =? ch "I" then rec FTemplateArgs else ret r1
    else ret r
  else if c =? ch "A" then rec FArrayType
  else if c =? ch "M" then rec FPtrToMember
  else if c =? ch "D" then
    c1 <- peek 1 ;;
    if strchr_g (str "defhisacnu") c1 then consume_n 2 ;;; ret 0
    else if c1 =? ch "p" then consume_n 2 ;;; rec (LType r)
    else if c1 =? ch "v" then rec FVectorType ;;; rec (LType r)
    else if (c1 =? ch "t") || (c1 =? ch "T") then rec FDecltype
    else ret r
  else if c =? ch "S" then
    c1 <- peek 1 ;;
    r1 <- dd_substitution ;;
    c2 <- curr ;;
    r2 <- (if (r1 =? 0) && (c1 =? ch "t") && isdigit c2 then rec FUnqualifiedName else ret r1) ;;
    c3 <- curr ;;
    if c3 =? ch "I" then rec FTemplateArgs else ret r2
  else if c =? ch "u" then consume ;;; dd_source_name
  else if c =? ch "U" then
    consume ;;;
    r1 <- dd_source_name ;;
    if r1 <? 0 then ret r1 else
    c2 <- curr ;;
    r2 <- (if (r1 =? 0) && (c2 =? ch "I") then rec FTemplateArgs else ret r1) ;;
    if r2 <? 0 then ret r2 else rec (LType r2)
  else if c =? ch "I" then rec FTemplateArgs
  else if isdigit c || (c =? ch "N") || (c =? ch "Z") then rec FName
  else if existsb (Z.eqb c) builtin_types then consume ;;; ret 0
  else ret r.

Definition dd_type : M :=
  e <- eof ;;
  if e =? 1 then ret (-1) else
  inc_typ ;;; inc_level ;;;
  r <- rec (LType (-1)) ;;
  dec_level ;;; dec_typ ;;; ret r.

Definition nth_name (i : Z) : list Z := nth (Z.to_nat i) T_type_name [].

Definition dd_special_name : M :=
  c0 <- curr ;;
  c1 <- peek 1 ;;
  e <- eof ;;
  if e =? 1 then ret (-1) else
  let fallthrough : M := dbg 0 in
  if c0 =? ch "T" then
    if strchr_g T_type c1 then
      consume_n 2 ;;;
      modify (fun st => set_type_info st true) ;;;
      match index_of c1 T_type with
      | Some idx =>
          append (str "__") ;;; append (nth_name idx) ;;; append (str "__") ;;; rec FType
      | None => append (str "__") ;;; fail F_index_oob
      end
    else if (c1 =? ch "h") || (c1 =? ch "v") then
      consume ;;;
      r <- dd_call_offset ;; if r <? 0 then ret (-1) else rec FEncoding
    else if c1 =? ch "c" then
      consume_n 2 ;;;
      r <- dd_call_offset ;; if r <? 0 then ret (-1) else
      r2 <- dd_call_offset ;; if r2 <? 0 then ret (-1) else rec FEncoding
    else if c1 =? ch "C" then
      consume_n 2 ;;;
      append (str "__construction_vtable__") ;;;
      modify (fun st => set_type_info st true) ;;;
      r <- rec FType ;; if r <? 0 then ret (-1) else
      n <- dd_number ;; if n <? 0 then ret (-1) else
      e2 <- eof ;;
      if e2 =? 1 then ret 0 else
      expect (ch "_") (modify (fun st => set_type_info st false) ;;; rec FType)
    else if (c1 =? ch "H") || (c1 =? ch "W") then
      consume_n 2 ;;;
      append_separator (str "::") ;;;
      append (str "TLS_") ;;;
      append (if c1 =? ch "H" then str "init" else str "wrap") ;;;
      rec FName
    else fallthrough
  else if c0 =? ch "G" then
    if c1 =? ch "V" then
      consume_n 2 ;;; append (str "__guard_variable__") ;;; rec FName
    else if c1 =? ch "R" then
      consume_n 2 ;;; append (str "__ref_temp__") ;;;
      modify (fun st => set_ignore_disc st true) ;;;
      r <- rec FName ;; if r <? 0 then ret (-1) else
      c <- curr ;;
      (if negb (c =? ch "_") then dd_seq_id else ret 0) ;;;
      expect (ch "_") (ret 0)
    else if c1 =? ch "A" then
      consume_n 2 ;;; rec FEncoding
    else if c1 =? ch "T" then
      consume_n 2 ;;;
      c <- curr ;;
      if (c =? ch "t") || (c =? ch "n") then consume ;;; rec FEncoding else ret (-1)
    else fallthrough
  else fallthrough.

Definition dd_ctor_dtor_name : M :=
  c0 <- consume ;;
  c1 <- consume ;;
  e <- eof ;;
  if e =? 1 then ret (-1) else
  if negb (c0 =? ch "C") && negb (c0 =? ch "D") then dbg (-2) else
  let tail (c1 : Z) (needs_type : bool) : M :=
    if negb (isdigit c1) then dbg (if needs_type then -3 else -2) else
    r <- (if needs_type then rec FType else ret 0) ;;
    ty <- gets typ ;;
    if negb (ty =? 0) then ret r else
    fun st =>
      match out st with
      | None => if fixed then R (-1) st else Fault F_null_out
      | Some o =>
          let last := match rindex_of (ch ":") o 0 None with
                      | Some i => skipn (Z.to_nat (i + 1)) o
                      | None => o end in
          R r (set_out st (Some (o ++ (if c0 =? ch "C" then str "::" else str "::~") ++ last)))
      end in
  if c1 =? ch "I" then c1' <- consume ;; tail c1' true else tail c1 false.

Definition dd_operator_name : M :=
  c0 <- consume ;;
  c1 <- consume ;;
  e <- eof ;;
  if e =? 1 then ret (-1) else
  ty <- gets typ ;;
  let extra : M :=
    (if (c0 =? ch "c") && (c1 =? ch "v") then rec FType else ret 0) ;;;
    (if (c0 =? ch "l") && (c1 =? ch "i") then dd_source_name else ret 0) in
  if negb (ty =? 0) then extra ;;; ret 0 else
  match find_op ops c0 c1 with
  | Some nm =>
      append_separator (str "::") ;;; append (str "operator") ;;; append nm ;;;
      inc_typ ;;; extra ;;; dec_typ ;;; ret 0
  | None =>
      (if (c0 =? ch "v") && isdigit c1 then inc_typ ;;; dd_source_name ;;; dec_typ else ret 0) ;;;
      dbg (-2)
  end.

Definition dd_unqualified_name : M :=
  c0 <- curr ;;
  c1 <- peek 1 ;;
  e <- eof ;;
  if e =? 1 then ret (-1) else
  let finish (r : Z) : M :=
    c <- curr ;; if c =? ch "B" then dd_abi_tag else ret r in
  if (c0 =? ch "C") || (c0 =? ch "D") then r <- rec FCtorDtor ;; finish r
  else if c0 =? ch "U" then
    if c1 =? ch "t" then
      inc_typ ;;; consume_n 2 ;;; dd_number ;;;
      expect (ch "_") (dec_typ ;;; finish 0)
    else if c1 =? ch "l" then
      consume_n 2 ;;; inc_level ;;;
      rec (LUntilE FType) ;;;
      expect (ch "E")
        (dec_level ;;;
         c <- curr ;;
         let after (n : Z) : M :=
           expect (ch "_")
             (ty <- gets typ ;;
              if negb (ty =? 0) then ret 0 else
              if negb fixed && (n + 1 >? INT_MAX) then fail F_int_overflow else
              append_separator (str "::") ;;;
              append (str "$_" ++ dec_text (n + 1)) ;;;
              finish 0) in
         if negb (c =? ch "_") then n <- dd_number ;; if n <? 0 then ret (-1) else after n
         else after (-1))
    else finish (-1)
  else if islower c0 then r <- rec FOperatorName ;; finish r
  else
    (if c0 =? ch "L" then consume else ret 0) ;;;
    r <- dd_source_name ;; finish r.

Definition nested_loop (r : Z) : M :=          (* body of LNested r; value = ret *)
  c0 <- curr ;;
  e <- eof ;;
  if (c0 =? ch "E") || (e =? 1) || negb (r =? 0) then ret r else
  c1 <- peek 1 ;;
  if (c0 =? ch "D") && ((c1 =? ch "T") || (c1 =? ch "t")) then r' <- rec FDecltype ;; rec (LNested r')
  else if (c0 =? ch "C") || (c0 =? ch "D") then r' <- rec FCtorDtor ;; rec (LNested r')
  else if (c0 =? ch "U") || islower c0 || isdigit c0 then r' <- rec FUnqualifiedName ;; rec (LNested r')
  else if c0 =? ch "T" then r' <- dd_template_param ;; rec (LNested r')
  else if c0 =? ch "I" then r' <- rec FTemplateArgs ;; rec (LNested r')
  else if c0 =? ch "S" then r' <- dd_substitution ;; rec (LNested r')
  else if c0 =? ch "M" then consume ;;; rec (LNested r)
  else if c0 =? ch "L" then consume ;;; rec (LNested r)
  else if strchr_set (str "rVKRO") c0 then dd_qualifier ;;; rec (LNested r)
  else ret r.

Definition dd_nested_name : M :=
  e <- eof ;;
  if e =? 1 then ret (-1) else
  expect (ch "N")
    (inc_level ;;;
     r <- rec (LNested 0) ;;
     expect (ch "E") (dec_level ;;; ret r)).

Definition dd_local_name : M :=
  e <- eof ;;
  if e =? 1 then ret (-1) else
  expect (ch "Z")
    (inc_level ;;;
     rec FEncoding ;;;
     expect (ch "E")
       (dec_level ;;;
        c <- curr ;;
        if c =? ch "d" then
          consume ;;;
          c2 <- curr ;;
          let tail : M := expect (ch "_") (r <- rec FName ;; if r <? 0 then ret (-1) else ret 0) in
          if negb (c2 =? ch "_") then n <- dd_number ;; if n <? 0 then ret (-1) else tail
          else tail
        else
          (if c =? ch "s" then consume else rec FName) ;;;
          c3 <- curr ;;
          idc <- getb ignore_disc ;;
          (if (c3 =? ch "_") && (idc =? 0) then dd_discriminator else ret 0) ;;;
          ret 0)).

Definition dd_name : M :=
  c <- curr ;;
  e <- eof ;;
  if e =? 1 then ret (-1) else
  let unq : M :=
    r <- rec FUnqualifiedName ;;
    if r <? 0 then ret (-1) else
    c2 <- curr ;; if c2 =? ch "I" then rec FTemplateArgs else ret 0 in
  if c =? ch "N" then rec FNestedName
  else if c =? ch "Z" then rec FLocalName
  else if c =? ch "S" then
    r <- dd_substitution ;;
    if r <? 0 then ret (-1) else
    c2 <- curr ;; if c2 =? ch "I" then rec FTemplateArgs else unq
  else unq.

Definition enc_types_loop : M :=               (* body of LEncTypes *)
  e <- eof ;;
  c <- curr ;;
  if (e =? 1) || strchr_set (str "E.@") c then ret 0 else
  r <- rec FType ;;
  if r <? 0 then ret 0 else rec LEncTypes.

Definition dd_encoding : M :=
  e <- eof ;;
  if e =? 1 then ret (-1) else
  p <- gets pos ;;
  (if p =? 0 then consume_n 2 else ret 0) ;;;
  inc_level ;;;
  c <- curr ;;
  if (c =? ch "T") || (c =? ch "G") then
    r <- rec FSpecialName ;; dec_level ;;; ret r
  else
    r <- rec FName ;;
    if r <? 0 then ret r else
    rec LEncTypes ;;;
    c1 <- curr ;;
    (if c1 =? ch "." then modify (fun st => set_len st (pos st)) else ret 0) ;;;
    c2 <- curr ;;
    (if c2 =? ch "@" then modify (fun st => set_len st (pos st)) else ret 0) ;;;
    dec_level ;;; ret 0.

Definition body (f : fn) : M :=
  match f with
  | FEncoding => dd_encoding | FName => dd_name | FLocalName => dd_local_name
  | FNestedName => dd_nested_name | FUnqualifiedName => dd_unqualified_name
  | FOperatorName => dd_operator_name | FCtorDtor => dd_ctor_dtor_name
  | FType => dd_type | FDecltype => dd_decltype | FExpression => dd_expression
  | FExprPrimary => dd_expr_primary | FExprList => dd_expr_list | FInitializer => dd_initializer
  | FTemplateArg => dd_template_arg | FTemplateArgs => dd_template_args | FSimpleId => dd_simple_id
  | FUnresolvedType => dd_unresolved_type | FDestructorName => dd_destructor_name
  | FBaseUnresolvedName => dd_base_unresolved_name | FUnresolvedName => dd_unresolved_name
  | FFunctionType => dd_function_type | FArrayType => dd_array_type | FPtrToMember => dd_ptr_to_member_type
  | FVectorType => dd_vector_type | FSpecialName => dd_special_name
  | LUntilE x => until_E x | LExprList c => expr_list_loop c | LUnresolved c => unresolved_loop c
  | LFuncArgs c => func_args_loop c | LType r => type_loop r | LNested r => nested_loop r
  | LEncTypes => enc_types_loop
  end.
End Parser.

Fixpoint run (fixed : bool) (full : list Z) (base : Z) (fuel : nat) (f : fn) : M :=
  match fuel with
  | O => fun _ => OOF
  | S k => body fixed full base (run fixed full base k) f
  end.

(* ================================================================== demangle_simple *)
Inductive outcome :=
| Str (s : list Z)      (* a malloc-ed string *)
| Null                  (* demangle() returned NULL *)
| Crash (k : fault)
| Hang.

Definition prefix_str : list Z := str "_GLOBAL__sub_I_".
Definition st0 (l : Z) : state := mkst 0 l None 0 0 0 false true false false.

(* what demangle_simple looks at before parsing: "_Z" after the optional prefix *)
Definition stripped (s : list Z) : list Z := if prefix_of prefix_str s then skipn 15 s else s.
Definition mangled_form (s : list Z) : bool := prefix_of (str "_Z") (stripped s).

(* dd.new == NULL after a successful parse: now the input comes back; as found demangle_simple
   returned NULL (with the prefix it passed NULL to xasprintf("%s"): undefined, glibc prints "(null)") *)
Definition finish (fixed : bool) (s : list Z) (has_prefix : bool) (st : state) : outcome :=
  match out st with
  | Some o => Str (if has_prefix then prefix_str ++ o else o)
  | None => if fixed then Str s else Null
  end.

Definition of_res (s : list Z) (r : res) (k : Z -> state -> outcome) : outcome :=
  match r with R v st => k v st | Fault f => Crash f | OOF => Hang end.

Definition demangle_fuel (fixed : bool) (fuel : nat) (s : list Z) : outcome :=
  let has_prefix := prefix_of prefix_str s in
  let base := if has_prefix then 15 else 0 in
  if negb (mangled_form s) then Str s else
  let l := Z.of_nat (List.length s) - base in
  of_res s (run fixed s base fuel FEncoding (st0 l)) (fun v st =>
    if (v <? 0) || negb (level st =? 0) then Str s
    else if pos st >=? len st then finish fixed s has_prefix st
    else if negb (type_info st) then Str s
    else of_res s (run fixed s base fuel FName st) (fun v2 st2 =>
           if v2 <? 0 then Str s else finish fixed s has_prefix st2)).

Definition fuel_of (s : list Z) : nat := 8 * List.length s + 64.
Definition demangle (s : list Z) : outcome := demangle_fuel true (fuel_of s) s.
Definition demangle_legacy (s : list Z) : outcome := demangle_fuel false (fuel_of s) s.

(* ================================================================== executable checkers *)
Fixpoint list_eqb (a b : list Z) : bool :=
  match a, b with
  | [], [] => true
  | x :: a', y :: b' => (x =? y) && list_eqb a' b'
  | _, _ => false
  end.

(* implementation outcome as reported by the harness:
   IStr s | INull | ICrash (sanitizer report / signal / exit) | IHang (time cap)   *)
Inductive impl := IStr (s : list Z) | INull | ICrash | IHang.

(* the part of property C13 that holds for every byte string: a string comes back, and a name
   that is not of mangled form comes back unchanged *)
Definition ok_total (s : list Z) (i : impl) : bool :=
  match i with
  | IStr r => if mangled_form s then true else list_eqb r s
  | _ => false
  end.
(* corpus cases: the generator knows the simplified qualified name *)
Definition ok_expected (want : list Z) (i : impl) : bool :=
  match i with IStr r => list_eqb r want | _ => false end.

(* correspondence: the implementation must do exactly what the model (of the code as it is now) does *)
Definition agrees (s : list Z) (i : impl) : bool :=
  match demangle s, i with
  | Str a, IStr b => list_eqb a b
  | Null, INull => true
  | Crash _, ICrash => true
  | Hang, IHang => true
  | _, _ => false
  end.
(* what the model predicts (diagnostics): 0 = a proper string, k > 0 = fault / no return / NULL *)
Definition fault_code (k : fault) : nat :=
  match k with
  | F_null_out => 1 | F_int_overflow => 2 | F_over_read => 3 | F_under_read => 4
  | F_neg_size => 5 | F_index_oob => 6 end.
Definition model_class (s : list Z) : nat :=
  match demangle s with
  | Str _ => 0 | Crash k => fault_code k | Hang => 7 | Null => 8 end.

Fixpoint bad_indices {A} (f : A -> bool) (l : list A) (i : nat) : list nat :=
  match l with
  | [] => []
  | x :: r => if f x then bad_indices f r (S i) else i :: bad_indices f r (S i)
  end.
