(* C13 - fuel monotonicity: an answer of the model obtained with some fuel is the answer for
   every larger fuel (so OOF is the only way in which the fuel can influence the result) *)
From Coq Require Import ZArith List Bool Lia Ascii String.
Import ListNotations.
Require Import UV.C13.Model.
Local Open Scope Z_scope.

Definition le_res (a b : res) : Prop := a = OOF \/ a = b.
Definition mono2 (m1 m2 : M) : Prop := forall st, le_res (m1 st) (m2 st).

Lemma mono_refl : forall m, mono2 m m.
Proof. intros m st. right. reflexivity. Qed.
Lemma mono_bind : forall m1 m2 k1 k2,
  mono2 m1 m2 -> (forall v, mono2 (k1 v) (k2 v)) -> mono2 (bind m1 k1) (bind m2 k2).
Proof.
  intros m1 m2 k1 k2 Hm Hk st. unfold bind.
  destruct (Hm st) as [E | E]; rewrite E; [ left; reflexivity |].
  destruct (m2 st) as [v st' | |]; [ apply Hk | right; reflexivity | right; reflexivity ].
Qed.

Section Mono.
Variable fixed : bool.
Variable full : list Z.
Variable base : Z.

Lemma mono_expect : forall c k1 k2, mono2 k1 k2 -> mono2 (expect full base c k1) (expect full base c k2).
Proof.
  intros c k1 k2 H. unfold expect. apply mono_bind; [ apply mono_refl |].
  intros v. destruct (v =? c); [ exact H | apply mono_refl ].
Qed.
Lemma mono_restore : forall m1 m2, mono2 m1 m2 -> mono2 (restore_on_fail m1) (restore_on_fail m2).
Proof.
  intros m1 m2 H st. unfold restore_on_fail.
  destruct (H st) as [E | E]; rewrite E; [ left | right ]; reflexivity.
Qed.

Variables rec1 rec2 : fn -> M.
Hypothesis Hrec : forall f, mono2 (rec1 f) (rec2 f).

Ltac mono_step :=
  match goal with
  | |- mono2 ?m ?m => apply mono_refl
  | |- mono2 (rec1 _) (rec2 _) => apply Hrec
  | |- mono2 (bind _ _) (bind _ _) => apply mono_bind; [| intros ? ]
  | |- mono2 (expect _ _ _ _) (expect _ _ _ _) => apply mono_expect
  | |- mono2 (restore_on_fail _) (restore_on_fail _) => apply mono_restore
  | |- mono2 (if ?b then _ else _) (if ?b then _ else _) => destruct b
  | |- mono2 (match ?x with _ => _ end) (match ?x with _ => _ end) => destruct x
  end.
Ltac mono_auto := cbv zeta; repeat mono_step.

Lemma body_mono : forall f, mono2 (body fixed full base rec1 f) (body fixed full base rec2 f).
Proof.
  destruct f; simpl;
    [ unfold dd_encoding | unfold dd_name | unfold dd_local_name | unfold dd_nested_name
    | unfold dd_unqualified_name | unfold dd_operator_name | unfold dd_ctor_dtor_name
    | unfold dd_type | unfold dd_decltype | unfold dd_expression | unfold dd_expr_primary
    | unfold dd_expr_list | unfold dd_initializer | unfold dd_template_arg | unfold dd_template_args
    | unfold dd_simple_id | unfold dd_unresolved_type | unfold dd_destructor_name
    | unfold dd_base_unresolved_name | unfold dd_unresolved_name | unfold dd_function_type
    | unfold dd_array_type | unfold dd_ptr_to_member_type | unfold dd_vector_type | unfold dd_special_name
    | unfold until_E | unfold expr_list_loop | unfold unresolved_loop | unfold func_args_loop
    | unfold type_loop | unfold nested_loop | unfold enc_types_loop ];
    mono_auto.
Qed.
End Mono.

Lemma run_mono_S : forall fixed full base k f, mono2 (run fixed full base k f) (run fixed full base (S k) f).
Proof.
  induction k as [| k IH]; intros f.
  - intros st. left. reflexivity.
  - change (mono2 (body fixed full base (run fixed full base k) f) (body fixed full base (run fixed full base (S k)) f)).
    apply body_mono. exact IH.
Qed.
Lemma run_mono : forall fixed full base k k' f st, (k <= k')%nat ->
  le_res (run fixed full base k f st) (run fixed full base k' f st).
Proof.
  intros fixed full base k k' f st H. induction H as [| k' H IH].
  - right. reflexivity.
  - destruct IH as [E | E]; [ left; exact E |].
    destruct (run_mono_S fixed full base k' f st) as [E' | E'].
    + left. rewrite E. exact E'.
    + right. rewrite E. exact E'.
Qed.

(* the whole wrapper: unless the smaller fuel ran out, more fuel changes nothing *)
Lemma demangle_fuel_mono : forall fixed s k k', (k <= k')%nat ->
  demangle_fuel fixed k s <> Hang -> demangle_fuel fixed k' s = demangle_fuel fixed k s.
Proof.
  intros fixed s k k' Hk. unfold demangle_fuel.
  destruct (negb (mangled_form s)); [ reflexivity |].
  set (base := if prefix_of prefix_str s then 15 else 0).
  set (l := Z.of_nat (List.length s) - base).
  destruct (run_mono fixed s base k k' FEncoding (st0 l) Hk) as [E | E]; rewrite E.
  - cbn [of_res]. intros H. exfalso. apply H. reflexivity.
  - destruct (run fixed s base k' FEncoding (st0 l)) as [v st | f |]; cbn [of_res]; try reflexivity.
    destruct ((v <? 0) || negb (level st =? 0)); [ reflexivity |].
    destruct (pos st >=? len st); [ reflexivity |].
    destruct (negb (type_info st)); [ reflexivity |].
    destruct (run_mono fixed s base k k' FName st Hk) as [E2 | E2]; rewrite E2.
    + cbn [of_res]. intros H. exfalso. apply H. reflexivity.
    + reflexivity.
Qed.
